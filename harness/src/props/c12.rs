//! C12 — everything the real encoder emits for writer programs that supply exactly the declared
//! images is accepted by an independent strict PNG/APNG validator.
//!
//! One interpreter (`exec`) drives `png::Encoder` / `Writer` / `StreamWriter` from a textual program
//! (the same text is sent to the Lean model as `c12 run …`).  Oracle: `validate` (this file, written
//! from the rule list of `Model/Validator.lean`, own chunk parser, flate2 inflater).  Model ties:
//! `c12 validate` must agree with `validate` on every file (encoder outputs and mutants), `c12 run`
//! must reproduce results / bytes of the real run.
use crate::json::J;
use crate::model;
use crate::refpng::{self, adler32, crc32, RawChunk, LEGAL_PAIRS, SIG};
use crate::report::Ctx;
use crate::rng::{fnv64, Rng};
use crate::util::{guarded, hex, unhex};
use std::borrow::Cow;
use std::cell::RefCell;
use std::collections::{HashMap, HashSet};
use std::io::{self, Write};
use std::rc::Rc;

/// `Encoder::with_info` configurations with an inconsistent frame control (N3, repaired in f1da483:
/// expected outcome = refusal with ZeroWidth / ZeroHeight / OutOfBounds, sequence number reset to 0)
pub const GEN_WITH_INFO_BAD_FCTL: bool = true;
/// frame-rectangle setters applied before the first image (N5, repaired in 92ed98c: expected outcome =
/// the sub-frame first image is refused with OutOfBounds, by write_image_data and by stream_writer)
pub const GEN_SETTERS_BEFORE_FIRST: bool = true;
/// stream sessions that are opened and dropped without a complete image
pub const GEN_ABANDONED_SESSIONS: bool = true;

// ---------------------------------------------------------------------------------------------
// program text
// ---------------------------------------------------------------------------------------------

#[derive(Clone, Debug, PartialEq, Eq)]
pub struct Fc {
    pub seq: u32,
    pub w: u32,
    pub h: u32,
    pub x: u32,
    pub y: u32,
    pub dn: u16,
    pub dd: u16,
    pub dispose: u8,
    pub blend: u8,
}

/// kind: 0 tEXt, 1 zTXt, 2 iTXt, 3 iTXt with the compressed flag
#[derive(Clone, Debug, PartialEq, Eq)]
pub struct TextSpec {
    pub kind: u8,
    pub kw: String,
    pub text: String,
}

#[derive(Clone, Debug, PartialEq, Eq, Default)]
pub struct Cfg {
    pub w: u32,
    pub h: u32,
    pub color: u8,
    pub depth: u8,
    pub anim: Option<(u32, u32)>,
    /// explicit `Info::frame_control` (through `Encoder::with_info`)
    pub fc: Option<Fc>,
    pub pal: Option<Vec<u8>>,
    pub trns: Option<Vec<u8>>,
    pub phys: Option<Vec<u8>>, // 9 bytes
    pub srgb: Option<u8>,
    pub gama: Option<u32>,
    pub chrm: Option<Vec<u8>>, // 32 bytes
    pub icc: Option<Vec<u8>>,  // raw profile
    pub exif: Option<Vec<u8>>,
    pub texts: Vec<TextSpec>,
    pub sep: bool,
    pub val: bool,
    /// 0 NoCompression, 1 FdeflateUltraFast, 2 Level(1), 3 Level(6), 4 Level(9)
    pub comp: u8,
    /// 0..4 fixed filter, 5 adaptive
    pub filt: u8,
    /// refused `Encoder` calls made while the encoder is configured (see `enc_misuse`); they must leave no trace,
    /// so the model is given the configuration WITHOUT them: `z` set_animated(0, _) · `s` set_sep_def_img ·
    /// `d` set_frame_delay · `b` set_blend_op · `o` set_dispose_op (the four: while the encoder is not animated) ·
    /// `A` / `F` with_info with only an animation control / only a frame control (on a sink of their own)
    pub mis: String,
}

#[derive(Clone, Debug, PartialEq, Eq)]
pub enum SetOp {
    Delay(u16, u16),
    Dim(u32, u32),
    Pos(u32, u32),
    ResetDim,
    ResetPos,
    Blend(u8),
    Dispose(u8),
}

#[derive(Clone, Debug, PartialEq, Eq)]
pub enum SOp {
    Write(Vec<u8>),
    Flush,
    Set(SetOp),
}

#[derive(Clone, Copy, Debug, PartialEq, Eq)]
pub enum Fin {
    Finish,
    Drop,
}

#[derive(Clone, Debug, PartialEq, Eq)]
pub struct Session {
    pub size: usize,
    pub ops: Vec<SOp>,
    pub fin: Fin,
}

#[derive(Clone, Debug, PartialEq, Eq)]
pub enum Step {
    Image(Vec<u8>),
    Chunk([u8; 4], Vec<u8>),
    Text(TextSpec),
    Set(SetOp),
    Stream(Session),
}

#[derive(Clone, Debug, PartialEq, Eq)]
pub enum PFinal {
    Finish,
    Drop,
    Into(Session),
}

/// (N, once)
#[derive(Clone, Debug, Default, PartialEq, Eq)]
pub struct SinkSpec {
    pub byte: Option<(usize, bool)>,
    pub flush: Option<(usize, bool)>,
    /// call-index fault: no model counterpart
    pub call: Option<(usize, bool)>,
}

#[derive(Clone, Debug)]
pub struct Case {
    pub cfg: Cfg,
    pub sink: SinkSpec,
    pub steps: Vec<Step>,
    pub fin: PFinal,
    pub origin: String,
}

fn hexs(s: &str) -> String {
    hex(s.as_bytes())
}
fn unhexs(s: &str) -> Option<String> {
    String::from_utf8(unhex(s)?).ok()
}

impl TextSpec {
    pub fn to_str(&self) -> String {
        let k = ["t", "z", "i", "I"][self.kind.min(3) as usize];
        format!("{}:{}:{}", k, hexs(&self.kw), hexs(&self.text))
    }
    pub fn parse(s: &str) -> Option<TextSpec> {
        let p: Vec<&str> = s.split(':').collect();
        if p.len() != 3 {
            return None;
        }
        let kind = match p[0] {
            "t" => 0,
            "z" => 1,
            "i" => 2,
            "I" => 3,
            _ => return None,
        };
        Some(TextSpec { kind, kw: unhexs(p[1])?, text: unhexs(p[2])? })
    }
    /// what the crate's `EncodableTextChunk::encode` builds: `TYPE:<hex of the chunk data>` or `!`
    pub fn model_str(&self) -> String {
        use png::text_metadata::{EncodableTextChunk, ITXtChunk, TEXtChunk, ZTXtChunk};
        let me = self.clone();
        let r = guarded(move || -> Option<Vec<u8>> {
            let mut v: Vec<u8> = Vec::new();
            let ok = match me.kind {
                0 => TEXtChunk::new(me.kw.clone(), me.text.clone()).encode(&mut v).is_ok(),
                1 => ZTXtChunk::new(me.kw.clone(), me.text.clone()).encode(&mut v).is_ok(),
                2 => ITXtChunk::new(me.kw.clone(), me.text.clone()).encode(&mut v).is_ok(),
                _ => {
                    let mut c = ITXtChunk::new(me.kw.clone(), me.text.clone());
                    c.compressed = true;
                    c.encode(&mut v).is_ok()
                }
            };
            if ok { Some(v) } else { None }
        });
        match r {
            Ok(Some(v)) if v.len() >= 12 => {
                let ty: String = v[4..8].iter().map(|&b| b as char).collect();
                format!("{}:{}", ty, hex(&v[8..v.len() - 4]))
            }
            _ => "!".to_string(),
        }
    }
}

impl Fc {
    pub fn to_str(&self) -> String {
        format!("{}:{}:{}:{}:{}:{}:{}:{}:{}", self.seq, self.w, self.h, self.x, self.y, self.dn, self.dd, self.dispose, self.blend)
    }
    pub fn parse(s: &str) -> Option<Fc> {
        let p: Vec<u64> = s.split(':').map(|x| x.parse::<u64>().ok()).collect::<Option<Vec<_>>>()?;
        if p.len() != 9 {
            return None;
        }
        Some(Fc { seq: p[0] as u32, w: p[1] as u32, h: p[2] as u32, x: p[3] as u32, y: p[4] as u32, dn: p[5] as u16, dd: p[6] as u16, dispose: p[7] as u8, blend: p[8] as u8 })
    }
}

/// the iCCP chunk data `write_iccp_chunk` builds: "_", NUL, method 0, zlib (flate2 default level)
pub fn iccp_chunk_data(profile: &[u8]) -> Vec<u8> {
    let mut e = flate2::write::ZlibEncoder::new(vec![b'_', 0, 0], flate2::Compression::default());
    e.write_all(profile).unwrap();
    e.finish().unwrap()
}

impl Cfg {
    fn parts(&self, model: bool) -> Vec<String> {
        let mut p = vec![format!("w={}", self.w), format!("h={}", self.h), format!("c={}", self.color), format!("d={}", self.depth)];
        if let Some((f, pl)) = self.anim {
            p.push(format!("an={}:{}", f, pl));
        }
        if let Some(fc) = &self.fc {
            p.push(format!("fc={}", fc.to_str()));
        }
        if let Some(b) = &self.pal {
            p.push(format!("pal={}", hex(b)));
        }
        if let Some(b) = &self.trns {
            p.push(format!("trns={}", hex(b)));
        }
        if let Some(b) = &self.phys {
            p.push(format!("phys={}", hex(b)));
        }
        if let Some(n) = self.srgb {
            p.push(format!("srgb={}", n));
        }
        if let Some(n) = self.gama {
            p.push(format!("gama={}", n));
        }
        if let Some(b) = &self.chrm {
            p.push(format!("chrm={}", hex(b)));
        }
        if let Some(b) = &self.icc {
            if model {
                p.push(format!("iccp={}", hex(&iccp_chunk_data(b))));
            } else {
                p.push(format!("icc={}", hex(b)));
            }
        }
        if let Some(b) = &self.exif {
            p.push(format!("exif={}", hex(b)));
        }
        let mut ts: Vec<&TextSpec> = self.texts.iter().collect();
        // encode_header writes all tEXt, then all zTXt, then all iTXt
        ts.sort_by_key(|t| t.kind.min(2));
        for t in ts {
            if model {
                p.push(format!("t={}", t.model_str()));
            } else {
                p.push(format!("tx={}", t.to_str()));
            }
        }
        if self.sep {
            p.push("sep=1".into());
        }
        if self.val {
            p.push("val=1".into());
        }
        if !model {
            p.push(format!("comp={}", self.comp));
            p.push(format!("filt={}", self.filt));
            if !self.mis.is_empty() {
                p.push(format!("mis={}", self.mis));
            }
        }
        p
    }
    pub fn to_str(&self) -> String {
        self.parts(false).join(",")
    }
    pub fn model_str(&self) -> String {
        self.parts(true).join(",")
    }
    pub fn parse(s: &str) -> Option<Cfg> {
        let mut c = Cfg { depth: 8, comp: 2, filt: 5, ..Default::default() };
        for kv in s.split(',') {
            let (k, v) = kv.split_once('=')?;
            match k {
                "w" => c.w = v.parse().ok()?,
                "h" => c.h = v.parse().ok()?,
                "c" => c.color = v.parse().ok()?,
                "d" => c.depth = v.parse().ok()?,
                "an" => {
                    let (a, b) = v.split_once(':')?;
                    c.anim = Some((a.parse().ok()?, b.parse().ok()?));
                }
                "fc" => c.fc = Some(Fc::parse(v)?),
                "pal" => c.pal = Some(unhex(v)?),
                "trns" => c.trns = Some(unhex(v)?),
                "phys" => c.phys = Some(unhex(v)?),
                "srgb" => c.srgb = Some(v.parse().ok()?),
                "gama" => c.gama = Some(v.parse().ok()?),
                "chrm" => c.chrm = Some(unhex(v)?),
                "icc" => c.icc = Some(unhex(v)?),
                "exif" => c.exif = Some(unhex(v)?),
                "tx" => c.texts.push(TextSpec::parse(v)?),
                "sep" => c.sep = v == "1",
                "val" => c.val = v == "1",
                "comp" => c.comp = v.parse().ok()?,
                "filt" => c.filt = v.parse().ok()?,
                "mis" if v.chars().all(|ch| "zsdboAF".contains(ch)) => c.mis = v.to_string(),
                _ => return None,
            }
        }
        Some(c)
    }
    pub fn declared(&self) -> u64 {
        match self.anim {
            None => 1,
            Some((f, _)) => f as u64 + self.sep as u64,
        }
    }
}

impl SetOp {
    pub fn to_str(&self) -> String {
        match self {
            SetOp::Delay(a, b) => format!("sd{}:{}", a, b),
            SetOp::Dim(a, b) => format!("sz{}:{}", a, b),
            SetOp::Pos(a, b) => format!("sp{}:{}", a, b),
            SetOp::ResetDim => "rz".into(),
            SetOp::ResetPos => "rp".into(),
            SetOp::Blend(b) => format!("sb{}", b),
            SetOp::Dispose(d) => format!("so{}", d),
        }
    }
    pub fn parse(s: &str) -> Option<SetOp> {
        let two = |t: &str| -> Option<(u64, u64)> {
            let (a, b) = t.split_once(':')?;
            Some((a.parse().ok()?, b.parse().ok()?))
        };
        if s == "rz" {
            return Some(SetOp::ResetDim);
        }
        if s == "rp" {
            return Some(SetOp::ResetPos);
        }
        if s.len() < 3 {
            return None;
        }
        let (k, r) = s.split_at(2);
        match k {
            "sd" => two(r).map(|(a, b)| SetOp::Delay(a as u16, b as u16)),
            "sz" => two(r).map(|(a, b)| SetOp::Dim(a as u32, b as u32)),
            "sp" => two(r).map(|(a, b)| SetOp::Pos(a as u32, b as u32)),
            "sb" => r.parse::<u8>().ok().map(SetOp::Blend),
            "so" => r.parse::<u8>().ok().map(SetOp::Dispose),
            _ => None,
        }
    }
    pub fn is_rect(&self) -> bool {
        matches!(self, SetOp::Dim(..) | SetOp::Pos(..) | SetOp::ResetDim | SetOp::ResetPos)
    }
}

impl SOp {
    pub fn to_str(&self) -> String {
        match self {
            SOp::Write(d) => format!("w{}", hex(d)),
            SOp::Flush => "f".into(),
            SOp::Set(o) => o.to_str(),
        }
    }
    pub fn parse(s: &str) -> Option<SOp> {
        if s == "f" {
            Some(SOp::Flush)
        } else if let Some(r) = s.strip_prefix('w') {
            unhex(r).map(SOp::Write)
        } else {
            SetOp::parse(s).map(SOp::Set)
        }
    }
}

impl Fin {
    pub fn to_str(&self) -> &'static str {
        if *self == Fin::Finish { "F" } else { "D" }
    }
}

impl Session {
    pub fn to_str(&self) -> String {
        format!("{}[{}]{}", self.size, self.ops.iter().map(|o| o.to_str()).collect::<Vec<_>>().join(","), self.fin.to_str())
    }
    pub fn parse(s: &str) -> Option<Session> {
        let (size, rest) = s.split_once('[')?;
        let (ops, fin) = rest.split_once(']')?;
        let fin = match fin {
            "F" => Fin::Finish,
            "D" => Fin::Drop,
            _ => return None,
        };
        let ops = if ops.is_empty() { vec![] } else { ops.split(',').map(SOp::parse).collect::<Option<Vec<_>>>()? };
        Some(Session { size: size.parse().ok()?, ops, fin })
    }
    pub fn written(&self) -> usize {
        self.ops.iter().map(|o| if let SOp::Write(d) = o { d.len() } else { 0 }).sum()
    }
}

impl Step {
    pub fn to_str(&self, model: bool) -> String {
        match self {
            Step::Image(d) => format!("I{}", hex(d)),
            Step::Chunk(t, d) => format!("C{}:{}", t.iter().map(|&b| b as char).collect::<String>(), hex(d)),
            Step::Text(t) => {
                if model {
                    format!("T{}", t.model_str())
                } else {
                    format!("T{}", t.to_str())
                }
            }
            Step::Set(o) => o.to_str(),
            Step::Stream(s) => format!("S{}", s.to_str()),
        }
    }
    pub fn parse(s: &str) -> Option<Step> {
        if let Some(r) = s.strip_prefix('I') {
            unhex(r).map(Step::Image)
        } else if let Some(r) = s.strip_prefix('C') {
            let (t, d) = r.split_once(':')?;
            let tb = t.as_bytes();
            if tb.len() != 4 {
                return None;
            }
            Some(Step::Chunk([tb[0], tb[1], tb[2], tb[3]], unhex(d)?))
        } else if let Some(r) = s.strip_prefix('T') {
            TextSpec::parse(r).map(Step::Text)
        } else if let Some(r) = s.strip_prefix('S') {
            Session::parse(r).map(Step::Stream)
        } else {
            SetOp::parse(s).map(Step::Set)
        }
    }
    pub fn kind(&self) -> &'static str {
        match self {
            Step::Image(_) => "image",
            Step::Chunk(..) => "chunk",
            Step::Text(_) => "text",
            Step::Set(o) => if o.is_rect() { "set-rect" } else { "set-other" },
            Step::Stream(_) => "stream",
        }
    }
}

pub fn steps_str(steps: &[Step], model: bool) -> String {
    if steps.is_empty() {
        "-".into()
    } else {
        steps.iter().map(|s| s.to_str(model)).collect::<Vec<_>>().join(";")
    }
}
pub fn parse_steps(s: &str) -> Option<Vec<Step>> {
    if s == "-" {
        Some(vec![])
    } else {
        s.split(';').map(Step::parse).collect()
    }
}

impl PFinal {
    pub fn to_str(&self) -> String {
        match self {
            PFinal::Finish => "F".into(),
            PFinal::Drop => "D".into(),
            PFinal::Into(s) => format!("X{}", s.to_str()),
        }
    }
    pub fn parse(s: &str) -> Option<PFinal> {
        match s {
            "F" => Some(PFinal::Finish),
            "D" => Some(PFinal::Drop),
            _ => Session::parse(s.strip_prefix('X')?).map(PFinal::Into),
        }
    }
}

impl SinkSpec {
    pub fn to_str(&self) -> String {
        let mut p = vec![];
        let f = |c: char, x: &Option<(usize, bool)>, p: &mut Vec<String>| {
            if let Some((n, once)) = x {
                p.push(format!("{}{}{}", c, n, if *once { "o" } else { "" }));
            }
        };
        f('w', &self.byte, &mut p);
        f('f', &self.flush, &mut p);
        f('c', &self.call, &mut p);
        if p.is_empty() { "-".into() } else { p.join("+") }
    }
    pub fn parse(s: &str) -> Option<SinkSpec> {
        let mut r = SinkSpec::default();
        if s == "-" {
            return Some(r);
        }
        for t in s.split('+') {
            let once = t.ends_with('o');
            let body = if once { &t[..t.len() - 1] } else { t };
            if body.is_empty() {
                return None;
            }
            let n: usize = body[1..].parse().ok()?;
            match &body[..1] {
                "w" => r.byte = Some((n, once)),
                "f" => r.flush = Some((n, once)),
                "c" => r.call = Some((n, once)),
                _ => return None,
            }
        }
        Some(r)
    }
    pub fn never_fails(&self) -> bool {
        self.byte.is_none() && self.flush.is_none() && self.call.is_none()
    }
}

impl Case {
    pub fn canonical(&self) -> String {
        format!("{} {} {} {}", self.cfg.to_str(), self.sink.to_str(), steps_str(&self.steps, false), self.fin.to_str())
    }
    pub fn key(&self) -> u64 {
        fnv64(self.canonical().as_bytes())
    }
    pub fn has_stream(&self) -> bool {
        matches!(self.fin, PFinal::Into(_)) || self.steps.iter().any(|s| matches!(s, Step::Stream(_)))
    }
    /// every session: no flush, a chunk buffer of at least 64 bytes, at most 24 bytes written in all
    pub fn stream_timing_free(&self) -> bool {
        let ok = |s: &Session| s.size >= 64 && s.written() <= 24 && !s.ops.iter().any(|o| matches!(o, SOp::Flush));
        self.steps.iter().all(|st| match st {
            Step::Stream(s) => ok(s),
            _ => true,
        }) && match &self.fin {
            PFinal::Into(s) => ok(s),
            _ => true,
        }
    }
    pub fn has_image_op(&self) -> bool {
        self.has_stream() || self.steps.iter().any(|s| matches!(s, Step::Image(_)))
    }
    pub fn model_line(&self, table: &str) -> String {
        format!("c12 run {} {} {} {} {}", self.cfg.model_str(), self.sink.to_str(), table, steps_str(&self.steps, true), self.fin.to_str())
    }
    pub fn json(&self, table: &str) -> J {
        J::obj()
            .set("cfg", J::s(&self.cfg.model_str()))
            .set("rust_cfg", J::s(&self.cfg.to_str()))
            .set("sink", J::s(&self.sink.to_str()))
            .set("table", J::s(table))
            .set("steps", J::s(&steps_str(&self.steps, true)))
            .set("rust_steps", J::s(&steps_str(&self.steps, false)))
            .set("final", J::s(&self.fin.to_str()))
            .set("compression", J::i(self.cfg.comp))
            .set("filter", J::i(self.cfg.filt))
            .set("origin", J::s(&self.origin))
    }
    pub fn from_json(j: &J) -> Option<Case> {
        let g = |k: &str| j.get(k).and_then(|v| v.as_str());
        Some(Case {
            cfg: Cfg::parse(g("rust_cfg")?)?,
            sink: SinkSpec::parse(g("sink")?)?,
            steps: parse_steps(g("rust_steps")?)?,
            fin: PFinal::parse(g("final")?)?,
            origin: g("origin").unwrap_or("replay").to_string(),
        })
    }
}

// ---------------------------------------------------------------------------------------------
// the sink
// ---------------------------------------------------------------------------------------------


pub struct SinkState {
    pub data: Vec<u8>,
    pub spec: SinkSpec,
    pub byte_fired: bool,
    pub write_calls: usize,
    pub flush_calls: usize,
    /// errors returned so far (write + flush)
    pub errors: usize,
    pub write_errors: usize,
    /// write + flush calls so far
    pub touches: usize,
    /// `write` calls whose buffer is exactly b"IEND"
    pub iend_type_writes: usize,
    /// IEND chunk emissions attempted (complete or cut by a failure)
    pub iend_attempts: usize,
    /// set by the interpreter while a raw-chunk operation with empty data runs
    pub in_empty_chunk_op: bool,
    first: bool,
    /// accepted length + type bytes of the chunk that is being written
    hdr: Vec<u8>,
    counted: bool,
    /// accepted data + CRC bytes of the current chunk still to come
    left: u64,
}

#[derive(Clone)]
pub struct SharedSink(pub Rc<RefCell<SinkState>>);

impl SharedSink {
    pub fn new(spec: &SinkSpec) -> SharedSink {
        SharedSink(Rc::new(RefCell::new(SinkState {
            data: vec![],
            spec: spec.clone(),
            byte_fired: false,
            write_calls: 0,
            flush_calls: 0,
            errors: 0,
            write_errors: 0,
            touches: 0,
            iend_type_writes: 0,
            iend_attempts: 0,
            in_empty_chunk_op: false,
            first: true,
            hdr: vec![],
            counted: false,
            left: 0,
        })))
    }
    pub fn len(&self) -> usize {
        self.0.borrow().data.len()
    }
    fn probe(&self) -> (usize, usize) {
        let s = self.0.borrow();
        (s.errors, s.touches)
    }
}

impl Write for SharedSink {
    fn write(&mut self, buf: &[u8]) -> io::Result<usize> {
        if buf.is_empty() {
            return Ok(0);
        }
        let mut s = self.0.borrow_mut();
        let idx = s.write_calls;
        s.write_calls += 1;
        s.touches += 1;
        // outcome
        let mut outcome: Result<usize, ()> = Ok(buf.len());
        if let Some((i, once)) = s.spec.call {
            if (once && idx == i) || (!once && idx >= i) {
                outcome = Err(());
            }
        }
        if outcome.is_ok() {
            if let Some((n, once)) = s.spec.byte {
                if !(once && s.byte_fired) {
                    if s.data.len() >= n {
                        s.byte_fired = true;
                        outcome = Err(());
                    } else {
                        outcome = Ok(buf.len().min(n - s.data.len()));
                    }
                }
            }
        }
        let complete = outcome == Ok(buf.len());
        // framing of the chunk stream, by BYTES (not by write calls: how many `write` calls the encoder uses for a chunk is not an
        // observable of any property): `hdr` collects the accepted length and type bytes of the current chunk, `left` counts its
        // accepted data + CRC bytes still to come.  An IEND emission is ATTEMPTED when, at the start of a chunk, a length field of 0 is
        // offered and cut by a failure (only IEND and explicitly requested empty chunks have length 0), or when the type IEND is
        // offered behind an accepted (or, in the same call, offered) zero length.
        {
            let mut off = 0usize;
            if s.first {
                s.first = false;
                if buf.len() >= 8 && buf[..8] == SIG[..] {
                    off = 8;
                }
            }
            // the header bytes of the current chunk as far as they are known: accepted ones plus the ones offered now
            if s.left == 0 && !s.counted {
                let mut view = s.hdr.clone();
                view.extend_from_slice(&buf[off..buf.len().min(off + 8)]);
                if view.len() >= 4 && view[..4] == [0, 0, 0, 0] {
                    if view.len() >= 8 {
                        if &view[4..8] == b"IEND" {
                            s.iend_attempts += 1;
                            s.counted = true;
                        }
                    } else if !complete && !s.in_empty_chunk_op {
                        s.iend_attempts += 1;
                        s.counted = true;
                    }
                }
            }
            // advance over the ACCEPTED bytes
            let accepted = match outcome { Ok(n) => n, Err(()) => 0 };
            for &b in &buf[off.min(accepted)..accepted] {
                if s.left > 0 {
                    s.left -= 1;
                    if s.left == 0 {
                        s.counted = false;
                    }
                } else {
                    s.hdr.push(b);
                    if s.hdr.len() == 8 {
                        s.left = u32::from_be_bytes([s.hdr[0], s.hdr[1], s.hdr[2], s.hdr[3]]) as u64 + 4;
                        s.hdr.clear();
                    }
                }
            }
        }
        if buf == b"IEND" {
            s.iend_type_writes += 1;
        }
        match outcome {
            Err(()) => {
                s.errors += 1;
                s.write_errors += 1;
                // the encoder starts over with a new chunk after a failed write
                s.hdr.clear();
                s.left = 0;
                s.counted = false;
                Err(io::Error::new(io::ErrorKind::Other, "injected"))
            }
            Ok(n) => {
                s.data.extend_from_slice(&buf[..n]);
                Ok(n)
            }
        }
    }
    fn flush(&mut self) -> io::Result<()> {
        let mut s = self.0.borrow_mut();
        let idx = s.flush_calls;
        s.flush_calls += 1;
        s.touches += 1;
        if let Some((k, once)) = s.spec.flush {
            if (once && idx == k) || (!once && idx >= k) {
                s.errors += 1;
                return Err(io::Error::new(io::ErrorKind::Other, "injected"));
            }
        }
        Ok(())
    }
}

// ---------------------------------------------------------------------------------------------
// what the next image must look like (documented contract; used to size images and to count the
// images a stream session completed)
// ---------------------------------------------------------------------------------------------

pub fn row_bytes(color: u8, depth: u8, w: u32) -> usize {
    ((w as u128 * refpng::samples(color) as u128 * depth as u128 + 7) / 8).min(usize::MAX as u128) as usize
}

/// (w, h, x, y)
pub type Rect = (u32, u32, u32, u32);

#[derive(Clone, Debug)]
pub struct Shadow {
    pub cw: u32,
    pub ch: u32,
    pub color: u8,
    pub depth: u8,
    pub fc: Option<Rect>,
    pub frames: Option<u32>,
    pub sep: bool,
    pub images_written: u64,
    pub anim_written: u32,
    /// successful image writes (whole images + completed stream images)
    pub images_ok: u64,
}

/// A rectangle setter with a value at the top of the `u32` range (never in bounds: the largest canvas generated is far smaller).
fn extreme_rect_op(rng: &mut Rng) -> SetOp {
    let big = u32::MAX - rng.below(4) as u32;
    match rng.below(4) {
        0 => SetOp::Dim(big, rng.range(1, 4) as u32),
        1 => SetOp::Dim(rng.range(1, 4) as u32, big),
        2 => SetOp::Pos(big, 0),
        _ => SetOp::Pos(0, big),
    }
}

pub fn rect_set_ok(fc: &Option<Rect>, cw: u32, ch: u32, op: &SetOp) -> bool {
    let (w, h, x, y) = match fc {
        Some(r) => *r,
        None => return false,
    };
    match op {
        SetOp::Dim(nw, nh) => cw >= x && ch >= y && *nw <= cw - x && *nh <= ch - y && *nw > 0 && *nh > 0,
        SetOp::Pos(nx, ny) => cw >= w && ch >= h && *nx <= cw - w && *ny <= ch - h,
        SetOp::ResetDim => cw >= x && ch >= y,
        _ => true,
    }
}
pub fn rect_apply(fc: &mut Option<Rect>, cw: u32, ch: u32, op: &SetOp) {
    if let Some(r) = fc {
        match op {
            SetOp::Dim(w, h) => {
                r.0 = *w;
                r.1 = *h;
            }
            SetOp::Pos(x, y) => {
                r.2 = *x;
                r.3 = *y;
            }
            SetOp::ResetDim => {
                r.0 = cw.wrapping_sub(r.2);
                r.1 = ch.wrapping_sub(r.3);
            }
            SetOp::ResetPos => {
                r.2 = 0;
                r.3 = 0;
            }
            _ => {}
        }
    }
}

/// What the repaired `Encoder::with_info` (f1da483) has to answer for an explicit frame control:
/// `None` = accepted.  Written from the documented rule ("the same rules as set_frame_dimension /
/// set_frame_position"), not from the model.
pub fn expected_with_info_err(cfg: &Cfg) -> Option<&'static str> {
    let fc = cfg.fc.as_ref()?;
    if let Some((0, _)) = cfg.anim {
        return Some("err:zeroFrames");
    }
    if fc.w == 0 {
        return Some("err:zeroWidth");
    }
    if fc.h == 0 {
        return Some("err:zeroHeight");
    }
    let fits = |len: u32, off: u32, canvas: u32| canvas >= off && len <= canvas - off;
    if !fits(fc.w, fc.x, cfg.w) || !fits(fc.h, fc.y, cfg.h) {
        return Some("err:outOfBounds");
    }
    None
}

impl Shadow {
    pub fn new(cfg: &Cfg) -> Shadow {
        let fc = match (&cfg.fc, cfg.anim) {
            (Some(f), _) => Some((f.w, f.h, f.x, f.y)),
            (None, Some(_)) => Some((cfg.w, cfg.h, 0, 0)),
            _ => None,
        };
        Shadow { cw: cfg.w, ch: cfg.h, color: cfg.color, depth: cfg.depth, fc, frames: cfg.anim.map(|a| a.0), sep: cfg.sep, images_written: 0, anim_written: 0, images_ok: 0 }
    }
    pub fn dims(&self) -> (u32, u32) {
        match self.fc {
            Some(r) => (r.0, r.1),
            None => (self.cw, self.ch),
        }
    }
    /// repaired N5 (92ed98c): the first image is the default image and has to cover the canvas
    pub fn first_image_subframe(&self) -> bool {
        self.images_written == 0 && matches!(self.fc, Some(r) if r != (self.cw, self.ch, 0, 0))
    }
    pub fn image_size(&self) -> usize {
        let (w, h) = self.dims();
        (row_bytes(self.color, self.depth, w) as u128 * h as u128).min(usize::MAX as u128) as usize
    }
    /// the frame header of the next image went out (`write_image_data`, `StreamWriter::new`, `new_frame`):
    /// an fcTL — unless it is the separate default image — counts in `animation_written`
    pub fn header_written(&mut self) {
        if self.fc.is_some() && !(self.sep && self.images_written == 0) {
            self.anim_written += 1;
        }
    }
    /// an image is complete (`increment_images_written`): by `write_image_data` or by `finish_image` of the
    /// stream writer (repaired d0d021f..9136341: stream images are counted when their last row is written)
    pub fn image_done(&mut self) {
        self.images_ok += 1;
        self.images_written += 1;
        if let Some(n) = self.frames {
            if n <= self.anim_written {
                self.fc = None;
            }
        }
    }
    /// a successful `write_image_data`
    pub fn whole_image_done(&mut self) {
        self.header_written();
        self.image_done();
    }
}

#[derive(Clone, Debug)]
pub struct StreamShadow {
    pub sfc: Option<Rect>,
    pub cur_size: usize,
    pub cur_done: usize,
    pub complete: u64,
    pub total: usize,
    /// (bytes, bytes per row) of every image the session started
    pub started: Vec<(usize, usize)>,
}

impl StreamShadow {
    /// a successful `StreamWriter::new`: the header of the first image of the session is written at once
    pub fn start(sh: &mut Shadow) -> StreamShadow {
        let ss = StreamShadow { sfc: sh.fc, cur_size: sh.image_size(), cur_done: 0, complete: 0, total: 0, started: vec![(sh.image_size(), row_bytes(sh.color, sh.depth, sh.dims().0))] };
        sh.header_written();
        ss
    }
    /// `n` more bytes were accepted by the stream writer
    pub fn feed(&mut self, sh: &mut Shadow, mut n: usize) {
        self.total += n;
        while n > 0 {
            if self.cur_done == self.cur_size {
                // new_frame: the stream writer's own frame control replaces the writer's (no-op once the
                // animation is complete), then the header of the next image is written
                if let Some(s) = self.sfc {
                    if sh.fc.is_some() {
                        sh.fc = Some(s);
                    }
                }
                self.cur_size = sh.image_size();
                self.started.push((self.cur_size, row_bytes(sh.color, sh.depth, sh.dims().0)));
                sh.header_written();
                self.cur_done = 0;
                if self.cur_size == 0 {
                    return;
                }
            }
            let take = n.min(self.cur_size - self.cur_done);
            self.cur_done += take;
            n -= take;
            if self.cur_done == self.cur_size {
                self.complete += 1;
                sh.image_done();
            }
        }
    }
    /// size of the image that the next byte after a completed image would start
    pub fn next_size(&self, sh: &Shadow) -> usize {
        let mut a = self.clone();
        let mut b = sh.clone();
        a.cur_done = a.cur_size;
        a.feed(&mut b, 1);
        a.cur_size
    }
    /// the session ended in the middle of an image (N10): its header and the beginning of its data are in
    /// the file, the image is not counted.  (`new` puts the writer at the first byte of an image.)
    pub fn abandoned(&self) -> bool {
        self.cur_done != self.cur_size
    }
}

// ---------------------------------------------------------------------------------------------
// the interpreter: one real run
// ---------------------------------------------------------------------------------------------

#[derive(Clone, Copy, Debug, PartialEq, Eq)]
pub enum CallKind {
    /// a refused call on the `Encoder` (`Cfg::mis`)
    EncoderSetter,
    Header,
    Image,
    Chunk,
    Text,
    Setter,
    StreamNew,
    StreamWrite,
    StreamFlush,
    StreamSetter,
    StreamFinish,
    StreamDrop,
    WriterFinish,
    WriterDrop,
    Cleanup,
}

impl CallKind {
    pub fn is_drop(&self) -> bool {
        matches!(self, CallKind::StreamDrop | CallKind::WriterDrop | CallKind::Cleanup)
    }
    pub fn name(&self) -> &'static str {
        match self {
            CallKind::EncoderSetter => "encoder-setter",
            CallKind::Header => "write_header",
            CallKind::Image => "write_image_data",
            CallKind::Chunk => "write_chunk",
            CallKind::Text => "write_text_chunk",
            CallKind::Setter => "setter",
            CallKind::StreamNew => "stream_writer",
            CallKind::StreamWrite => "stream-write_all",
            CallKind::StreamFlush => "stream-flush",
            CallKind::StreamSetter => "stream-setter",
            CallKind::StreamFinish => "StreamWriter::finish",
            CallKind::StreamDrop => "stream-drop",
            CallKind::WriterFinish => "Writer::finish",
            CallKind::WriterDrop => "writer-drop",
            CallKind::Cleanup => "cleanup-drop",
        }
    }
}

#[derive(Clone, Debug)]
pub struct CallRec {
    pub what: String,
    pub kind: CallKind,
    pub res: String,
    /// the sink returned an error during this call
    pub sink_err: bool,
    /// the call reached the sink
    pub touched: bool,
    /// the call is API misuse that must be answered with `Err` (oracle 2 of C19)
    pub misuse: Option<&'static str>,
    /// owned stream session (into_stream_writer)
    pub owned: bool,
}

#[derive(Clone, Debug, Default)]
pub struct SessInfo {
    /// index of the step, `usize::MAX` for the final `X`
    pub step: usize,
    pub new_ok: bool,
    pub accepted: Vec<u8>,
    pub complete: u64,
    pub abandoned: bool,
    pub write_failed: bool,
    pub range: (usize, usize),
    /// (bytes, bytes per row) of every image the session started
    pub images: Vec<(usize, usize)>,
    /// a `flush` call inside the session (the chunk partition depends on the compressor's timing then)
    pub flushed: bool,
}

#[derive(Clone, Debug, Default)]
pub struct Observed {
    pub hdr: String,
    pub steps: Vec<Vec<String>>,
    pub fin: Option<Vec<String>>,
    pub bytes: Vec<u8>,
    pub ranges: Vec<(usize, usize)>,
    pub iend_attempts: usize,
    pub iend_type_writes: usize,
    pub write_calls: usize,
    pub flush_calls: usize,
    pub sink_errors: usize,
    pub calls: Vec<CallRec>,
    pub panics: Vec<String>,
    pub images_ok: u64,
    pub sessions: Vec<SessInfo>,
    pub rect_setter_before_first: bool,
    pub stream_beyond_declared: bool,
    /// the refused `Encoder` calls of `Cfg::mis`: (call, result)
    pub enc_misuse: Vec<(String, String)>,
    /// failures of the small-API oracles (error formatting, empty `write`, `FrameControl` helpers): (class, what)
    pub api_faults: Vec<(String, String)>,
}

fn color_of(c: u8) -> png::ColorType {
    match c {
        0 => png::ColorType::Grayscale,
        2 => png::ColorType::Rgb,
        3 => png::ColorType::Indexed,
        4 => png::ColorType::GrayscaleAlpha,
        _ => png::ColorType::Rgba,
    }
}
fn depth_of(d: u8) -> png::BitDepth {
    match d {
        1 => png::BitDepth::One,
        2 => png::BitDepth::Two,
        4 => png::BitDepth::Four,
        8 => png::BitDepth::Eight,
        _ => png::BitDepth::Sixteen,
    }
}
fn filter_of(f: u8) -> png::Filter {
    match f {
        0 => png::Filter::NoFilter,
        1 => png::Filter::Sub,
        2 => png::Filter::Up,
        3 => png::Filter::Avg,
        4 => png::Filter::Paeth,
        _ => png::Filter::Adaptive,
    }
}
fn blend_of(b: u8) -> png::BlendOp {
    if b == 1 { png::BlendOp::Over } else { png::BlendOp::Source }
}
fn dispose_of(d: u8) -> png::DisposeOp {
    match d {
        1 => png::DisposeOp::Background,
        2 => png::DisposeOp::Previous,
        _ => png::DisposeOp::None,
    }
}
pub fn be32s(b: &[u8], i: usize) -> u32 {
    u32::from_be_bytes([b[i], b[i + 1], b[i + 2], b[i + 3]])
}

thread_local! {
    /// small-API oracle failures noticed where no report is at hand (`enc_res`, `build_encoder`): (class, what);
    /// `exec` moves them into `Observed::api_faults`
    static API_FAULTS: RefCell<Vec<(String, String)>> = RefCell::new(Vec::new());
}

pub fn note_api_fault(class: &str, what: String) {
    API_FAULTS.with(|f| f.borrow_mut().push((class.to_string(), what)));
}
pub fn take_api_faults() -> Vec<(String, String)> {
    API_FAULTS.with(|f| f.borrow_mut().drain(..).collect())
}

/// Every `EncodingError` the harness receives is formatted (`Display`, `Debug`) and asked for its cause / source:
/// no panic, a non-empty message, a cause exactly for I/O errors (and then the sink's own error), and the
/// conversion into `io::Error` keeps the message.
pub fn check_error_api(e: &png::EncodingError) {
    use std::error::Error;
    let r = guarded(|| {
        let shown = format!("{}", e);
        let debug = format!("{:?}", e);
        #[allow(deprecated)]
        let cause = e.cause().map(|c| c.to_string());
        let _ = e.source().map(|c| c.to_string());
        (shown, debug, cause)
    });
    match r {
        Err(p) => note_api_fault("error-api/panic", format!("formatting an EncodingError panicked: {}", p)),
        Ok((shown, debug, cause)) => {
            if shown.is_empty() || debug.is_empty() {
                note_api_fault("error-api/empty-message", format!("Display `{}` Debug `{}`", shown, debug));
            }
            let is_io = matches!(e, png::EncodingError::IoError(_));
            if cause.is_some() != is_io {
                note_api_fault("error-api/cause", format!("cause() is {:?} for `{}`", cause, debug.chars().take(80).collect::<String>()));
            }
            if let (Some(c), true) = (&cause, is_io) {
                if *c != shown {
                    note_api_fault("error-api/cause", format!("cause `{}` differs from the error shown `{}`", c, shown));
                }
            }
        }
    }
}

/// The refused `Encoder` calls of `cfg.mis` (C19: invalid parameters are errors and leave no trace).  `late` =
/// after every other setter (the encoder is animated then if the configuration is); before, only a frame control
/// given to `with_info` makes it animated.  Every call made is recorded as (call, result).
fn enc_misuse(enc: &mut png::Encoder<'static, SharedSink>, cfg: &Cfg, late: bool, out: &mut Vec<(String, String)>) {
    let animated_now = cfg.fc.is_some() || (late && cfg.anim.is_some());
    let at = if late { "late" } else { "early" };
    for ch in cfg.mis.chars() {
        let (name, r) = match ch {
            'z' => ("set_animated(0)", enc.set_animated(0, 7)),
            's' if !animated_now => ("set_sep_def_img", enc.set_sep_def_img(true)),
            'd' if !animated_now => ("set_frame_delay", enc.set_frame_delay(3, 4)),
            'b' if !animated_now => ("set_blend_op", enc.set_blend_op(png::BlendOp::Over)),
            'o' if !animated_now => ("set_dispose_op", enc.set_dispose_op(png::DisposeOp::Background)),
            'A' | 'F' if !late => {
                // `Info` with exactly one of animation control / frame control, on a sink of its own
                let probe = SharedSink::new(&SinkSpec::default());
                let mut info = png::Info::with_size(cfg.w.max(1), cfg.h.max(1));
                if ch == 'A' {
                    info.animation_control = Some(png::AnimationControl { num_frames: 2, num_plays: 0 });
                } else {
                    info.frame_control = Some(png::FrameControl { width: cfg.w.max(1), height: cfg.h.max(1), ..Default::default() });
                }
                let r = png::Encoder::with_info(probe.clone(), info).map(|_| ());
                if probe.0.borrow().touches > 0 {
                    note_api_fault("encoder-misuse/refused-call-wrote", format!("with_info ({}) touched the sink {} times", ch, probe.0.borrow().touches));
                }
                (if ch == 'A' { "with_info(acTL only)" } else { "with_info(fcTL only)" }, r)
            }
            _ => continue,
        };
        out.push((format!("{}@{}", name, at), enc_res(&r)));
    }
}

/// what a refused `Encoder` call of `enc_misuse` has to answer
pub fn enc_misuse_expected(call: &str) -> &'static str {
    if call.starts_with("set_animated(0)") { "err:zeroFrames" } else { "err:notAnimated" }
}

fn build_encoder(cfg: &Cfg, sink: SharedSink, mis: &mut Vec<(String, String)>) -> Result<png::Encoder<'static, SharedSink>, png::EncodingError> {
    let need_info = cfg.fc.is_some() || cfg.icc.is_some() || cfg.exif.is_some();
    let mut enc: png::Encoder<'static, SharedSink> = if need_info {
        let mut info = png::Info::with_size(cfg.w, cfg.h);
        if let Some(p) = &cfg.icc {
            info.icc_profile = Some(Cow::Owned(p.clone()));
        }
        if let Some(p) = &cfg.exif {
            info.exif_metadata = Some(Cow::Owned(p.clone()));
        }
        if let Some(fc) = &cfg.fc {
            // (the sequence number through the two public helpers of `FrameControl`)
            let mut seq = png::FrameControl::default();
            seq.set_seq_num(fc.seq / 2);
            seq.inc_seq_num(fc.seq - fc.seq / 2);
            if seq.sequence_number != fc.seq {
                note_api_fault("frame-control/seq-num", format!("set_seq_num({}) + inc_seq_num({}) gives {}", fc.seq / 2, fc.seq - fc.seq / 2, seq.sequence_number));
            }
            info.frame_control = Some(png::FrameControl {
                sequence_number: seq.sequence_number,
                width: fc.w,
                height: fc.h,
                x_offset: fc.x,
                y_offset: fc.y,
                delay_num: fc.dn,
                delay_den: fc.dd,
                dispose_op: dispose_of(fc.dispose),
                blend_op: blend_of(fc.blend),
            });
            let (f, p) = cfg.anim.unwrap_or((1, 0));
            info.animation_control = Some(png::AnimationControl { num_frames: f, num_plays: p });
        }
        png::Encoder::with_info(sink, info)?
    } else {
        png::Encoder::new(sink, cfg.w, cfg.h)
    };
    enc.set_color(color_of(cfg.color));
    enc.set_depth(depth_of(cfg.depth));
    enc_misuse(&mut enc, cfg, false, mis);
    if cfg.fc.is_none() {
        if let Some((f, p)) = cfg.anim {
            enc.set_animated(f, p)?;
        }
    }
    if cfg.sep {
        enc.set_sep_def_img(true)?;
    }
    if let Some(p) = &cfg.pal {
        enc.set_palette(p.clone());
    }
    if let Some(t) = &cfg.trns {
        enc.set_trns(t.clone());
    }
    if let Some(p) = &cfg.phys {
        if p.len() == 9 {
            enc.set_pixel_dims(Some(png::PixelDimensions {
                xppu: be32s(p, 0),
                yppu: be32s(p, 4),
                unit: if p[8] == 1 { png::Unit::Meter } else { png::Unit::Unspecified },
            }));
        }
    }
    if let Some(g) = cfg.gama {
        enc.set_source_gamma(png::ScaledFloat::from_scaled(g));
    }
    if let Some(c) = &cfg.chrm {
        if c.len() == 32 {
            let f = |i: usize| png::ScaledFloat::from_scaled(be32s(c, 4 * i));
            enc.set_source_chromaticities(png::SourceChromaticities { white: (f(0), f(1)), red: (f(2), f(3)), green: (f(4), f(5)), blue: (f(6), f(7)) });
        }
    }
    if let Some(i) = cfg.srgb {
        enc.set_source_srgb(match i {
            0 => png::SrgbRenderingIntent::Perceptual,
            1 => png::SrgbRenderingIntent::RelativeColorimetric,
            2 => png::SrgbRenderingIntent::Saturation,
            _ => png::SrgbRenderingIntent::AbsoluteColorimetric,
        });
    }
    let mut ts: Vec<&TextSpec> = cfg.texts.iter().collect();
    ts.sort_by_key(|t| t.kind.min(2));
    for t in ts {
        match t.kind {
            0 => enc.add_text_chunk(t.kw.clone(), t.text.clone())?,
            1 => enc.add_ztxt_chunk(t.kw.clone(), t.text.clone())?,
            _ => enc.add_itxt_chunk(t.kw.clone(), t.text.clone())?,
        }
    }
    enc.validate_sequence(cfg.val);
    enc.set_deflate_compression(match cfg.comp {
        0 => png::DeflateCompression::NoCompression,
        1 => png::DeflateCompression::FdeflateUltraFast,
        2 => png::DeflateCompression::Level(1),
        3 => png::DeflateCompression::Level(6),
        _ => png::DeflateCompression::Level(9),
    });
    enc.set_filter(filter_of(cfg.filt));
    enc_misuse(&mut enc, cfg, true, mis);
    Ok(enc)
}

/// the model's name of a format error from the Debug form of the error (variant names; a reworded message does not change it)
fn debug_name(dbg: &str) -> Option<&'static str> {
    for (v, n) in [("ZeroWidth", "zeroWidth"), ("ZeroHeight", "zeroHeight"), ("ZeroFrames", "zeroFrames"), ("InvalidColorCombination", "invalidColor"), ("NoPalette", "noPalette"),
        ("WrittenTooMuch", "writtenTooMuch"), ("NotAnimated", "notAnimated"), ("OutOfBounds", "outOfBounds"), ("EndReached", "endReached"), ("MissingFrames", "missingFrames"),
        ("MissingData", "missingData"), ("Unrecoverable", "unrecoverable"), ("BadTextEncoding", "badText")] {
        if dbg.contains(&format!("inner: {}", v)) {
            return Some(n);
        }
    }
    None
}

fn format_name(msg: &str) -> Option<&'static str> {
    Some(if msg == "Zero width not allowed" {
        "zeroWidth"
    } else if msg == "Zero height not allowed" {
        "zeroHeight"
    } else if msg == "Zero frames not allowed" {
        "zeroFrames"
    } else if msg.starts_with("Invalid combination") {
        "invalidColor"
    } else if msg == "can't write indexed image without palette" {
        "noPalette"
    } else if msg.starts_with("wrong data size") {
        "writtenTooMuch"
    } else if msg == "not an animation" {
        "notAnimated"
    } else if msg == "the dimension and position go over the frame boundaries" {
        "outOfBounds"
    } else if msg == "all the frames have been already written" {
        "endReached"
    } else if msg == "there are still frames to be written" {
        "missingFrames"
    } else if msg.starts_with("there are still") && msg.ends_with("bytes to be written") {
        "missingData"
    } else if msg.starts_with("a previous error") {
        "unrecoverable"
    } else if msg.starts_with("The text metadata cannot be encoded") || msg == "Invalid keyword size" || msg.starts_with("Unable to compress") {
        "badText"
    } else {
        return None;
    })
}

pub fn io_res(e: &io::Error) -> String {
    if e.kind() == io::ErrorKind::WriteZero {
        return "err:writeZero".into();
    }
    if e.kind() == io::ErrorKind::Other {
        if let Some(n) = format_name(&e.to_string()) {
            return format!("err:{}", n);
        }
    }
    "err:io".into()
}

pub fn enc_res<T>(r: &Result<T, png::EncodingError>) -> String {
    if let Err(e) = r {
        check_error_api(e);
    }
    match r {
        Ok(_) => "ok".into(),
        Err(png::EncodingError::IoError(e)) => io_res(e),
        Err(png::EncodingError::Format(f)) => match debug_name(&format!("{:?}", f)).or_else(|| format_name(&f.to_string())) {
            Some(n) => format!("err:{}", n),
            // a message the harness does not know (reworded): still a format error
            None => "err:format".to_string(),
        },
        Err(png::EncodingError::Parameter(_)) => "err:imageBufferSize".into(),
        Err(png::EncodingError::LimitsExceeded) => "err:limits".into(),
    }
}

/// The NAME of a format error is not an observable of any property (the harness can only read it off the Display text, which a
/// harmless rewording changes; which of two applicable errors is reported first may change with a harmless reordering of checks):
/// every `err:<format error name>` token becomes `err:format`.  Used when a comparison of exact names fails - the two sides then
/// have to agree on WHICH calls fail with a format error (as opposed to ok / io / limits / parameter / panic).
pub fn loosen(s: &str) -> String {
    const NAMES: [&str; 13] = ["zeroWidth", "zeroHeight", "zeroFrames", "invalidColor", "noPalette", "writtenTooMuch", "notAnimated", "outOfBounds", "endReached", "missingFrames", "missingData", "unrecoverable", "badText"];
    let mut out = String::with_capacity(s.len());
    let mut rest = s;
    while let Some(i) = rest.find("err:") {
        out.push_str(&rest[..i + 4]);
        rest = &rest[i + 4..];
        let end = rest.find(|c: char| c == ',' || c == ']' || c == '[' || c == ' ' || c == '/' || c == ';').unwrap_or(rest.len());
        let name = &rest[..end];
        if NAMES.contains(&name) || name.starts_with("format") {
            out.push_str("format");
        } else {
            out.push_str(name);
        }
        rest = &rest[end..];
    }
    out.push_str(rest);
    out
}

/// line number in encoder.rs of a panic message produced by `guarded` (`msg @ file:line`)
pub fn panic_line(msg: &str) -> Option<u32> {
    let loc = msg.rsplit(" @ ").next()?;
    let (file, line) = loc.rsplit_once(':')?;
    if file.ends_with("encoder.rs") {
        line.parse().ok()
    } else {
        None
    }
}

/// the model's `PanicSite` name of a real panic: by message, line numbers (of /repo at 92ed98c) only to
/// tell apart sites with the same message
pub fn panic_res(msg: &str) -> String {
    let line = panic_line(msg);
    let site = if msg.contains("chunk size must be non-zero") {
        "chunksZero"
    } else if msg.contains("range end index 4 out of range") {
        "chunkBufferIndex"
    } else if msg.contains("range end index") || msg.contains("out of range for slice") {
        "rowSlice"
    } else if msg.contains("entered unreachable code") {
        "unreachableWrapper"
    } else if msg.contains("Called when not flushed") {
        "assertIndexZero"
    } else if msg.contains("must be called on an animated PNG") {
        "setFctlNotAnimated"
    } else if msg.contains("attempt to subtract with overflow") {
        match line {
            Some(1712) => "toWriteUnderflow",
            _ => "resetDimUnderflow",
        }
    } else if msg.contains("attempt to add with overflow") {
        match line {
            Some(875) => "animWrittenOverflow",
            _ => "seqOverflow",
        }
    } else {
        return format!("panic:{}", msg.rsplit(" @ ").next().unwrap_or("?").replace(' ', "_"));
    };
    format!("panic:{}", site)
}

/// `Write::write_all` of std, counting what the stream writer accepted
fn sw_write_all(sw: &mut png::StreamWriter<'_, SharedSink>, mut buf: &[u8], accepted: &mut usize) -> io::Result<()> {
    while !buf.is_empty() {
        match sw.write(buf) {
            Ok(0) => return Err(io::Error::new(io::ErrorKind::WriteZero, "failed to write whole buffer")),
            Ok(n) => {
                *accepted += n;
                buf = &buf[n..];
            }
            Err(ref e) if e.kind() == io::ErrorKind::Interrupted => {}
            Err(e) => return Err(e),
        }
    }
    Ok(())
}

struct Rt<'c> {
    case: &'c Case,
    sink: SharedSink,
    obs: Observed,
    sh: Shadow,
    first_image_seen: bool,
    /// the sink failed inside a stream session: the size bookkeeping may be off
    shadow_unreliable: bool,
    /// a stream session has run: the Writer's own frame control may have been replaced by the session's copy (the shadow does not follow that)
    stream_session_seen: bool,
}

impl<'c> Rt<'c> {
    fn rec(&mut self, before: (usize, usize), what: String, kind: CallKind, res: &str, misuse: Option<&'static str>, owned: bool) {
        let after = self.sink.probe();
        self.obs.calls.push(CallRec { what, kind, res: res.to_string(), sink_err: after.0 > before.0, touched: after.1 > before.1, misuse, owned });
    }
    fn setter_misuse(&self, op: &SetOp) -> Option<&'static str> {
        if self.case.cfg.anim.is_none() && self.case.cfg.fc.is_none() {
            return Some("setter-on-non-animated");
        }
        let (cw, ch) = (self.case.cfg.w, self.case.cfg.h);
        match op {
            SetOp::Dim(w, h) if *w == 0 || *h == 0 => Some("setter-zero"),
            SetOp::Dim(w, h) if *w > cw || *h > ch => Some("setter-out-of-range"),
            SetOp::Pos(x, y) if *x >= cw || *y >= ch => Some("setter-out-of-range"),
            _ => None,
        }
    }

    /// drive one stream writer; returns the result list and whether a panic stopped it
    fn drive<'a>(&mut self, new_res: Result<Result<png::StreamWriter<'a, SharedSink>, png::EncodingError>, String>, before_new: (usize, usize), sess: &Session, step: usize, owned: bool) -> (Vec<String>, bool) {
        let tag = if step == usize::MAX { "final".to_string() } else { format!("step{}", step) };
        let start = self.sink.len();
        let errors_at_start = before_new.0;
        let mut info = SessInfo { step, ..Default::default() };
        let mut out = vec![];
        let mut sw = match new_res {
            Err(p) => {
                let r = panic_res(&p);
                self.obs.panics.push(p);
                self.rec(before_new, format!("{}:new", tag), CallKind::StreamNew, &r, None, owned);
                out.push(r);
                info.range = (start, self.sink.len());
                self.obs.sessions.push(info);
                return (out, true);
            }
            Ok(r) => {
                let s = enc_res(&r);
                // repaired N6 (90b6476) and N5 (92ed98c): refused before anything is written
                let mis = if self.shadow_unreliable {
                    None
                } else if self.case.cfg.color == 3 && self.case.cfg.pal.is_none() {
                    Some("indexed-no-palette")
                } else if self.sh.first_image_subframe() {
                    Some("first-image-subframe")
                } else if self.case.cfg.val && !self.sh.accepts_image(&self.case.cfg) && !self.obs.abandoned_session() {
                    // repaired (validate_new_image in StreamWriter::new): no session beyond the declared images
                    Some("beyond-declared")
                } else {
                    None
                };
                self.rec(before_new, format!("{}:new", tag), CallKind::StreamNew, &s, mis, owned);
                out.push(s);
                match r {
                    Ok(sw) => sw,
                    Err(_) => {
                        // a refusal writes nothing; anything else (sink error while the fcTL is written) leaves
                        // the bookkeeping unreliable
                        if self.sink.len() != start || self.sink.0.borrow().errors > errors_at_start {
                            self.shadow_unreliable = true;
                            info.write_failed = true;
                        }
                        info.range = (start, self.sink.len());
                        self.obs.sessions.push(info);
                        return (out, false);
                    }
                }
            }
        };
        info.new_ok = true;
        let mut ss = StreamShadow::start(&mut self.sh);
        let mut panicked = false;
        for (k, op) in sess.ops.iter().enumerate() {
            let before = self.sink.probe();
            let (res, kind, misuse): (Result<String, String>, CallKind, Option<&'static str>) = match op {
                SOp::Write(d) if d.is_empty() => {
                    // `write_all(&[])` never calls `write`; here ONE `write(&[])` is made instead: it accepts nothing,
                    // does not touch the sink and changes nothing (`Ok(0)`) — or reports the unrecoverable state a
                    // sink failure of this session left behind.  Towards the model it is the no-op `write_all(&[])`.
                    let r = guarded(|| sw.write(&[]));
                    let after = self.sink.probe();
                    if after != before {
                        self.obs.api_faults.push(("empty-write/touched-sink".into(), format!("StreamWriter::write(&[]) made {} sink calls", after.1 - before.1)));
                    }
                    let r = r.map(|x| {
                        match x {
                            Ok(0) => {}
                            Ok(n) => self.obs.api_faults.push(("empty-write/accepted-bytes".into(), format!("StreamWriter::write(&[]) returned Ok({})", n))),
                            Err(e) => {
                                let s = io_res(&e);
                                if !(s == "err:unrecoverable" && self.sink.0.borrow().errors > errors_at_start) {
                                    self.obs.api_faults.push(("empty-write/error".into(), format!("StreamWriter::write(&[]) returned {} ({} sink errors in this session)", s, self.sink.0.borrow().errors - errors_at_start)));
                                }
                            }
                        }
                        "ok".to_string()
                    });
                    (r, CallKind::StreamWrite, None)
                }
                SOp::Write(d) => {
                    let mut acc = 0usize;
                    let r = guarded(|| sw_write_all(&mut sw, d, &mut acc));
                    info.accepted.extend_from_slice(&d[..acc.min(d.len())]);
                    let before_ok = self.sh.images_ok;
                    ss.feed(&mut self.sh, acc);
                    if self.sh.images_ok > before_ok {
                        self.first_image_seen = true;
                        if self.case.cfg.val && self.sh.images_ok > self.case.cfg.declared() && !self.shadow_unreliable && self.sink.0.borrow().errors == errors_at_start {
                            self.obs.stream_beyond_declared = true;
                        }
                    }
                    let r = r.map(|x| match x {
                        Ok(()) => "ok".to_string(),
                        Err(e) => {
                            info.write_failed = true;
                            io_res(&e)
                        }
                    });
                    (r, CallKind::StreamWrite, None)
                }
                SOp::Flush => (guarded(|| sw.flush()).map(|x| match x {
                    Ok(()) => "ok".to_string(),
                    Err(e) => io_res(&e),
                }), CallKind::StreamFlush, None),
                SOp::Set(o) => {
                    let mis = self.setter_misuse(o);
                    let r = guarded(|| match o {
                        SetOp::Delay(a, b) => sw.set_frame_delay(*a, *b),
                        SetOp::Dim(a, b) => sw.set_frame_dimension(*a, *b),
                        SetOp::Pos(a, b) => sw.set_frame_position(*a, *b),
                        SetOp::ResetDim => sw.reset_frame_dimension(),
                        SetOp::ResetPos => sw.reset_frame_position(),
                        SetOp::Blend(b) => sw.set_blend_op(blend_of(*b)),
                        SetOp::Dispose(d) => sw.set_dispose_op(dispose_of(*d)),
                    })
                    .map(|x| enc_res(&x));
                    if let Ok(sres) = r.as_deref() {
                        // same documented rule for the stream writer's own copy of the frame control
                        if !self.shadow_unreliable && matches!(o, SetOp::Dim(..) | SetOp::Pos(..)) && ss.sfc.is_some() && (sres == "ok" || loosen(sres) == "err:format") {
                            let want = rect_set_ok(&ss.sfc, self.sh.cw, self.sh.ch, o);
                            if want != (sres == "ok") {
                                self.obs.api_faults.push((format!("setter/stream-rect-{}", if want { "refused-inside-canvas" } else { "accepted-outside-canvas" }),
                                    format!("StreamWriter::{} with the frame control {:?} on a {}x{} canvas answered `{}`", o.to_str(), ss.sfc, self.sh.cw, self.sh.ch, sres)));
                            }
                        }
                    }
                    if r.as_deref() == Ok("ok") {
                        rect_apply(&mut ss.sfc, self.sh.cw, self.sh.ch, o);
                    }
                    (r, CallKind::StreamSetter, mis)
                }
            };
            let s = match res {
                Ok(s) => s,
                Err(p) => {
                    let r = panic_res(&p);
                    self.obs.panics.push(p);
                    panicked = true;
                    r
                }
            };
            self.rec(before, format!("{}:sop{}:{}", tag, k, op.to_str().chars().take(12).collect::<String>()), kind, &s, misuse, owned);
            out.push(s);
            if panicked {
                break;
            }
        }
        if panicked {
            let before = self.sink.probe();
            let r = guarded(move || drop(sw));
            let s = match r {
                Ok(()) => "ok".to_string(),
                Err(p) => {
                    let r = panic_res(&p);
                    self.obs.panics.push(p);
                    r
                }
            };
            self.rec(before, format!("{}:cleanup", tag), CallKind::Cleanup, &s, None, owned);
        } else {
            let before = self.sink.probe();
            let (r, kind) = match sess.fin {
                Fin::Finish => (guarded(move || sw.finish()).map(|x| enc_res(&x)), CallKind::StreamFinish),
                Fin::Drop => (guarded(move || drop(sw)).map(|_| "ok".to_string()), CallKind::StreamDrop),
            };
            let s = match r {
                Ok(s) => s,
                Err(p) => {
                    let r = panic_res(&p);
                    self.obs.panics.push(p);
                    panicked = true;
                    r
                }
            };
            self.rec(before, format!("{}:end", tag), kind, &s, None, owned);
            out.push(s);
        }
        if info.write_failed || self.sink.0.borrow().errors > errors_at_start {
            self.shadow_unreliable = true;
        }
        info.complete = ss.complete;
        info.abandoned = ss.abandoned();
        info.images = ss.started.clone();
        info.flushed = sess.ops.iter().any(|o| matches!(o, SOp::Flush));
        info.range = (start, self.sink.len());
        self.obs.sessions.push(info);
        (out, panicked)
    }
}

/// Run the program against the real encoder.
pub fn exec(case: &Case) -> Observed {
    use png::text_metadata::{ITXtChunk, TEXtChunk, ZTXtChunk};
    let sink = SharedSink::new(&case.sink);
    let mut rt = Rt { case, sink: sink.clone(), obs: Observed::default(), sh: Shadow::new(&case.cfg), first_image_seen: false, shadow_unreliable: false, stream_session_seen: false };
    // header
    let before = sink.probe();
    let cfg = case.cfg.clone();
    let s2 = sink.clone();
    let _ = take_api_faults();
    let hdr = guarded(move || {
        let mut mis = vec![];
        let r = build_encoder(&cfg, s2, &mut mis).and_then(|e| e.write_header());
        (r, mis)
    });
    let hdr = hdr.map(|(r, mis)| {
        for (call, res) in &mis {
            let m = if call.starts_with("set_animated(0)") { "encoder-zero-frames" } else if call.starts_with("with_info") { "with-info-half-animated" } else { "encoder-setter-on-non-animated" };
            rt.obs.calls.push(CallRec { what: call.clone(), kind: CallKind::EncoderSetter, res: res.clone(), sink_err: false, touched: false, misuse: Some(m), owned: false });
        }
        rt.obs.enc_misuse = mis;
        r
    });
    let mut writer = match hdr {
        Err(p) => {
            let r = panic_res(&p);
            rt.obs.panics.push(p);
            rt.rec(before, "hdr".into(), CallKind::Header, &r, None, false);
            rt.obs.hdr = r;
            None
        }
        Ok(r) => {
            let s = enc_res(&r);
            rt.rec(before, "hdr".into(), CallKind::Header, &s, None, false);
            rt.obs.hdr = s;
            r.ok()
        }
    };
    let mut panicked = false;
    if writer.is_some() {
        for (i, step) in case.steps.iter().enumerate() {
            let start = sink.len();
            let before = sink.probe();
            let w = writer.as_mut().unwrap();
            let mut results: Vec<String> = vec![];
            match step {
                Step::Stream(sess) => {
                    let size = sess.size;
                    let wr: &mut png::Writer<SharedSink> = w;
                    // (4096 is the documented default size: through the constructor without a size)
                    let new_res = guarded(move || if size == 4096 { wr.stream_writer() } else { wr.stream_writer_with_size(size) });
                    let (rs, p) = rt.drive(new_res, before, sess, i, false);
                    rt.stream_session_seen = true;
                    results = rs;
                    panicked = p;
                }
                _ => {
                    let (kind, misuse, r): (CallKind, Option<&'static str>, Result<Result<(), png::EncodingError>, String>) = match step {
                        Step::Image(d) => {
                            let mis = if rt.shadow_unreliable {
                                None
                            } else if rt.sh.first_image_subframe() {
                                Some("first-image-subframe")
                            } else if d.len() != rt.sh.image_size() {
                                Some("wrong-size")
                            } else if case.cfg.val && rt.sh.images_ok >= case.cfg.declared() {
                                Some("beyond-declared")
                            } else {
                                None
                            };
                            (CallKind::Image, mis, guarded(|| w.write_image_data(d)))
                        }
                        Step::Chunk(t, d) => {
                            sink.0.borrow_mut().in_empty_chunk_op = d.is_empty();
                            let r = guarded(|| w.write_chunk(png::chunk::ChunkType(*t), d));
                            sink.0.borrow_mut().in_empty_chunk_op = false;
                            (CallKind::Chunk, None, r)
                        }
                        Step::Text(t) => (CallKind::Text, None, guarded(|| match t.kind {
                            0 => w.write_text_chunk(&TEXtChunk::new(t.kw.clone(), t.text.clone())),
                            1 => w.write_text_chunk(&ZTXtChunk::new(t.kw.clone(), t.text.clone())),
                            2 => w.write_text_chunk(&ITXtChunk::new(t.kw.clone(), t.text.clone())),
                            _ => {
                                let mut c = ITXtChunk::new(t.kw.clone(), t.text.clone());
                                c.compressed = true;
                                w.write_text_chunk(&c)
                            }
                        })),
                        Step::Set(o) => (CallKind::Setter, rt.setter_misuse(o), guarded(|| match o {
                            SetOp::Delay(a, b) => w.set_frame_delay(*a, *b),
                            SetOp::Dim(a, b) => w.set_frame_dimension(*a, *b),
                            SetOp::Pos(a, b) => w.set_frame_position(*a, *b),
                            SetOp::ResetDim => w.reset_frame_dimension(),
                            SetOp::ResetPos => w.reset_frame_position(),
                            SetOp::Blend(b) => w.set_blend_op(blend_of(*b)),
                            SetOp::Dispose(d) => w.set_dispose_op(dispose_of(*d)),
                        })),
                        Step::Stream(_) => unreachable!(),
                    };
                    let s = match r {
                        Ok(r) => enc_res(&r),
                        Err(p) => {
                            let r = panic_res(&p);
                            rt.obs.panics.push(p);
                            panicked = true;
                            r
                        }
                    };
                    if s != "ok" && matches!(step, Step::Image(_)) && sink.len() - start >= 38 && rt.sh.fc.is_some() && !(rt.sh.sep && rt.sh.images_written == 0) {
                        // the fcTL went out before the failure: `animation_written` was incremented (:844)
                        rt.sh.anim_written += 1;
                    }
                    if let Step::Set(o) = step {
                        // the documented rule for the two rectangle setters, evaluated on the shadow frame control (independent of the
                        // model): inside the canvas and not empty <=> accepted
                        if !rt.stream_session_seen && !rt.shadow_unreliable && matches!(o, SetOp::Dim(..) | SetOp::Pos(..)) && rt.sh.fc.is_some() && (s == "ok" || loosen(&s) == "err:format") {
                            let want = rect_set_ok(&rt.sh.fc, rt.sh.cw, rt.sh.ch, o);
                            if want != (s == "ok") {
                                rt.obs.api_faults.push((format!("setter/rect-{}", if want { "refused-inside-canvas" } else { "accepted-outside-canvas" }),
                                    format!("Writer::{} with the frame control {:?} on a {}x{} canvas answered `{}`", o.to_str(), rt.sh.fc, rt.sh.cw, rt.sh.ch, s)));
                            }
                        }
                    }
                    if s == "ok" {
                        match step {
                            Step::Image(_) => {
                                rt.sh.whole_image_done();
                                rt.first_image_seen = true;
                            }
                            Step::Set(o) => {
                                let before_rect = rt.sh.fc;
                                let (cw, ch) = (rt.sh.cw, rt.sh.ch);
                                rect_apply(&mut rt.sh.fc, cw, ch, o);
                                if !rt.first_image_seen && before_rect.map(|r| (r.0, r.1)) != rt.sh.fc.map(|r| (r.0, r.1)) {
                                    rt.obs.rect_setter_before_first = true;
                                }
                                if !rt.first_image_seen && matches!(o, SetOp::Pos(x, y) if *x != 0 || *y != 0) {
                                    rt.obs.rect_setter_before_first = true;
                                }
                            }
                            _ => {}
                        }
                    }
                    rt.rec(before, format!("step{}:{}", i, step.to_str(false).chars().take(14).collect::<String>()), kind, &s, misuse, false);
                    results.push(s);
                }
            }
            rt.obs.steps.push(results);
            rt.obs.ranges.push((start, sink.len()));
            if panicked {
                break;
            }
        }
        let w = writer.take().unwrap();
        let before = sink.probe();
        if panicked {
            let r = guarded(move || drop(w));
            let s = match r {
                Ok(()) => "ok".to_string(),
                Err(p) => {
                    let r = panic_res(&p);
                    rt.obs.panics.push(p);
                    r
                }
            };
            rt.rec(before, "cleanup".into(), CallKind::Cleanup, &s, None, false);
        } else {
            match &case.fin {
                PFinal::Finish | PFinal::Drop => {
                    let fin = case.fin == PFinal::Finish;
                    let r = if fin { guarded(move || w.finish()).map(|x| enc_res(&x)) } else { guarded(move || drop(w)).map(|_| "ok".to_string()) };
                    let s = match r {
                        Ok(s) => s,
                        Err(p) => {
                            let r = panic_res(&p);
                            rt.obs.panics.push(p);
                            r
                        }
                    };
                    rt.rec(before, "final".into(), if fin { CallKind::WriterFinish } else { CallKind::WriterDrop }, &s, None, false);
                    rt.obs.fin = Some(vec![s]);
                }
                PFinal::Into(sess) => {
                    let size = sess.size;
                    let new_res = guarded(move || if size == 4096 { w.into_stream_writer() } else { w.into_stream_writer_with_size(size) });
                    let (rs, _) = rt.drive(new_res, before, sess, usize::MAX, true);
                    rt.obs.fin = Some(rs);
                }
            }
        }
    }
    let s = sink.0.borrow();
    let mut obs = rt.obs;
    obs.bytes = s.data.clone();
    obs.iend_attempts = s.iend_attempts;
    obs.iend_type_writes = s.iend_type_writes;
    obs.write_calls = s.write_calls;
    obs.flush_calls = s.flush_calls;
    obs.sink_errors = s.errors;
    obs.images_ok = rt.sh.images_ok;
    obs.api_faults.extend(take_api_faults());
    obs
}

impl Observed {
    pub fn ops_string(&self, case: &Case) -> String {
        self.steps
            .iter()
            .zip(&case.steps)
            .map(|(rs, st)| if matches!(st, Step::Stream(_)) { format!("[{}]", rs.join(",")) } else { rs.join(",") })
            .collect::<Vec<_>>()
            .join(",")
    }
    pub fn fin_string(&self, case: &Case) -> String {
        let l = self.fin.clone().unwrap_or_default().join(",");
        if matches!(case.fin, PFinal::Into(_)) { format!("[{}]", l) } else { l }
    }
    pub fn panicked(&self) -> bool {
        !self.panics.is_empty()
    }
    pub fn abandoned_session(&self) -> bool {
        self.sessions.iter().any(|s| s.new_ok && s.abandoned)
    }
    pub fn final_ok(&self) -> bool {
        match &self.fin {
            Some(l) => !l.is_empty() && l.iter().all(|r| r == "ok" || !r.starts_with("panic")) && l.last().map(|r| r == "ok").unwrap_or(false) && l[0] == "ok",
            None => false,
        }
    }
    /// the C12 oracle domain, re-derived from the repaired semantics (= the domain of `C12_stream_partial` plus
    /// the abandoned sessions, which are judged under the known class `stream-abandoned/*`): header ok, no
    /// panic, the program ends with a successful `finish` or a drop, no call inside a session failed on the
    /// sink, and the number of COMPLETE images (`write_image_data` = Ok, or the last row of a stream image
    /// accepted) is the declared one.  A session whose `new` is refused started nothing.
    pub fn in_domain(&self, case: &Case) -> bool {
        self.hdr == "ok" && !self.panicked() && self.final_ok() && self.images_ok == case.cfg.declared() && !self.sessions.iter().any(|s| s.write_failed)
    }
    /// the domain of `C12_stream_partial`: in the oracle domain and every session complete
    pub fn in_theorem_domain(&self, case: &Case) -> bool {
        self.in_domain(case) && !self.abandoned_session()
    }
}

// ---------------------------------------------------------------------------------------------
// the independent validator (rule list of Model/Validator.lean; same reason strings)
// ---------------------------------------------------------------------------------------------

#[derive(Clone, Debug)]
pub struct PChunk {
    pub ty: [u8; 4],
    pub data: Vec<u8>,
    pub crc_ok: bool,
    pub off: usize,
}

impl PChunk {
    pub fn name(&self) -> String {
        self.ty.iter().map(|&b| b as char).collect()
    }
    pub fn end(&self) -> usize {
        self.off + 12 + self.data.len()
    }
}

/// one zlib stream at the start of `z`: (inflated bytes, bytes consumed including the Adler-32)
pub fn zlib_inflate(z: &[u8]) -> Option<(Vec<u8>, usize)> {
    if z.len() < 2 {
        return None;
    }
    let (cmf, flg) = (z[0] as u32, z[1] as u32);
    if cmf % 16 != 8 || cmf / 16 > 7 || flg & 32 != 0 || (cmf * 256 + flg) % 31 != 0 {
        return None;
    }
    let mut d = flate2::Decompress::new(true);
    let mut out: Vec<u8> = Vec::with_capacity((z.len() * 4).max(1024));
    let mut guard = 0;
    loop {
        guard += 1;
        if guard > 10_000 {
            return None;
        }
        let (tin, tout) = (d.total_in(), d.total_out());
        let st = d.decompress_vec(&z[tin as usize..], &mut out, flate2::FlushDecompress::None);
        match st {
            Ok(flate2::Status::StreamEnd) => break,
            Ok(_) => {
                if out.len() == out.capacity() {
                    out.reserve(out.capacity().max(1024));
                } else if d.total_in() == tin && d.total_out() == tout {
                    return None; // input exhausted
                }
            }
            Err(_) => return None,
        }
    }
    let used = d.total_in() as usize;
    if used < 6 || used > z.len() {
        return None;
    }
    let ad = u32::from_be_bytes([z[used - 4], z[used - 3], z[used - 2], z[used - 1]]);
    if ad != adler32(&out) {
        return None;
    }
    // The streaming inflater above writes into a wrapping window: a match whose distance reaches back before the first
    // byte of the output is not noticed there (zeros come out, and the Adler-32 of an all-zero image still fits).  Such a
    // stream is not a deflate stream; one-shot inflation into a buffer that does not wrap refuses it.
    match miniz_oxide::inflate::decompress_to_vec_zlib(&z[..used]) {
        Ok(o) if o == out => {}
        _ => return None,
    }
    Some((out, used))
}

fn zlib_whole(z: &[u8]) -> bool {
    matches!(zlib_inflate(z), Some((_, used)) if used == z.len())
}

fn is_letter(b: u8) -> bool {
    b.is_ascii_alphabetic()
}

/// rule 1: byte level
pub fn parse_strict(f: &[u8]) -> Result<Vec<PChunk>, String> {
    if f.len() < 8 || f[..8] != SIG {
        return Err("signature".into());
    }
    let mut cs: Vec<PChunk> = vec![];
    let mut p = 8usize;
    loop {
        if p == f.len() {
            break;
        }
        if p + 12 > f.len() {
            return Err("truncated-chunk-header".into());
        }
        let len = be32s(f, p) as usize;
        if p + 12 + len > f.len() {
            return Err("truncated-chunk".into());
        }
        let ty = [f[p + 4], f[p + 5], f[p + 6], f[p + 7]];
        let crc = be32s(f, p + 8 + len);
        let c = PChunk { ty, data: f[p + 8..p + 8 + len].to_vec(), crc_ok: crc32(&f[p + 4..p + 8 + len]) == crc, off: p };
        let iend = &ty == b"IEND";
        cs.push(c);
        if iend {
            break;
        }
        p += 12 + len;
    }
    if cs.iter().any(|c| c.data.len() as u64 >= 1u64 << 31) {
        return Err("chunk-length".into());
    }
    if cs.iter().any(|c| !c.ty.iter().all(|&b| is_letter(b))) {
        return Err("chunk-type".into());
    }
    if cs.iter().any(|c| !c.crc_ok) {
        return Err("crc".into());
    }
    let end = cs.last().map(|c| c.end()).unwrap_or(8);
    if end != f.len() {
        return Err("data-after-iend".into());
    }
    Ok(cs)
}

/// all complete chunks (continues after IEND); (chunks, offset after the last complete chunk, signature ok)
pub fn parse_lenient(f: &[u8]) -> (Vec<PChunk>, usize, bool) {
    if f.len() < 8 || f[..8] != SIG {
        return (vec![], 0, false);
    }
    let mut cs = vec![];
    let mut p = 8usize;
    while p + 12 <= f.len() {
        let len = be32s(f, p) as usize;
        if p + 12 + len > f.len() {
            break;
        }
        let ty = [f[p + 4], f[p + 5], f[p + 6], f[p + 7]];
        let crc = be32s(f, p + 8 + len);
        cs.push(PChunk { ty, data: f[p + 8..p + 8 + len].to_vec(), crc_ok: crc32(&f[p + 4..p + 8 + len]) == crc, off: p });
        p += 12 + len;
    }
    (cs, p, true)
}

#[derive(Clone, Copy, Debug)]
struct Ihdr {
    w: u32,
    h: u32,
    depth: u8,
    color: u8,
    interlace: u8,
}

fn legal_pair(color: u8, depth: u8) -> bool {
    match color {
        0 => matches!(depth, 1 | 2 | 4 | 8 | 16),
        3 => matches!(depth, 1 | 2 | 4 | 8),
        2 | 4 | 6 => matches!(depth, 8 | 16),
        _ => false,
    }
}

fn parse_ihdr(d: &[u8]) -> Result<Ihdr, String> {
    if d.len() != 13 {
        return Err("ihdr-length".into());
    }
    let h = Ihdr { w: be32s(d, 0), h: be32s(d, 4), depth: d[8], color: d[9], interlace: d[12] };
    if h.w == 0 || h.h == 0 {
        return Err("ihdr-zero-dimension".into());
    }
    if !legal_pair(h.color, h.depth) {
        return Err("ihdr-color-depth".into());
    }
    if d[10] != 0 {
        return Err("ihdr-compression".into());
    }
    if d[11] != 0 {
        return Err("ihdr-filter".into());
    }
    if h.interlace > 1 {
        return Err("ihdr-interlace".into());
    }
    Ok(h)
}

#[derive(Clone, Copy, Debug, PartialEq, Eq)]
struct FctlV {
    seq: u32,
    w: u32,
    h: u32,
    x: u32,
    y: u32,
    dispose: u8,
    blend: u8,
}

enum CSum {
    Plte(usize),
    Idat(Vec<u8>),
    Iend(usize),
    Actl(u32),
    Fctl(FctlV),
    Fdat(u32, Vec<u8>),
    Ihdr,
    Other([u8; 4]),
}

fn summarize(c: &PChunk) -> Result<CSum, String> {
    Ok(match &c.ty {
        b"IHDR" => CSum::Ihdr,
        b"PLTE" => CSum::Plte(c.data.len()),
        b"IDAT" => CSum::Idat(c.data.clone()),
        b"IEND" => CSum::Iend(c.data.len()),
        b"acTL" => {
            if c.data.len() != 8 {
                return Err("actl-length".into());
            }
            CSum::Actl(be32s(&c.data, 0))
        }
        b"fcTL" => {
            if c.data.len() != 26 {
                return Err("fctl-length".into());
            }
            let d = &c.data;
            CSum::Fctl(FctlV { seq: be32s(d, 0), w: be32s(d, 4), h: be32s(d, 8), x: be32s(d, 12), y: be32s(d, 16), dispose: d[24], blend: d[25] })
        }
        b"fdAT" => {
            if c.data.len() < 4 {
                return Err("fdat-too-short".into());
            }
            CSum::Fdat(be32s(&c.data, 0), c.data[4..].to_vec())
        }
        t => CSum::Other(*t),
    })
}

const ADAM7: [(u64, u64, u64, u64); 7] = [(0, 0, 8, 8), (4, 0, 8, 8), (0, 4, 4, 8), (2, 0, 4, 4), (0, 2, 2, 4), (1, 0, 2, 2), (0, 1, 1, 2)];

fn pass_count(n: u64, off: u64, step: u64) -> u64 {
    if n <= off { 0 } else { (n - off + step - 1) / step }
}

/// the image rule: one zlib stream, nothing after it, exactly the scanlines of a w x h image, filter types <= 4
fn img_ok(ih: &Ihdr, w: u32, h: u32, z: &[u8]) -> Result<(), String> {
    let (raw, used) = match zlib_inflate(z) {
        None => return Err("zlib-corrupt".into()),
        Some(x) => x,
    };
    if used != z.len() {
        return Err("zlib-trailing-data".into());
    }
    let bpp = refpng::samples(ih.color) as u128 * ih.depth as u128;
    let rb = |pw: u64| -> u128 { (pw as u128 * bpp + 7) / 8 };
    let layout: Vec<(u128, u128)> = if ih.interlace == 0 {
        vec![(h as u128, rb(w as u64))]
    } else {
        ADAM7
            .iter()
            .filter_map(|&(xo, yo, xs, ys)| {
                let pw = pass_count(w as u64, xo, xs);
                let ph = pass_count(h as u64, yo, ys);
                if pw > 0 && ph > 0 { Some((ph as u128, rb(pw))) } else { None }
            })
            .collect()
    };
    let size: u128 = layout.iter().map(|(r, b)| r * (1 + b)).sum();
    if raw.len() as u128 != size {
        return Err("image-data-size".into());
    }
    let mut pos = 0usize;
    for (rows, b) in layout {
        let stride = 1 + b as usize;
        for i in 0..rows as usize {
            if raw[pos + i * stride] > 4 {
                return Err("filter-type".into());
            }
        }
        pos += rows as usize * stride;
    }
    Ok(())
}

enum Phase {
    Pre,
    Idat(Vec<u8>),
    Fdat(u32, u32, Vec<u8>),
    Mid,
    Done,
}

struct Sk {
    ih: Ihdr,
    plte: bool,
    frames: Option<u32>,
    pending: Option<FctlV>,
    next_seq: u32,
    fctls: u32,
    phase: Phase,
}

impl Sk {
    fn close_run(&mut self) -> Result<(), String> {
        match &self.phase {
            Phase::Idat(acc) => {
                img_ok(&self.ih, self.ih.w, self.ih.h, acc)?;
                self.phase = Phase::Mid;
            }
            Phase::Fdat(w, h, acc) => {
                img_ok(&self.ih, *w, *h, acc)?;
                self.phase = Phase::Mid;
            }
            _ => {}
        }
        Ok(())
    }
    fn step(&mut self, c: CSum) -> Result<(), String> {
        if matches!(self.phase, Phase::Done) {
            return Err("chunk-after-iend".into());
        }
        match c {
            CSum::Ihdr => Err("duplicate-ihdr".into()),
            CSum::Plte(len) => {
                if !matches!(self.phase, Phase::Pre) {
                    return Err("plte-after-idat".into());
                }
                if self.plte {
                    return Err("duplicate-plte".into());
                }
                if self.ih.color == 0 || self.ih.color == 4 {
                    return Err("plte-forbidden".into());
                }
                if len % 3 != 0 || len == 0 || len > 768 {
                    return Err("plte-length".into());
                }
                self.plte = true;
                Ok(())
            }
            CSum::Idat(d) => match &mut self.phase {
                Phase::Pre => {
                    if self.ih.color == 3 && !self.plte {
                        return Err("plte-missing".into());
                    }
                    if let Some(f) = self.pending {
                        if !(f.x == 0 && f.y == 0 && f.w == self.ih.w && f.h == self.ih.h) {
                            return Err("first-frame-not-canvas".into());
                        }
                        self.pending = None;
                    }
                    self.phase = Phase::Idat(d);
                    Ok(())
                }
                Phase::Idat(acc) => {
                    acc.extend_from_slice(&d);
                    Ok(())
                }
                _ => Err("idat-not-consecutive".into()),
            },
            CSum::Iend(len) => {
                self.close_run()?;
                if !matches!(self.phase, Phase::Mid) {
                    return Err("no-idat".into());
                }
                if self.pending.is_some() {
                    return Err("fctl-without-data".into());
                }
                if self.frames.is_some() && self.frames != Some(self.fctls) {
                    return Err("fctl-count".into());
                }
                if len != 0 {
                    return Err("iend-not-empty".into());
                }
                self.phase = Phase::Done;
                Ok(())
            }
            CSum::Actl(n) => {
                if !matches!(self.phase, Phase::Pre) {
                    return Err("actl-after-idat".into());
                }
                if self.frames.is_some() {
                    return Err("duplicate-actl".into());
                }
                if n == 0 {
                    return Err("actl-zero-frames".into());
                }
                self.frames = Some(n);
                Ok(())
            }
            CSum::Fctl(f) => {
                self.close_run()?;
                if self.frames.is_none() {
                    return Err("fctl-without-actl".into());
                }
                if self.pending.is_some() {
                    return Err("fctl-without-data".into());
                }
                if f.seq != self.next_seq {
                    return Err("seq-number".into());
                }
                if f.w == 0 || f.h == 0 {
                    return Err("frame-zero-size".into());
                }
                if f.x as u64 + f.w as u64 > self.ih.w as u64 || f.y as u64 + f.h as u64 > self.ih.h as u64 {
                    return Err("frame-outside-canvas".into());
                }
                if f.dispose > 2 {
                    return Err("fctl-dispose-op".into());
                }
                if f.blend > 1 {
                    return Err("fctl-blend-op".into());
                }
                self.pending = Some(f);
                self.next_seq = self.next_seq.wrapping_add(1);
                self.fctls += 1;
                Ok(())
            }
            CSum::Fdat(seq, d) => {
                if self.frames.is_none() {
                    return Err("fdat-without-actl".into());
                }
                if seq != self.next_seq {
                    return Err("seq-number".into());
                }
                match &mut self.phase {
                    Phase::Pre => Err("fdat-before-idat".into()),
                    Phase::Fdat(_, _, acc) => {
                        acc.extend_from_slice(&d);
                        self.next_seq = self.next_seq.wrapping_add(1);
                        Ok(())
                    }
                    _ => {
                        self.close_run()?;
                        match self.pending {
                            None => Err("fdat-without-fctl".into()),
                            Some(f) => {
                                self.phase = Phase::Fdat(f.w, f.h, d);
                                self.pending = None;
                                self.next_seq = self.next_seq.wrapping_add(1);
                                Ok(())
                            }
                        }
                    }
                }
            }
            CSum::Other(ty) => {
                self.close_run()?;
                if ty[0] & 32 == 0 {
                    return Err("unknown-critical".into());
                }
                if ty[2] & 32 != 0 {
                    return Err("chunk-type-reserved-bit".into());
                }
                Ok(())
            }
        }
    }
}

const ONCE: [&[u8; 4]; 14] = [b"cHRM", b"gAMA", b"iCCP", b"sBIT", b"sRGB", b"bKGD", b"hIST", b"tRNS", b"pHYs", b"tIME", b"eXIf", b"cICP", b"mDCV", b"cLLI"];
const PRE_PLTE: [&[u8; 4]; 8] = [b"cHRM", b"gAMA", b"iCCP", b"sBIT", b"sRGB", b"cICP", b"mDCV", b"cLLI"];
const POST_PLTE: [&[u8; 4]; 3] = [b"bKGD", b"hIST", b"tRNS"];
const PRE_IDAT: [&[u8; 4]; 3] = [b"pHYs", b"sPLT", b"eXIf"];

fn tname(t: &[u8; 4]) -> String {
    t.iter().map(|&b| b as char).collect()
}

fn order_ok(ts: &[[u8; 4]]) -> Result<(), String> {
    let isin = |set: &[&[u8; 4]], t: &[u8; 4]| set.iter().any(|s| *s == t);
    let once: Vec<&[u8; 4]> = ts.iter().filter(|t| isin(&ONCE, t)).collect();
    for (i, t) in once.iter().enumerate() {
        if once[i + 1..].contains(t) {
            return Err(format!("duplicate-{}", tname(t)));
        }
    }
    if let Some(i) = ts.iter().position(|t| t == b"PLTE") {
        if let Some(t) = ts[i + 1..].iter().find(|t| isin(&PRE_PLTE, t)) {
            return Err(format!("{}-after-plte", tname(t)));
        }
    }
    if let Some(i) = ts.iter().position(|t| t == b"IDAT") {
        if let Some(t) = ts[i + 1..].iter().find(|t| isin(&PRE_PLTE, t) || isin(&POST_PLTE, t) || isin(&PRE_IDAT, t)) {
            return Err(format!("{}-after-idat", tname(t)));
        }
    }
    if let Some(i) = ts.iter().position(|t| isin(&POST_PLTE, t)) {
        if ts[i + 1..].iter().any(|t| t == b"PLTE") {
            return Err(format!("{}-before-plte", tname(&ts[i])));
        }
    }
    Ok(())
}

/// keyword of 1..79 bytes followed by NUL; the rest after the separator
fn split_keyword(d: &[u8]) -> Option<&[u8]> {
    let i = d.iter().position(|&b| b == 0)?;
    if (1..=79).contains(&i) { Some(&d[i + 1..]) } else { None }
}

fn content_ok(ih: &Ihdr, plte_entries: usize, c: &PChunk) -> Result<(), String> {
    let n = c.data.len();
    let d = &c.data;
    match &c.ty {
        b"tRNS" => {
            if ih.color == 4 || ih.color == 6 {
                Err("trns-forbidden".into())
            } else if (ih.color == 0 && n != 2) || (ih.color == 2 && n != 6) || (ih.color == 3 && (n == 0 || n > plte_entries)) {
                Err("trns-length".into())
            } else {
                Ok(())
            }
        }
        b"gAMA" => if n == 4 { Ok(()) } else { Err("gama-length".into()) },
        b"cHRM" => if n == 32 { Ok(()) } else { Err("chrm-length".into()) },
        b"sRGB" => {
            if n != 1 {
                Err("srgb-length".into())
            } else if d[0] > 3 {
                Err("srgb-intent".into())
            } else {
                Ok(())
            }
        }
        b"pHYs" => {
            if n != 9 {
                Err("phys-length".into())
            } else if d[8] > 1 {
                Err("phys-unit".into())
            } else {
                Ok(())
            }
        }
        b"tEXt" => split_keyword(d).map(|_| ()).ok_or_else(|| "text-keyword".to_string()),
        b"zTXt" => match split_keyword(d) {
            None => Err("text-keyword".into()),
            Some(rest) => {
                if rest.is_empty() || rest[0] != 0 {
                    Err("ztxt-method".into())
                } else if zlib_whole(&rest[1..]) {
                    Ok(())
                } else {
                    Err("ztxt-stream".into())
                }
            }
        },
        b"iTXt" => match split_keyword(d) {
            None => Err("text-keyword".into()),
            Some(rest) => {
                if rest.len() < 2 {
                    return Err("itxt-header".into());
                }
                let (flag, method) = (rest[0], rest[1]);
                if flag > 1 || method != 0 {
                    return Err("itxt-header".into());
                }
                let r2 = &rest[2..];
                let i = match r2.iter().position(|&b| b == 0) {
                    None => return Err("itxt-header".into()),
                    Some(i) => i,
                };
                let r3 = &r2[i + 1..];
                let j = match r3.iter().position(|&b| b == 0) {
                    None => return Err("itxt-header".into()),
                    Some(j) => j,
                };
                let text = &r3[j + 1..];
                if flag == 1 && !zlib_whole(text) {
                    Err("itxt-stream".into())
                } else {
                    Ok(())
                }
            }
        },
        b"iCCP" => match split_keyword(d) {
            None => Err("iccp-header".into()),
            Some(rest) => {
                if rest.is_empty() || rest[0] != 0 {
                    Err("iccp-header".into())
                } else if zlib_whole(&rest[1..]) {
                    Ok(())
                } else {
                    Err("iccp-stream".into())
                }
            }
        },
        _ => Ok(()),
    }
}

/// The strict validator: `Ok(())` or the first rule broken.
pub fn validate(bytes: &[u8]) -> Result<(), String> {
    let cs = parse_strict(bytes)?;
    if cs.is_empty() {
        return Err("no-chunks".into());
    }
    if &cs[0].ty != b"IHDR" {
        return Err("first-chunk-not-ihdr".into());
    }
    let ih = parse_ihdr(&cs[0].data)?;
    let mut sums = vec![];
    for c in &cs[1..] {
        sums.push(summarize(c)?);
    }
    let mut sk = Sk { ih, plte: false, frames: None, pending: None, next_seq: 0, fctls: 0, phase: Phase::Pre };
    for s in sums {
        sk.step(s)?;
    }
    if !matches!(sk.phase, Phase::Done) {
        return Err("iend-missing".into());
    }
    let ts: Vec<[u8; 4]> = cs.iter().map(|c| c.ty).collect();
    order_ok(&ts)?;
    let plte_entries = cs.iter().find(|c| &c.ty == b"PLTE").map(|c| c.data.len() / 3).unwrap_or(0);
    for c in &cs {
        content_ok(&ih, plte_entries, c)?;
    }
    Ok(())
}

pub fn verdict_str(r: &Result<(), String>) -> String {
    match r {
        Ok(()) => "ok".into(),
        Err(e) => e.clone(),
    }
}

// ---------------------------------------------------------------------------------------------
// model side: table, answer parsing, comparison
// ---------------------------------------------------------------------------------------------

#[derive(Clone, Debug, Default)]
pub struct ModelAns {
    pub hdr: String,
    pub ops: String,
    pub fin: String,
    pub iend: usize,
    pub n: usize,
    pub fnv: String,
    pub sk: String,
    pub v: String,
}

pub fn parse_model_ans(s: &str) -> Option<ModelAns> {
    let mut m = ModelAns::default();
    let mut seen = 0;
    for t in s.split(' ') {
        let (k, v) = t.split_once('=')?;
        match k {
            "hdr" => m.hdr = v.into(),
            "ops" => m.ops = v.into(),
            "fin" => m.fin = v.into(),
            "iend" => m.iend = v.parse().ok()?,
            "n" => m.n = v.parse().ok()?,
            "fnv" => m.fnv = v.into(),
            "sk" => m.sk = v.into(),
            "v" => m.v = v.into(),
            _ => return None,
        }
        seen += 1;
    }
    if seen == 8 { Some(m) } else { None }
}

/// `<keyhex>:<zhex>` entries; `None` when two entries share the key but not the stream
#[derive(Clone, Debug, Default)]
pub struct Table {
    pub map: HashMap<Vec<u8>, Vec<u8>>,
    pub conflict: bool,
    pub incomplete: bool,
}

impl Table {
    pub fn add(&mut self, key: Vec<u8>, z: Vec<u8>) {
        if let Some(old) = self.map.get(&key) {
            if *old != z {
                self.conflict = true;
            }
        } else {
            self.map.insert(key, z);
        }
    }
    pub fn merge(&mut self, other: &Table) {
        for (k, z) in &other.map {
            self.add(k.clone(), z.clone());
        }
        self.conflict |= other.conflict;
    }
    pub fn to_str(&self) -> String {
        if self.map.is_empty() {
            return "-".into();
        }
        let mut e: Vec<String> = self.map.iter().map(|(k, z)| format!("{}:{}", hex(k), hex(z))).collect();
        e.sort();
        e.join(",")
    }
}

fn is_data_chunk(c: &PChunk) -> bool {
    &c.ty == b"IDAT" || &c.ty == b"fdAT"
}

/// learn what the real compressor answered from the bytes of a run
pub fn learn_table(case: &Case, obs: &Observed) -> Table {
    let mut t = Table::default();
    let animated = case.cfg.anim.is_some() || case.cfg.fc.is_some();
    // every operation starts at a chunk boundary (also after a partially accepted chunk of a failed call)
    let in_range = |r: (usize, usize)| -> Vec<PChunk> {
        let b = &obs.bytes;
        let mut out = vec![];
        let mut p = r.0;
        while p + 12 <= r.1.min(b.len()) {
            let len = be32s(b, p) as usize;
            if p + 12 + len > r.1.min(b.len()) {
                break;
            }
            let c = PChunk { ty: [b[p + 4], b[p + 5], b[p + 6], b[p + 7]], data: b[p + 8..p + 8 + len].to_vec(), crc_ok: true, off: p };
            p += 12 + len;
            if is_data_chunk(&c) {
                out.push(c);
            }
        }
        out
    };
    for (i, st) in case.steps.iter().enumerate() {
        if i >= obs.steps.len() {
            break;
        }
        if let Step::Image(d) = st {
            if obs.steps[i].len() == 1 && obs.steps[i][0] == "ok" {
                let mut z = vec![];
                for c in in_range(obs.ranges[i]) {
                    if &c.ty == b"fdAT" {
                        z.extend_from_slice(&c.data[4.min(c.data.len())..]);
                    } else {
                        z.extend_from_slice(&c.data);
                    }
                }
                if z.is_empty() {
                    t.incomplete = true;
                } else {
                    t.add(d.clone(), z);
                }
            }
        }
    }
    let _ = animated;
    for s in &obs.sessions {
        if !s.new_ok || s.images.iter().any(|(n, _)| *n == 0) {
            continue;
        }
        let mut payload = vec![];
        for c in in_range(s.range) {
            if &c.ty == b"fdAT" {
                payload.extend_from_slice(&c.data[4.min(c.data.len())..]);
            } else {
                payload.extend_from_slice(&c.data);
            }
        }
        // every image the session started leaves one zlib stream (ended by `finish_image` or by the drop)
        let expected = s.images.len();
        let mut zs = vec![];
        let mut pos = 0;
        while pos < payload.len() {
            match zlib_inflate(&payload[pos..]) {
                Some((_, used)) => {
                    zs.push(payload[pos..pos + used].to_vec());
                    pos += used;
                }
                None => {
                    t.incomplete = true;
                    break;
                }
            }
        }
        if zs.len() != expected {
            t.incomplete = true;
            continue;
        }
        let mut off = 0usize;
        for (j, z) in zs.into_iter().enumerate() {
            let (size, rb) = s.images[j];
            let img = &s.accepted[off.min(s.accepted.len())..(off + size).min(s.accepted.len())];
            off += size;
            let mut key = vec![];
            for row in img.chunks(rb.max(1)) {
                if row.len() == rb {
                    key.push(0);
                    key.extend_from_slice(row);
                }
            }
            t.add(key, z);
        }
    }
    t
}

/// skeleton entries with consecutive data chunks of one type merged: `IDAT:<total>` / `fdAT:<total>`
pub fn merged_skeleton(entries: &[(String, usize)]) -> Vec<String> {
    let mut out: Vec<(String, usize, bool)> = vec![];
    for (name, len) in entries {
        let data = name == "IDAT" || name == "fdAT";
        if let Some(last) = out.last_mut() {
            if data && last.2 && last.0 == *name {
                last.1 += len;
                continue;
            }
        }
        out.push((name.clone(), *len, data));
    }
    out.into_iter().map(|(n, l, _)| format!("{}:{}", n, l)).collect()
}

/// skeleton entries with contents: (type, length, extra); extra = hex of the whole body for fcTL / acTL (every
/// field: sequence number, rectangle, delay, dispose_op, blend_op / frames, plays), the sequence number for fdAT
fn model_sk_full(sk: &str) -> Vec<(String, usize, String)> {
    if sk.is_empty() {
        return vec![];
    }
    sk.split('/')
        .map(|e| {
            let mut p = e.split(':');
            let n = p.next().unwrap_or("").to_string();
            let l = p.next().and_then(|x| x.parse().ok()).unwrap_or(0);
            let x = p.next().unwrap_or("").to_string();
            (n, l, x)
        })
        .collect()
}

fn real_sk_full(bytes: &[u8]) -> Vec<(String, usize, String)> {
    parse_lenient(bytes)
        .0
        .iter()
        .map(|c| {
            let n = c.name();
            let x = if n == "fcTL" || n == "acTL" {
                if c.data.is_empty() { "-".to_string() } else { hex(&c.data) }
            } else if n == "fdAT" && c.data.len() >= 4 {
                be32s(&c.data, 0).to_string()
            } else {
                String::new()
            };
            (n, c.data.len(), x)
        })
        .collect()
}

/// `exact`: every chunk with its length and contents (chunk partition and sequence numbers included).
/// Otherwise consecutive data chunks are merged (`IDAT:<payload>` / `fdAT:<payload without sequence numbers>`;
/// with `lengths = false` only their type is kept) and the sequence number of an fcTL is masked — the other eight
/// fields are compared.
fn content_skeleton(e: &[(String, usize, String)], exact: bool, lengths: bool) -> Vec<String> {
    let mut out: Vec<String> = vec![];
    let mut run: Option<(String, usize)> = None;
    let flush = |run: &mut Option<(String, usize)>, out: &mut Vec<String>| {
        if let Some((n, l)) = run.take() {
            out.push(if lengths { format!("{}:{}", n, l) } else { n });
        }
    };
    for (n, l, x) in e {
        let data = n == "IDAT" || n == "fdAT";
        if exact {
            out.push(if x.is_empty() { format!("{}:{}", n, l) } else { format!("{}:{}:{}", n, l, x) });
            continue;
        }
        if data {
            let pl = if n == "fdAT" { l.saturating_sub(4) } else { *l };
            match &mut run {
                Some((rn, rl)) if rn == n => *rl += pl,
                _ => {
                    flush(&mut run, &mut out);
                    run = Some((n.clone(), pl));
                }
            }
            continue;
        }
        flush(&mut run, &mut out);
        if n == "fcTL" && x.len() >= 8 {
            out.push(format!("fcTL:{}:********{}", l, &x[8..]));
        } else if x.is_empty() {
            out.push(format!("{}:{}", n, l));
        } else {
            out.push(format!("{}:{}:{}", n, l, x));
        }
    }
    flush(&mut run, &mut out);
    out
}

fn model_sk_entries(sk: &str) -> Vec<(String, usize)> {
    if sk.is_empty() {
        return vec![];
    }
    sk.split('/')
        .map(|e| {
            let mut p = e.split(':');
            let n = p.next().unwrap_or("").to_string();
            let l = p.next().and_then(|x| x.parse().ok()).unwrap_or(0);
            (n, l)
        })
        .collect()
}

fn real_sk_entries(bytes: &[u8]) -> Vec<(String, usize)> {
    parse_lenient(bytes).0.iter().map(|c| (c.name(), c.data.len())).collect()
}

pub type Finding = (&'static str, String, String);

/// compare the real run with the model's answer according to the comparison rules
pub fn compare_model(case: &Case, obs: &Observed, ans: &str, table: &Table) -> (Vec<Finding>, &'static str) {
    let mut f: Vec<Finding> = vec![];
    if case.sink.call.is_some() {
        return (f, "skipped: call-index fault");
    }
    let stream = case.has_stream();
    // stream sessions on a failing sink: the byte offset at which the fault fires is comparable only when the
    // moments at which chunks reach the sink do not depend on the compressor's timing: every chunk buffer holds a
    // whole image's stream (one chunk per image, written by `finish_image`) and no session flushes
    let faulty_stream = stream && !case.sink.never_fails();
    if faulty_stream && !case.stream_timing_free() {
        return (f, "skipped: stream + failing sink");
    }
    if faulty_stream && obs.sessions.iter().any(|s| s.new_ok && s.abandoned && !s.write_failed) {
        // the program itself ends a session in the middle of an image: its drop flushes (sync flush, extra chunk)
        return (f, "skipped: stream + failing sink");
    }
    if table.conflict {
        return (f, "skipped: equal data, different streams");
    }
    let m = match parse_model_ans(ans) {
        Some(m) => m,
        None => {
            f.push(("model", "protocol".into(), format!("model answered `{}`", ans.chars().take(200).collect::<String>())));
            return (f, "protocol");
        }
    };
    let pre = if stream { "stream" } else { "writer" };
    let mut diff = |what: &str, real: String, model: String| {
        if real != model && loosen(&real) == loosen(&model) {
            // equal up to the names of format errors (see `loosen`): not a disagreement about anything a property observes
            return;
        }
        if real != model {
            // long skeletons: show the first entry that differs
            let (r, m) = if real.len() > 300 || model.len() > 300 {
                let (re, me): (Vec<&str>, Vec<&str>) = (real.split('/').collect(), model.split('/').collect());
                let k = re.iter().zip(me.iter()).take_while(|(a, b)| a == b).count();
                let show = |v: &Vec<&str>| format!("entry {} of {}: …{}", k, v.len(), v[k.saturating_sub(1).min(v.len())..(k + 3).min(v.len())].join("/"));
                (show(&re), show(&me))
            } else {
                (real.clone(), model.clone())
            };
            f.push(("model", format!("{}/{}", pre, what), format!("{}: real `{}` model `{}`", what, r.chars().take(300).collect::<String>(), m.chars().take(300).collect::<String>())));
        }
    };
    diff("hdr", obs.hdr.clone(), m.hdr.clone());
    diff("ops", obs.ops_string(case), m.ops.clone());
    diff("fin", obs.fin_string(case), m.fin.clone());
    let animated = case.cfg.anim.is_some() || case.cfg.fc.is_some();
    let mode;
    if faulty_stream {
        diff("iend", obs.iend_attempts.to_string(), m.iend.to_string());
        mode = "stream + failing sink (one chunk per image, no flush): results + IEND attempts";
    } else if !stream {
        diff("iend", obs.iend_attempts.to_string(), m.iend.to_string());
        diff("n", obs.bytes.len().to_string(), m.n.to_string());
        if obs.bytes.len() == m.n {
            diff("bytes", format!("{:016x}", fnv64(&obs.bytes)), m.fnv.clone());
        }
        mode = "whole: results + bytes";
    } else if !animated {
        if table.incomplete {
            mode = "stream: results only (table incomplete)";
        } else {
            diff("iend", obs.iend_attempts.to_string(), m.iend.to_string());
            diff("skeleton", merged_skeleton(&real_sk_entries(&obs.bytes)).join("/"), merged_skeleton(&model_sk_entries(&m.sk)).join("/"));
            mode = "stream: results + merged skeleton";
        }
    } else {
        // every field of every fcTL / acTL chunk is compared (sequence number, rectangle, delay, dispose_op,
        // blend_op): a setter value that gets lost on the way into the file is a disagreement
        diff("iend", obs.iend_attempts.to_string(), m.iend.to_string());
        // (a session that ends in the middle of an image is flushed by its drop)
        let flushed = obs.sessions.iter().any(|s| s.flushed || (s.new_ok && s.abandoned));
        let (exact, lengths) = (!table.incomplete && !flushed, !table.incomplete);
        diff("chunks", content_skeleton(&real_sk_full(&obs.bytes), exact, lengths).join("/"), content_skeleton(&model_sk_full(&m.sk), exact, lengths).join("/"));
        mode = if exact {
            "stream+animated: results + every chunk (length, fcTL/acTL contents, fdAT sequence numbers)"
        } else if lengths {
            "stream+animated: results + merged data chunks + fcTL/acTL contents (fcTL sequence number masked: flush)"
        } else {
            "stream+animated: results + chunk types + fcTL/acTL contents (table incomplete)"
        };
    }
    (f, mode)
}

/// class key of a validator failure on an in-domain run
pub fn oracle_class(case: &Case, obs: &Observed, reason: &str) -> String {
    let stream = case.has_stream();
    let animated = case.cfg.anim.is_some() || case.cfg.fc.is_some();
    let _ = (stream, animated);
    if obs.abandoned_session() {
        // N10 (open): a session that ends in the middle of an image leaves its chunks in the file
        format!("stream-abandoned/{}", reason)
    } else if blob_rule_broken_as_configured(&case.cfg, reason) {
        // D22 (open): Encoder::set_trns / set_palette take raw bytes and encode_header writes them as they are; the chunk
        // the validator refuses is the one the CONFIGURATION asked for (a legal configuration whose tRNS / PLTE comes out
        // wrong is still `invalid/...`)
        format!("invalid/{}/as-configured", reason)
    } else {
        // inside the domain of C12_writer / C12_stream_partial: nothing is known to be wrong here
        format!("invalid/{}", reason)
    }
}

/// the configured raw tRNS / PLTE bytes themselves break the rule the validator names (rules written out here once more)
fn blob_rule_broken_as_configured(c: &Cfg, reason: &str) -> bool {
    let pal_entries = c.pal.as_ref().map(|p| p.len() / 3).unwrap_or(0);
    match reason {
        "trns-forbidden" => c.trns.is_some() && (c.color == 4 || c.color == 6),
        "trns-length" => match &c.trns {
            Some(t) => (c.color == 0 && t.len() != 2) || (c.color == 2 && t.len() != 6) || (c.color == 3 && (t.is_empty() || t.len() > pal_entries)),
            None => false,
        },
        "plte-length" => c.pal.as_ref().map(|p| p.is_empty() || p.len() % 3 != 0 || p.len() > 768).unwrap_or(false),
        _ => false,
    }
}

/// validators must agree; `exact`: also on the reason
pub fn compare_validators(rust: &Result<(), String>, lean: &str, exact: bool) -> Option<Finding> {
    let r = verdict_str(rust);
    let l = if lean == "ok" { "ok".to_string() } else if let Some(x) = lean.strip_prefix("bad ") { x.to_string() } else { format!("?{}", lean.chars().take(40).collect::<String>()) };
    if r == l {
        return None;
    }
    if !exact && r != "ok" && l != "ok" && !l.starts_with('?') {
        return None;
    }
    Some(("model", format!("validator/{}-vs-{}", r, l), format!("Rust validator says `{}`, `c12 validate` says `{}`", r, lean.chars().take(80).collect::<String>())))
}

/// The outcomes the repairs f1da483 / 90b6476 / 92ed98c promise, checked on the real calls (independent of
/// the model): `with_info` answers an inconsistent frame control with the right error and writes nothing;
/// a first image that does not cover the canvas and an indexed image without palette are refused.
pub fn repaired_misuse_oracles(case: &Case, obs: &Observed) -> Vec<Finding> {
    let mut f: Vec<Finding> = vec![];
    if case.cfg.fc.is_some() && !obs.panicked() {
        match expected_with_info_err(&case.cfg) {
            Some(e) => {
                if loosen(&obs.hdr) != loosen(e) {
                    f.push(("oracle", "misuse-accepted/with-info-fctl".into(), format!("Encoder::with_info answered `{}` for an inconsistent frame control, expected `{}` (or another format error)", obs.hdr, e)));
                } else if !obs.bytes.is_empty() {
                    f.push(("oracle", "misuse-accepted/with-info-fctl".into(), format!("Encoder::with_info refused the configuration but {} bytes reached the sink", obs.bytes.len())));
                }
            }
            None => {
                if matches!(obs.hdr.as_str(), "err:zeroWidth" | "err:zeroHeight" | "err:outOfBounds") && case.cfg.w != 0 && case.cfg.h != 0 {
                    f.push(("oracle", "with-info-fctl/refused-consistent".into(), format!("Encoder::with_info refused a frame control inside the canvas: {}", obs.hdr)));
                }
            }
        }
    }
    for c in &obs.calls {
        if let Some(m) = c.misuse {
            if (m == "first-image-subframe" || m == "indexed-no-palette") && c.res == "ok" {
                f.push(("oracle", format!("misuse-accepted/{}", m), format!("{} ({}) returned Ok although it is misuse: {}", c.kind.name(), c.what, m)));
            }
            // the refused `Encoder` calls of `Cfg::mis`: the documented error, nothing else
            if c.kind == CallKind::EncoderSetter && loosen(&c.res) != loosen(enc_misuse_expected(&c.what)) {
                let key = if c.res == "ok" { format!("misuse-accepted/{}", m) } else { format!("misuse-wrong-error/{}", m) };
                f.push(("oracle", key, format!("Encoder::{} answered `{}`, expected `{}`", c.what, c.res, enc_misuse_expected(&c.what))));
            }
        }
    }
    for (class, what) in &obs.api_faults {
        f.push(("oracle", class.clone(), what.clone()));
    }
    f
}

/// the misuse classes judged by `repaired_misuse_oracles` (C19 does not judge them a second time)
pub fn judged_with_repairs(m: &str) -> bool {
    matches!(m, "first-image-subframe" | "indexed-no-palette" | "encoder-zero-frames" | "with-info-half-animated" | "encoder-setter-on-non-animated")
}

/// everything C12 checks on one executed case
pub fn judge(case: &Case, obs: &Observed, lean_validate: Option<&str>, model_ans: Option<&str>, table: &Table) -> (Vec<Finding>, &'static str) {
    let mut f: Vec<Finding> = vec![];
    let verdict = validate(&obs.bytes);
    let mut oracle_failed = false;
    if obs.in_domain(case) {
        if let Err(r) = &verdict {
            oracle_failed = true;
            f.push(("oracle", oracle_class(case, obs, r), format!("encoder output of an in-domain program is rejected by the validator: {}", r)));
        }
    }
    f.extend(repaired_misuse_oracles(case, obs));
    if let Some(l) = lean_validate {
        if let Some(x) = compare_validators(&verdict, l, true) {
            f.push(x);
        }
    }
    let mut mode = "no model comparison";
    if let Some(a) = model_ans {
        let (mf, md) = compare_model(case, obs, a, table);
        mode = md;
        if !oracle_failed {
            f.extend(mf);
        }
    }
    (f, mode)
}

/// exec + ask the model + judge (replay, shrinking)
pub fn evaluate(case: &Case) -> (Observed, Table, Vec<Finding>) {
    let obs = exec(case);
    let table = learn_table(case, &obs);
    let lines = vec![format!("c12 validate {}", hex(&obs.bytes)), case.model_line(&table.to_str())];
    let ans = model::ask_one(&lines);
    let (f, _) = judge(case, &obs, Some(&ans[0]), Some(&ans[1]), &table);
    (obs, table, f)
}

/// drop operations that carry no image data while the class key stays the same
pub fn shrink(case: &Case, kind: &str, class: &str) -> Case {
    let mut best = case.clone();
    let mut budget = 24;
    let mut i = 0;
    while i < best.steps.len() && budget > 0 {
        let removable = matches!(best.steps[i], Step::Chunk(..) | Step::Text(_)) || matches!(&best.steps[i], Step::Set(o) if !o.is_rect());
        if removable {
            let mut t = best.clone();
            t.steps.remove(i);
            budget -= 1;
            let (_, _, f) = evaluate(&t);
            if f.iter().any(|(k, c, _)| *k == kind && c == class) {
                best = t;
                continue;
            }
        }
        i += 1;
    }
    // metadata of the header
    let mut t = best.clone();
    t.cfg.texts.clear();
    t.cfg.phys = None;
    t.cfg.gama = None;
    t.cfg.chrm = None;
    t.cfg.srgb = None;
    t.cfg.icc = None;
    t.cfg.exif = None;
    if t.cfg != best.cfg {
        let (_, _, f) = evaluate(&t);
        if f.iter().any(|(k, c, _)| *k == kind && c == class) {
            best = t;
        }
    }
    best
}

// ---------------------------------------------------------------------------------------------
// generators
// ---------------------------------------------------------------------------------------------

impl Shadow {
    /// `validate_new_image` + the palette check, as far as the documented contract goes
    pub fn accepts_image(&self, cfg: &Cfg) -> bool {
        if cfg.color == 3 && cfg.pal.is_none() {
            return false;
        }
        if !cfg.val {
            return true;
        }
        match self.frames {
            None => self.images_written == 0,
            Some(_) => self.fc.is_some(),
        }
    }
}

pub fn rand_palette(rng: &mut Rng, depth: u8) -> Vec<u8> {
    let max = 1usize << depth.min(8);
    let k = match rng.below(3) {
        0 => max,
        1 => 1,
        _ => rng.usize(1, max),
    };
    rng.bytes(3 * k)
}

const PRIVATE_TYPES: [&[u8; 4]; 4] = [b"prVt", b"zzTe", b"vpAg", b"xyZw"];

fn rand_text(rng: &mut Rng, allow_bad: bool) -> TextSpec {
    let kind = rng.below(4) as u8;
    let kw = if allow_bad && rng.chance(1, 6) {
        if rng.bool() { String::new() } else { "k".repeat(80) }
    } else {
        match rng.below(4) {
            0 => "Title".to_string(),
            1 => "k".repeat(79),
            2 => "A".to_string(),
            _ => "Comment \u{e9}".to_string(),
        }
    };
    let text = match rng.below(5) {
        0 => String::new(),
        1 => "hello".to_string(),
        2 => "x".repeat(rng.usize(1, 300)),
        3 => "caf\u{e9} \u{fc}ber".to_string(),
        _ => {
            if allow_bad && rng.chance(1, 3) { "snow \u{2603}".to_string() } else { "plain text, plain text, plain text".to_string() }
        }
    };
    TextSpec { kind, kw, text }
}

fn substitute_chrm() -> Vec<u8> {
    let mut v = vec![];
    for x in [31270u32, 32900, 64000, 33000, 30000, 60000, 15000, 6000] {
        v.extend_from_slice(&x.to_be_bytes());
    }
    v
}

/// metadata item `i` (0..=12) switched on
fn add_meta(rng: &mut Rng, c: &mut Cfg, i: usize) {
    match i {
        0 => {
            let mut p = rng.bytes(8);
            p.push(rng.below(2) as u8);
            c.phys = Some(p);
        }
        1 => c.gama = Some(*rng.pick(&[45455u32, 100000, 1, 0, 220000])),
        2 => c.chrm = Some(if rng.bool() { substitute_chrm() } else { rng.bytes(32) }),
        3 => c.srgb = Some(rng.below(4) as u8),
        4 => {
            c.srgb = Some(rng.below(4) as u8);
            c.gama = Some(45455);
            c.chrm = Some(substitute_chrm());
        }
        5 => {
            c.srgb = Some(0);
            c.gama = Some(50000);
            c.chrm = Some(rng.bytes(32));
        }
        6 => c.icc = Some(rng.bytes_between(0, 200)),
        7 => c.exif = Some(rng.bytes_between(1, 40)),
        8 => c.texts.push(TextSpec { kind: 0, ..rand_text(rng, false) }),
        9 => c.texts.push(TextSpec { kind: 1, ..rand_text(rng, false) }),
        10 => c.texts.push(TextSpec { kind: 2, ..rand_text(rng, false) }),
        11 => {
            if c.color == 0 {
                c.trns = Some(rng.bytes(2));
            } else if c.color == 2 {
                c.trns = Some(rng.bytes(6));
            } else if c.color == 3 {
                if let Some(p) = &c.pal {
                    let n = rng.usize(1, p.len() / 3);
                    c.trns = Some(rng.bytes(n));
                }
            }
        }
        _ => {
            if c.color == 2 && c.pal.is_none() {
                c.pal = Some(rand_palette(rng, 8));
            }
        }
    }
}

pub fn base_cfg(rng: &mut Rng, color: u8, depth: u8, w: u32, h: u32) -> Cfg {
    let mut c = Cfg { w, h, color, depth, comp: rng.below(5) as u8, filt: rng.below(6) as u8, ..Default::default() };
    if color == 3 {
        c.pal = Some(rand_palette(rng, depth));
    }
    c
}

/// 1..4 refused `Encoder` calls (`Cfg::mis`)
pub fn rand_mis(rng: &mut Rng) -> String {
    let n = rng.usize(1, 4);
    (0..n).map(|_| *rng.pick(&['z', 's', 'd', 'b', 'o', 'A', 'F'])).collect()
}

pub fn rand_cfg(rng: &mut Rng) -> Cfg {
    let (color, depth) = *rng.pick(&LEGAL_PAIRS);
    let (w, h) = match rng.below(10) {
        0..=5 => (rng.range(1, 5) as u32, rng.range(1, 5) as u32),
        6..=8 => (rng.range(1, 40) as u32, rng.range(1, 40) as u32),
        _ => (300, 2),
    };
    let mut c = base_cfg(rng, color, depth, w, h);
    if rng.chance(1, 2) {
        for _ in 0..rng.usize(1, 4) {
            let i = rng.usize(0, 12);
            add_meta(rng, &mut c, i);
        }
    }
    if rng.chance(2, 5) {
        c.anim = Some((rng.range(1, 5) as u32, rng.below(3) as u32));
        c.sep = rng.chance(1, 3);
    }
    c.val = rng.bool();
    if rng.chance(1, 10) {
        c.mis = rand_mis(rng);
    }
    c
}

fn pieces(rng: &mut Rng, data: &[u8], row: usize) -> Vec<Vec<u8>> {
    if data.is_empty() {
        return vec![];
    }
    match rng.below(5) {
        0 => vec![data.to_vec()],
        1 => data.chunks(row.max(1)).map(|c| c.to_vec()).collect(),
        2 => {
            let n = rng.usize(1, (row + 1).max(2));
            data.chunks(n).take(4000).map(|c| c.to_vec()).collect()
        }
        _ => {
            let mut out = vec![];
            let mut p = 0;
            while p < data.len() {
                let n = rng.usize(1, (data.len() - p).min(2 * row + 3));
                out.push(data[p..p + n].to_vec());
                p += n;
            }
            out
        }
    }
}

/// a stream session writing `n_imgs` complete images of the sizes the contract prescribes
pub fn gen_session(rng: &mut Rng, cfg: &Cfg, sh: &mut Shadow, n_imgs: usize, fin: Fin, rect: bool) -> Session {
    let animated = cfg.anim.is_some();
    // every requested buffer size works since the repair (the crate rounds up to 5 bytes), animated or not
    let size = *rng.pick(&[0usize, 1, 2, 3, 4, 5, 6, 64, 4096]);
    let mut ss = StreamShadow::start(sh);
    let mut ops = vec![];
    for j in 0..n_imgs {
        if animated && rng.chance(1, 4) {
            ops.push(SOp::Set(match rng.below(3) {
                0 => SetOp::Delay(rng.below(50) as u16, rng.below(50) as u16),
                1 => SetOp::Blend(rng.below(2) as u8),
                _ => SetOp::Dispose(rng.below(3) as u8),
            }));
        }
        if animated && rng.chance(1, 2) {
            // every non-rectangle setter of the stream writer with a non-default value (they reach the file in the
            // fcTL of the NEXT frame the session starts; the model comparison covers every fcTL field)
            ops.push(SOp::Set(SetOp::Delay(rng.range(1, 60000) as u16, rng.range(1, 60000) as u16)));
            ops.push(SOp::Set(SetOp::Dispose(rng.range(1, 2) as u8)));
            ops.push(SOp::Set(SetOp::Blend(1)));
        }
        if rect && animated && rng.chance(1, 3) {
            // all four rectangle setters, in an order in which each is in bounds
            let w = rng.range(1, cfg.w as u64) as u32;
            let h = rng.range(1, cfg.h as u64) as u32;
            let burst = [SetOp::ResetPos, SetOp::ResetDim, SetOp::Dim(w, h), SetOp::Pos(rng.below((cfg.w - w + 1) as u64) as u32, rng.below((cfg.h - h + 1) as u64) as u32)];
            for o in burst {
                if rect_set_ok(&ss.sfc, cfg.w, cfg.h, &o) {
                    rect_apply(&mut ss.sfc, cfg.w, cfg.h, &o);
                }
                ops.push(SOp::Set(o));
            }
        }
        if rect && animated && rng.chance(1, 2) {
            let o = match rng.below(5) {
                0 => SetOp::Dim(rng.range(1, cfg.w as u64) as u32, rng.range(1, cfg.h as u64) as u32),
                1 => SetOp::Pos(rng.below(cfg.w as u64) as u32, rng.below(cfg.h as u64) as u32),
                2 => SetOp::ResetDim,
                3 => SetOp::ResetPos,
                // values at the top of the u32 range: a bound check written as `offset + size > canvas` wraps or panics there
                _ => extreme_rect_op(rng),
            };
            if rect_set_ok(&ss.sfc, cfg.w, cfg.h, &o) {
                rect_apply(&mut ss.sfc, cfg.w, cfg.h, &o);
            }
            ops.push(SOp::Set(o));
        }
        let n = if j == 0 { ss.cur_size } else { ss.next_size(sh) };
        if n == 0 {
            break;
        }
        let data = rng.class_bytes(n);
        let (w, _) = if j == 0 { sh.dims() } else { (cfg.w, cfg.h) };
        let row = row_bytes(cfg.color, cfg.depth, w);
        for p in pieces(rng, &data, row) {
            if rng.chance(1, 16) {
                // one `write` call with an empty buffer (accepts nothing, changes nothing)
                ops.push(SOp::Write(vec![]));
            }
            ops.push(SOp::Write(p));
            if rng.chance(1, 8) {
                ops.push(SOp::Flush);
            }
        }
        if rng.chance(1, 16) {
            ops.push(SOp::Write(vec![]));
        }
        ss.feed(sh, n);
    }
    Session { size, ops, fin }
}

fn deco(rng: &mut Rng, cfg: &Cfg, sh: &mut Shadow, first_done: bool) -> Step {
    let animated = cfg.anim.is_some();
    match rng.below(if animated { 8 } else { 4 }) {
        0 | 1 => Step::Chunk(**rng.pick(&PRIVATE_TYPES), rng.bytes_between(0, 20)),
        2 => Step::Text(rand_text(rng, true)),
        3 => Step::Set(SetOp::Delay(rng.below(100) as u16, rng.below(100) as u16)),
        4 => Step::Set(SetOp::Blend(rng.below(2) as u8)),
        5 => Step::Set(SetOp::Dispose(rng.below(3) as u8)),
        _ => {
            if !first_done {
                return Step::Set(SetOp::Delay(1, 2));
            }
            let o = match rng.below(8) {
                0 | 1 | 2 => {
                    let (x, y) = sh.fc.map(|r| (r.2, r.3)).unwrap_or((0, 0));
                    SetOp::Dim(rng.range(1, (cfg.w - x.min(cfg.w - 1)) as u64) as u32, rng.range(1, (cfg.h - y.min(cfg.h - 1)) as u64) as u32)
                }
                3 | 4 => {
                    let (w, h) = sh.dims();
                    SetOp::Pos(rng.range(0, (cfg.w - w.min(cfg.w)) as u64) as u32, rng.range(0, (cfg.h - h.min(cfg.h)) as u64) as u32)
                }
                5 => SetOp::ResetDim,
                6 => SetOp::ResetPos,
                _ => match rng.below(6) {
                    0 => SetOp::Dim(0, 1),
                    1 => SetOp::Dim(1, 0),
                    2 => SetOp::Dim(cfg.w + 1, 1),
                    3 => SetOp::Pos(cfg.w, 0),
                    _ => extreme_rect_op(rng),
                },
            };
            if rect_set_ok(&sh.fc, cfg.w, cfg.h, &o) {
                let (cw, ch) = (cfg.w, cfg.h);
                rect_apply(&mut sh.fc, cw, ch, &o);
            }
            Step::Set(o)
        }
    }
}

/// a program that supplies exactly the declared images; `stream_pct`: chance (in %) that an image goes through a stream writer
pub fn complete_program(rng: &mut Rng, cfg: &Cfg, stream_pct: u64, origin: &str) -> Case {
    let mut sh = Shadow::new(cfg);
    let declared = cfg.declared();
    let mut steps = vec![];
    let mut fin = if rng.chance(1, 4) { PFinal::Drop } else { PFinal::Finish };
    let mut first_done = false;
    while sh.images_ok < declared {
        for _ in 0..rng.below(3) {
            steps.push(deco(rng, cfg, &mut sh, first_done));
        }
        if rng.chance(1, 12) {
            let n = sh.image_size();
            let m = if rng.bool() { n + 1 } else { n.saturating_sub(1) };
            steps.push(Step::Image(rng.bytes(m)));
        }
        let remaining = (declared - sh.images_ok) as usize;
        if rng.below(100) < stream_pct && !(cfg.color == 3 && cfg.pal.is_none()) && sh.accepts_image(cfg) && !sh.first_image_subframe() {
            let n = rng.usize(1, remaining.min(3));
            if n == remaining && rng.chance(1, 3) {
                let sf = if rng.chance(3, 4) { Fin::Finish } else { Fin::Drop };
                let rect = rng.chance(1, 2);
                let s = gen_session(rng, cfg, &mut sh, n, sf, rect);
                fin = PFinal::Into(s);
                break;
            }
            let sf = if rng.bool() { Fin::Finish } else { Fin::Drop };
            let rect = rng.chance(1, 2);
            let s = gen_session(rng, cfg, &mut sh, n, sf, rect);
            steps.push(Step::Stream(s));
        } else {
            if !sh.accepts_image(cfg) {
                break;
            }
            steps.push(Step::Image(rng.class_bytes(sh.image_size())));
            sh.whole_image_done();
        }
        first_done = true;
    }
    if !matches!(fin, PFinal::Into(_)) {
        for _ in 0..rng.below(2) {
            let s = deco(rng, cfg, &mut sh, first_done);
            if !matches!(&s, Step::Set(o) if o.is_rect()) {
                steps.push(s);
            }
        }
    }
    Case { cfg: cfg.clone(), sink: SinkSpec::default(), steps, fin, origin: origin.to_string() }
}

/// random operation sequences (not necessarily complete)
pub fn random_program(rng: &mut Rng, cfg: &Cfg) -> Case {
    let mut sh = Shadow::new(cfg);
    let mut steps = vec![];
    let n = rng.usize(0, 30);
    let mut first_done = false;
    let stream_ok = !(cfg.color == 3 && cfg.pal.is_none());
    for _ in 0..n {
        match rng.below(10) {
            0..=3 => {
                let size = sh.image_size();
                if rng.chance(1, 6) {
                    let m = if rng.bool() { size + 1 } else { size / 2 };
                    steps.push(Step::Image(rng.bytes(m)));
                } else {
                    steps.push(Step::Image(rng.class_bytes(size)));
                    if sh.accepts_image(cfg) {
                        sh.whole_image_done();
                        first_done = true;
                    }
                }
            }
            4 if stream_ok && sh.accepts_image(cfg) && !sh.first_image_subframe() => {
                let k = rng.usize(1, 2);
                let sf = if rng.bool() { Fin::Finish } else { Fin::Drop };
                let rect = rng.chance(1, 2);
                let mut s = gen_session(rng, cfg, &mut sh, k, sf, rect);
                if rng.chance(1, 10) {
                    // end the session in the middle of an image (N10): drop the tail of the last write
                    if let Some(SOp::Write(d)) = s.ops.iter_mut().rev().find(|o| matches!(o, SOp::Write(_))) {
                        if d.len() > 1 {
                            d.truncate(d.len() / 2);
                        }
                    }
                }
                steps.push(Step::Stream(s));
                first_done = true;
            }
            _ => steps.push(deco(rng, cfg, &mut sh, first_done)),
        }
    }
    let fin = if rng.chance(1, 3) { PFinal::Drop } else { PFinal::Finish };
    Case { cfg: cfg.clone(), sink: SinkSpec::default(), steps, fin, origin: "random-seq".into() }
}

/// every sequence over the reduced alphabet {image, wrong-size image, private chunk, delay, dimension 1x1, stream image}
pub fn exhaustive_case(cfg: &Cfg, seq: &[u8], fin_kind: u8) -> Option<Case> {
    let mut sh = Shadow::new(cfg);
    let mut steps = vec![];
    let mut first_done = false;
    let animated = cfg.anim.is_some();
    let fill = |n: usize, tag: usize| -> Vec<u8> { (0..n).map(|i| (tag * 16 + i + 1) as u8).collect() };
    for (k, &s) in seq.iter().enumerate() {
        match s {
            0 => {
                steps.push(Step::Image(fill(sh.image_size(), k + 1)));
                if sh.accepts_image(cfg) {
                    sh.whole_image_done();
                    first_done = true;
                }
            }
            1 => steps.push(Step::Image(fill(sh.image_size() + 1, k + 1))),
            2 => steps.push(Step::Chunk(*b"prVt", vec![1, 2])),
            3 => steps.push(Step::Set(SetOp::Delay(3, 7))),
            4 => {
                if animated && !first_done {
                    return None;
                }
                let o = SetOp::Dim(1, 1);
                if rect_set_ok(&sh.fc, cfg.w, cfg.h, &o) {
                    rect_apply(&mut sh.fc, cfg.w, cfg.h, &o);
                }
                steps.push(Step::Set(o));
            }
            _ => {
                let n = sh.image_size();
                steps.push(Step::Stream(Session { size: [64usize, 0, 3][k % 3], ops: vec![SOp::Write(fill(n, k + 1))], fin: Fin::Finish }));
                if sh.accepts_image(cfg) && !sh.first_image_subframe() {
                    // (otherwise `new` refuses: nothing happens)
                    let mut ss = StreamShadow::start(&mut sh);
                    ss.feed(&mut sh, n);
                    first_done = true;
                }
            }
        }
    }
    let fin = match fin_kind {
        0 => PFinal::Finish,
        1 => PFinal::Drop,
        _ => PFinal::Into(Session { size: 64, ops: vec![SOp::Write(fill(sh.image_size(), 9))], fin: Fin::Finish }),
    };
    Some(Case { cfg: cfg.clone(), sink: SinkSpec::default(), steps, fin, origin: "exhaustive".into() })
}

fn exhaustive_cases(max_len: usize) -> Vec<Case> {
    let mut out = vec![];
    let mut cfgs = vec![];
    for mode in 0..3 {
        for val in [false, true] {
            let mut c = Cfg { w: 2, h: 2, color: 0, depth: 8, comp: 2, filt: 0, val, ..Default::default() };
            if mode >= 1 {
                c.anim = Some((2, 0));
            }
            if mode == 2 {
                c.sep = true;
            }
            cfgs.push(c);
        }
    }
    for len in 0..=max_len {
        let total = 6usize.pow(len as u32);
        for idx in 0..total {
            let mut seq = vec![];
            let mut x = idx;
            for _ in 0..len {
                seq.push((x % 6) as u8);
                x /= 6;
            }
            for c in &cfgs {
                for fk in 0..3u8 {
                    if let Some(case) = exhaustive_case(c, &seq, fk) {
                        out.push(case);
                    }
                }
            }
        }
    }
    out
}

/// N3 (repaired): `Encoder::with_info` with a frame control that does not fit the canvas / the sequence
fn with_info_bad_fctl_cases(rng: &mut Rng) -> Vec<Case> {
    let mut out = vec![];
    let fcs = [
        Fc { seq: 5, w: 2, h: 2, x: 0, y: 0, dn: 1, dd: 30, dispose: 0, blend: 0 },
        Fc { seq: 0, w: 2, h: 2, x: 1, y: 1, dn: 1, dd: 30, dispose: 0, blend: 0 },
        Fc { seq: 0, w: 3, h: 1, x: 0, y: 0, dn: 1, dd: 30, dispose: 0, blend: 0 },
        Fc { seq: 0, w: 1, h: 0, x: 0, y: 0, dn: 1, dd: 30, dispose: 0, blend: 0 },
        Fc { seq: 0, w: 1, h: 1, x: 1, y: 1, dn: 1, dd: 30, dispose: 1, blend: 1 },
        Fc { seq: u32::MAX, w: 2, h: 2, x: 0, y: 0, dn: 1, dd: 30, dispose: 0, blend: 0 },
        Fc { seq: 0, w: 2, h: 2, x: 7, y: 0, dn: 1, dd: 30, dispose: 0, blend: 0 },
    ];
    for fc in fcs.iter() {
        for frames in [1u32, 2] {
            for val in [false, true] {
                let cfg = Cfg { w: 2, h: 2, color: 0, depth: 8, anim: Some((frames, 0)), fc: Some(fc.clone()), comp: 2, filt: 0, val, ..Default::default() };
                let mut sh = Shadow::new(&cfg);
                let mut steps = vec![];
                if sh.first_image_subframe() {
                    // (if with_info lets it through) the sub-frame first image is refused; after the
                    // resets the declared images go through
                    steps.push(Step::Image(rng.bytes(sh.image_size())));
                    steps.push(Step::Set(SetOp::ResetPos));
                    steps.push(Step::Set(SetOp::ResetDim));
                    sh.fc = Some((cfg.w, cfg.h, 0, 0));
                }
                for _ in 0..frames {
                    steps.push(Step::Image(rng.bytes(sh.image_size())));
                    sh.whole_image_done();
                }
                out.push(Case { cfg: cfg.clone(), sink: SinkSpec::default(), steps, fin: PFinal::Finish, origin: "with-info-bad-fctl".into() });
            }
        }
    }
    // an animation control with zero frames through `with_info`: refused before the frame control is looked at
    for (fc, plays) in [(&fcs[0], 0u32), (&fcs[3], 3), (&fcs[6], 1)] {
        let cfg = Cfg { w: 2, h: 2, color: 0, depth: 8, anim: Some((0, plays)), fc: Some(fc.clone()), comp: 2, filt: 0, val: plays == 3, ..Default::default() };
        out.push(Case { cfg, sink: SinkSpec::default(), steps: vec![Step::Image(rng.bytes(4))], fin: PFinal::Finish, origin: "with-info-bad-fctl".into() });
    }
    out
}

/// the formerly panicking variants of N3 (repaired: refused by with_info, or harmless after the reset)
pub fn with_info_panic_cases() -> Vec<Case> {
    let mk = |fc: Fc, steps: Vec<Step>, fin: PFinal| Case {
        cfg: Cfg { w: 2, h: 2, color: 0, depth: 8, anim: Some((2, 0)), fc: Some(fc), comp: 2, filt: 0, ..Default::default() },
        sink: SinkSpec::default(),
        steps,
        fin,
        origin: "with-info-bad-fctl".into(),
    };
    let f = |w, h, x, y, seq| Fc { seq, w, h, x, y, dn: 1, dd: 30, dispose: 0, blend: 0 };
    vec![
        mk(f(2, 2, 7, 0, 0), vec![Step::Set(SetOp::ResetDim)], PFinal::Finish),
        mk(f(2, 2, 0, 9, 0), vec![Step::Set(SetOp::ResetDim)], PFinal::Drop),
        mk(f(2, 2, 7, 0, 0), vec![Step::Stream(Session { size: 64, ops: vec![SOp::Set(SetOp::ResetDim)], fin: Fin::Drop })], PFinal::Finish),
        mk(f(0, 2, 0, 0, 0), vec![Step::Image(vec![])], PFinal::Finish),
        mk(f(3, 1, 0, 0, 0), vec![Step::Stream(Session { size: 64, ops: vec![SOp::Write(vec![1, 2, 3])], fin: Fin::Drop })], PFinal::Finish),
        mk(f(2, 2, 0, 0, u32::MAX), vec![Step::Stream(Session { size: 64, ops: vec![], fin: Fin::Drop })], PFinal::Finish),
    ]
}

/// N5 (repaired): frame-rectangle setters before the first image
fn setters_before_first_cases(rng: &mut Rng) -> Vec<Case> {
    let mut out = vec![];
    for sep in [false, true] {
        for val in [false, true] {
            for which in 0..5 {
                let cfg = Cfg { w: 3, h: 2, color: 0, depth: 8, anim: Some((2, 0)), sep, val, comp: 2, filt: 1, ..Default::default() };
                let mut sh = Shadow::new(&cfg);
                let pre: Vec<SetOp> = match which {
                    0 => vec![SetOp::Dim(1, 1)],
                    1 => vec![SetOp::Dim(2, 1), SetOp::Pos(1, 1)],
                    2 => vec![SetOp::Dim(1, 2), SetOp::Pos(2, 0), SetOp::ResetDim],
                    3 => vec![SetOp::Dim(3, 1)],
                    _ => vec![SetOp::Dim(1, 1), SetOp::Pos(1, 1), SetOp::ResetPos],
                };
                let mut steps = vec![];
                for o in pre {
                    if rect_set_ok(&sh.fc, cfg.w, cfg.h, &o) {
                        rect_apply(&mut sh.fc, cfg.w, cfg.h, &o);
                    }
                    steps.push(Step::Set(o));
                }
                while sh.images_ok < cfg.declared() {
                    steps.push(Step::Image(rng.bytes(sh.image_size())));
                    sh.whole_image_done();
                }
                out.push(Case { cfg, sink: SinkSpec::default(), steps, fin: PFinal::Finish, origin: "setters-before-first".into() });
            }
        }
    }
    out
}

/// stream sessions that are opened and abandoned (no or a partial image), next to a complete whole-image program
fn abandoned_session_cases(rng: &mut Rng) -> Vec<Case> {
    let mut out = vec![];
    for val in [false, true] {
        for (k, size) in [(0usize, 64usize), (1, 64), (2, 5), (3, 4096), (4, 1)] {
            let cfg = Cfg { w: 2, h: 2, color: 0, depth: 8, val, comp: 2, filt: 0, ..Default::default() };
            let ops = match k {
                0 => vec![],
                1 => vec![SOp::Write(vec![1, 2])],
                2 => vec![SOp::Write(vec![1]), SOp::Flush],
                3 => vec![SOp::Flush],
                _ => vec![SOp::Write(vec![1, 2, 3])],
            };
            let sess = Session { size, ops, fin: Fin::Drop };
            let img = Step::Image(rng.bytes(4));
            out.push(Case { cfg: cfg.clone(), sink: SinkSpec::default(), steps: vec![Step::Stream(sess.clone()), img.clone()], fin: PFinal::Finish, origin: "abandoned-session".into() });
            out.push(Case { cfg: cfg.clone(), sink: SinkSpec::default(), steps: vec![img.clone(), Step::Stream(sess.clone())], fin: PFinal::Finish, origin: "abandoned-session".into() });
            out.push(Case { cfg, sink: SinkSpec::default(), steps: vec![img], fin: PFinal::Into(sess), origin: "abandoned-session".into() });
        }
        // animated: frame 1, an abandoned session (its fcTL counts as a frame, its image does not), frame 2
        for (k, size) in [(0usize, 64usize), (1, 0), (2, 5)] {
            let cfg = Cfg { w: 2, h: 2, color: 0, depth: 8, anim: Some((2, 0)), val, comp: 2, filt: 0, ..Default::default() };
            let ops = match k {
                0 => vec![],
                1 => vec![SOp::Write(vec![1, 2])],
                _ => vec![SOp::Write(vec![1, 2, 3]), SOp::Flush],
            };
            for sf in [Fin::Drop, Fin::Finish] {
                let sess = Session { size, ops: ops.clone(), fin: sf };
                out.push(Case { cfg: cfg.clone(), sink: SinkSpec::default(), steps: vec![Step::Image(rng.bytes(4)), Step::Stream(sess.clone()), Step::Image(rng.bytes(4))], fin: PFinal::Finish, origin: "abandoned-session".into() });
                // two complete images through a session, the image through write_image_data, then a partial third one
                let two = Session { size: 64, ops: vec![SOp::Write(rng.bytes(4))], fin: Fin::Finish };
                out.push(Case { cfg: cfg.clone(), sink: SinkSpec::default(), steps: vec![Step::Stream(two), Step::Image(rng.bytes(4)), Step::Set(SetOp::Dim(1, 1)), Step::Stream(Session { size: 64, ops: vec![SOp::Write(vec![0x41])], fin: sf })], fin: PFinal::Finish, origin: "abandoned-session".into() });
            }
        }
    }
    out
}

pub fn extreme_cases() -> Vec<Case> {
    let cfg = Cfg { w: u32::MAX, h: u32::MAX, color: 6, depth: 16, comp: 2, filt: 5, ..Default::default() };
    vec![
        Case { cfg: cfg.clone(), sink: SinkSpec::default(), steps: vec![Step::Image(vec![]), Step::Image(vec![0; 8])], fin: PFinal::Finish, origin: "extreme".into() },
        Case { cfg: Cfg { val: true, ..cfg.clone() }, sink: SinkSpec::default(), steps: vec![Step::Image(vec![0; 8])], fin: PFinal::Drop, origin: "extreme".into() },
        Case { cfg: Cfg { w: 0, h: 1, color: 0, depth: 8, ..cfg.clone() }, sink: SinkSpec::default(), steps: vec![], fin: PFinal::Finish, origin: "extreme".into() },
        Case { cfg: Cfg { w: 1, h: 0, color: 0, depth: 8, ..cfg.clone() }, sink: SinkSpec::default(), steps: vec![], fin: PFinal::Finish, origin: "extreme".into() },
        Case { cfg: Cfg { w: 1, h: 1, color: 2, depth: 4, ..cfg.clone() }, sink: SinkSpec::default(), steps: vec![], fin: PFinal::Finish, origin: "extreme".into() },
    ]
}

fn all_cases(ctx: &mut Ctx) -> Vec<Case> {
    let mut rng = ctx.rng.fork(12);
    let mut cases = vec![];
    // systematic: colour/depth x path x compression x filter on tiny canvases
    for &(color, depth) in LEGAL_PAIRS.iter() {
        for path in 0..3 {
            for comp in 0..5u8 {
                for filt in 0..6u8 {
                    let (w, h) = (rng.range(1, 5) as u32, rng.range(1, 5) as u32);
                    let mut c = base_cfg(&mut rng, color, depth, w, h);
                    c.comp = comp;
                    c.filt = filt;
                    c.val = rng.bool();
                    if path == 2 {
                        c.anim = Some((rng.range(1, 5) as u32, rng.below(2) as u32));
                        c.sep = rng.chance(1, 3);
                    }
                    let pct = if path == 1 { 100 } else if path == 2 { *rng.pick(&[0u64, 50, 100]) } else { 0 };
                    cases.push(complete_program(&mut rng, &c, pct, "grid"));
                }
            }
        }
    }
    // every metadata item alone, all combined
    for i in 0..=13 {
        for &(color, depth) in &[(0u8, 8u8), (2, 8), (3, 4), (6, 16)] {
            for anim in [false, true] {
                let mut c = base_cfg(&mut rng, color, depth, 3, 2);
                if i < 13 {
                    add_meta(&mut rng, &mut c, i);
                } else {
                    for j in [0, 1, 2, 6, 7, 8, 9, 10, 11, 12] {
                        add_meta(&mut rng, &mut c, j);
                    }
                }
                if anim {
                    c.anim = Some((2, 1));
                }
                c.val = true;
                cases.push(complete_program(&mut rng, &c, 0, "metadata"));
            }
        }
    }
    // indexed without palette (whole image refuses; so does the stream writer since 90b6476: N6 repaired)
    for depth in [1u8, 8] {
        let c = Cfg { w: 2, h: 2, color: 3, depth, comp: 2, filt: 0, ..Default::default() };
        cases.push(Case { cfg: c.clone(), sink: SinkSpec::default(), steps: vec![Step::Image(vec![0; 2 * row_bytes(3, depth, 2)])], fin: PFinal::Finish, origin: "no-palette".into() });
        cases.push(Case { cfg: c.clone(), sink: SinkSpec::default(), steps: vec![Step::Stream(Session { size: 64, ops: vec![SOp::Write(vec![0; 2 * row_bytes(3, depth, 2)])], fin: Fin::Finish })], fin: PFinal::Finish, origin: "no-palette".into() });
    }
    // raw tRNS / PLTE blobs the format does not allow for the colour type (Encoder::set_trns / set_palette take bytes as they
    // are): tRNS on a colour type with an alpha channel, tRNS of the wrong length, more alpha entries than palette entries,
    // a palette that is not a whole number of entries or has more than 256 / 2^depth of them (finding D22)
    for (color, depth, pal, trns) in [
        (6u8, 8u8, None, Some(vec![0u8, 7])), (4, 8, None, Some(vec![0, 7])), (6, 16, None, Some(vec![0; 6])),
        (0, 8, None, Some(vec![7])), (0, 8, None, Some(vec![0, 7, 0])), (2, 8, None, Some(vec![0; 5])), (2, 16, None, Some(vec![0; 2])),
        (3, 8, Some(vec![1, 2, 3]), Some(vec![9, 9])), (3, 2, Some(vec![1, 2, 3, 4, 5, 6]), Some(vec![9, 9, 9])),
        (3, 8, Some(vec![1, 2, 3, 4]), None), (3, 8, Some(vec![1; 771]), None), (3, 1, Some(vec![1; 9]), None), (2, 8, Some(vec![1, 2, 3, 4, 5]), None),
    ] {
        let mut c = Cfg { w: 2, h: 2, color, depth, comp: 2, filt: 0, val: true, ..Default::default() };
        c.pal = pal;
        c.trns = trns;
        let data = vec![0u8; 2 * row_bytes(color, depth, 2)];
        cases.push(Case { cfg: c.clone(), sink: SinkSpec::default(), steps: vec![Step::Image(data.clone())], fin: PFinal::Finish, origin: "illegal-blob".into() });
        cases.push(Case { cfg: c.clone(), sink: SinkSpec::default(), steps: vec![Step::Stream(Session { size: 64, ops: vec![SOp::Write(data)], fin: Fin::Finish })], fin: PFinal::Finish, origin: "illegal-blob".into() });
    }
    // random configurations with complete programs
    let n = ctx.n(1800, 30000);
    for _ in 0..n {
        let c = rand_cfg(&mut rng);
        let pct = if c.anim.is_some() { *rng.pick(&[0u64, 30, 60, 100]) } else { *rng.pick(&[0u64, 0, 30, 100]) };
        cases.push(complete_program(&mut rng, &c, pct, "random-complete"));
    }
    // random sequences
    let n = ctx.n(1200, 20000);
    for _ in 0..n {
        let mut c = rand_cfg(&mut rng);
        if c.w > 8 || c.h > 8 {
            c.w = c.w.min(8);
            c.h = c.h.min(8);
        }
        cases.push(random_program(&mut rng, &c));
    }
    cases.extend(exhaustive_cases(ctx.n(4, 5)));
    if GEN_WITH_INFO_BAD_FCTL {
        cases.extend(with_info_bad_fctl_cases(&mut rng));
        cases.extend(with_info_panic_cases());
    }
    if GEN_SETTERS_BEFORE_FIRST {
        cases.extend(setters_before_first_cases(&mut rng));
    }
    if GEN_ABANDONED_SESSIONS {
        cases.extend(abandoned_session_cases(&mut rng));
    }
    cases.extend(extreme_cases());
    cases
}

// ---------------------------------------------------------------------------------------------
// mutants for the two validators
// ---------------------------------------------------------------------------------------------

fn to_raw(bytes: &[u8]) -> Vec<RawChunk> {
    parse_lenient(bytes).0.iter().map(|c| RawChunk::new(&c.ty, c.data.clone())).collect()
}

fn redeflate(data: &[u8], rng: &mut Rng) -> Vec<u8> {
    refpng::zlib_stream(data, &if rng.bool() { refpng::Deflater::Stored(7) } else { refpng::Deflater::Level(6) })
}

/// one mutant of a valid file; the label names the mutation
fn mutate(rng: &mut Rng, file: &[u8]) -> (String, Vec<u8>) {
    let mut cs = to_raw(file);
    let n = cs.len();
    if n == 0 {
        let mut b = file.to_vec();
        b.push(0);
        return ("append".into(), b);
    }
    let pick_ty = |cs: &Vec<RawChunk>, t: &[u8; 4], rng: &mut Rng| -> Option<usize> {
        let v: Vec<usize> = cs.iter().enumerate().filter(|(_, c)| &c.ty == t).map(|(i, _)| i).collect();
        if v.is_empty() { None } else { Some(*rng.pick(&v)) }
    };
    let label;
    match rng.below(22) {
        0 => {
            let i = rng.usize(0, n - 1);
            label = format!("delete {}", cs[i].ty_str());
            cs.remove(i);
        }
        1 => {
            let i = rng.usize(0, n - 1);
            label = format!("duplicate {}", cs[i].ty_str());
            let c = cs[i].clone();
            cs.insert(i, c);
        }
        2 => {
            let i = rng.usize(0, n - 1);
            let j = rng.usize(0, n - 1);
            label = format!("swap {} {}", cs[i].ty_str(), cs[j].ty_str());
            cs.swap(i, j);
        }
        3 => {
            let i = rng.usize(0, n - 1);
            label = format!("crc {}", cs[i].ty_str());
            let good = crc32(&[&cs[i].ty[..], &cs[i].data[..]].concat());
            cs[i].crc_override = Some(good ^ (1 << rng.below(32)));
        }
        4 => {
            let v: Vec<usize> = cs.iter().enumerate().filter(|(_, c)| (&c.ty == b"fcTL" || &c.ty == b"fdAT") && c.data.len() >= 4).map(|(i, _)| i).collect();
            if v.is_empty() {
                label = "append".to_string();
                let mut b = refpng::serialize(&cs);
                b.push(0);
                return (label, b);
            }
            let i = *rng.pick(&v);
            label = format!("seq {}", cs[i].ty_str());
            let s = be32s(&cs[i].data, 0);
            let ns = match rng.below(3) {
                0 => s.wrapping_add(1),
                1 => s.wrapping_sub(1),
                _ => rng.next() as u32,
            };
            cs[i].data[..4].copy_from_slice(&ns.to_be_bytes());
        }
        5 => {
            let b = refpng::serialize(&cs);
            let k = rng.usize(0, b.len() - 1);
            return ("truncate".into(), b[..k].to_vec());
        }
        6 => {
            let mut b = refpng::serialize(&cs);
            let extra = rng.bytes_between(1, 20);
            b.extend_from_slice(&extra);
            return ("append".into(), b);
        }
        7 | 8 => {
            // filter byte of the first image
            let idx: Vec<usize> = cs.iter().enumerate().filter(|(_, c)| &c.ty == b"IDAT").map(|(i, _)| i).collect();
            if idx.is_empty() {
                label = "none".into();
            } else {
                let mut z = vec![];
                for &i in &idx {
                    z.extend_from_slice(&cs[i].data);
                }
                match zlib_inflate(&z) {
                    Some((mut raw, _)) if !raw.is_empty() => {
                        let which = rng.below(4);
                        label = format!("idat-redeflate/{}", which);
                        match which {
                            0 => raw[0] = rng.range(5, 255) as u8,
                            1 => raw[0] = rng.below(5) as u8,
                            2 => raw.push(0),
                            _ => {
                                raw.pop();
                            }
                        }
                        let nz = redeflate(&raw, rng);
                        cs[idx[0]].data = nz;
                        for &i in idx[1..].iter().rev() {
                            cs.remove(i);
                        }
                    }
                    _ => label = "none".into(),
                }
            }
        }
        9 => {
            let f = rng.below(7);
            label = format!("ihdr/{}", f);
            let d = &mut cs[0].data;
            if d.len() == 13 {
                match f {
                    0 => d[..4].copy_from_slice(&(rng.below(4) as u32).to_be_bytes()),
                    1 => d[4..8].copy_from_slice(&(rng.below(4) as u32).to_be_bytes()),
                    2 => d[8] = *rng.pick(&[0u8, 1, 2, 3, 4, 8, 16, 32]),
                    3 => d[9] = rng.below(8) as u8,
                    4 => d[10] = 1,
                    5 => d[11] = 1,
                    _ => d[12] = rng.range(1, 2) as u8,
                }
            }
        }
        10 => {
            let i = rng.usize(0, n - 1);
            let k = rng.usize(0, 3);
            label = format!("type-bit {} {}", cs[i].ty_str(), k);
            cs[i].ty[k] ^= if rng.chance(1, 5) { 0x80 } else { 0x20 };
        }
        11 => {
            let i = rng.usize(0, n - 1);
            label = format!("length-field {}", cs[i].ty_str());
            let mut b = vec![];
            b.extend_from_slice(&SIG);
            for (j, c) in cs.iter().enumerate() {
                let mut cb = c.bytes();
                if j == i {
                    let l = match rng.below(3) {
                        0 => (c.data.len() as u32).wrapping_add(1),
                        1 => (c.data.len() as u32).wrapping_sub(1),
                        _ => 0x8000_0000,
                    };
                    cb[..4].copy_from_slice(&l.to_be_bytes());
                }
                b.extend_from_slice(&cb);
            }
            return (label, b);
        }
        12 => {
            let v: Vec<usize> = cs.iter().enumerate().filter(|(_, c)| (&c.ty == b"IDAT" || &c.ty == b"fdAT") && c.data.len() > 6).map(|(i, _)| i).collect();
            if v.is_empty() {
                label = "none".into();
            } else {
                let i = *rng.pick(&v);
                let lo = if &cs[i].ty == b"fdAT" { 4 } else { 0 };
                let k = rng.usize(lo, cs[i].data.len() - 1);
                label = format!("zlib-byte {}", cs[i].ty_str());
                cs[i].data[k] ^= 1 << rng.below(8);
            }
        }
        13 | 14 => {
            let (ty, data): (&[u8; 4], Vec<u8>) = match rng.below(16) {
                0 => (b"PLTE", { let k = *rng.pick(&[0usize, 3, 4, 6, 768, 771]); rng.bytes(k) }),
                1 => (b"tRNS", rng.bytes_between(0, 7)),
                2 => (b"gAMA", { let k = *rng.pick(&[4usize, 4, 3]); rng.bytes(k) }),
                3 => (b"sRGB", vec![rng.below(6) as u8]),
                4 => (b"pHYs", { let mut p = rng.bytes(8); p.push(rng.below(3) as u8); p }),
                5 => (b"cHRM", { let k = *rng.pick(&[32usize, 32, 31]); rng.bytes(k) }),
                6 => (b"acTL", { let mut p = (rng.below(3) as u32).to_be_bytes().to_vec(); p.extend_from_slice(&[0, 0, 0, 0]); if rng.chance(1, 4) { p.pop(); } p }),
                7 => (b"fcTL", { let k = *rng.pick(&[26usize, 25]); rng.bytes(k) }),
                8 => (b"fdAT", rng.bytes_between(0, 8)),
                9 => (b"tEXt", { let mut p = vec![b'k'; *rng.pick(&[0usize, 1, 79, 80])]; if rng.chance(3, 4) { p.push(0); } p.extend_from_slice(b"txt"); p }),
                10 => (b"zTXt", { let mut p = b"key\0".to_vec(); p.push(rng.below(2) as u8); let z = refpng::zlib_stream(b"text", &refpng::Deflater::Level(6)); p.extend_from_slice(&z); if rng.chance(1, 3) { p.push(0); } p }),
                11 => (b"iTXt", { let mut p = b"key\0".to_vec(); let flag = rng.below(3) as u8; p.push(flag); p.push(rng.chance(1, 5) as u8); p.extend_from_slice(b"en\0"); if rng.chance(4, 5) { p.extend_from_slice(b"tr\0"); } if flag == 1 && rng.bool() { p.extend_from_slice(&refpng::zlib_stream(b"text", &refpng::Deflater::Level(6))); } else { p.extend_from_slice(b"text"); } p }),
                12 => (b"iCCP", { let mut p = b"name\0".to_vec(); p.push(rng.chance(1, 5) as u8); let z = refpng::zlib_stream(b"profile", &refpng::Deflater::Level(6)); p.extend_from_slice(&z); if rng.chance(1, 4) { p.truncate(p.len() - 2); } p }),
                13 => (b"eXIf", rng.bytes(4)),
                14 => (b"bKGD", rng.bytes(2)),
                _ => (b"IDAT", rng.bytes(3)),
            };
            let i = rng.usize(1, n);
            label = format!("insert {}", ty.iter().map(|&b| b as char).collect::<String>());
            cs.insert(i.min(cs.len()), RawChunk::new(ty, data));
        }
        15 => {
            // modify an ancillary chunk in place
            let v: Vec<usize> = cs.iter().enumerate().filter(|(_, c)| !matches!(&c.ty, b"IHDR" | b"IDAT" | b"fdAT" | b"IEND") && !c.data.is_empty()).map(|(i, _)| i).collect();
            if v.is_empty() {
                label = "none".into();
            } else {
                let i = *rng.pick(&v);
                label = format!("content {}", cs[i].ty_str());
                match rng.below(4) {
                    0 => {
                        let k = rng.usize(0, cs[i].data.len() - 1);
                        cs[i].data[k] = rng.byte();
                    }
                    1 => {
                        cs[i].data.pop();
                    }
                    2 => cs[i].data.push(rng.byte()),
                    _ => cs[i].data[0] = 0,
                }
            }
        }
        16 => {
            // split the first IDAT in two, possibly with a chunk in between
            match pick_ty(&cs, b"IDAT", rng) {
                Some(i) if cs[i].data.len() >= 2 => {
                    let k = rng.usize(1, cs[i].data.len() - 1);
                    let tail = cs[i].data.split_off(k);
                    let between = rng.chance(1, 2);
                    label = format!("split-idat/{}", between);
                    cs.insert(i + 1, RawChunk::new(b"IDAT", tail));
                    if between {
                        cs.insert(i + 1, RawChunk::new(b"prVt", vec![1]));
                    }
                }
                _ => label = "none".into(),
            }
        }
        17 => {
            label = "iend".into();
            match rng.below(3) {
                0 => {
                    if let Some(i) = pick_ty(&cs, b"IEND", rng) {
                        cs[i].data = vec![0];
                    }
                }
                1 => {
                    cs.retain(|c| &c.ty != b"IEND");
                }
                _ => cs.push(RawChunk::new(b"IEND", vec![])),
            }
        }
        18 => match pick_ty(&cs, b"fcTL", rng) {
            Some(i) if cs[i].data.len() == 26 => {
                let f = rng.below(7);
                label = format!("fctl/{}", f);
                let d = &mut cs[i].data;
                match f {
                    0 => d[4..8].copy_from_slice(&0u32.to_be_bytes()),
                    1 => d[8..12].copy_from_slice(&0u32.to_be_bytes()),
                    2 => d[12..16].copy_from_slice(&(rng.range(1, 50) as u32).to_be_bytes()),
                    3 => d[16..20].copy_from_slice(&u32::MAX.to_be_bytes()),
                    4 => d[24] = 3,
                    5 => d[25] = 2,
                    _ => d[4..8].copy_from_slice(&(rng.range(1, 9) as u32).to_be_bytes()),
                }
            }
            _ => label = "none".into(),
        },
        19 => match pick_ty(&cs, b"acTL", rng) {
            Some(i) if cs[i].data.len() == 8 => {
                label = "actl-frames".into();
                let f = be32s(&cs[i].data, 0);
                let nf = match rng.below(3) {
                    0 => 0,
                    1 => f + 1,
                    _ => f.saturating_sub(1),
                };
                cs[i].data[..4].copy_from_slice(&nf.to_be_bytes());
            }
            _ => label = "none".into(),
        },
        20 => {
            label = "signature".into();
            let mut b = refpng::serialize(&cs);
            let k = rng.usize(0, 7);
            b[k] ^= 1 << rng.below(8);
            return (label, b);
        }
        _ => {
            // move a chunk somewhere else
            let i = rng.usize(0, n - 1);
            let c = cs.remove(i);
            let j = rng.usize(0, cs.len());
            label = format!("move {}", c.ty_str());
            cs.insert(j, c);
        }
    }
    (label, refpng::serialize(&cs))
}

fn run_mutants(ctx: &mut Ctx, pool: &[Vec<u8>]) {
    if pool.is_empty() {
        ctx.rep.notes.push("no valid encoder output available for mutation".into());
        return;
    }
    let mut rng = ctx.rng.fork(77);
    let n = ctx.n(600, 8000);
    let mut files: Vec<(String, Vec<u8>)> = vec![];
    for _ in 0..n {
        let base = rng.pick(pool).clone();
        let (label, mut f) = mutate(&mut rng, &base);
        if rng.chance(1, 6) {
            let (l2, f2) = mutate(&mut rng, &f);
            if !f2.is_empty() && parse_lenient(&f2).0.len() > 0 {
                f = f2;
                files.push((format!("{} + {}", label, l2), f));
                continue;
            }
        }
        files.push((label, f));
    }
    // the unmutated pool as well
    for p in pool.iter().take(40) {
        files.push(("unmodified".into(), p.clone()));
    }
    let lines: Vec<String> = files.iter().map(|(_, f)| format!("c12 validate {}", hex(f))).collect();
    let answers = model::ask(&lines);
    for ((label, f), a) in files.iter().zip(&answers) {
        let v = validate(f);
        ctx.rep.eval(true, fnv64(f));
        ctx.rep.model_compared += 1;
        let kind = label.split(' ').next().unwrap_or("").split('/').next().unwrap_or("").to_string();
        ctx.rep.count("mutation", &kind);
        ctx.rep.count("mutant verdict", &verdict_str(&v));
        let r = verdict_str(&v);
        let l = a.strip_prefix("bad ").unwrap_or(a).to_string();
        if r != "ok" && l != "ok" && r != l {
            ctx.rep.count("mutant reasons differ (both bad)", &format!("{} vs {}", r, l));
        }
        if let Some((k, class, what)) = compare_validators(&v, a, false) {
            ctx.rep.violation(k, &class, &format!("{} (mutation: {})", what, label), J::obj().set("kind", J::s("validate")).set("file", J::s(&hex(f))).set("mutation", J::s(label)));
        }
    }
}

// ---------------------------------------------------------------------------------------------
// run / replay
// ---------------------------------------------------------------------------------------------

/// run a batch of cases: real run, both validators, model; returns valid outputs for the mutation phase
pub fn process_cases(ctx: &mut Ctx, cases: &[Case]) -> Vec<Vec<u8>> {
    let mut pool: Vec<Vec<u8>> = vec![];
    let mut pool_seen: HashSet<u64> = HashSet::new();
    let obs: Vec<Observed> = cases.iter().map(exec).collect();
    let tables: Vec<Table> = cases.iter().zip(&obs).map(|(c, o)| learn_table(c, o)).collect();
    let mut lines: Vec<String> = vec![];
    let mut vidx: HashMap<u64, usize> = HashMap::new();
    let mut vline: Vec<usize> = vec![];
    for o in &obs {
        let k = fnv64(&o.bytes) ^ (o.bytes.len() as u64).wrapping_mul(0x9E3779B97F4A7C15);
        let idx = *vidx.entry(k).or_insert_with(|| {
            lines.push(format!("c12 validate {}", hex(&o.bytes)));
            lines.len() - 1
        });
        vline.push(idx);
    }
    let base = lines.len();
    for (c, t) in cases.iter().zip(&tables) {
        lines.push(c.model_line(&t.to_str()));
    }
    let answers = model::ask(&lines);
    for (i, c) in cases.iter().enumerate() {
        let o = &obs[i];
        let in_dom = o.in_domain(c);
        ctx.rep.eval(in_dom && c.has_image_op(), c.key());
        ctx.rep.model_compared += 1;
        let (findings, mode) = judge(c, o, Some(&answers[vline[i]]), Some(&answers[base + i]), &tables[i]);
        ctx.rep.count("origin", &c.origin);
        ctx.rep.count("colour/depth", &format!("{}/{}", c.cfg.color, c.cfg.depth));
        ctx.rep.count("animated", if c.cfg.anim.is_some() { if c.cfg.sep { "yes+sep_def_img" } else { "yes" } } else { "no" });
        let whole = c.steps.iter().any(|s| matches!(s, Step::Image(_)));
        ctx.rep.count("path", match (whole, c.has_stream()) {
            (true, true) => "mixed",
            (true, false) => "whole",
            (false, true) => "stream",
            _ => "no image",
        });
        ctx.rep.count("in oracle domain", if in_dom { "yes" } else { "no" });
        ctx.rep.count("final", match &c.fin {
            PFinal::Finish => "finish",
            PFinal::Drop => "drop",
            PFinal::Into(_) => "into_stream_writer",
        });
        ctx.rep.count("model comparison", mode);
        let v = validate(&o.bytes);
        ctx.rep.count("verdict", if v.is_ok() { "ok" } else { "bad" });
        if let Err(r) = &v {
            ctx.rep.count("reason", r);
        }
        for s in &c.steps {
            ctx.rep.count("op kind", s.kind());
        }
        for rs in &o.steps {
            for r in rs {
                ctx.rep.count("op result", r);
            }
        }
        for p in &o.panics {
            ctx.rep.count("panics (not judged by C12)", p.rsplit(" @ ").next().unwrap_or("?"));
        }
        for (call, res) in &o.enc_misuse {
            ctx.rep.count("refused Encoder calls (not part of the model's configuration)", &format!("{} -> {}", call, res));
        }
        for sess in c.steps.iter().filter_map(|s| if let Step::Stream(x) = s { Some(x) } else { None }).chain(if let PFinal::Into(x) = &c.fin { Some(x) } else { None }) {
            ctx.rep.count("stream writer constructor", if sess.size == 4096 { "default size (stream_writer / into_stream_writer)" } else { "with_size" });
            ctx.rep.count("write(&[]) calls per session", &sess.ops.iter().filter(|o| matches!(o, SOp::Write(d) if d.is_empty())).count().min(3).to_string());
        }
        // the repaired refusals (N3, N5, N6) as they are exercised
        if c.cfg.fc.is_some() {
            ctx.rep.count("with_info(frame control)", &format!("expected {} -> {}", expected_with_info_err(&c.cfg).unwrap_or("accepted"), o.hdr));
        }
        for call in &o.calls {
            if let Some(m) = call.misuse {
                if m == "first-image-subframe" || m == "indexed-no-palette" {
                    ctx.rep.count("repaired refusals", &format!("{} {} -> {}", call.kind.name(), m, call.res));
                }
            }
        }
        if in_dom && v.is_ok() && o.bytes.len() <= 3000 && pool.len() < 400 {
            let k = fnv64(&o.bytes);
            if pool_seen.insert(k) {
                pool.push(o.bytes.clone());
            }
        }
        for (kind, class, what) in findings {
            let seen = ctx.rep.violation_counts.contains_key(&format!("{}:{}", kind, class));
            let small = if seen || c.steps.len() > 40 { c.clone() } else { shrink(c, kind, &class) };
            let t = if seen { tables[i].clone() } else { learn_table(&small, &exec(&small)) };
            ctx.rep.violation(kind, &class, &what, small.json(&t.to_str()));
        }
        if i % 997 == 3 && in_dom {
            ctx.rep.sample(J::s(&c.model_line(&tables[i].to_str()).chars().take(400).collect::<String>()));
        }
    }
    pool
}

pub fn run(ctx: &mut Ctx) {
    ctx.rep.rule = "real Encoder/Writer/StreamWriter driven by textual programs on never-failing sinks: (a) 15 colour/depth pairs x {whole image, stream writer, animated} x 5 compression settings \
        (NoCompression, FdeflateUltraFast, Level 1/6/9) x 6 filter settings on 1..5 x 1..5 canvases; (b) every metadata item (pHYs, gAMA, cHRM, sRGB, sRGB + substitute gAMA/cHRM, sRGB + other gAMA/cHRM, iCCP, eXIf, \
        tEXt, zTXt, iTXt, tRNS, PLTE for RGB) alone and combined x 4 colour types x animated or not; (c) random configurations (sizes up to 40x40 and 300x2, legal palette / tRNS, 1..5 frames, sep_def_img, validate on/off) \
        with complete programs (image per declared frame through write_image_data or stream sessions — animated or not — of requested buffer size {0,1,2,3,4,5,6,64,4096} written in random pieces with flushes, with every setter of the stream writer \
        (delay, dispose, blend with non-default values; reset/dimension/position) between the frames, \
        decorated with private chunks, text chunks incl. refused keywords, delay/blend/dispose and in-range / out-of-range / zero frame-rectangle setters after the first image, wrong-size images; finish, drop or into_stream_writer); \
        (d) random sequences of up to 30 operations; (e) all sequences up to length 4 (quick) / 5 (thorough) over {image, wrong-size image, private chunk, delay, dimension 1x1, stream image} on a 2x2 gray8 canvas \
        for {still, 2 frames, 2 frames + sep_def_img} x validate on/off x {finish, drop, into_stream_writer}; (f) directed: with_info frame controls that do not fit, setters before the first image, abandoned stream sessions, \
        indexed without palette, extreme dimensions; (g) mutants of valid outputs (delete/duplicate/swap/move/insert chunks, CRC, sequence numbers, truncation, trailing bytes, filter bytes, IHDR fields, type bits, \
        length fields, zlib bytes, fcTL/acTL fields) for both validators.  Every run: Rust validator (oracle, in-domain runs), `c12 validate` (must agree), `c12 run` (whole-image programs: results and bytes; programs with stream sessions: results and \
        every chunk with its length, every field of every fcTL / acTL chunk and the fdAT sequence numbers — with a flush inside a session the data chunks are merged and the fcTL sequence number is masked). \
        non-trivial = in the oracle domain (header ok, ends with a successful finish or a drop, no sink failure, complete images = declared; a program with a session that ends in the middle of an image is judged under the known class stream-abandoned/*) with at least one image operation; distinct = hash of the program text".into();
    let cases = match guarded(|| all_cases(ctx)) {
        Ok(c) => c,
        Err(p) => {
            eprintln!("C12 generator panicked: {}", p);
            std::process::exit(3)
        }
    };
    let mut pool = vec![];
    for chunk in cases.chunks(6000) {
        let p = match guarded(|| process_cases(ctx, chunk)) {
            Ok(p) => p,
            Err(p) => {
                eprintln!("C12 harness panicked: {}", p);
                std::process::exit(3)
            }
        };
        for f in p {
            if pool.len() < 300 {
                pool.push(f);
            }
        }
    }
    if let Err(p) = guarded(|| run_mutants(ctx, &pool)) {
        eprintln!("C12 mutation phase panicked: {}", p);
        std::process::exit(3)
    }
}

pub fn replay(ctx: &mut Ctx, case: &J) {
    if case.get("kind").and_then(|k| k.as_str()) == Some("validate") {
        if let Some(f) = case.get("file").and_then(|f| f.as_str()).and_then(unhex) {
            let v = validate(&f);
            let a = model::ask_one(&[format!("c12 validate {}", hex(&f))]);
            ctx.rep.eval(true, fnv64(&f));
            if let Some((k, class, what)) = compare_validators(&v, &a[0], false) {
                ctx.rep.violation(k, &class, &what, case.clone());
            }
        }
        return;
    }
    if let Some(c) = Case::from_json(case) {
        let (obs, table, findings) = evaluate(&c);
        ctx.rep.eval(obs.in_domain(&c), c.key());
        ctx.rep.notes.push(format!("hdr={} ops={} fin={} n={} verdict={}", obs.hdr, obs.ops_string(&c), obs.fin_string(&c), obs.bytes.len(), verdict_str(&validate(&obs.bytes))));
        if let Ok(path) = std::env::var("VERIF_DUMP") {
            let _ = std::fs::write(path, &obs.bytes);
        }
        for (kind, class, what) in findings {
            ctx.rep.violation(kind, &class, &what, c.json(&table.to_str()));
        }
    }
}
