//! C14, encoder side at the public API: "the encoder's filtering followed by that reconstruction is the identity" for the rows the
//! encoder really emits — including WHICH previous row it filters against (the first row of every image, of every later animation
//! frame, of a frame narrower or wider than its predecessor).  The direct `filter` / `unfilter` enumeration of `c14.rs` cannot see that
//! bookkeeping: it lives in `Writer::write_image_data` and in `StreamWriter` (row buffers kept between rows and frames).
//!
//! A session = one encoder, 1..4 images of possibly different sizes, one filter setting per image, written through `write_image_data`
//! or through a `StreamWriter` in pieces.  The produced file is taken apart by the harness's own chunk walker, each image's zlib stream
//! inflated by the harness's inflater, and every row reconstructed with the SPECIFICATION's formula (`c14::ref_recon`): the result must
//! be the bytes that were handed to the encoder, and every filter type byte must be 0..4.  The real decoder is not involved.
use crate::json::J;
use crate::report::Ctx;
use crate::rng::{fnv64, Rng};
use crate::util::guarded;
use std::io::Write;

#[derive(Clone, Debug)]
struct Session {
    color: u8,
    depth: u8,
    w: u32,
    h: u32,
    /// per image: (width, height, filter 0..5 (5 = adaptive), data class seed)
    images: Vec<(u32, u32, u8, u64)>,
    stream: bool,
    /// bytes per `write` call of the stream writer (0 = whole image at once)
    piece: usize,
}

fn filter_of(f: u8) -> png::Filter {
    match f {
        0 => png::Filter::NoFilter,
        1 => png::Filter::Sub,
        2 => png::Filter::Up,
        3 => png::Filter::Avg,
        4 => png::Filter::Paeth,
        _ => png::Filter::Adaptive,
    }
}

fn color_of(c: u8) -> png::ColorType {
    match c {
        0 => png::ColorType::Grayscale,
        2 => png::ColorType::Rgb,
        3 => png::ColorType::Indexed,
        4 => png::ColorType::GrayscaleAlpha,
        _ => png::ColorType::Rgba,
    }
}

fn depth_of(d: u8) -> png::BitDepth {
    match d {
        1 => png::BitDepth::One,
        2 => png::BitDepth::Two,
        4 => png::BitDepth::Four,
        8 => png::BitDepth::Eight,
        _ => png::BitDepth::Sixteen,
    }
}

impl Session {
    fn bits_pp(&self) -> usize {
        crate::refpng::samples(self.color) * self.depth as usize
    }
    fn row_bytes(&self, w: u32) -> usize {
        (w as usize * self.bits_pp() + 7) / 8
    }
    fn filter_bpp(&self) -> usize {
        (self.bits_pp() + 7) / 8
    }
    fn pixels(&self, i: usize) -> Vec<u8> {
        let (w, h, _, seed) = self.images[i];
        let n = self.row_bytes(w) * h as usize;
        let mut rng = Rng::new(seed, "c14enc");
        if seed % 3 == 0 {
            rng.class_bytes(n)
        } else {
            rng.bytes(n)
        }
    }
    fn json(&self) -> J {
        J::obj()
            .set("op", J::s("encrows"))
            .set("color", J::i(self.color))
            .set("depth", J::i(self.depth))
            .set("w", J::i(self.w))
            .set("h", J::i(self.h))
            .set("stream", J::i(self.stream as u8))
            .set("piece", J::i(self.piece as i64))
            .set(
                "images",
                J::s(&self.images.iter().map(|(w, h, f, s)| format!("{}x{}:{}:{}", w, h, f, s)).collect::<Vec<_>>().join(",")),
            )
    }
    fn from_json(j: &J) -> Option<Session> {
        let images = j
            .get("images")?
            .as_str()?
            .split(',')
            .filter(|s| !s.is_empty())
            .map(|s| {
                let p: Vec<&str> = s.split(':').collect();
                let d: Vec<&str> = p.first()?.split('x').collect();
                Some((d.first()?.parse().ok()?, d.get(1)?.parse().ok()?, p.get(1)?.parse().ok()?, p.get(2)?.parse().ok()?))
            })
            .collect::<Option<Vec<_>>>()?;
        Some(Session {
            color: j.get("color")?.as_i64()? as u8,
            depth: j.get("depth")?.as_i64()? as u8,
            w: j.get("w")?.as_i64()? as u32,
            h: j.get("h")?.as_i64()? as u32,
            images,
            stream: j.get("stream")?.as_i64()? != 0,
            piece: j.get("piece")?.as_i64()? as usize,
        })
    }
    fn key(&self) -> u64 {
        fnv64(format!("{:?}", self).as_bytes())
    }
}

/// Runs the real encoder.  Err = the encoder refused or panicked (not this part's business: C12 / C19 judge that).
fn encode(s: &Session) -> Result<Vec<u8>, String> {
    let s = s.clone();
    guarded(move || -> Result<Vec<u8>, String> {
        let mut out = Vec::new();
        {
            let mut enc = png::Encoder::new(&mut out, s.w, s.h);
            enc.set_color(color_of(s.color));
            enc.set_depth(depth_of(s.depth));
            if s.color == 3 {
                enc.set_palette(vec![7u8; 3 * (1usize << s.depth.min(8))]);
            }
            if s.images.len() > 1 {
                enc.set_animated(s.images.len() as u32, 0).map_err(|e| e.to_string())?;
            }
            let mut wr = enc.write_header().map_err(|e| e.to_string())?;
            if s.stream {
                let mut st = wr.stream_writer().map_err(|e| e.to_string())?;
                for i in 0..s.images.len() {
                    let (w, h, f, _) = s.images[i];
                    if i > 0 {
                        st.reset_frame_position().map_err(|e| e.to_string())?;
                        st.set_frame_dimension(w, h).map_err(|e| e.to_string())?;
                    }
                    st.set_filter(filter_of(f));
                    let px = s.pixels(i);
                    if s.piece == 0 {
                        st.write_all(&px).map_err(|e| e.to_string())?;
                    } else {
                        for c in px.chunks(s.piece) {
                            st.write_all(c).map_err(|e| e.to_string())?;
                        }
                    }
                }
                st.finish().map_err(|e| e.to_string())?;
            } else {
                for i in 0..s.images.len() {
                    let (w, h, f, _) = s.images[i];
                    if i > 0 {
                        wr.reset_frame_position().map_err(|e| e.to_string())?;
                        wr.set_frame_dimension(w, h).map_err(|e| e.to_string())?;
                    }
                    wr.set_filter(filter_of(f));
                    wr.write_image_data(&s.pixels(i)).map_err(|e| e.to_string())?;
                }
                wr.finish().map_err(|e| e.to_string())?;
            }
        }
        Ok(out)
    })
    .map_err(|p| format!("panic: {}", p))?
}

/// The zlib streams of the images of a file, in order (IDAT run, then one fdAT run per later fcTL), by the harness's own chunk walker.
fn image_streams(file: &[u8]) -> Option<Vec<Vec<u8>>> {
    if file.len() < 8 {
        return None;
    }
    let mut pos = 8usize;
    let mut streams: Vec<Vec<u8>> = Vec::new();
    let mut last = [0u8; 4];
    while pos + 12 <= file.len() {
        let len = u32::from_be_bytes([file[pos], file[pos + 1], file[pos + 2], file[pos + 3]]) as usize;
        let ty = [file[pos + 4], file[pos + 5], file[pos + 6], file[pos + 7]];
        if pos + 12 + len > file.len() {
            return None;
        }
        let data = &file[pos + 8..pos + 8 + len];
        match &ty {
            b"IDAT" => {
                if &last != b"IDAT" {
                    streams.push(Vec::new());
                }
                streams.last_mut()?.extend_from_slice(data);
            }
            b"fdAT" => {
                if &last != b"fdAT" {
                    streams.push(Vec::new());
                }
                streams.last_mut()?.extend_from_slice(data.get(4..)?);
            }
            _ => {}
        }
        last = ty;
        pos += 12 + len;
    }
    Some(streams)
}

/// None = the property holds on this session (or the encoder refused it); Some((class, what)) = a row does not reconstruct.
fn judge(s: &Session) -> Option<(String, String)> {
    let file = match encode(s) {
        Ok(f) => f,
        Err(_) => return None,
    };
    let path = if s.stream { "stream" } else { "writer" };
    let streams = match image_streams(&file) {
        Some(x) if x.len() == s.images.len() => x,
        _ => return Some((format!("encoder-rows/{}/layout", path), format!("{} images written, the file does not hold as many image data runs", s.images.len()))),
    };
    let bpp = s.filter_bpp();
    for (i, z) in streams.iter().enumerate() {
        let (w, h, f, _) = s.images[i];
        let rb = s.row_bytes(w);
        let raw = match crate::props::c12::zlib_inflate(z) {
            Some((r, _)) => r,
            None => return Some((format!("encoder-rows/{}/zlib", path), format!("image {}: the image data is not a zlib stream", i))),
        };
        if raw.len() != (1 + rb) * h as usize {
            return Some((
                format!("encoder-rows/{}/size", path),
                format!("image {} ({}x{}, {} bytes per row): {} bytes of filtered data, expected {}", i, w, h, rb, raw.len(), (1 + rb) * h as usize),
            ));
        }
        let given = s.pixels(i);
        let mut prev: Vec<u8> = Vec::new();
        for y in 0..h as usize {
            let ft = raw[y * (1 + rb)];
            if ft > 4 {
                return Some((format!("encoder-rows/{}/filter-type", path), format!("image {} row {}: filter type byte {}", i, y, ft)));
            }
            let rec = crate::props::c14::ref_recon(ft, bpp, &prev, &raw[y * (1 + rb) + 1..(y + 1) * (1 + rb)]);
            if rec[..] != given[y * rb..(y + 1) * rb] {
                let at = rec.iter().zip(&given[y * rb..]).position(|(a, b)| a != b).unwrap_or(0);
                return Some((
                    format!("encoder-rows/{}/{}", path, if y == 0 { if i == 0 { "first-row" } else { "first-row-of-later-image" } } else { "later-row" }),
                    format!(
                        "image {} of {} ({}x{}, filter setting {}, previous image {}), row {}: the emitted row (filter type {}) reconstructs by the specification to a row that differs from the given one at byte {}",
                        i,
                        s.images.len(),
                        w,
                        h,
                        f,
                        if i == 0 { "none".to_string() } else { format!("{}x{}", s.images[i - 1].0, s.images[i - 1].1) },
                        y,
                        ft,
                        at
                    ),
                ));
            }
            prev = rec;
        }
    }
    None
}

/// The inflated scanline streams of the images of the file the real encoder writes for this session (None: refused / not parseable).
fn real_raws(s: &Session) -> Option<Vec<Vec<u8>>> {
    let file = encode(s).ok()?;
    let streams = image_streams(&file)?;
    if streams.len() != s.images.len() {
        return None;
    }
    streams.iter().map(|z| crate::props::c12::zlib_inflate(z).map(|x| x.0)).collect()
}

/// One model question per image: the stream `encodeRowsImpl` emits for these rows under this filter setting.
fn model_lines(s: &Session) -> Vec<String> {
    (0..s.images.len())
        .map(|i| {
            let (w, _, f, _) = s.images[i];
            format!("c14 image {} {} {} {}", f, s.filter_bpp(), s.row_bytes(w), crate::util::hex(&s.pixels(i)))
        })
        .collect()
}

fn gen(rng: &mut Rng, n: usize) -> Vec<Session> {
    const CD: [(u8, u8); 12] = [(0, 8), (0, 16), (2, 8), (2, 16), (4, 8), (4, 16), (6, 8), (6, 16), (0, 1), (0, 4), (3, 2), (3, 8)];
    let mut v = Vec::new();
    for k in 0..n {
        let (color, depth) = CD[k % CD.len()];
        let w = rng.range(1, 40) as u32;
        let h = rng.range(1, 9) as u32;
        let frames = if rng.chance(1, 4) { 1 } else { rng.usize(2, 4) };
        // one filter per session on most, a mix on some; every type and adaptive come round
        let base = ((k / CD.len()) % 6) as u8;
        let mut images = Vec::new();
        for i in 0..frames {
            let (fw, fh) = if i == 0 { (w, h) } else { (rng.range(1, w as u64) as u32, rng.range(1, h as u64) as u32) };
            let f = if rng.chance(1, 5) { rng.below(6) as u8 } else { base };
            images.push((fw, fh, f, rng.next() >> 8));
        }
        let stream = rng.bool();
        let piece = if rng.bool() { 0 } else { rng.usize(1, 50) };
        v.push(Session { color, depth, w, h, images, stream, piece });
    }
    v
}

fn shrink(s: &Session, class: &str) -> Session {
    let mut cur = s.clone();
    let fails = |c: &Session| judge(c).map(|(k, _)| k == class).unwrap_or(false);
    loop {
        let mut cands: Vec<Session> = Vec::new();
        if cur.images.len() > 2 {
            for drop in 1..cur.images.len() {
                let mut c = cur.clone();
                c.images.remove(drop);
                cands.push(c);
            }
        }
        for i in 0..cur.images.len() {
            let (w, h, f, sd) = cur.images[i];
            if h > 1 {
                let mut c = cur.clone();
                c.images[i] = (w, h - 1, f, sd);
                if i == 0 {
                    c.h = h - 1;
                    for im in c.images.iter_mut() {
                        im.1 = im.1.min(h - 1);
                    }
                }
                cands.push(c);
            }
            if w > 1 && i > 0 {
                let mut c = cur.clone();
                c.images[i] = (w - 1, h, f, sd);
                cands.push(c);
            }
        }
        if cur.piece != 0 {
            let mut c = cur.clone();
            c.piece = 0;
            cands.push(c);
        }
        match cands.into_iter().find(|c| fails(c)) {
            Some(c) => cur = c,
            None => return cur,
        }
    }
}

pub fn run_part(ctx: &mut Ctx) {
    let n = ctx.n(720, 4320);
    let mut rng = ctx.rng.fork(14_002);
    let sessions = gen(&mut rng, n);
    let mut seen: std::collections::BTreeSet<String> = Default::default();
    for s in &sessions {
        ctx.rep.eval(true, s.key());
        ctx.rep.count("encoder rows: path", if s.stream { "stream writer" } else { "write_image_data" });
        ctx.rep.count("encoder rows: images per session", &s.images.len().to_string());
        ctx.rep.count("encoder rows: later image vs. predecessor", &{
            let mut k = "single";
            for i in 1..s.images.len() {
                k = if s.images[i].0 < s.images[i - 1].0 { "narrower" } else if s.images[i].0 > s.images[i - 1].0 { "wider" } else { "same width" };
            }
            k.to_string()
        });
        ctx.rep.count("encoder rows: encoder outcome", match encode(s) {
            Ok(_) => "file written",
            Err(_) => "refused",
        });
        if let Some((class, what)) = judge(s) {
            if seen.insert(class.clone()) {
                let small = shrink(s, &class);
                let what = judge(&small).map(|x| x.1).unwrap_or(what);
                ctx.rep.violation("oracle", &class, &what, small.json());
            } else {
                ctx.rep.violation("oracle", &class, &what, s.json());
            }
        }
    }
    // Tie B for `encodeRowsImpl` / `decodeRowsImpl` (Model/ScanlinesImpl.lean, theorems in Props/C14Image.lean): the scanline stream of every
    // image, byte for byte (filter type bytes included: the choice of the adaptive filter is part of the model), and the model's own inverse
    let mut lines: Vec<String> = Vec::new();
    let mut owners: Vec<(usize, usize)> = Vec::new();
    let mut raws: Vec<Option<Vec<Vec<u8>>>> = Vec::new();
    for (k, s) in sessions.iter().enumerate() {
        let r = real_raws(s);
        if r.is_some() {
            for (i, l) in model_lines(s).into_iter().enumerate() {
                lines.push(l);
                owners.push((k, i));
            }
        }
        raws.push(r);
    }
    let answers = crate::model::ask(&lines);
    let mut reported: std::collections::BTreeSet<String> = Default::default();
    for ((k, i), a) in owners.iter().zip(&answers) {
        ctx.rep.model_compared += 1;
        let s = &sessions[*k];
        let real = crate::util::hex(&raws[*k].as_ref().unwrap()[*i]);
        let mut parts = a.split(' ');
        let (stream, inv) = (parts.next().unwrap_or(""), parts.next().unwrap_or(""));
        let path = if s.stream { "stream" } else { "writer" };
        let bad = if stream != real {
            Some((format!("encoder-rows/{}/stream", path), format!("image {} of {}: encodeRowsImpl (model) differs from the scanline stream the encoder wrote (filter setting {})", i, s.images.len(), s.images[*i].2)))
        } else if inv != "inverse" {
            Some((format!("encoder-rows/{}/model-inverse", path), format!("image {}: decodeRowsImpl does not invert encodeRowsImpl on these rows: `{}`", i, inv)))
        } else {
            None
        };
        if let Some((class, what)) = bad {
            if reported.insert(class.clone()) || reported.len() < 4 {
                ctx.rep.violation("model", &class, &what, s.json());
            }
        }
    }
    ctx.rep.notes.push(format!(
        "encoder rows at the public API: {} sessions (1..4 images, later images of other sizes, every filter setting, write_image_data and StreamWriter in pieces); every emitted row reconstructed by the specification's formula from the harness's own parse of the file",
        sessions.len()
    ));
}

pub fn replay_case(ctx: &mut Ctx, case: &J) {
    if let Some(s) = Session::from_json(case) {
        ctx.rep.eval(true, s.key());
        if let Some((class, what)) = judge(&s) {
            ctx.rep.violation("oracle", &class, &what, s.json());
        }
        if let Some(raws) = real_raws(&s) {
            let answers = crate::model::ask(&model_lines(&s));
            for (i, a) in answers.iter().enumerate() {
                let real = crate::util::hex(&raws[i]);
                if a.split(' ').next().unwrap_or("") != real || !a.ends_with(" inverse") {
                    ctx.rep.violation("model", "encoder-rows/replay", &format!("image {}: encodeRowsImpl (model) differs from the scanline stream the encoder wrote", i), s.json());
                }
            }
        }
    }
}
