//! A hang is a finding, not a timeout of the check: if no case completes for `LIMIT_S` seconds the
//! watchdog writes a result file carrying the case that was running and ends the process.
use crate::json::J;
use std::sync::atomic::{AtomicU64, Ordering};
use std::sync::{Mutex, OnceLock};

static TICKS: AtomicU64 = AtomicU64::new(0);
static CURRENT: Mutex<String> = Mutex::new(String::new());
static OUT: OnceLock<(String, String)> = OnceLock::new();
static PAUSED: AtomicU64 = AtomicU64::new(0);
const LIMIT_S: u64 = 60;
/// outside an enter/leave bracket: no evaluated case and no model answer for this long (the brackets are an optimisation - a
/// property harness that forgets them must still never hang the check; seeded change C07_5 hung the C09 harness for an hour)
static GLOBAL_LIMIT: AtomicU64 = AtomicU64::new(240);

pub fn start(prop: &str, out_path: Option<&str>, thorough: bool) {
    GLOBAL_LIMIT.store(if thorough { 900 } else { 240 }, Ordering::Relaxed);
    let _ = OUT.set((prop.to_string(), out_path.unwrap_or("").to_string()));
    std::thread::spawn(|| {
        let mut last = TICKS.load(Ordering::Relaxed);
        let mut idle = 0u64;
        loop {
            std::thread::sleep(std::time::Duration::from_secs(1));
            let now = TICKS.load(Ordering::Relaxed);
            let bracketed = !CURRENT.lock().unwrap().is_empty();
            if now == last && (bracketed || PAUSED.load(Ordering::Relaxed) == 0) {
                idle += 1;
            } else {
                idle = 0;
                last = now;
            }
            if (bracketed && idle >= LIMIT_S) || idle >= GLOBAL_LIMIT.load(Ordering::Relaxed) {
                let (prop, path) = OUT.get().cloned().unwrap_or_default();
                let mut case = CURRENT.lock().unwrap().clone();
                if case.is_empty() {
                    case = format!("(no case bracket: the call that hangs follows evaluation #{} of this run; re-run with VERIF_DEBUG=1 to see it)", now);
                }
                let v = J::obj()
                    .set("class_key", J::s("hang"))
                    .set("what", J::s(&format!("a call into the crate did not return within {} s", if bracketed { LIMIT_S } else { GLOBAL_LIMIT.load(Ordering::Relaxed) })))
                    .set("kind", J::s("oracle"))
                    .set("count", J::i(1))
                    .set("case", J::obj().set("kind", J::s("hang")).set("case", J::s(&case)));
                let j = J::obj()
                    .set("property_id", J::s(&prop)).set("tier", J::s("quick")).set("seed", J::i(0)).set("evaluations", J::i(now as i64))
                    .set("distinct_nontrivial", J::i(0)).set("rule", J::s("watchdog")).set("samples", J::Arr(vec![])).set("histograms", J::obj())
                    .set("violations", J::Arr(vec![v])).set("model_disagreements", J::i(0)).set("oracle_failures", J::i(1)).set("model_gaps", J::i(0))
                    .set("model_compared", J::i(0)).set("exhaustive", J::Arr(vec![])).set("notes", J::Arr(vec![J::s("watchdog fired")]));
                if !path.is_empty() {
                    let _ = std::fs::write(&path, j.to_string());
                }
                std::process::exit(0);
            }
        }
    });
}

/// call before each potentially non-terminating case
pub fn enter(case: &str) {
    *CURRENT.lock().unwrap() = case.to_string();
    TICKS.fetch_add(1, Ordering::Relaxed);
}
pub fn leave() {
    CURRENT.lock().unwrap().clear();
    TICKS.fetch_add(1, Ordering::Relaxed);
}

/// progress outside a bracket (an evaluated case, a model answer)
pub fn tick() {
    TICKS.fetch_add(1, Ordering::Relaxed);
}
/// the harness waits for the model driver (which has its own time limit per line)
pub fn pause() {
    PAUSED.fetch_add(1, Ordering::Relaxed);
}
pub fn resume() {
    PAUSED.fetch_sub(1, Ordering::Relaxed);
    TICKS.fetch_add(1, Ordering::Relaxed);
}
