//! A hang is a finding, not a timeout of the check: if no case completes for `LIMIT_S` seconds the
//! watchdog writes a result file carrying the case that was running and ends the process.
use crate::json::J;
use std::sync::atomic::{AtomicU64, Ordering};
use std::sync::{Mutex, OnceLock};

static TICKS: AtomicU64 = AtomicU64::new(0);
static CURRENT: Mutex<String> = Mutex::new(String::new());
static OUT: OnceLock<(String, String)> = OnceLock::new();
const LIMIT_S: u64 = 60;

pub fn start(prop: &str, out_path: Option<&str>) {
    let _ = OUT.set((prop.to_string(), out_path.unwrap_or("").to_string()));
    std::thread::spawn(|| {
        let mut last = TICKS.load(Ordering::Relaxed);
        let mut idle = 0u64;
        loop {
            std::thread::sleep(std::time::Duration::from_secs(1));
            let now = TICKS.load(Ordering::Relaxed);
            if now == last && !CURRENT.lock().unwrap().is_empty() {
                idle += 1;
            } else {
                idle = 0;
                last = now;
            }
            if idle >= LIMIT_S {
                let (prop, path) = OUT.get().cloned().unwrap_or_default();
                let case = CURRENT.lock().unwrap().clone();
                let v = J::obj()
                    .set("class_key", J::s("hang"))
                    .set("what", J::s(&format!("a decoding call did not return within {} s", LIMIT_S)))
                    .set("kind", J::s("oracle"))
                    .set("count", J::i(1))
                    .set("case", J::obj().set("kind", J::s("hang")).set("case", J::s(&case)));
                let j = J::obj()
                    .set("property_id", J::s(&prop)).set("tier", J::s("quick")).set("seed", J::i(0)).set("evaluations", J::i(now as i64))
                    .set("distinct_nontrivial", J::i(0)).set("rule", J::s("watchdog")).set("samples", J::Arr(vec![])).set("histograms", J::obj())
                    .set("violations", J::Arr(vec![v])).set("model_disagreements", J::i(0)).set("oracle_failures", J::i(1)).set("model_gaps", J::i(0))
                    .set("model_compared", J::i(0)).set("exhaustive", J::Arr(vec![])).set("notes", J::Arr(vec![J::s("watchdog fired")]));
                if !path.is_empty() {
                    let _ = std::fs::write(&path, j.to_string());
                }
                std::process::exit(0);
            }
        }
    });
}

/// call before each potentially non-terminating case
pub fn enter(case: &str) {
    *CURRENT.lock().unwrap() = case.to_string();
    TICKS.fetch_add(1, Ordering::Relaxed);
}
pub fn leave() {
    CURRENT.lock().unwrap().clear();
    TICKS.fetch_add(1, Ordering::Relaxed);
}
