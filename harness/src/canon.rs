//! Canonical text forms shared with the Lean driver (`PngVerif/Driver/Framing.lean`).
use crate::rng::fnv64;
use crate::util::hex;

pub fn latin1_bytes(s: &str) -> Vec<u8> {
    s.chars().map(|c| c as u32 as u8).collect()
}

pub fn err_class(e: &png::DecodingError) -> String {
    match e {
        png::DecodingError::IoError(e) => format!("io({:?})", e.kind()),
        png::DecodingError::Format(_) => "format".to_string(),
        png::DecodingError::Parameter(_) => "parameter".to_string(),
        png::DecodingError::LimitsExceeded => "limits".to_string(),
    }
}

fn opt_b(o: Option<&[u8]>) -> String {
    match o {
        Some(b) => hex(b),
        None => "none".into(),
    }
}

pub fn info_canon(i: &png::Info) -> String {
    let pd = match i.pixel_dims {
        Some(p) => format!("{},{},{}", p.xppu, p.yppu, match p.unit { png::Unit::Unspecified => 0, png::Unit::Meter => 1 }),
        None => "none".into(),
    };
    let sc = |c: &png::SourceChromaticities| {
        [c.white.0, c.white.1, c.red.0, c.red.1, c.green.0, c.green.1, c.blue.0, c.blue.1]
            .iter().map(|v| v.into_scaled().to_string()).collect::<Vec<_>>().join(",")
    };
    let chrm = i.chrm_chunk.as_ref().map(sc).unwrap_or("none".into());
    let cicp = match &i.coding_independent_code_points {
        Some(c) => format!("{},{},{},{}", c.color_primaries, c.transfer_function, c.matrix_coefficients, c.is_video_full_range_image as u8),
        None => "none".into(),
    };
    let mdcv = match &i.mastering_display_color_volume {
        Some(m) => format!("{};{};{}", sc(&m.chromaticities), m.max_luminance, m.min_luminance),
        None => "none".into(),
    };
    let clli = match &i.content_light_level {
        Some(c) => format!("{},{}", c.max_content_light_level, c.max_frame_average_light_level),
        None => "none".into(),
    };
    let actl = match &i.animation_control {
        Some(a) => format!("{},{}", a.num_frames, a.num_plays),
        None => "none".into(),
    };
    let fctl = match &i.frame_control {
        Some(f) => format!("{},{},{},{},{},{},{},{},{}", f.sequence_number, f.width, f.height, f.x_offset, f.y_offset, f.delay_num, f.delay_den, f.dispose_op as u8, f.blend_op as u8),
        None => "none".into(),
    };
    let t: Vec<String> = i.uncompressed_latin1_text.iter().map(|c| format!("t:{}:{}", hex(&latin1_bytes(&c.keyword)), hex(&latin1_bytes(&c.text)))).collect();
    let z: Vec<String> = i.compressed_latin1_text.iter().map(|c| {
        format!("z:{}:{}", hex(&latin1_bytes(&c.keyword)), match c.get_text() { Ok(s) => hex(&latin1_bytes(&s)), Err(_) => "err".into() })
    }).collect();
    let it: Vec<String> = i.utf8_text.iter().map(|c| {
        format!("i:{}:{}:{}:{}:{}", hex(&latin1_bytes(&c.keyword)), c.compressed as u8, hex(c.language_tag.as_bytes()), hex(c.translated_keyword.as_bytes()),
            match c.get_text() { Ok(s) => hex(s.as_bytes()), Err(_) => "err".into() })
    }).collect();
    format!(
        "{}x{} d{} c{} il{} plte={} trns={} sbit={} bkgd={} phys={} gama={} chrm={} srgb={} cicp={} mdcv={} clli={} exif={} icc={} actl={} fctl={} text=[{}|{}|{}]",
        i.width, i.height, i.bit_depth as u8, i.color_type as u8, i.interlaced as u8,
        opt_b(i.palette.as_deref()), opt_b(i.trns.as_deref()), opt_b(i.sbit.as_deref()), opt_b(i.bkgd.as_deref()),
        pd,
        i.gama_chunk.map(|g| g.into_scaled().to_string()).unwrap_or("none".into()),
        chrm,
        i.srgb.map(|s| (s as u8).to_string()).unwrap_or("none".into()),
        cicp, mdcv, clli,
        opt_b(i.exif_metadata.as_deref()), opt_b(i.icc_profile.as_deref()),
        actl, fctl, t.join(";"), z.join(";"), it.join(";")
    )
}

pub fn type_name(t: png::chunk::ChunkType) -> String {
    t.0.iter().map(|&b| b as char).collect()
}

/// projected event (None for Nothing / PartialChunk / ImageData)
pub fn event_canon(ev: &png::Decoded, since_flush: &[u8]) -> Option<String> {
    use png::Decoded::*;
    match ev {
        Nothing | PartialChunk(_) | ImageData => None,
        Header(w, h, d, c, il) => Some(format!("H({},{},{},{},{})", w, h, *d as u8, *c as u8, *il as u8)),
        ChunkBegin(l, t) => Some(format!("B({},{})", l, type_name(*t))),
        ChunkComplete(_, t) => Some(format!("C({})", type_name(*t))),
        PixelDimensions(p) => Some(format!("P({},{},{})", p.xppu, p.yppu, match p.unit { png::Unit::Unspecified => 0, png::Unit::Meter => 1 })),
        AnimationControl(a) => Some(format!("A({},{})", a.num_frames, a.num_plays)),
        FrameControl(f) => Some(format!("F({},{},{},{},{},{},{},{},{})", f.sequence_number, f.width, f.height, f.x_offset, f.y_offset, f.delay_num, f.delay_den, f.dispose_op as u8, f.blend_op as u8)),
        ImageDataFlushed => Some(format!("FL({}:{:016x})", since_flush.len(), fnv64(since_flush))),
        ImageEnd => Some("E".into()),
    }
}

pub fn opts_string(o: &[bool; 5]) -> String {
    o.iter().map(|&b| if b { '1' } else { '0' }).collect()
}

/// [ignore_adler32, ignore_crc, ignore_text_chunk, ignore_iccp_chunk, skip_ancillary_crc_failures]
pub fn decode_options(o: &[bool; 5]) -> png::DecodeOptions {
    let mut d = png::DecodeOptions::default();
    if o[0] == o[1] {
        // the combined setter where it can express the pair
        d.set_ignore_checksums(o[0]);
    } else {
        d.set_ignore_adler32(o[0]);
        d.set_ignore_crc(o[1]);
    }
    d.set_ignore_text_chunk(o[2]);
    d.set_ignore_iccp_chunk(o[3]);
    d.set_skip_ancillary_crc_failures(o[4]);
    d
}

pub const DEFAULT_OPTS: [bool; 5] = [true, false, false, false, true];

/// can this option set be installed through the public setters of `Decoder` (`ignore_checksums` sets both checksum flags to
/// the same value; `skip_ancillary_crc_failures` has no setter there and keeps its default `true`)?
pub fn setters_representable(o: &[bool; 5]) -> bool {
    o[4] && (o[0] == o[1] || (o[0] && !o[1]))
}

/// the same options as `decode_options(o)`, installed on a `Decoder::new(..)` through `Decoder::ignore_checksums`,
/// `set_ignore_text_chunk`, `set_ignore_iccp_chunk` (requires `setters_representable(o)`)
pub fn apply_decoder_setters<R: std::io::BufRead + std::io::Seek>(dec: &mut png::Decoder<R>, o: &[bool; 5]) {
    if o[0] == o[1] {
        dec.ignore_checksums(o[0]);
    }
    dec.set_ignore_text_chunk(o[2]);
    dec.set_ignore_iccp_chunk(o[3]);
}

/// `StreamingDecoder::new()` with the options installed through its own setters; `None` if `set_ignore_adler32` refused
/// (it must not: nothing has been decompressed yet) or the getter does not report the value that was set
pub fn streaming_via_setters(o: &[bool; 5]) -> Option<png::StreamingDecoder> {
    let mut d = png::StreamingDecoder::new();
    if !d.set_ignore_adler32(o[0]) || d.ignore_adler32() != o[0] {
        return None;
    }
    d.set_ignore_crc(o[1]);
    d.set_ignore_text_chunk(o[2]);
    d.set_ignore_iccp_chunk(o[3]);
    d.set_skip_ancillary_crc_failures(o[4]);
    Some(d)
}
