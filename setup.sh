#!/bin/sh
# Offline build of the framework from files on disk: Tie A, Lean project (theorems + model driver), Rust harness.
set -e
cd "$(dirname "$0")"
mkdir -p .cache evidence
python3 tools/extract_params.py || true
python3 tools/rs2lean.py || true
(cd lean && lake build)
[ -f harness/Cargo.lock ] || cp /repo/Cargo.lock harness/Cargo.lock
(cd harness && CARGO_NET_OFFLINE=true CARGO_TARGET_DIR="$(pwd)/../.cache/target" RUSTFLAGS="--cfg png_verif" cargo build --offline) || \
(cd harness && CARGO_NET_OFFLINE=true CARGO_TARGET_DIR="$(pwd)/../.cache/target-nohooks" RUSTFLAGS="" cargo build --offline)
