#!/usr/bin/env python3
"""Writes MANIFEST.json from tools/manifest_src.json (one entry per claimed property)."""
import json, os
ROOT = os.path.join(os.path.dirname(os.path.abspath(__file__)), "..")
src = json.load(open(os.path.join(ROOT, "tools", "manifest_src.json")))
props = [json.loads(l)["id"] for l in open(os.path.join(ROOT, "properties.jsonl"))]
checks = []
for pid in props:
    c = src["checks"].get(pid)
    if not c:
        continue
    checks.append({
        "property_id": pid,
        "quick_cmd": "./check %s --tier quick" % pid,
        "thorough_cmd": "./check %s --tier thorough" % pid,
        "evidence_file": "evidence/%s.json" % pid,
        "replay_cmd_template": "./check %s --replay {path}" % pid,
        "engine": "lean-model+rust-harness",
        "level_claimed": {"category": "proof", "text": c["text"], "design_ref": c.get("design_ref", "DESIGN.md section 7, " + pid)},
        "level_note": c["note"],
        "technique": c.get("technique", "Lean 4 theorems about a hand-written model + differential correspondence check against the Rust code"),
    })
na = [{"property_id": p, "reason": src["not_applicable"].get(p, "not yet claimed: model and check under construction (see DESIGN.md section 9)")}
      for p in props if p not in src["checks"]]
m = {
    "version": 1,
    "setup_cmd": "./setup.sh",
    "hooks": src["hooks"],
    "engines": src["engines"],
    "checks": checks,
    "notes": src["notes"],
    "not_applicable": na,
}
json.dump(m, open(os.path.join(ROOT, "MANIFEST.json"), "w"), indent=1)
print("claimed:", [c["property_id"] for c in checks])
