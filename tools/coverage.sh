#!/bin/sh
# Line coverage of /repo/src under the correspondence harness (all properties, quick tier, one seed).
# Not a check: a measurement used to direct generator work (code the harness never executes cannot be tied by Tie B).
#   tools/coverage.sh [workdir] [harness dir] [pngmodel]    -> <workdir>/report.txt, <workdir>/missed.txt
set -e
W=${1:-/tmp/cov}; H=${2:-/verif/harness}; M=${3:-/verif/lean/.lake/build/bin/pngmodel}
T=$(ls -d ~/.rustup/toolchains/nightly-x86_64-unknown-linux-gnu/lib/rustlib/x86_64-unknown-linux-gnu/bin)
mkdir -p "$W"; rm -rf "$W/prof"
(cd "$H" && CARGO_NET_OFFLINE=true CARGO_TARGET_DIR="$W/target" RUSTFLAGS="--cfg png_verif -C instrument-coverage" cargo +nightly build --offline >"$W/build.log" 2>&1)
for p in ${PROPS:-C01 C02 C03 C04 C05 C06 C07 C08 C09 C10 C11 C12 C13 C14 C15 C16 C17 C18 C19 C20}; do
  LLVM_PROFILE_FILE="$W/prof/$p-%p.profraw" PNGMODEL="$M" PNG_REPO=/repo VERIF_ROOT=/verif timeout 1200 "$W/target/debug/pngharness" $p --tier quick --seed ${VERIF_SEED:-1} --out "$W/$p.json" >"$W/$p.log" 2>&1 || echo "harness $p exited $?"
done
"$T/llvm-profdata" merge -sparse "$W"/prof/*.profraw -o "$W/all.profdata"
"$T/llvm-cov" report "$W/target/debug/pngharness" -instr-profile="$W/all.profdata" --sources /repo/src 2>/dev/null >"$W/report.txt"
"$T/llvm-cov" show "$W/target/debug/pngharness" -instr-profile="$W/all.profdata" --sources /repo/src 2>/dev/null | python3 -c "
import sys,re
cur=None
for l in sys.stdin:
    m=re.match(r'^(/repo/src/.*):\$',l)
    if m: cur=m.group(1); continue
    m=re.match(r'^\s*(\d+)\|\s*0\|(.*)\$',l)
    if m and cur and 'test' not in cur: print(cur.replace('/repo/src/',''),m.group(1),m.group(2)[:110])
" >"$W/missed.txt"
tail -3 "$W/report.txt"; wc -l "$W/missed.txt"
