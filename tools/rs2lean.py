#!/usr/bin/env python3
"""Tie A, part 2: a translator from a small subset of Rust to Lean 4, run on every check.

  tools/rs2lean.py            (reads $PNG_REPO or /repo, writes lean/PngVerif/Generated/Kernels.lean)

It translates the straight-line arithmetic kernels of image-png listed in KERNELS below (Paeth predictors, sample
counts, row-length arithmetic, frame-rectangle validation, the inflate buffer's growth rule, ...) into Lean
definitions over `Int`, TEXTUALLY FROM THE CURRENT SOURCE, together with one `_ok` definition per function that
says "no arithmetic operation of this run leaves the range of its Rust type, no division by zero, no
`unreachable!()`/`panic!()` reached" (i.e. the function does not panic in an overflow-checked build and computes
with exact integers).  `Props/Kernels.lean` proves, for ALL arguments in the ranges of the Rust parameter types,
that the generated functions equal the hand-written model definitions the property theorems are about and that
`_ok` holds.  A change to one of these Rust functions therefore re-checks those proofs against what the code says
now; a function the translator cannot read any more (syntax outside the subset, function moved or renamed) is
reported as `TIE-A-BROKEN kernel:<name>`, which `./check` treats like a broken proof obligation.

The subset: `fn` with scalar parameters (integers, bool, the field-less enums of common.rs, `self` of such an enum,
or struct fields written `x.f`, which become parameters `x_f`); a body of `let [mut] x = e;`, `x = e;`, `x op= e;`,
`if c { .. } [else { .. }]`, `return e;` and a tail expression; expressions with + - * / % comparisons && || !
`as` casts, integer literals, `T::from(e)`, `if`/`match` expressions (literal, enum-variant, binding and `_` arms,
alternatives with `|`), `Some/None`, `Ok(())/Err(..)`, the methods abs min max wrapping_add wrapping_sub
saturating_add saturating_sub checked_add checked_sub checked_mul into ok and calls of other translated functions.
Semantics: exact integers; `as T` wraps into T; `wrapping_*` wrap; `saturating_*` clamp; `checked_*` give `none`
outside T; `usize`/`isize` are 64 bits wide; `Result<(), E>` is an `Int` (0 = Ok(()), k = index of the error name in
the kernel's `errors` list); a comparison of `Option`s is Rust's (`None < Some(_)`).
"""
import os, re, sys, json

ROOT = os.path.join(os.path.dirname(os.path.abspath(__file__)), "..")
REPO = os.environ.get("PNG_REPO", "/repo")
OUTDIR = os.path.join(ROOT, "lean", "PngVerif", "Generated")
GROUPS = ["Common", "Filter", "Adam7", "Stream", "Zlib"]   # a group may call functions of the groups before it

# name in Lean, file, impl type (or None), fn name, extra
KERNELS = [
    dict(group="Filter", lean="filter_paeth", file="src/filter.rs", impl=None, fn="filter_paeth"),
    dict(group="Filter", lean="filter_paeth_stbi", file="src/filter.rs", impl=None, fn="filter_paeth_stbi"),
    dict(group="Filter", lean="filter_paeth_fpnge", file="src/filter.rs", impl=None, fn="filter_paeth_fpnge"),
    dict(group="Common", lean="ColorType_samples_u8", file="src/common.rs", impl="ColorType", fn="samples_u8"),
    dict(group="Common", lean="ColorType_samples", file="src/common.rs", impl="ColorType", fn="samples"),
    dict(group="Common", lean="BitDepth_into_u8", file="src/common.rs", impl="BitDepth", fn="into_u8"),
    dict(group="Common", lean="ColorType_checked_raw_row_length", file="src/common.rs", impl="ColorType", fn="checked_raw_row_length"),
    dict(group="Common", lean="ColorType_raw_row_length_from_width", file="src/common.rs", impl="ColorType", fn="raw_row_length_from_width"),
    dict(group="Common", lean="ColorType_is_combination_invalid", file="src/common.rs", impl="ColorType", fn="is_combination_invalid"),
    dict(group="Common", lean="ColorType_bits_per_pixel", file="src/common.rs", impl="ColorType", fn="bits_per_pixel"),
    dict(group="Common", lean="ColorType_bytes_per_pixel", file="src/common.rs", impl="ColorType", fn="bytes_per_pixel"),
    dict(group="Common", lean="BytesPerPixel_from_usize", file="src/common.rs", impl="BytesPerPixel", fn="from_usize"),
    dict(group="Adam7", lean="Adam7Iterator_init_pass", file="src/adam7.rs", impl="Adam7Iterator", fn="init_pass",
         fields={"self": {"width": "u32", "height": "u32", "current_pass": "u8", "line_width": "u32", "lines": "u32", "line": "u32"}},
         outputs=["self_line_width", "self_lines", "self_line"]),
    dict(group="Adam7", lean="expand_adam7_bits", file="src/adam7.rs", impl=None, fn="expand_adam7_bits",
         fields={"info": {"line": "u32", "pass": "u8", "width": "u32"}}, index="i"),
    dict(group="Stream", lean="Info_validate", file="src/decoder/stream.rs", impl="Info<'_>", fn="validate",
         errors=["InvalidDimensions", "BadSubFrameBounds"], fields={"fc": {"width": "u32", "height": "u32", "x_offset": "u32", "y_offset": "u32"},
                                                                     "self": {"width": "u32", "height": "u32"}}),
    dict(group="Zlib", lean="ZlibStream_decoding_size", file="src/decoder/zlib.rs", impl="ZlibStream", fn="decoding_size",
         fields={"self": {"max_total_output": "usize"}}, consts={"CHUNK_BUFFER_SIZE": "usize"}),
]

INT_TYPES = {
    "u8": (0, 2 ** 8 - 1), "u16": (0, 2 ** 16 - 1), "u32": (0, 2 ** 32 - 1), "u64": (0, 2 ** 64 - 1), "usize": (0, 2 ** 64 - 1),
    "i8": (-2 ** 7, 2 ** 7 - 1), "i16": (-2 ** 15, 2 ** 15 - 1), "i32": (-2 ** 31, 2 ** 31 - 1), "i64": (-2 ** 63, 2 ** 63 - 1),
    "isize": (-2 ** 63, 2 ** 63 - 1),
}


class Unsupported(Exception):
    pass


# --------------------------------------------------------------------------------------------- source access

def strip_comments(src):
    src = re.sub(r"/\*.*?\*/", " ", src, flags=re.S)
    return "\n".join(l.split("//")[0] for l in src.split("\n"))


def match_brace(src, i):
    """index just after the brace block starting at src[i] == '{'"""
    depth = 0
    for j in range(i, len(src)):
        if src[j] == "{":
            depth += 1
        elif src[j] == "}":
            depth -= 1
            if depth == 0:
                return j + 1
    raise Unsupported("unbalanced braces")


def enum_table(src, name):
    m = re.search(r"enum\s+%s\s*\{" % re.escape(name), src)
    if not m:
        return None
    body = src[m.end() - 1:match_brace(src, m.end() - 1)]
    tab = {}
    for v, d in re.findall(r"(\w+)\s*=\s*(\d+)\s*,", body):
        tab[v] = int(d)
    return tab or None


def find_fn(src, impl, fn):
    """(params text, return type text, body text incl. braces) of fn `fn` (inside `impl <impl>` if given)"""
    regions = []
    if impl:
        for m in re.finditer(r"impl(?:<[^>]*>)?\s+%s\s*\{" % re.escape(impl), src):
            regions.append((m.end() - 1, match_brace(src, m.end() - 1)))
        if not regions:
            raise Unsupported("impl %s not found" % impl)
    else:
        regions = [(0, len(src))]
    for (a, b) in regions:
        for m in re.finditer(r"\bfn\s+%s\s*\(" % re.escape(fn), src[a:b]):
            s = a + m.end() - 1
            depth = 0
            j = s
            while True:
                if src[j] == "(":
                    depth += 1
                elif src[j] == ")":
                    depth -= 1
                    if depth == 0:
                        break
                j += 1
            params = src[s + 1:j]
            k = src.index("{", j)
            ret = src[j + 1:k].strip()
            ret = ret[2:].strip() if ret.startswith("->") else ""
            if impl is None:
                # a free function: not inside any impl block (indentation 0)
                line_start = src.rfind("\n", 0, a + m.start()) + 1
                if src[line_start:a + m.start()].strip() not in ("", "pub", "pub(crate)", "pub(super)"):
                    continue
                if src[line_start] in " \t":
                    continue
            return params, ret, src[k:match_brace(src, k)]
    raise Unsupported("fn %s not found" % fn)


# --------------------------------------------------------------------------------------------- lexer / parser

TOKEN = re.compile(r"\s*(?:(\"(?:[^\"\\]|\\.)*\")|(\d[\d_]*(?:\.\d+)?(?:[iu](?:8|16|32|64|size))?)|([A-Za-z_][A-Za-z0-9_]*)|(::|->|=>|==|!=|<=|>=|&&|\|\||<<|>>|\+=|-=|\*=|/=|[-+*/%<>=!&|^(){}\[\],;:.?'#]))")


def lex(text):
    toks = []
    i = 0
    text = text.strip()
    while i < len(text):
        m = TOKEN.match(text, i)
        if not m:
            raise Unsupported("cannot tokenise at: %r" % text[i:i + 30])
        if m.group(1):
            toks.append(("str", m.group(1)))
        elif m.group(2):
            toks.append(("num", m.group(2)))
        elif m.group(3):
            toks.append(("id", m.group(3)))
        else:
            toks.append(("op", m.group(4)))
        i = m.end()
    return toks


class Parser:
    def __init__(self, toks):
        self.t = toks
        self.i = 0

    def peek(self, k=0):
        return self.t[self.i + k] if self.i + k < len(self.t) else ("eof", "")

    def at(self, v, k=0):
        return self.peek(k)[1] == v and self.peek(k)[0] not in ("num", "str")

    def eat(self, v=None):
        tok = self.peek()
        if v is not None and tok[1] != v:
            raise Unsupported("expected %r, found %r" % (v, tok[1]))
        self.i += 1
        return tok

    # ---- statements
    def block(self):
        self.eat("{")
        stmts = []
        while not self.at("}"):
            if self.at("use"):
                while not self.at(";"):
                    self.eat()
                self.eat(";")
                continue
            if self.at("fn"):
                self.eat()
                fname = self.eat()[1]
                self.eat("(")
                params = []
                while not self.at(")"):
                    n = self.eat()[1]
                    self.eat(":")
                    params.append((n, self.type_()))
                    if self.at(","):
                        self.eat()
                self.eat(")")
                ret = None
                if self.at("->"):
                    self.eat()
                    ret = self.type_()
                stmts.append(("localfn", fname, params, ret, ("block", self.block())))
                continue
            if self.at("let"):
                self.eat()
                mut = False
                if self.at("mut"):
                    self.eat()
                    mut = True
                if self.at("("):
                    self.eat()
                    names = []
                    while not self.at(")"):
                        names.append(self.eat()[1])
                        if self.at(","):
                            self.eat()
                    self.eat(")")
                    self.eat("=")
                    e = self.expr()
                    self.eat(";")
                    stmts.append(("lettuple", names, e))
                    continue
                name = self.eat()[1]
                ty = None
                if self.at(":"):
                    self.eat()
                    ty = self.type_()
                self.eat("=")
                e = self.expr()
                self.eat(";")
                stmts.append(("let", name, ty, e))
                continue
            if self.at("return"):
                self.eat()
                e = self.expr() if not self.at(";") else ("unit",)
                if self.at(";"):
                    self.eat()
                stmts.append(("return", e))
                continue
            if self.at("debug_assert"):
                # debug_assert!(..): not part of the value; skipped (its condition is not an obligation here)
                self.eat(); self.eat("!"); self.skip_parens(); self.eat(";")
                continue
            e = self.expr(stmt=True)
            if self.peek()[1] in ("=", "+=", "-=", "*=", "/=") and self.peek()[0] == "op":
                op = self.eat()[1]
                rhs = self.expr()
                self.eat(";")
                if e[0] not in ("var", "field"):
                    raise Unsupported("assignment to a non-variable")
                if op != "=":
                    rhs = ("bin", op[0], e, rhs)
                stmts.append(("assign", e, rhs))
                continue
            if self.at(";"):
                self.eat()
                stmts.append(("expr", e))
                continue
            if e[0] == "if" and not self.at("}"):
                stmts.append(("expr", e))
                continue
            # tail expression
            if not self.at("}"):
                raise Unsupported("statement form not supported near %r" % (self.peek()[1],))
            stmts.append(("return", e))
        self.eat("}")
        return stmts

    def skip_parens(self):
        self.eat("(")
        d = 1
        while d:
            t = self.eat()[1]
            if t == "(":
                d += 1
            elif t == ")":
                d -= 1

    def type_(self):
        if self.at("&"):
            self.eat()
            if self.at("mut"):
                self.eat()
        name = self.eat()[1]
        if self.at("<"):
            self.eat()
            inner = self.type_()
            while self.at(","):
                self.eat()
                self.type_()
            self.eat(">")
            if name == "Option":
                return ("opt", inner)
            if name == "Result":
                return "result"
            raise Unsupported("generic type %s" % name)
        if name == "(":
            self.eat(")")
            return "unit"
        return name

    # ---- expressions (precedence climbing)
    LEVELS = [["||"], ["&&"], ["==", "!=", "<", ">", "<=", ">="], ["|"], ["^"], ["&"], ["<<", ">>"], ["+", "-"], ["*", "/", "%"]]

    def expr(self, lvl=0, stmt=False):
        if lvl == len(self.LEVELS):
            return self.cast()
        lhs = self.expr(lvl + 1, stmt)
        while self.peek()[0] == "op" and self.peek()[1] in self.LEVELS[lvl]:
            op = self.eat()[1]
            rhs = self.expr(lvl + 1)
            lhs = ("bin", op, lhs, rhs)
        return lhs

    def cast(self):
        e = self.unary()
        while self.at("as"):
            self.eat()
            e = ("cast", e, self.type_())
        return e

    def unary(self):
        if self.at("-"):
            self.eat()
            return ("neg", self.unary())
        if self.at("!"):
            self.eat()
            return ("not", self.unary())
        if self.at("*") or self.at("&"):
            self.eat()  # deref / borrow of a scalar: transparent
            return self.unary()
        return self.postfix()

    def args(self):
        self.eat("(")
        a = []
        while not self.at(")"):
            a.append(self.expr())
            if self.at(","):
                self.eat()
        self.eat(")")
        return a

    def postfix(self):
        e = self.primary()
        while True:
            if self.at(".") and self.at(".", 1):
                return e   # a range `a..b`
            if self.at("."):
                self.eat()
                name = self.eat()[1]
                if self.at("("):
                    e = ("method", e, name, self.args())
                else:
                    e = ("field", e, name)
            elif self.at("?"):
                raise Unsupported("? operator")
            else:
                return e

    def primary(self):
        k, v = self.peek()
        if k == "num":
            self.eat()
            m = re.match(r"([\d_]+)(?:\.(\d+))?([iu](?:8|16|32|64|size))?$", v)
            if m.group(2) is not None:
                if int(m.group(2)) != 0:
                    raise Unsupported("float literal with a fraction")
                return ("flit", int(m.group(1).replace("_", "")))
            return ("lit", int(m.group(1).replace("_", "")), m.group(3))
        if v == "(":
            self.eat()
            if self.at(")"):
                self.eat()
                return ("unit",)
            e = self.expr()
            if self.at(".") and self.at(".", 1):
                self.eat(); self.eat()
                hi = self.expr()
                self.eat(")")
                return ("range", e, hi)
            if self.at(","):
                items = [e]
                while self.at(","):
                    self.eat()
                    if self.at(")"):
                        break
                    items.append(self.expr())
                self.eat(")")
                return ("tuple", items)
            self.eat(")")
            return e
        if v == "if":
            self.eat()
            c = self.expr()
            a = self.block()
            b = None
            if self.at("else"):
                self.eat()
                b = [("return", self.primary())] if self.at("if") else self.block()
            return ("if", c, a, b)
        if v == "match":
            self.eat()
            scrut = self.expr()
            self.eat("{")
            arms = []
            while not self.at("}"):
                pats = [self.pattern()]
                while self.at("|"):
                    self.eat()
                    pats.append(self.pattern())
                self.eat("=>")
                body = self.block() if self.at("{") else [("return", self.expr())]
                if self.at(","):
                    self.eat()
                arms.append((pats, body))
            self.eat("}")
            return ("match", scrut, arms)
        if v == "{":
            return ("block", self.block())
        if v == "move" or v == "|":
            if v == "move":
                self.eat()
            self.eat("|")
            params = []
            while not self.at("|"):
                n = self.eat()[1]
                t = None
                if self.at(":"):
                    self.eat()
                    t = self.type_()
                params.append((n, t))
                if self.at(","):
                    self.eat()
            self.eat("|")
            ret = None
            if self.at("->"):
                self.eat()
                ret = self.type_()
            body = self.expr()
            if len(params) == 1 and params[0][1] is None and ret is None:
                return ("closure", params[0][0], body)
            return ("closureN", params, ret, body)
        if v in ("unreachable", "panic") and self.at("!", 1):
            self.eat(); self.eat("!"); self.skip_parens()
            return ("panic",)
        if k == "id":
            path = [self.eat()[1]]
            while self.at("::"):
                self.eat()
                path.append(self.eat()[1])
            if self.at("("):
                return ("call", path, self.args())
            if self.at("{") and path[-1][:1].isupper() and len(path) > 1 and self.at("}", 1):
                self.eat(); self.eat()  # `Variant {}`
                return ("path", path)
            if len(path) == 1:
                return ("var", path[0])
            return ("path", path)
        raise Unsupported("unexpected token %r" % v)

    def pattern(self):
        k, v = self.peek()
        if k == "num":
            self.eat()
            return ("plit", int(re.match(r"[\d_]+", v).group(0).replace("_", "")))
        if v == "_":
            self.eat()
            return ("pwild",)
        path = [self.eat()[1]]
        while self.at("::"):
            self.eat()
            path.append(self.eat()[1])
        if len(path) == 1 and path[0][:1].islower():
            return ("pbind", path[0])
        return ("pvariant", path[-1])


# --------------------------------------------------------------------------------------------- translation

class Tr:
    def __init__(self, kernel, enums, sigs):
        self.k = kernel
        self.enums = enums          # enum name -> {variant: discriminant}
        self.sigs = sigs            # lean name -> (impl, fn, param names, param types, ret type)
        self.params = []            # (lean name, type)
        self.env = {}               # rust var -> type
        self.self_ty = None
        self.ret = None
        self.localfns = {}          # local helper functions / closures: name -> (params, ret, body); inlined at calls
        self.fden = {}              # f64 variable -> denominator (a power of two): the variable holds the numerator

    # --- types
    def is_int(self, t):
        return t in INT_TYPES

    def enum_of_variant(self, v, hint=None):
        if hint in self.enums and v in self.enums[hint]:
            return hint
        c = [e for e, tab in self.enums.items() if v in tab]
        if len(c) >= 1:
            return c[0]
        return None

    def rng(self, t, x):
        lo, hi = INT_TYPES[t]
        return "decide (%d ≤ %s ∧ %s ≤ %d)" % (lo, x, x, hi)

    def wrap(self, t, x):
        lo, hi = INT_TYPES[t]
        n = hi - lo + 1
        if lo == 0:
            return "(%s %% %d)" % (x, n)
        return "((%s + %d) %% %d - %d)" % (x, -lo, n, -lo)

    def free_field(self, obj, f):
        """struct field `obj.f` -> parameter obj_f"""
        fields = self.k.get("fields", {})
        if obj in fields and f in fields[obj]:
            name = "%s_%s" % (obj, f)
            if name in self.env:
                return name, self.env[name]
            if name not in [p[0] for p in self.params]:
                self.params.append((name, fields[obj][f]))
            return name, fields[obj][f]
        raise Unsupported("field %s.%s is not declared for this kernel" % (obj, f))

    # --- expressions: returns (lean term, type, ok term or None)
    def conj(self, *oks):
        oks = [o for o in oks if o]
        if not oks:
            return None
        return " && ".join("(%s)" % o for o in oks) if len(oks) > 1 else oks[0]

    def e(self, x, want=None):
        k = x[0]
        if k == "lit":
            return (str(x[1]) if x[1] >= 0 else "(%d)" % x[1]), (x[2] or want or "lit"), None
        if k == "unit":
            return "()", "unit", None
        if k == "flit":
            return ("f64", str(x[1]), 1), "f64", None
        if k == "tuple":
            vals, tys, oks = [], [], []
            for it in x[1]:
                v, t, o = self.e(it)
                vals.append(v); tys.append(t); oks.append(o)
            return ("tuple", vals, tys), "tuple", self.conj(*oks)
        if k == "var":
            n = x[1]
            if n == "self":
                return "self_", self.self_ty, None
            if n in self.env:
                if self.env[n] == "f64":
                    return ("f64", self.lname(n), self.fden[n]), "f64", None
                return self.lname(n), self.env[n], None
            if n in self.k.get("consts", {}):
                if n not in [p[0] for p in self.params]:
                    self.params.append((n, self.k["consts"][n]))
                return n, self.k["consts"][n], None
            if n == "None":
                return "(none : Option Int)", ("opt", want[1] if isinstance(want, tuple) else "lit"), None
            v = self.enum_of_variant(n, self.self_ty)
            if v:
                return str(self.enums[v][n]), v, None
            raise Unsupported("unknown variable %s" % n)
        if k == "path":
            p = x[1]
            if len(p) == 2 and p[0] in INT_TYPES and p[1] in ("MAX", "MIN"):
                lo, hi = INT_TYPES[p[0]]
                return ("%d" % hi if p[1] == "MAX" else "(%d)" % lo), p[0], None
            en = p[-2] if len(p) >= 2 else None
            if en == "Self":
                en = self.self_ty
            if en in self.enums and p[-1] in self.enums[en]:
                return str(self.enums[en][p[-1]]), en, None
            raise Unsupported("path %s" % "::".join(p))
        if k == "field":
            if x[1][0] == "var":
                n, t = self.free_field(x[1][1], x[2])
                return n, t, None
            raise Unsupported("nested field access")
        if k == "neg":
            a, t, o = self.e(x[1], want)
            r = "(-%s)" % a
            return r, t, self.conj(o, self.rng(t, r) if self.is_int(t) else None)
        if k == "not":
            a, t, o = self.e(x[1], "bool")
            if t != "bool":
                raise Unsupported("! on a non-bool")
            return "(!%s)" % a, "bool", o
        if k == "cast":
            a, t, o = self.e(x[1])
            tt = x[2]
            if not self.is_int(tt):
                raise Unsupported("cast to %s" % tt)
            if t == "f64":
                # float -> integer `as`: truncation toward zero, saturating at the bounds of the target type
                if a[2] != 1:
                    raise Unsupported("`as` on a float that is not known to be integral (use ceil/floor first)")
                lo, hi = INT_TYPES[tt]
                return "(max %s (min %d %s))" % (("(%d)" % lo) if lo < 0 else "0", hi, a[1]), tt, o
            if t == "bool":
                return "(if %s then 1 else 0)" % a, tt, o
            if t in self.enums or t == "lit":
                return a, tt, o  # discriminants fit every integer type used here
            if self.is_int(t):
                lo, hi = INT_TYPES[t]
                lo2, hi2 = INT_TYPES[tt]
                if lo2 <= lo and hi <= hi2:
                    return a, tt, o          # widening: value preserved
                return self.wrap(tt, a), tt, o
            raise Unsupported("cast from %s" % (t,))
        if k == "bin":
            return self.binop(x, want)
        if k == "if":
            c, ct, co = self.e(x[1], "bool")
            if x[3] is None:
                raise Unsupported("if expression without else")
            a, at_, ao = self.blk(x[2], want)
            b, bt, bo = self.blk(x[3], want if at_ == "lit" else at_)
            t = at_ if at_ != "lit" else bt
            ok = None
            if ao or bo:
                ok = "(if %s then %s else %s)" % (c, ao or "true", bo or "true")
            return "(if %s then %s else %s)" % (c, a, b), t, self.conj(co, ok)
        if k == "block":
            return self.blk(x[1], want)
        if k == "match":
            return self.match(x, want)
        if k == "panic":
            return "0", want or "lit", "false"
        if k == "call":
            return self.call(x, want)
        if k == "method":
            return self.method(x, want)
        raise Unsupported("expression kind %s" % k)

    def lname(self, n):
        if n.endswith("__idx"):
            return n[:-5]
        return n + "_" if n in ("min", "max", "out", "end", "from", "to", "at", "in", "then", "else", "fun", "do", "have", "show", "open", "by") else n

    def binop(self, x, want):
        op = x[1]
        if op in ("&&", "||"):
            a, _, ao = self.e(x[2], "bool")
            b, _, bo = self.e(x[3], "bool")
            ok = ao
            if bo:
                guard = "(!%s || %s)" % (a, bo) if op == "&&" else "(%s || %s)" % (a, bo)
                ok = self.conj(ao, guard)
            return "(%s %s %s)" % (a, op, b), "bool", ok
        if self.is_f64(x[2]) or self.is_f64(x[3]):
            return self.fbin(x)
        # operand types: a literal takes the type of the other side
        a, ta, ao = self.e(x[2], None)
        b, tb, bo = self.e(x[3], ta if ta != "lit" else None)
        if ta == "lit" and tb != "lit":
            a, ta, ao = self.e(x[2], tb)
        if ta == "lit" and tb == "lit" and want:
            ta = tb = want
        t = ta if ta != "lit" else tb
        if op in ("==", "!=", "<", ">", "<=", ">="):
            if isinstance(t, tuple):  # Option ordering
                f = {"<=": "optLe %s %s", "<": "optLt %s %s", ">=": "optLe %s %s", ">": "optLt %s %s", "==": "(%s == %s)", "!=": "(%s != %s)"}[op]
                args = (b, a) if op in (">=", ">") else (a, b)
                return "(" + f % args + ")", "bool", self.conj(ao, bo)
            if t == "bool":
                return "(%s %s %s)" % (a, "==" if op == "==" else "!=", b), "bool", self.conj(ao, bo)
            sym = {"==": "=", "!=": "≠", "<": "<", ">": ">", "<=": "≤", ">=": "≥"}[op]
            return "decide (%s %s %s)" % (a, sym, b), "bool", self.conj(ao, bo)
        if op in ("+", "-", "*"):
            r = "(%s %s %s)" % (a, op, b)
            return r, t, self.conj(ao, bo, self.rng(t, r) if self.is_int(t) else None)
        if op in ("/", "%"):
            r = "(%s %s %s)" % (a, op, b)
            if self.is_int(t) and INT_TYPES[t][0] < 0:
                r = "(Int.tdiv %s %s)" % (a, b) if op == "/" else "(Int.tmod %s %s)" % (a, b)
            return r, t, self.conj(ao, bo, "decide (%s ≠ 0)" % b)
        if op in (">>", "<<"):
            if x[3][0] != "lit":
                raise Unsupported("shift by a non-literal")
            n = 2 ** x[3][1]
            if op == ">>":
                if self.is_int(t) and INT_TYPES[t][0] < 0:
                    raise Unsupported(">> on a signed type")
                return "(%s / %d)" % (a, n), t, ao
            r = "(%s * %d)" % (a, n)
            return r, t, self.conj(ao, self.rng(t, r) if self.is_int(t) else None)
        raise Unsupported("operator %s" % op)

    # --- f64: every value is numerator / denominator with the denominator a power of two known at translation time;
    # all operations used (from u32, +, -, * and / by small powers of two, ceil, floor) are exact in IEEE-754 binary64 as
    # long as the numerators stay below 2^53 in magnitude, which `_ok` demands
    def is_f64(self, x):
        if x[0] == "flit":
            return True
        if x[0] == "var":
            return self.env.get(x[1]) == "f64"
        if x[0] == "call":
            return x[1] == ["f64", "from"]
        if x[0] == "bin":
            return self.is_f64(x[2]) or self.is_f64(x[3])
        if x[0] == "method" and x[2] in ("ceil", "floor"):
            return True
        return False

    def fexact(self, n):
        return "decide (-9007199254740992 ≤ %s ∧ %s ≤ 9007199254740992)" % (n, n)

    def fbin(self, x):
        op = x[1]
        (fa, na, da), ta, ao = self.e(x[2])
        (fb, nb, db), tb, bo = self.e(x[3])
        if op in ("+", "-"):
            d = max(da, db)
            n = "(%s %s %s)" % (na if da == d else "(%s * %d)" % (na, d // da), op, nb if db == d else "(%s * %d)" % (nb, d // db))
            return ("f64", n, d), "f64", self.conj(ao, bo, self.fexact(n))
        if op == "/":
            if x[3][0] != "flit" or x[3][1] <= 0 or (x[3][1] & (x[3][1] - 1)) != 0:
                raise Unsupported("float division by something that is not a literal power of two")
            return ("f64", na, da * x[3][1]), "f64", ao
        if op == "*":
            if x[3][0] != "flit":
                raise Unsupported("float multiplication by a non-literal")
            n = "(%s * %d)" % (na, x[3][1])
            return ("f64", n, da), "f64", self.conj(ao, self.fexact(n))
        if op in ("<", "<=", ">", ">=", "==", "!="):
            d = max(da, db)
            l = na if da == d else "(%s * %d)" % (na, d // da)
            r = nb if db == d else "(%s * %d)" % (nb, d // db)
            sym = {"==": "=", "!=": "≠", "<": "<", ">": ">", "<=": "≤", ">=": "≥"}[op]
            return "decide (%s %s %s)" % (l, sym, r), "bool", self.conj(ao, bo)
        raise Unsupported("float operator %s" % op)

    def call(self, x, want):
        p, args = x[1], x[2]
        if len(p) == 1 and p[0] in self.localfns:
            # a local helper: inlined.  Arguments are evaluated first (bound to temporaries), then the parameters are bound.
            params, ret, body = self.localfns[p[0]]
            if len(params) != len(args):
                raise Unsupported("arity of %s" % p[0])
            self.ntmp = getattr(self, "ntmp", 0) + 1
            tmps, oks, tys = [], [], []
            for (pn, pt), a_ in zip(params, args):
                v, t, o = self.e(a_, pt)
                if t == "f64" or isinstance(v, tuple):
                    raise Unsupported("float / tuple argument of a local function")
                tmps.append(("%s__a%d" % (pn, self.ntmp), v))
                oks.append(o)
                tys.append(pt if (pt and pt != "lit") else t)
            saved, fd = dict(self.env), dict(self.fden)
            # a local fn (not a closure) does not see the enclosing variables; a closure does: both are fine here because
            # the parameters shadow and Rust has already checked scoping
            for (pn, _), t in zip(params, tys):
                self.env[pn] = t
            bv, bt, bo = self.e(body, ret)
            self.env, self.fden = saved, fd
            if ret and ret != "lit" and bt != "f64":
                bt = ret
            def wrap(inner):
                for (pn, _), (tn, _) in reversed(list(zip(params, tmps))):
                    inner = "(let %s := %s; %s)" % (self.lname(pn), tn, inner)
                for tn, v in reversed(tmps):
                    inner = "(let %s := %s; %s)" % (tn, v, inner)
                return inner
            return wrap(bv), bt, self.conj(*(oks + [wrap(bo) if bo else None]))
        if p == ["f64", "from"]:
            a, t, o = self.e(args[0])
            if t not in ("u8", "u16", "u32", "i8", "i16", "i32"):
                raise Unsupported("f64::from(%s)" % (t,))
            return ("f64", a, 1), "f64", o
        if len(p) == 2 and p[1] == "from" and p[0] in INT_TYPES:
            a, t, o = self.e(args[0])
            if t == "bool":
                return "(if %s then 1 else 0)" % a, p[0], o
            return a, p[0], o  # From is only implemented for value-preserving conversions
        if p == ["Some"]:
            a, t, o = self.e(args[0], want[1] if isinstance(want, tuple) else None)
            return "(some %s)" % a, ("opt", t), o
        if p == ["Ok"]:
            return "0", "result", None
        if p == ["Err"]:
            names = re.findall(r"[A-Za-z_]\w*", json.dumps(args[0]))
            for i, en in enumerate(self.k.get("errors", [])):
                if en in names:
                    return str(i + 1), "result", None
            raise Unsupported("Err(..) with an error name that is not declared for this kernel")
        if p[-1] == "try_from" and len(args) == 1:
            a, t, o = self.e(args[0])
            return ("tryfrom", a, t), "tryfrom", o
        raise Unsupported("call of %s" % "::".join(p))

    def method(self, x, want):
        recv, name, args = x[1], x[2], x[3]
        # calls of other translated functions on an enum receiver
        r, t, ro = self.e(recv)
        if t == "f64":
            if name in ("ceil", "floor") and not args:
                n, d = r[1], r[2]
                if d == 1:
                    return r, "f64", ro
                v = "(-((-%s) / %d))" % (n, d) if name == "ceil" else "(%s / %d)" % (n, d)
                return ("f64", v, 1), "f64", ro
            raise Unsupported("float method %s" % name)
        if t == "tryfrom":
            if name == "ok" and not args:
                a, src = r[1], r[2]
                target = want[1] if isinstance(want, tuple) else "usize"
                lo, hi = INT_TYPES.get(target, INT_TYPES["usize"])
                return "(if %d ≤ %s ∧ %s ≤ %d then some %s else none)" % (lo, a, a, hi, a), ("opt", target), ro
            raise Unsupported("method %s on try_from" % name)
        if t in self.enums or (t == self.self_ty and t):
            for ln, (impl, fn, pn, pt, rt) in self.sigs.items():
                if impl == t and fn == name:
                    vals, oks = [r], [ro]
                    for a_, pt_ in zip(args, pt[1:]):
                        v, _, o = self.e(a_, pt_)
                        vals.append(v)
                        oks.append(o)
                    callok = "%s_ok %s" % (ln, " ".join(vals))
                    return "(%s %s)" % (ln, " ".join(vals)), rt, self.conj(*(oks + [callok]))
        if name == "into" and not args:
            tt = want if (want and want != "lit") else t
            return r, tt, ro
        if not self.is_int(t) and t != "lit":
            raise Unsupported("method %s on %s" % (name, t))
        if name == "abs":
            v = "(if %s < 0 then -%s else %s)" % (r, r, r)
            return v, t, self.conj(ro, self.rng(t, v) if self.is_int(t) else None)
        if name in ("min", "max"):
            b, tb, bo = self.e(args[0], t)
            return "(%s %s %s)" % (name, r, b), (t if t != "lit" else tb), self.conj(ro, bo)
        if name in ("wrapping_add", "wrapping_sub", "wrapping_mul"):
            b, tb, bo = self.e(args[0], t)
            op = {"wrapping_add": "+", "wrapping_sub": "-", "wrapping_mul": "*"}[name]
            return self.wrap(t, "(%s %s %s)" % (r, op, b)), t, self.conj(ro, bo)
        if name in ("saturating_add", "saturating_sub"):
            b, tb, bo = self.e(args[0], t)
            lo, hi = INT_TYPES[t]
            op = "+" if name == "saturating_add" else "-"
            return "(max %d (min %d (%s %s %s)))" % (lo, hi, r, op, b) if lo < 0 else "(max 0 (min %d (%s %s %s)))" % (hi, r, op, b), t, self.conj(ro, bo)
        if name in ("checked_add", "checked_sub", "checked_mul"):
            b, tb, bo = self.e(args[0], t)
            op = {"checked_add": "+", "checked_sub": "-", "checked_mul": "*"}[name]
            lo, hi = INT_TYPES[t]
            v = "(%s %s %s)" % (r, op, b)
            return "(if %d ≤ %s ∧ %s ≤ %d then some %s else none)" % (lo, v, v, hi, v), ("opt", t), self.conj(ro, bo)
        raise Unsupported("method %s" % name)

    def match(self, x, want):
        s, st, so = self.e(x[1])
        if not (st in self.enums or self.is_int(st) or st == "lit"):
            raise Unsupported("match on %s" % (st,))
        arms = x[2]
        val, ok, ty = None, None, None
        # built from the last arm backwards
        out = []
        for pats, body in arms:
            conds = []
            bind = None
            for p in pats:
                if p[0] == "plit":
                    conds.append("%s = %d" % (s, p[1]))
                elif p[0] == "pvariant":
                    en = st if st in self.enums else self.enum_of_variant(p[1], self.self_ty)
                    if en is None or p[1] not in self.enums[en]:
                        raise Unsupported("unknown variant %s" % p[1])
                    conds.append("%s = %d" % (s, self.enums[en][p[1]]))
                elif p[0] == "pwild":
                    conds = None
                    break
                elif p[0] == "pbind":
                    conds = None
                    bind = p[1]
                    break
            saved = dict(self.env)
            if bind:
                self.env[bind] = st
            v, t, o = self.blk(body, want if ty in (None, "lit") else ty)
            self.env = saved
            if bind:
                v = "(let %s := %s; %s)" % (self.lname(bind), s, v)
                o = "(let %s := %s; %s)" % (self.lname(bind), s, o) if o else None
            if ty in (None, "lit"):
                ty = t
            out.append((conds, v, o))
        if out[-1][0] is not None:
            # no catch-all arm: Rust checked exhaustiveness over the enum; values outside it are unreachable
            out.append((None, "0", None))
        val, ok = out[-1][1], out[-1][2]
        anyok = any(o for _, _, o in out)
        for conds, v, o in reversed(out[:-1]):
            c = " ∨ ".join(conds)
            val = "(if %s then %s else %s)" % (c, v, val)
            if anyok:
                ok = "(if %s then %s else %s)" % (c, o or "true", ok or "true")
        return val, ty, self.conj(so, ok)

    # --- blocks (continuation style: what follows an `if` statement is repeated in both branches)
    def mapchain(self, x, want):
        """`(0..n).map(|i| e1).map(|j| e2)...` as the function index -> element (for 0 <= index < n); the kernel's
        `index` parameter is the position in the iterator"""
        chain = []
        while x[0] == "method" and x[2] == "map" and len(x[3]) == 1 and x[3][0][0] == "closure":
            chain.append(x[3][0])
            x = x[1]
        if x[0] != "range" or x[1] != ("lit", 0, None):
            raise Unsupported("iterator chain that does not start with (0..n)")
        hi, ht, ho = self.e(x[2])
        idx = self.k["index"]
        if idx not in [p[0] for p in self.params]:
            self.params.append((idx, ht))
        self.env["%s__idx" % idx] = ht
        order = list(reversed(chain))          # order of application
        ss = [("let", order[0][1], None, ("var", "%s__idx" % idx))]
        for prev, cl in zip(order, order[1:]):
            ss.append(("let", cl[1], None, prev[2]))
        ss.append(("return", order[-1][2]))
        v, t, o = self.stmts(ss, want)
        return v, t, self.conj(ho, o)

    def blk(self, stmts, want=None):
        saved, fd = dict(self.env), dict(self.fden)
        r = self.stmts(list(stmts), want)
        self.env, self.fden = saved, fd
        return r

    def finish(self):
        """value of a body that ends without a value: the final values of the declared output fields"""
        outs = self.k.get("outputs")
        if not outs:
            return "()", "unit", None
        vals = []
        for o in outs:
            if o in self.env:
                vals.append(o)
            else:
                obj, f = o.split("_", 1)
                vals.append(self.free_field(obj, f)[0])
        return "(%s)" % ", ".join(vals), "outputs", None

    def bind(self, name, v, t, rest, want, o):
        """let name := v; rest"""
        ln = self.lname(name)
        if t == "f64":
            self.env[name] = "f64"
            self.fden[name] = v[2]
            v = v[1]
        else:
            self.env[name] = t
        rv, rt, ro = self.stmts(rest, want)
        val = "(let %s := %s; %s)" % (ln, v, rv)
        ok = self.conj(o, "(let %s := %s; %s)" % (ln, v, ro) if ro else None)
        return val, rt, ok

    def lettuple(self, names, ex, rest, want):
        """let (a, b) = e; rest   with e a tuple, or an if / match whose arms end in tuples: the rest is moved into the arms"""
        k = ex[0]
        if k == "tuple":
            if len(ex[1]) != len(names):
                raise Unsupported("tuple arity")
            ss = [("let", n, None, it) for n, it in zip(names, ex[1])]
            # simultaneous binding: the components must not mention the names being bound
            return self.stmts(ss + rest, want)
        if k == "block":
            body = list(ex[1])
            if body and body[-1][0] in ("expr", "return") and body[-1][1][0] == "panic":
                return "default", want or "lit", "false"
            if not body or body[-1][0] != "return":
                raise Unsupported("tuple-valued block without a tail")
            return self.stmts(body[:-1] + [("lettuple", names, body[-1][1])] + rest, want)
        if k == "if":
            c, _, co = self.e(ex[1], "bool")
            env0, fd0 = dict(self.env), dict(self.fden)
            a, at_, ao = self.lettuple(names, ("block", ex[2]), rest, want)
            self.env, self.fden = dict(env0), dict(fd0)
            b, bt, bo = self.lettuple(names, ("block", ex[3]), rest, want)
            self.env, self.fden = env0, fd0
            ok = "(if %s then %s else %s)" % (c, ao or "true", bo or "true") if (ao or bo) else None
            return "(if %s then %s else %s)" % (c, a, b), at_, self.conj(co, ok)
        if k == "match":
            arms = [(pats, [("lettuple", names, ("block", body))] + rest) for pats, body in ex[2]]
            return self.match(("match", ex[1], arms), want)
        if k == "panic":
            return "default", want or "lit", "false"
        raise Unsupported("tuple pattern bound to %s" % k)

    def stmts(self, ss, want):
        if not ss:
            return self.finish()
        s, rest = ss[0], ss[1:]
        if s[0] == "localfn" or (s[0] == "let" and s[3][0] == "closureN"):
            if s[0] == "localfn":
                self.localfns[s[1]] = (s[2], s[3], s[4])
            else:
                self.localfns[s[1]] = (s[3][1], s[3][2], s[3][3])
            return self.stmts(rest, want)
        if s[0] == "lettuple":
            env0, fd0 = dict(self.env), dict(self.fden)
            r = self.lettuple(s[1], s[2], rest, want)
            self.env, self.fden = env0, fd0
            return r
        if s[0] == "assign" and s[1][0] == "field":
            if s[1][1][0] != "var":
                raise Unsupported("assignment to a nested field")
            obj, f = s[1][1][1], s[1][2]
            fields = self.k.get("fields", {})
            if obj not in fields or f not in fields[obj]:
                raise Unsupported("assignment to undeclared field %s.%s" % (obj, f))
            name = "%s_%s" % (obj, f)
            v, t, o = self.e(s[2], fields[obj][f])
            if t == "f64":
                raise Unsupported("float stored in a field")
            return self.bind(name, v, fields[obj][f], rest, want, o)
        if s[0] == "let" or s[0] == "assign":
            if s[0] == "let":
                name, ann, ex = s[1], s[2], s[3]
            else:
                if s[1][0] == "field":
                    raise Unsupported("assignment to a field")
                name, ann, ex = s[1][1], self.env.get(s[1][1]), s[2]
            v, t, o = self.e(ex, ann)
            if ann and ann != "lit" and t != "f64":
                t = ann
            if t == "tuple":
                raise Unsupported("tuple bound to one name")
            return self.bind(name, v, t, rest, want, o)
        if s[0] == "return":
            if s[1][0] == "unit" and self.k.get("outputs"):
                return self.finish()
            if self.k.get("index") and s[1][0] == "method" and s[1][2] == "map":
                return self.mapchain(s[1], want)
            v, t, o = self.e(s[1], want)
            if t == "f64":
                raise Unsupported("float result")
            return v, t, o
        if s[0] == "expr":
            ex = s[1]
            if ex[0] == "if":
                c, _, co = self.e(ex[1], "bool")
                env0, fd0 = dict(self.env), dict(self.fden)
                a, at_, ao = self.stmts(list(ex[2]) + rest, want)
                self.env, self.fden = dict(env0), dict(fd0)
                b, bt, bo = self.stmts(list(ex[3] or []) + rest, want)
                self.env, self.fden = env0, fd0
                ok = None
                if ao or bo:
                    ok = "(if %s then %s else %s)" % (c, ao or "true", bo or "true")
                return "(if %s then %s else %s)" % (c, a, b), (at_ if at_ != "lit" else bt), self.conj(co, ok)
            if not rest:
                return self.e(ex, want)
            raise Unsupported("expression statement without effect")
        raise Unsupported("statement %s" % s[0])


def parse_params(text, impl, enums):
    """[(rust name, type)]"""
    out = []
    depth = 0
    cur = ""
    parts = []
    for ch in text:
        if ch in "<(":
            depth += 1
        if ch in ">)":
            depth -= 1
        if ch == "," and depth == 0:
            parts.append(cur)
            cur = ""
        else:
            cur += ch
    if cur.strip():
        parts.append(cur)
    for p in parts:
        p = p.strip()
        if p in ("self", "&self", "&mut self", "mut self"):
            out.append(("self", impl))
            continue
        m = re.match(r"(?:mut\s+)?(\w+)\s*:\s*&?\s*(?:mut\s+)?([\w<>' ]+)$", p)
        if not m:
            raise Unsupported("parameter %r" % p)
        out.append((m.group(1), m.group(2)))
    return out


def translate_all():
    srcs = {}
    enums = {}
    common = strip_comments(open(os.path.join(REPO, "src/common.rs")).read())
    for en in ("ColorType", "BitDepth", "BytesPerPixel"):
        tab = enum_table(common, en)
        if tab:
            enums[en] = tab
    sigs = {}
    results = []
    broken = []
    defs = []
    for k in KERNELS:
        try:
            path = os.path.join(REPO, k["file"])
            if path not in srcs:
                srcs[path] = strip_comments(open(path).read())
            params_text, ret, body = find_fn(srcs[path], k["impl"], k["fn"])
            impl_ty = k["impl"] if k["impl"] in enums else None
            params = parse_params(params_text, impl_ty, enums)
            tr = Tr(k, enums, sigs)
            tr.self_ty = impl_ty
            lean_params = []
            for (n, t) in params:
                if n == "self":
                    if impl_ty:
                        lean_params.append(("self_", impl_ty))
                    continue  # struct receiver: its fields become parameters on use
                if t in INT_TYPES or t == "bool" or t in enums:
                    tr.env[n] = t
                    lean_params.append((tr.lname(n), t))
                elif n in k.get("fields", {}):
                    continue
                else:
                    raise Unsupported("parameter %s: %s" % (n, t))
            mret = re.match(r"impl\s+Iterator<Item\s*=\s*(\w+)>", ret)
            if mret:
                ret = mret.group(1)
            ret_ty = Parser(lex(ret)).type_() if ret else "unit"
            if ret_ty == "Self":
                ret_ty = k["impl"]
            stmts = Parser(lex(body)).block()
            val, ty, ok = tr.stmts(stmts, ret_ty)
            all_params = lean_params + tr.params
            sigs[k["lean"]] = (k["impl"] if k["impl"] in enums else None, k["fn"], [p[0] for p in all_params], [p[1] for p in all_params], ret_ty)
            lean_ret = "Bool" if ret_ty == "bool" else ("Option Int" if isinstance(ret_ty, tuple) else "Int")
            if ty == "outputs":
                lean_ret = " × ".join("Int" for _ in k["outputs"])
            binder = lambda p: "(%s : %s)" % (p[0], "Bool" if p[1] == "bool" else "Int")
            sig = " ".join(binder(p) for p in all_params)
            doc = "/-- `%s%s` (%s), parameters %s -/" % ((k["impl"] + "::") if k["impl"] else "", k["fn"], k["file"],
                                                         ", ".join("%s : %s" % (p[0], p[1]) for p in all_params))
            defs.append((k["group"], "%s\ndef %s %s : %s :=\n  %s\n\n/-- no overflow, no division by zero, no panic on this run -/\ndef %s_ok %s : Bool :=\n  %s\n" % (
                doc, k["lean"], sig, lean_ret, val, k["lean"], sig, ok or "true")))
            results.append((k["group"], k["lean"]))
        except (Unsupported, IndexError, KeyError, ValueError, OSError) as ex:
            broken.append((k["lean"], "%s: %s" % (type(ex).__name__, ex)))
    return defs, results, broken, enums


PRELUDE = '''/-
  GENERATED by tools/rs2lean.py from the Rust source on every run - do not edit.
  Exact-integer translation of straight-line kernels of image-png; `f_ok` = "this run stays inside the Rust types".
-/
'''

OPT = '''/-- Rust's ordering of `Option<T>`: `None < Some(_)` -/
def optLe : Option Int → Option Int → Bool
  | none, _ => true
  | some _, none => false
  | some a, some b => decide (a ≤ b)

def optLt : Option Int → Option Int → Bool
  | none, none => false
  | none, some _ => true
  | some _, none => false
  | some a, some b => decide (a < b)

'''


def main():
    defs, ok, broken, enums = translate_all()
    for gi, g in enumerate(GROUPS):
        text = PRELUDE
        if gi > 0:
            text += "import PngVerif.Generated.Kernels%s\n" % GROUPS[0]
        text += "set_option linter.unusedVariables false\nnamespace Png.Gen\n\n"
        if gi == 0:
            text += OPT
        text += "\n".join(d for (gg, d) in defs if gg == g)
        text += "\n/-- kernels of this group translated on this run -/\ndef translated%s : List String := [%s]\n" % (g, ", ".join('"%s"' % n for (gg, n) in ok if gg == g))
        text += "\nend Png.Gen\n"
        out = os.path.join(OUTDIR, "Kernels%s.lean" % g)
        old = open(out).read() if os.path.exists(out) else None
        if old != text:
            with open(out, "w") as f:
                f.write(text)
    for n, why in broken:
        print("TIE-A-BROKEN kernel:%s %s" % (n, why))
    print("TIE-A kernels translated: %s" % ", ".join(n for (_, n) in ok))
    return 3 if broken else 0


if __name__ == "__main__":
    sys.exit(main())
