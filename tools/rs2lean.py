#!/usr/bin/env python3
"""Tie A, part 2: a translator from a small subset of Rust to Lean 4, run on every check.

  tools/rs2lean.py            (reads $PNG_REPO or /repo, writes lean/PngVerif/Generated/Kernels<Group>.lean)

It translates the straight-line arithmetic kernels of image-png listed in KERNELS below (Paeth predictors, sample
counts, row-length arithmetic, frame-rectangle validation, the inflate buffer's growth rule, ...) into Lean
definitions over `Int`, TEXTUALLY FROM THE CURRENT SOURCE, together with one `_ok` definition per function that
says "no arithmetic operation of this run leaves the range of its Rust type, no division by zero, no
`unreachable!()`/`panic!()` reached" (i.e. the function does not panic in an overflow-checked build and computes
with exact integers).  `Props/Kernels.lean` proves, for ALL arguments in the ranges of the Rust parameter types,
that the generated functions equal the hand-written model definitions the property theorems are about and that
`_ok` holds.  A change to one of these Rust functions therefore re-checks those proofs against what the code says
now; a function the translator cannot read any more (syntax outside the subset, function moved or renamed) is
reported as `TIE-A-BROKEN kernel:<name>`, which `./check` treats like a broken proof obligation.

The subset: `fn` with scalar parameters (integers, bool, the field-less enums of common.rs, `self` of such an enum,
or struct fields written `x.f`, which become parameters `x_f`); a body of `let [mut] x = e;`, `x = e;`, `x op= e;`,
`if c { .. } [else { .. }]`, `return e;` and a tail expression; expressions with + - * / % comparisons && || !
`as` casts, integer literals, `T::from(e)`, `if`/`match` expressions (literal, enum-variant, binding and `_` arms,
alternatives with `|`), `Some/None`, `Ok(())/Err(..)`, the methods abs min max wrapping_add wrapping_sub
saturating_add saturating_sub checked_add checked_sub checked_mul into ok and calls of other translated functions.
Semantics: exact integers; `as T` wraps into T; `wrapping_*` wrap; `saturating_*` clamp; `checked_*` give `none`
outside T; `usize`/`isize` are 64 bits wide; `Result<(), E>` is an `Int` (0 = Ok(()), k = index of the error name in
the kernel's `errors` list); a comparison of `Option`s is Rust's (`None < Some(_)`).

Extensions for the groups Enums, ReaderGeom, EncoderSetters (anything not listed raises `Unsupported`, nothing is guessed):

* Discriminant enums are read from the files listed in ENUMS (common.rs, filter.rs); `Option<Enum>` results are `Option Int`
  (`Some(E::V)` = `some <discriminant>`); `Self` in types and paths is the `impl` type; a tuple result `(A, B)` is `Int × Int`
  (Bool components stay `Bool`); `let (a, b) = <call of a translated function>` binds the projections.
* `x & <literal>` on an UNSIGNED value and a non-negative literal = the sum of `x / 2^k % 2 * 2^k` over the bits k of the literal
  (`x & 32` = `x / 32 % 2 * 32`).  No other bit operation.
* A newtype parameter pattern `Name(x): Name` with `struct Name(pub [T; N]);` (read from the same file): N parameters
  `x_0 .. x_{N-1}` of type T; `x[k]` only with a literal k < N.
* `match` arms may have guards (`pat if g => e`: taken when the pattern matches and g, evaluated only then, is true; the `_ok` of g
  is demanded exactly when the pattern matches and no earlier arm was taken).  An unguarded catch-all must be the last arm.
* Struct state: `fields` may be keyed by dotted paths (`"self.info": {"width": "u32"}` -> parameter `self_info_width`).
  `opts` declares `Option<struct>` fields (`"self.info.frame_control": {fields}` -> a Bool parameter `.._is_some` and one
  parameter per field, meaningful when the Bool is true).  `x.is_some()`, `x.is_none()`, `if let Some(ref mut v) = x {..} else {..}`,
  `if let Some(v) = x`, `match x { Some(v) [if g] => .., None => .., _ => .. }` test the Bool; `v` is a NAME for the fields of x
  (`v.f` reads, and with `ref mut` / `&mut x` also `v.f = e` assigns, the parameter `.._f`).  A binding without `ref` (or a
  `let v = <path>`) is a copy: the translator refuses any assignment to that path while the copy is in scope, so reading the
  original through the name is exact.  `x = None;`, `x = Some(<struct local>)`, `x = Some(Name {..})` assign the Bool and ALL fields
  (the declared field set must equal the struct's field set in the source).
* `let v = Name { f: e, g, ..Default::default() }`: one Lean `let` per field in the order of evaluation; the base is read from
  `impl Default for Name` (must be a single struct literal); struct declarations are read from the files under `structs`.
* `outputs` entries `p.q.f` (field f of path p.q) and `p.q?` (is-Some of an Option field).  A function with outputs AND a result
  returns `(result, outputs..)` at the end of every path; the position (tail of the function vs. a value that is used) is tracked,
  and an explicit `return` inside an expression whose value is used is refused.  `else if` chains without a final `else` are
  statements (control continues after them).
* `flags` declares a field of a `bitflags!` type (`"self.transform": ("Transformations", file)`): the translator reads the constants of
  the `bitflags!` declaration; every non-zero constant must be a single bit of its own (else Unsupported) and becomes one Bool
  parameter `<path>_<CONST>` in declaration order (so a new flag changes the signature); zero constants (IDENTITY) are the empty set.
  A value of the type is thus the set of its single-bit flags (values with bits outside the declaration, which only
  `from_bits_retain` can make, are not represented).  `t == T::X` / `!=` = all Bools equal to those of the constant set,
  `t.contains(S)` = all flags of S set (true for the empty set), `t.intersects(S)` = some flag of S set (false for the empty
  set), `t.is_empty()`, `t.is_all()`; S = `T::A`, `T::A | T::B`, `T::empty()`, `T::all()`.
* `structcalls` declares an accessor that is taken as GIVEN (`"self.info()": ("info", "Info<'_>")`: the current `Info`, a struct
  path `info` whose fields are declared like any other).  Calling a function translated before on `self` or on such a path passes
  the caller's parameters of the same origin (field / flag / is-Some) to the callee (`self` of the callee = that path); the caller
  must declare them with the same types.  `Type::f(args)` calls a translated associated function; `.unwrap()` / `.expect(..)` on
  an `Option` value is `Option.getD _ 0` with `_ok` demanding `isSome` (a panic site).
* `payload` declares a parameter that is an enum whose variants wrap one struct each (`InterlaceInfo`): parameter `<p>_tag` = index of
  the variant in the enum declaration (read from the source), and the declared fields of the declared variants
  (`<p>_<Variant>_<field>`); patterns `E::V(_)`, `E::V(S { f, g: h, .. })`, `_`.
* `fixed=True`: every declared flag / field / Option field is a parameter, in the order of the declaration in KERNELS, whether the body
  uses it or not (the old groups keep "order of first use"), so that the theorem statements do not depend on the order in which the
  body reads the state.
* Generated group files import `KernelsCommon` and the groups whose functions they call.

The byte-reader subset (groups Parsers, ParsersApng: the chunk parsers of `StreamingDecoder`, kernels declared with `cps=True`; again nothing is
guessed, what is not listed raises `Unsupported`):

* `body="self.current_chunk.raw_bytes"`: the chunk body is the first parameter `body : List Int` (bytes 0..255).  `let mut buf = &<body>[..];`
  makes `buf` a READER at offset 0; the offset of a reader is a constant known at translation time on every path (straight-line code).
  `buf.read_be()?` of width w in {1, 2, 4} at offset k is `(if decide (k + w ≤ body.length) then (let x := beU<8w> body k; REST) else ERR)`,
  and the reader is at k + w in REST; `beU8/16/32` (big-endian value of w bytes) are defined in the prelude of `KernelsParsers.lean`, and the
  translator checks that `read_be` in src/traits.rs IS `read_exact` of `size_of::<T>()` bytes followed by `from_be_bytes` for u8, u16, u32.
  The WIDTH comes from a turbofish (`read_be::<u32>()`), a type annotation (`let x: u16 = ..`), the declared type of the struct field the
  value initialises (read from the struct declaration: `FrameControl { width: buf.read_be()?, .. }`), the suffix of a literal pattern when the
  read is a `match` scrutinee (`match buf.read_be()? { 0u8 => .. }`), or the kernel's declaration `reads={"name": "u32"}` for an unannotated
  `let name = buf.read_be()?` (the translator still refuses to store / pass such a value where another integer type is declared); otherwise
  `Unsupported`.  `buf.is_empty()` = `decide (body.length ≤ k)`, `buf.len()` = `body.length - k`.  ERR of a failed read is the error that
  `parse_chunk` gives to `UnexpectedEof` (read from the source of `parse_chunk`: `ChunkTooShort`), which must be in the kernel's `errors`.
* `?` and explicit `return` anywhere in an expression: the statement is rewritten in continuation style - sub-expressions with an exit (and
  those evaluated before them) are bound to names in the order of evaluation (struct-literal fields, arguments, `Some(..)`, the scrutinee of a
  `match`), and for `let x = if / match / { block }` whose branches may leave, the rest of the function moves into the branches that continue.
  Names bound inside such a block / arm whose Rust scope ends there are refused when what follows uses an outer variable of the same name.
  `e?` on: a read (above); `opt.ok_or(..)? / .ok_or_else(|| ..)?` on an `Option` value (error = the declared error named in the argument); the
  call of a translated function with `Result<(), _>` on a declared path (`pathtypes={"self.limits": "Limits"}`; through `.as_ref().unwrap()` too):
  its error code is mapped BY NAME to this kernel's code (every error of the callee must be declared here), its outputs (`Limits::reserve_bytes`:
  `self.bytes`) become this kernel's fields of that path - also when it fails -, a struct argument passes the fields of a struct local.
* Results: return type `Result<Decoded, DecodingError>` / `Decoded` / `Result<(), _>`.  Every exit returns the tuple
  `([code,] [event tag, event payload .., ] outputs ..)`: code 0 = `Ok`, k = position in `errors` (`Err(..)`: the first declared error named in
  it; payloads of errors are not part of the result, but their evaluation is part of `_ok`); with `events={"V": None | "ignore"}` the tag is the
  index of `Decoded::V` in the enum declaration of the source and the payload its arguments flattened to Ints (a struct local: its fields in
  declaration order; `bool` as 0/1; "ignore": not represented), padded with 0 to the widest declared variant; an undeclared variant is refused.
* State: `fields` may have type `("opt", T)` = `Option<T>` for a scalar T or `"bytes"` (`Option<Cow<[u8]>>`), a Lean `Option Int` /
  `Option (List Int)`; `opts["self.info"]` makes `self.info : Option<Info>` a Bool plus the declared members; `<opt path>.as_ref() / .as_mut() /
  .unwrap()` is the struct inside (a panic site: `_ok` demands `is_some`); `let info = self.info.as_mut().unwrap();` names it.  Struct literals:
  tuple-typed fields `f: (A, B)` are flattened to `f_0, f_1`, fields of another declared struct to `f_<field>`; `newtypes={"ScaledFloat": file}`
  makes a `struct ScaledFloat(u32);` (read from the source) the integer it wraps, `ScaledFloat(v)` / `Self(v)` the identity.
  `x = Some(Name { f, .., ..Default::default() })` with only some fields of `Name` declared: the written fields must be declared, a declared field
  that is not written takes its value from `impl Default for Name`, every other field must be `None` / `Vec::new()` there, and the Bool output
  declared under `defaults={"self.info": "info_rest_default"}` becomes true.
* Byte vectors: `<body>.len()`, `<body>.clone()` (a value of type `bytes` = `List Int`), on a `bytes` variable `.len()`, `v[k]` (`_ok`: k < length),
  `v[k] = e` (`List.set`), `v.truncate(k)` (`List.take`), `Cow::Owned(v)` = v, `Some(v)`; `for x in &v { if c { return Err(..) } }` =
  `if v.any (fun x => c) then <that error> else REST` (which element is found first only shows in the error's payload).
* Local fns: `<Option<struct> field> = parse(&<body>[..]).ok();` with `fn parse(mut buf: &[u8]) -> Result<Struct, _>` declared in the body: the fn
  is inlined, every `Ok(s)` stores `Some(s)`, every `Err(..)` and every failed `?` stores `None`, then the rest follows.  Other local fns (`scale`)
  are inlined as values as before.
* Side effects that are not scalar state are EXPLICIT in the declaration: `effects={"self.inflater.reset": "inflater_reset"}` (a Bool output that
  starts false and is true once the call was made), `ignore_calls=[..]` (arguments evaluated for `_ok`, effect not represented),
  `ignore_assign=["self.state"]`; an undeclared call or assignment is refused.  `x.to_be_bytes()` is an opaque value that may only be passed to an
  ignored call; `saturating_mul`; `debug_assert*!` are skipped.
* `arm="U32ValueKind::ApngSequenceNumber"`: the body of that one arm of a `match` of the function is translated as a function of its own; the
  scalar values it takes from the enclosing function are the declared `args`; with `arm_value="ignore"` the value of the arm (a `State`) is not
  a result: leaving the arm normally is code 0.

The step subset (group Adam7Iter: `Adam7Iterator::new`, `Iterator::next for Adam7Iterator`):

* `self.f();` / `<struct local>.f();` as a STATEMENT, for a translated `fn f(&mut self, ..)` with declared outputs: the callee is applied to the
  CURRENT values of the caller's fields of the same name and type (constants of the crate both declare under `consts` are passed on), its outputs
  become their new values, a result is discarded (`let x = self.f(..);` binds it).  The translator records which fields every function
  assigns and refuses the call when the callee assigns a field outside its declared outputs (the effect would be lost).
* `ret_struct="Name", ret_fields={..}`: the function returns a struct local of that type; the result is the tuple of its fields in the order of
  `ret_fields`, which must be exactly the fields (and types) of the struct declaration in the source.  `Self { .. }` is the `impl` type.
* `step={"item": (Struct, {field: type})}` (with `self_type` = the struct whose method this is, `fields["self"]` = ALL its fields, checked against
  the source, and `outputs` ⊇ the fields assigned): ONE STEP of a method `-> Option<Item>`.  Every path must end in `None` (tag 0),
  `Some(Struct { .. })` (tag 1, exactly the declared fields) or the recursive call `self.<the function itself>()` on the same `self` AS THE VALUE OF
  THE FUNCTION (tag 2: "advance" - the state the call starts from is the outputs); any other occurrence of the recursion is refused.  Result
  `(tag, item fields .., outputs ..)`.  The translator also emits `<name>_rec fuel` / `<name>_rec_ok fuel`: the step repeated while the tag is 2,
  at most `fuel` more times, every further step from the outputs of the one before (parameters that are not outputs are not assigned, so they
  stay); a result with tag 2 means the fuel ran out.

The size-level subset (group BufferSizes; kernels that declare `sizeof=[path, ..]`; an explicitly DECLARED abstraction):

* A `Vec<u8>` / `&mut Vec<u8>` / `&[u8]` at a declared path (`self.data_stream`, a parameter `image_data`) is represented by its LENGTH only: the
  pseudo-field `<path>.len : usize` (declared under `fields`, so it is a parameter and may be an output).  `v.len()`, `v.is_empty()` read it;
  `v.truncate(n)` = `min len n`; `v.resize(n, _)` = `n` (`_ok`: n ≤ isize::MAX); `v.clear()` = 0; `v.extend_from_slice(s)` = `len + s.len()`
  (`_ok`: ≤ isize::MAX); `v.copy_within(a..b | a.. | <range local>, d)` leaves it (`_ok`: a ≤ b ≤ len ∧ d + (b - a) ≤ len); these are only accepted
  on a declared path - a NAME for a whole vector (`let v = &mut self.data_stream`) is refused.  Slices are locals with a length that never
  changes: `let s = &v[a..b]` / `&v[a..]` / `&v[..b]` (`_ok`: a ≤ b ≤ len), `let (p, q) = v.split_at_mut(k)` / `split_at` (`_ok`: k ≤ len),
  `v.as_slice()` / `as_mut_slice()`, `let p: &[u8] = p;`, `&[]` (length 0).  `let r = a..b;` is a range local (`r.len()` = `max 0 (b - a)`).
  `Vec::new()` in a struct literal is length 0.  `const N: T = e;` inside a function is a `let`.
* Nothing that depends on CONTENTS is guessed: `v[k]` on a slice is only accepted when declared, `bytevals={"row[0]": "filter_byte"}` - the byte is
  then a `u8` parameter, `_ok` demands k < length, and the read is refused once the name was bound again (not that byte any more); calls that
  only touch contents are declared in `ignore_calls` (`unfilter`, `self.debug_assert_invariants`, `self.state.ignore_adler32`: arguments
  evaluated for `_ok`, no effect represented); `extern_vals={"self.state.is_done": "state_is_done"}` makes the answer of an outside call a Bool
  parameter, `extern_calls={"self.state.read": {"ok": .., "values": [(name, type), ..], "error": E}}` makes
  `let (a, b) = self.state.read(..).map_err(|e| <E>)?;` the parameters `ok`, values.. (failure = the declared error E, which the closure must name)
  - NO contract of the outside call is assumed by the translator -, and each of them may occur only ONCE in the text of the function (one
  parameter is one answer).  `assert!(c, ..)` is a panic site (`_ok` demands c); `debug_assert!` is skipped (release profile).
* `returns_ref="self.data_stream"`: the function returns a reference to that vector; the result is the outputs alone.
  Return type `Result<usize, _>` (cps kernels): the result is `(code, value of Ok | 0, outputs ..)`.
* `loop="!self.state.is_done()"`: the body of the ONLY loop `while <that condition> { .. }` of the function (no `break` / `continue`) is translated
  as a function of its own = one iteration; leaving the body normally is code 0; the loop condition itself is evaluated by whoever iterates.

Group Text: `bytes_params=["buf"]` makes a `&[u8]` parameter a `List Int` (contents matter); `buf.iter().position(|&b| b == <byte literal>)` is the
declared list operation `firstIndexOf <literal> buf : Option Int` (defined in the prelude of the generated file: index of the first element equal
to the value; any other closure is refused); return type `Result<(&[u8], &[u8]), _>`: result `(code, slice, slice)` with
`&v[a..b]` = `List.drop a (List.take b v)` and `_ok`: a ≤ b ≤ length (empty lists on an error).
"""
import os, re, sys, json

ROOT = os.path.join(os.path.dirname(os.path.abspath(__file__)), "..")
REPO = os.environ.get("PNG_REPO", "/repo")
OUTDIR = os.path.join(ROOT, "lean", "PngVerif", "Generated")
GROUPS = ["Common", "Filter", "Adam7", "Stream", "Zlib", "Enums", "ReaderGeom", "EncoderSetters", "Parsers", "ParsersApng", "Adam7Iter", "BufferSizes", "Text"]   # a group may call functions of the groups before it

# the part of a `Reader` the geometry functions read: the transformation flags (one Bool per flag of the `bitflags!` declaration), the
# current `Info` (`self.info()`, a struct the translator treats as given: colour type, depth, `trns.is_some()`)
READER_STATE = dict(flags={"self.transform": ("Transformations", "src/common.rs")}, structcalls={"self.info()": ("info", "Info<'_>")},
                    fields={"info": {"color_type": "ColorType", "bit_depth": "BitDepth"}}, opts={"info.trns": {}})
READER_STATE_SIZE = dict(READER_STATE, fields={"info": {"color_type": "ColorType", "bit_depth": "BitDepth", "width": "u32", "height": "u32"}})
SETTER_ERRORS = ["OutOfBounds", "ZeroWidth", "ZeroHeight", "NotAnimated"]
FCTL_RECT = {"width": "u32", "height": "u32", "x_offset": "u32", "y_offset": "u32"}
FCTL_ALL = {"sequence_number": "u32", "width": "u32", "height": "u32", "x_offset": "u32", "y_offset": "u32", "delay_num": "u16", "delay_den": "u16",
            "dispose_op": "DisposeOp", "blend_op": "BlendOp"}
# what every chunk parser of `StreamingDecoder` shares
PARSER = dict(file="src/decoder/stream.rs", impl="StreamingDecoder", fixed=True, cps=True, body="self.current_chunk.raw_bytes",
              structs={"AnimationControl": "src/common.rs", "FrameControl": "src/common.rs", "PixelDimensions": "src/common.rs",
                       "SourceChromaticities": "src/common.rs", "CodingIndependentCodePoints": "src/common.rs",
                       "MasteringDisplayColorVolume": "src/common.rs", "ContentLightLevelInfo": "src/common.rs"},
              newtypes={"ScaledFloat": "src/common.rs"},
              pathtypes={"self.info": "Info<'_>", "self.limits": "Limits"})
CHRM = {"%s_%d" % (c_, i_): "u32" for c_ in ("white", "red", "green", "blue") for i_ in (0, 1)}      # SourceChromaticities, flattened
IHDR_FIELDS = {"width": "u32", "height": "u32", "bit_depth": "BitDepth", "color_type": "ColorType", "interlaced": "bool"}
CICP = {"color_primaries": "u8", "transfer_function": "u8", "matrix_coefficients": "u8", "is_video_full_range_image": "bool"}
MDCV = dict([("chromaticities_%s" % f_, "u32") for f_ in CHRM] + [("max_luminance", "u32"), ("min_luminance", "u32")])
CLLI = {"max_content_light_level": "u32", "max_frame_average_light_level": "u32"}
# the whole state of `Adam7Iterator` (adam7.rs), in the order the generated functions take / return it
ADAM7_STATE = {"width": "u32", "height": "u32", "current_pass": "u8", "line_width": "u32", "lines": "u32", "line": "u32"}
# size-level kernels (see "The size-level subset"): `UnfilteringBuffer` and `ZlibStream` with their byte vectors represented by their lengths
UBUF = dict(file="src/decoder/unfiltering_buffer.rs", impl="UnfilteringBuffer", fixed=True, sizeof=["self.data_stream"],
            fields={"self.data_stream": {"len": "usize"}, "self": {"prev_start": "usize", "current_start": "usize"}},
            ignore_calls=["self.debug_assert_invariants"])
UBUF_OUT = ["self.data_stream.len", "self.prev_start", "self.current_start"]
ZBUF = dict(file="src/decoder/zlib.rs", impl="ZlibStream", fixed=True, sizeof=["self.out_buffer"],
            fields={"self.out_buffer": {"len": "usize"}, "self": {"out_pos": "usize", "read_pos": "usize", "max_total_output": "usize"}})
# field-less enums whose discriminants are read from the source: (file, name)
ENUMS = [("src/common.rs", "ColorType"), ("src/common.rs", "BitDepth"), ("src/common.rs", "BytesPerPixel"), ("src/common.rs", "Unit"),
         ("src/common.rs", "DisposeOp"), ("src/common.rs", "BlendOp"), ("src/common.rs", "SrgbRenderingIntent"), ("src/filter.rs", "RowFilter")]

# name in Lean, file, impl type (or None), fn name, extra
KERNELS = [
    dict(group="Filter", lean="filter_paeth", file="src/filter.rs", impl=None, fn="filter_paeth"),
    dict(group="Filter", lean="filter_paeth_stbi", file="src/filter.rs", impl=None, fn="filter_paeth_stbi"),
    dict(group="Filter", lean="filter_paeth_fpnge", file="src/filter.rs", impl=None, fn="filter_paeth_fpnge"),
    dict(group="Common", lean="ColorType_samples_u8", file="src/common.rs", impl="ColorType", fn="samples_u8"),
    dict(group="Common", lean="ColorType_samples", file="src/common.rs", impl="ColorType", fn="samples"),
    dict(group="Common", lean="BitDepth_into_u8", file="src/common.rs", impl="BitDepth", fn="into_u8"),
    dict(group="Common", lean="ColorType_checked_raw_row_length", file="src/common.rs", impl="ColorType", fn="checked_raw_row_length"),
    dict(group="Common", lean="ColorType_raw_row_length_from_width", file="src/common.rs", impl="ColorType", fn="raw_row_length_from_width"),
    dict(group="Common", lean="ColorType_is_combination_invalid", file="src/common.rs", impl="ColorType", fn="is_combination_invalid"),
    dict(group="Common", lean="ColorType_bits_per_pixel", file="src/common.rs", impl="ColorType", fn="bits_per_pixel"),
    dict(group="Common", lean="ColorType_bytes_per_pixel", file="src/common.rs", impl="ColorType", fn="bytes_per_pixel"),
    dict(group="Common", lean="BytesPerPixel_from_usize", file="src/common.rs", impl="BytesPerPixel", fn="from_usize"),
    dict(group="Adam7", lean="Adam7Iterator_init_pass", file="src/adam7.rs", impl="Adam7Iterator", fn="init_pass",
         fields={"self": {"width": "u32", "height": "u32", "current_pass": "u8", "line_width": "u32", "lines": "u32", "line": "u32"}},
         outputs=["self_line_width", "self_lines", "self_line"]),
    dict(group="Adam7", lean="expand_adam7_bits", file="src/adam7.rs", impl=None, fn="expand_adam7_bits",
         fields={"info": {"line": "u32", "pass": "u8", "width": "u32"}}, index="i"),
    dict(group="Stream", lean="Info_validate", file="src/decoder/stream.rs", impl="Info<'_>", fn="validate",
         errors=["InvalidDimensions", "BadSubFrameBounds"], fields={"fc": {"width": "u32", "height": "u32", "x_offset": "u32", "y_offset": "u32"},
                                                                     "self": {"width": "u32", "height": "u32"}}),
    dict(group="Zlib", lean="ZlibStream_decoding_size", file="src/decoder/zlib.rs", impl="ZlibStream", fn="decoding_size",
         fields={"self": {"max_total_output": "usize"}}, consts={"CHUNK_BUFFER_SIZE": "usize"}),
    # ---- group Enums: byte -> enum decoders (common.rs, filter.rs) and the chunk-type bit predicates (chunk.rs)
    dict(group="Enums", lean="ColorType_from_u8", file="src/common.rs", impl="ColorType", fn="from_u8"),
    dict(group="Enums", lean="BitDepth_from_u8", file="src/common.rs", impl="BitDepth", fn="from_u8"),
    dict(group="Enums", lean="Unit_from_u8", file="src/common.rs", impl="Unit", fn="from_u8"),
    dict(group="Enums", lean="DisposeOp_from_u8", file="src/common.rs", impl="DisposeOp", fn="from_u8"),
    dict(group="Enums", lean="BlendOp_from_u8", file="src/common.rs", impl="BlendOp", fn="from_u8"),
    dict(group="Enums", lean="SrgbRenderingIntent_from_raw", file="src/common.rs", impl="SrgbRenderingIntent", fn="from_raw"),
    dict(group="Enums", lean="SrgbRenderingIntent_into_raw", file="src/common.rs", impl="SrgbRenderingIntent", fn="into_raw"),
    dict(group="Enums", lean="RowFilter_from_u8", file="src/filter.rs", impl="RowFilter", fn="from_u8"),
    dict(group="Enums", lean="is_critical", file="src/chunk.rs", impl=None, fn="is_critical"),
    dict(group="Enums", lean="is_private", file="src/chunk.rs", impl=None, fn="is_private"),
    dict(group="Enums", lean="reserved_set", file="src/chunk.rs", impl=None, fn="reserved_set"),
    dict(group="Enums", lean="safe_to_copy", file="src/chunk.rs", impl=None, fn="safe_to_copy"),
    # ---- group ReaderGeom: output geometry of `Reader` under a transformation, and the byte ledger of `Limits`
    # (`fixed`: every declared flag / field is a parameter, in the order of the declaration here, whether the body uses it or not)
    dict(group="ReaderGeom", lean="Info_size", file="src/common.rs", impl="Info<'_>", fn="size", fixed=True,
         fields={"self": {"width": "u32", "height": "u32"}}),
    dict(group="ReaderGeom", lean="Reader_output_color_type", file="src/decoder/mod.rs", impl="Reader", fn="output_color_type", fixed=True,
         **READER_STATE),
    dict(group="ReaderGeom", lean="Reader_output_line_size", file="src/decoder/mod.rs", impl="Reader", fn="output_line_size", fixed=True,
         **READER_STATE),
    dict(group="ReaderGeom", lean="Reader_output_buffer_size", file="src/decoder/mod.rs", impl="Reader", fn="output_buffer_size", fixed=True,
         **READER_STATE_SIZE),
    dict(group="ReaderGeom", lean="Reader_output_line_size_for_interlace_info", file="src/decoder/mod.rs", impl="Reader",
         fn="output_line_size_for_interlace_info", fixed=True,
         payload={"interlace": ("InterlaceInfo", "src/decoder/interlace_info.rs",
                                {"Adam7": ("Adam7Info", "src/adam7.rs", {"width": "u32"}), "Null": ("NullInfo", None, {})})},
         fields={"self.subframe": {"width": "u32"}, "info": {"color_type": "ColorType", "bit_depth": "BitDepth"}},
         **{k_: v_ for k_, v_ in READER_STATE.items() if k_ != "fields"}),
    dict(group="ReaderGeom", lean="Limits_reserve_bytes", file="src/decoder/mod.rs", impl="Limits", fn="reserve_bytes", fixed=True,
         errors=["LimitsExceeded"], fields={"self": {"bytes": "usize"}}, outputs=["self.bytes"]),
    # ---- group EncoderSetters: the frame-rectangle setters of `Writer` / `StreamWriter` and the sequence checks (encoder.rs)
    dict(group="EncoderSetters", lean="Writer_set_frame_dimension", file="src/encoder.rs", impl="Writer", fn="set_frame_dimension", fixed=True,
         errors=SETTER_ERRORS, fields={"self.info": {"width": "u32", "height": "u32"}}, opts={"self.info.frame_control": FCTL_RECT},
         outputs=["self.info.frame_control.%s" % f_ for f_ in FCTL_RECT]),
    dict(group="EncoderSetters", lean="Writer_set_frame_position", file="src/encoder.rs", impl="Writer", fn="set_frame_position", fixed=True,
         errors=SETTER_ERRORS, fields={"self.info": {"width": "u32", "height": "u32"}}, opts={"self.info.frame_control": FCTL_RECT},
         outputs=["self.info.frame_control.%s" % f_ for f_ in FCTL_RECT]),
    dict(group="EncoderSetters", lean="StreamWriter_set_frame_dimension", file="src/encoder.rs", impl="StreamWriter", fn="set_frame_dimension", fixed=True,
         errors=SETTER_ERRORS, fields={"self": {"width": "u32", "height": "u32"}}, opts={"self.fctl": FCTL_RECT},
         outputs=["self.fctl.%s" % f_ for f_ in FCTL_RECT]),
    dict(group="EncoderSetters", lean="StreamWriter_set_frame_position", file="src/encoder.rs", impl="StreamWriter", fn="set_frame_position", fixed=True,
         errors=SETTER_ERRORS, fields={"self": {"width": "u32", "height": "u32"}}, opts={"self.fctl": FCTL_RECT},
         outputs=["self.fctl.%s" % f_ for f_ in FCTL_RECT]),
    dict(group="EncoderSetters", lean="Writer_validate_new_image", file="src/encoder.rs", impl="Writer", fn="validate_new_image", fixed=True,
         errors=["EndReached"], fields={"self.options": {"validate_sequence": "bool"}, "self": {"images_written": "u64"}},
         opts={"self.info.animation_control": {}, "self.info.frame_control": {}}),
    dict(group="EncoderSetters", lean="Writer_validate_first_image_rect", file="src/encoder.rs", impl="Writer", fn="validate_first_image_rect", fixed=True,
         errors=["OutOfBounds"], fields={"self": {"images_written": "u64"}, "self.info": {"width": "u32", "height": "u32"}},
         opts={"self.info.frame_control": FCTL_RECT}),
    dict(group="EncoderSetters", lean="Encoder_set_animated", file="src/encoder.rs", impl="Encoder", fn="set_animated", fixed=True,
         errors=["ZeroFrames"], fields={"self.info": {"width": "u32", "height": "u32"}},
         opts={"self.info.animation_control": {"num_frames": "u32", "num_plays": "u32"}, "self.info.frame_control": FCTL_ALL},
         structs={"AnimationControl": "src/common.rs", "FrameControl": "src/common.rs"},
         outputs=["self.info.animation_control?", "self.info.animation_control.num_frames", "self.info.animation_control.num_plays",
                  "self.info.frame_control?"] + ["self.info.frame_control.%s" % f_ for f_ in FCTL_ALL]),
    # ---- group Parsers: the chunk parsers of `StreamingDecoder` (stream.rs), as functions of the chunk body (`body : List Int`, the bytes
    # of `self.current_chunk.raw_bytes`) and of the scalar decoder state they read; result = (error code, event tag, event payload ..,
    # outputs ..) - see the module docstring ("the byte-reader subset")
    dict(group="Parsers", lean="ScaledFloat_from_scaled", file="src/common.rs", impl="ScaledFloat", fn="from_scaled", cps=True, plain=True,
         newtypes={"ScaledFloat": "src/common.rs"}),
    dict(group="ParsersApng", lean="parse_actl", fn="parse_actl", errors=["ChunkTooShort", "AfterIdat"],
         fields={"self": {"have_idat": "bool"}},
         opts={"self.info": {}, "self.info.animation_control": {"num_frames": "u32", "num_plays": "u32"}},
         events={"AnimationControl": None},
         outputs=["self.info.animation_control?", "self.info.animation_control.num_frames", "self.info.animation_control.num_plays"], **PARSER),

    dict(group="Parsers", lean="parse_gama", fn="parse_gama", errors=["ChunkTooShort", "AfterIdat", "DuplicateChunk"],
         fields={"self": {"have_idat": "bool"}}, opts={"self.info": {"gama_chunk": ("opt", "u32")}},
         events={"Nothing": None}, outputs=["self.info.gama_chunk"], **PARSER),
    dict(group="Parsers", lean="parse_srgb", fn="parse_srgb", errors=["ChunkTooShort", "AfterIdat", "DuplicateChunk", "InvalidSrgbRenderingIntent"],
         fields={"self": {"have_idat": "bool"}}, opts={"self.info": {"srgb": ("opt", "SrgbRenderingIntent")}},
         events={"Nothing": None}, outputs=["self.info.srgb"], **PARSER),
    dict(group="Parsers", lean="parse_phys", fn="parse_phys", errors=["ChunkTooShort", "AfterIdat", "DuplicateChunk", "InvalidUnit"],
         fields={"self": {"have_idat": "bool"}}, opts={"self.info": {}, "self.info.pixel_dims": {"xppu": "u32", "yppu": "u32", "unit": "Unit"}},
         events={"PixelDimensions": None},
         outputs=["self.info.pixel_dims?", "self.info.pixel_dims.xppu", "self.info.pixel_dims.yppu", "self.info.pixel_dims.unit"], **PARSER),
    dict(group="Parsers", lean="parse_chrm", fn="parse_chrm", errors=["ChunkTooShort", "AfterIdat", "DuplicateChunk"],
         fields={"self": {"have_idat": "bool"}}, opts={"self.info": {}, "self.info.chrm_chunk": CHRM},
         events={"Nothing": None}, outputs=["self.info.chrm_chunk?"] + ["self.info.chrm_chunk.%s" % f_ for f_ in CHRM], **PARSER),
    dict(group="ParsersApng", lean="parse_fctl", fn="parse_fctl",
         errors=["ChunkTooShort", "ApngOrder", "InvalidDisposeOp", "InvalidBlendOp", "InvalidDimensions", "BadSubFrameBounds"],
         fields={"self": {"current_seq_no": ("opt", "u32"), "ready_for_fdat_chunks": "bool"}},
         opts={"self.info": {"width": "u32", "height": "u32"}, "self.info.frame_control": FCTL_ALL},
         effects={"self.inflater.reset": "inflater_reset"}, events={"FrameControl": None},
         outputs=["self.current_seq_no", "self.ready_for_fdat_chunks", "inflater_reset", "self.info.frame_control?"] +
                 ["self.info.frame_control.%s" % f_ for f_ in FCTL_ALL], **PARSER),
    dict(group="Parsers", lean="parse_ihdr", fn="parse_ihdr",
         errors=["ChunkTooShort", "DuplicateChunk", "InvalidDimensions", "InvalidBitDepth", "InvalidColorType", "InvalidColorBitDepth",
                 "UnknownCompressionMethod", "UnknownFilterMethod", "UnknownInterlaceMethod"],
         opts={"self.info": IHDR_FIELDS}, defaults={"self.info": "info_rest_default"},
         ignore_calls=["self.inflater.set_max_total_output"], events={"Header": None},
         outputs=["self.info?"] + ["self.info.%s" % f_ for f_ in IHDR_FIELDS] + ["info_rest_default"],
         **dict(PARSER, structs=dict(PARSER["structs"], Info="src/common.rs"))),
    dict(group="Parsers", lean="parse_cicp", fn="parse_cicp",
         fields={"self": {"have_idat": "bool"}},
         opts={"self.info": {"palette": ("opt", "bytes")}, "self.info.coding_independent_code_points": CICP},
         events={"Nothing": None},
         outputs=["self.info.coding_independent_code_points?"] + ["self.info.coding_independent_code_points.%s" % f_ for f_ in CICP], **PARSER),
    dict(group="Parsers", lean="parse_mdcv", fn="parse_mdcv",
         fields={"self": {"have_idat": "bool"}},
         opts={"self.info": {"palette": ("opt", "bytes")}, "self.info.mastering_display_color_volume": MDCV},
         events={"Nothing": None},
         outputs=["self.info.mastering_display_color_volume?"] + ["self.info.mastering_display_color_volume.%s" % f_ for f_ in MDCV], **PARSER),
    dict(group="Parsers", lean="parse_clli", fn="parse_clli",
         opts={"self.info": {}, "self.info.content_light_level": CLLI},
         events={"Nothing": None},
         outputs=["self.info.content_light_level?"] + ["self.info.content_light_level.%s" % f_ for f_ in CLLI], **PARSER),
    dict(group="Parsers", lean="parse_plte", fn="parse_plte", errors=["DuplicateChunk", "LimitsExceeded"],
         fields={"self.limits": {"bytes": "usize"}}, opts={"self.info": {"color_type": "ColorType", "palette": ("opt", "bytes")}},
         events={"Nothing": None}, outputs=["self.info.palette", "self.limits.bytes"], **PARSER),
    dict(group="Parsers", lean="parse_sbit", fn="parse_sbit",
         errors=["AfterPlte", "AfterIdat", "DuplicateChunk", "LimitsExceeded", "InvalidSbitChunkSize", "InvalidSbit"],
         fields={"self": {"have_idat": "bool"}, "self.limits": {"bytes": "usize"}},
         opts={"self.info": {"color_type": "ColorType", "bit_depth": "BitDepth", "palette": ("opt", "bytes"), "sbit": ("opt", "bytes")}},
         events={"Nothing": None}, outputs=["self.info.sbit", "self.limits.bytes"], **PARSER),
    dict(group="Parsers", lean="parse_trns", fn="parse_trns",
         errors=["DuplicateChunk", "AfterIdat", "LimitsExceeded", "ShortPalette", "BeforePlte", "OutsidePlteIdat", "ColorWithBadTrns"],
         fields={"self": {"have_idat": "bool"}, "self.limits": {"bytes": "usize"}},
         opts={"self.info": {"color_type": "ColorType", "bit_depth": "BitDepth", "palette": ("opt", "bytes"), "trns": ("opt", "bytes")}},
         events={"Nothing": None}, outputs=["self.info.trns", "self.limits.bytes"], **PARSER),
    dict(group="Parsers", lean="parse_bkgd", fn="parse_bkgd",
         fields={"self": {"have_idat": "bool"}},
         opts={"self.info": {"color_type": "ColorType", "palette": ("opt", "bytes"), "bkgd": ("opt", "bytes")}},
         events={"Nothing": None}, outputs=["self.info.bkgd"], **PARSER),
    # the arm of `parse_u32` that checks the sequence number of an fdAT chunk (`val` = the four bytes as a big-endian u32)
    dict(group="ParsersApng", lean="parse_u32_fdat_seq", fn="parse_u32", arm="U32ValueKind::ApngSequenceNumber", args={"val": "u32"},
         errors=["ApngOrder", "MissingFctl"],
         fields={"self": {"current_seq_no": ("opt", "u32")}, "self.current_chunk": {"remaining": "u32"}, "self.decode_options": {"ignore_crc": "bool"}},
         ignore_calls=["self.current_chunk.crc.update"], ignore_assign=["self.state"], events={"PartialChunk": "ignore"},
         outputs=["self.current_chunk.remaining", "self.current_seq_no"], **{k_: v_ for k_, v_ in PARSER.items() if k_ != "body"}),
    # the arms of `parse_u32` (chunk type just read) that begin an fdAT / IDAT chunk: the checks before image data is accepted
    dict(group="ParsersApng", lean="parse_u32_fdat_begin", fn="parse_u32", arm="chunk::fdAT", arm_value="ignore", args={"length": "u32"},
         errors=["UnexpectedRestartOfDataChunkSequence", "FdatShorterThanFourBytes"],
         fields={"self": {"ready_for_fdat_chunks": "bool", "have_idat": "bool"}}, outputs=["self.have_idat"],
         **{k_: v_ for k_, v_ in PARSER.items() if k_ != "body"}),
    dict(group="ParsersApng", lean="parse_u32_idat_begin", fn="parse_u32", arm="IDAT", arm_value="ignore",
         errors=["UnexpectedRestartOfDataChunkSequence"],
         fields={"self": {"ready_for_idat_chunks": "bool", "have_idat": "bool"}}, outputs=["self.have_idat"],
         **{k_: v_ for k_, v_ in PARSER.items() if k_ != "body"}),
    # ---- group Adam7Iter: `Adam7Iterator::new` and ONE STEP of `Iterator::next for Adam7Iterator` (see "The step subset" in the docstring)
    dict(group="Adam7Iter", lean="Adam7Iterator_new", file="src/adam7.rs", impl="Adam7Iterator", fn="new", fixed=True,
         structs={"Adam7Iterator": "src/adam7.rs"}, ret_struct="Adam7Iterator", ret_fields=ADAM7_STATE),
    dict(group="Adam7Iter", lean="Adam7Iterator_next", file="src/adam7.rs", impl="Iterator for Adam7Iterator", fn="next", fixed=True,
         self_type="Adam7Iterator", fields={"self": ADAM7_STATE}, structs={"Adam7Iterator": "src/adam7.rs", "Adam7Info": "src/adam7.rs"},
         step={"item": ("Adam7Info", {"pass": "u8", "line": "u32", "width": "u32"})},
         outputs=["self.line", "self.lines", "self.line_width", "self.current_pass"]),
    # ---- group BufferSizes: the index arithmetic of `UnfilteringBuffer` and `ZlibStream` at the size level
    dict(group="BufferSizes", lean="UnfilteringBuffer_new", fn="new", structs={"UnfilteringBuffer": "src/decoder/unfiltering_buffer.rs"},
         ret_struct="UnfilteringBuffer", ret_fields={"data_stream": "Vec<u8>", "prev_start": "usize", "current_start": "usize"},
         **dict(UBUF, fields={}, sizeof=[])),
    dict(group="BufferSizes", lean="UnfilteringBuffer_reset_prev_row", fn="reset_prev_row", outputs=UBUF_OUT, **UBUF),
    dict(group="BufferSizes", lean="UnfilteringBuffer_curr_row_len", fn="curr_row_len", **UBUF),
    dict(group="BufferSizes", lean="UnfilteringBuffer_as_mut_vec", fn="as_mut_vec", returns_ref="self.data_stream", outputs=UBUF_OUT, **UBUF),
    dict(group="BufferSizes", lean="UnfilteringBuffer_unfilter_curr_row", fn="unfilter_curr_row", cps=True, errors=["UnknownFilterMethod"],
         bytevals={"row[0]": "filter_byte"}, outputs=UBUF_OUT,
         **dict(UBUF, ignore_calls=["self.debug_assert_invariants", "unfilter"])),
    dict(group="BufferSizes", lean="ZlibStream_prepare_vec_for_appending", fn="prepare_vec_for_appending", consts={"CHUNK_BUFFER_SIZE": "usize"},
         outputs=["self.out_buffer.len", "self.max_total_output"], **ZBUF),
    dict(group="BufferSizes", lean="ZlibStream_transfer_finished_data", fn="transfer_finished_data",
         outputs=["self.read_pos", "image_data.len"],
         **dict(ZBUF, sizeof=["self.out_buffer", "image_data"], fields=dict(ZBUF["fields"], image_data={"len": "usize"}))),
    dict(group="BufferSizes", lean="ZlibStream_compact_out_buffer_if_needed", fn="compact_out_buffer_if_needed",
         outputs=["self.out_buffer.len", "self.out_pos", "self.read_pos"], **ZBUF),
    # `decompress`: the bookkeeping around the external inflater (`self.state`): `is_done()` is a Bool parameter, `read(..)` is answered by
    # the parameters `read_ok`, `read_in`, `read_out` (its two counts); result (code, value of Ok, outputs ..)
    dict(group="BufferSizes", lean="ZlibStream_decompress", fn="decompress", cps=True, errors=["CorruptFlateStream"],
         consts={"CHUNK_BUFFER_SIZE": "usize"},
         extern_vals={"self.state.is_done": "state_is_done"},
         extern_calls={"self.state.read": {"ok": "read_ok", "values": [("read_in", "usize"), ("read_out", "usize")], "error": "CorruptFlateStream"}},
         ignore_calls=["self.state.ignore_adler32"],
         outputs=["self.out_buffer.len", "self.out_pos", "self.read_pos", "self.max_total_output", "self.started", "image_data.len"],
         **dict(ZBUF, sizeof=["self.out_buffer", "image_data", "data"],
                fields={"self.out_buffer": {"len": "usize"},
                        "self": {"out_pos": "usize", "read_pos": "usize", "max_total_output": "usize", "started": "bool", "ignore_adler32": "bool"},
                        "image_data": {"len": "usize"}, "data": {"len": "usize"}})),
    # one iteration of the loop `while !self.state.is_done()` of `finish_compressed_chunks` (`is_done()` inside the body: a parameter)
    dict(group="BufferSizes", lean="ZlibStream_finish_iter", fn="finish_compressed_chunks", loop="!self.state.is_done()", cps=True,
         errors=["CorruptFlateStream"], consts={"CHUNK_BUFFER_SIZE": "usize"},
         extern_vals={"self.state.is_done": "state_is_done"},
         extern_calls={"self.state.read": {"ok": "read_ok", "values": [("read_in", "usize"), ("read_out", "usize")], "error": "CorruptFlateStream"}},
         outputs=["self.out_buffer.len", "self.out_pos", "self.read_pos", "self.max_total_output", "image_data.len"],
         **dict(ZBUF, sizeof=["self.out_buffer", "image_data"], fields=dict(ZBUF["fields"], image_data={"len": "usize"}))),
    # ---- group Text: `split_keyword` (the keyword / value split and the keyword-length guard all three text parsers use)
    dict(group="Text", lean="split_keyword", file="src/decoder/stream.rs", impl="StreamingDecoder", fn="split_keyword", cps=True, fixed=True,
         errors=["MissingNullSeparator", "InvalidKeywordSize"], bytes_params=["buf"]),
]

INT_TYPES = {
    "u8": (0, 2 ** 8 - 1), "u16": (0, 2 ** 16 - 1), "u32": (0, 2 ** 32 - 1), "u64": (0, 2 ** 64 - 1), "usize": (0, 2 ** 64 - 1),
    "i8": (-2 ** 7, 2 ** 7 - 1), "i16": (-2 ** 15, 2 ** 15 - 1), "i32": (-2 ** 31, 2 ** 31 - 1), "i64": (-2 ** 63, 2 ** 63 - 1),
    "isize": (-2 ** 63, 2 ** 63 - 1),
}


class Unsupported(Exception):
    pass


# --------------------------------------------------------------------------------------------- source access

def strip_comments(src):
    src = re.sub(r"/\*.*?\*/", " ", src, flags=re.S)
    return "\n".join(l.split("//")[0] for l in src.split("\n"))


def match_brace(src, i):
    """index just after the brace block starting at src[i] == '{'"""
    depth = 0
    for j in range(i, len(src)):
        if src[j] == "{":
            depth += 1
        elif src[j] == "}":
            depth -= 1
            if depth == 0:
                return j + 1
    raise Unsupported("unbalanced braces")


def enum_table(src, name):
    m = re.search(r"enum\s+%s\s*\{" % re.escape(name), src)
    if not m:
        return None
    body = src[m.end() - 1:match_brace(src, m.end() - 1)]
    tab = {}
    for v, d in re.findall(r"(\w+)\s*=\s*(\d+)\s*,", body):
        tab[v] = int(d)
    return tab or None


def bitflags_table(src, name):
    """the named constants of `bitflags! { pub struct <name>: uN { const A = 0x..; .. } }` in declaration order"""
    m = re.search(r"bitflags!\s*\{", src)
    if not m:
        raise Unsupported("no bitflags! block")
    block = src[m.end() - 1:match_brace(src, m.end() - 1)]
    m2 = re.search(r"struct\s+%s\s*:\s*u(?:8|16|32|64)\s*\{" % re.escape(name), block)
    if not m2:
        raise Unsupported("bitflags type %s not found" % name)
    body = block[m2.end() - 1:match_brace(block, m2.end() - 1)]
    tab = []
    for c, v in re.findall(r"\bconst\s+(\w+)\s*=\s*(0x[0-9a-fA-F_]+|\d[\d_]*)\s*;", body):
        tab.append((c, int(v.replace("_", ""), 0)))
    if len(tab) != len(re.findall(r"\bconst\b", body)) or not tab:
        raise Unsupported("bitflags constant of %s that is not a plain number" % name)
    return tab


def struct_fields(src, name):
    """{field: type text} of `struct <name> { .. }`, in declaration order"""
    m = re.search(r"\bstruct\s+%s\s*(?:<[^>]*>)?\s*\{" % re.escape(name), src)
    if not m:
        raise Unsupported("struct %s not found" % name)
    body = src[m.end():match_brace(src, m.end() - 1) - 1]
    body = re.sub(r"#\[[^\]]*\]", " ", body)
    out = {}
    for part in split_top(body):
        part = part.strip()
        if not part:
            continue
        mm = re.match(r"(?:pub(?:\([^)]*\))?\s+)?(\w+)\s*:\s*(.+)$", part, re.S)
        if not mm:
            raise Unsupported("field of struct %s: %r" % (name, part))
        out[mm.group(1)] = " ".join(mm.group(2).split())
    return out


def split_top(text):
    """split at the commas that are not inside ( ) < > [ ]"""
    parts, cur, depth = [], "", 0
    for ch in text:
        if ch in "(<[":
            depth += 1
        elif ch in ")>]":
            depth -= 1
        if ch == "," and depth == 0:
            parts.append(cur)
            cur = ""
        else:
            cur += ch
    parts.append(cur)
    return parts


def newtype_scalar(src, name):
    """T of `struct <name>(T);` with T an integer type (a newtype of a scalar: values of <name> are values of T), or None"""
    m = re.search(r"\bstruct\s+%s\s*\(\s*(?:pub(?:\([^)]*\))?\s+)?(\w+)\s*\)\s*;" % re.escape(name), src)
    return m.group(1) if m and m.group(1) in INT_TYPES else None


def enum_variants(src, name):
    """[(variant, payload text or None)] of `enum <name> { .. }` in declaration order"""
    m = re.search(r"\benum\s+%s\s*\{" % re.escape(name), src)
    if not m:
        raise Unsupported("enum %s not found" % name)
    body = src[m.end():match_brace(src, m.end() - 1) - 1]
    body = re.sub(r"#\[[^\]]*\]", " ", body)
    out = []
    for part in split_top(body):
        part = part.strip()
        if not part:
            continue
        mm = re.match(r"(\w+)\s*(?:\((.*)\))?$", part, re.S)
        if not mm:
            raise Unsupported("variant of enum %s: %r" % (name, part))
        out.append((mm.group(1), mm.group(2)))
    return out


def has_exit(x):
    """does the expression / statement list contain a `?` or an explicit `return` (not counting closures and nested fns)"""
    if isinstance(x, tuple):
        if x and x[0] == "try":
            return True
        if len(x) == 3 and x[0] == "return" and x[2] == "explicit":
            return True
        if x and x[0] in ("closure", "closureN", "closure0", "localfn"):
            return False
        return any(has_exit(y) for y in x)
    if isinstance(x, list):
        return any(has_exit(y) for y in x)
    return False


def mentions(x, name):
    """does the AST mention the variable `name`"""
    if isinstance(x, tuple):
        if len(x) == 2 and x[0] == "var" and x[1] == name:
            return True
        return any(mentions(y, name) for y in x)
    if isinstance(x, list):
        return any(mentions(y, name) for y in x)
    return False


def newtype_array(src, name):
    """(element type, length) of `struct <name>(pub [T; N]);`"""
    m = re.search(r"\bstruct\s+%s\s*\(\s*(?:pub(?:\([^)]*\))?\s+)?\[\s*(\w+)\s*;\s*(\d+)\s*\]\s*\)\s*;" % re.escape(name), src)
    if not m:
        return None
    return m.group(1), int(m.group(2))


def payload_enum(src, name):
    """[(variant, payload type)] of `enum <name> { V1(T1), V2(T2), .. }` (every variant with exactly one unnamed field)"""
    m = re.search(r"\benum\s+%s\s*\{" % re.escape(name), src)
    if not m:
        raise Unsupported("enum %s not found" % name)
    body = src[m.end():match_brace(src, m.end() - 1) - 1]
    body = re.sub(r"#\[[^\]]*\]", " ", body)
    out = []
    for part in body.split(","):
        part = part.strip()
        if not part:
            continue
        mm = re.match(r"(\w+)\s*\(\s*(\w+)\s*\)$", part)
        if not mm:
            raise Unsupported("variant of enum %s: %r" % (name, part))
        out.append((mm.group(1), mm.group(2)))
    return out


def find_fn(src, impl, fn):
    """(params text, return type text, body text incl. braces) of fn `fn` (inside `impl <impl>` if given; an `impl` name
    without `<` also matches `impl<..> Name<..> {`, but never a trait impl `impl<..> Trait for Name`)"""
    regions = []
    if impl:
        pat = r"impl(?:<[^>]*>)?\s+%s\s*\{" % re.escape(impl)
        if "<" not in impl:
            pat = r"impl(?:<[^>]*>)?\s+%s(?:<[^>{]*>)?\s*\{" % re.escape(impl)
        for m in re.finditer(pat, src):
            regions.append((m.end() - 1, match_brace(src, m.end() - 1)))
        if not regions:
            raise Unsupported("impl %s not found" % impl)
    else:
        regions = [(0, len(src))]
    for (a, b) in regions:
        for m in re.finditer(r"\bfn\s+%s\s*\(" % re.escape(fn), src[a:b]):
            s = a + m.end() - 1
            depth = 0
            j = s
            while True:
                if src[j] == "(":
                    depth += 1
                elif src[j] == ")":
                    depth -= 1
                    if depth == 0:
                        break
                j += 1
            params = src[s + 1:j]
            k = src.index("{", j)
            ret = src[j + 1:k].strip()
            ret = ret[2:].strip() if ret.startswith("->") else ""
            if impl is None:
                # a free function: not inside any impl block (indentation 0)
                line_start = src.rfind("\n", 0, a + m.start()) + 1
                if src[line_start:a + m.start()].strip() not in ("", "pub", "pub(crate)", "pub(super)"):
                    continue
                if src[line_start] in " \t":
                    continue
            return params, ret, src[k:match_brace(src, k)]
    raise Unsupported("fn %s not found" % fn)


# --------------------------------------------------------------------------------------------- lexer / parser

TOKEN = re.compile(r"\s*(?:(\"(?:[^\"\\]|\\.)*\")|(0x[0-9a-fA-F_]+(?:[iu](?:8|16|32|64|size))?|0b[01_]+(?:[iu](?:8|16|32|64|size))?|\d[\d_]*(?:\.\d+)?(?:[iu](?:8|16|32|64|size))?)|([A-Za-z_][A-Za-z0-9_]*)|(::|->|=>|==|!=|<=|>=|&&|\|\||<<|>>|\+=|-=|\*=|/=|[-+*/%<>=!&|^(){}\[\],;:.?'#]))")


def lex(text):
    toks = []
    i = 0
    text = text.strip()
    while i < len(text):
        m = TOKEN.match(text, i)
        if not m:
            raise Unsupported("cannot tokenise at: %r" % text[i:i + 30])
        if m.group(1):
            toks.append(("str", m.group(1)))
        elif m.group(2):
            toks.append(("num", m.group(2)))
        elif m.group(3):
            toks.append(("id", m.group(3)))
        else:
            toks.append(("op", m.group(4)))
        i = m.end()
    return toks


class Parser:
    def __init__(self, toks):
        self.t = toks
        self.i = 0
        self.nostruct = 0           # > 0 while parsing an `if` condition / `match` scrutinee (no struct literal there)

    def cond_expr(self):
        """an expression in a position where Rust does not allow a struct literal (`if` condition, `match` scrutinee)"""
        self.nostruct += 1
        try:
            return self.expr()
        finally:
            self.nostruct -= 1

    def inner(self, f):
        """parse with struct literals allowed again (inside parentheses / braces / brackets)"""
        saved, self.nostruct = self.nostruct, 0
        try:
            return f()
        finally:
            self.nostruct = saved

    def peek(self, k=0):
        return self.t[self.i + k] if self.i + k < len(self.t) else ("eof", "")

    def at(self, v, k=0):
        return self.peek(k)[1] == v and self.peek(k)[0] not in ("num", "str")

    def eat(self, v=None):
        tok = self.peek()
        if v is not None and tok[1] != v:
            raise Unsupported("expected %r, found %r" % (v, tok[1]))
        self.i += 1
        return tok

    # ---- statements
    def block(self):
        return self.inner(self.block_)

    def block_(self):
        self.eat("{")
        stmts = []
        while not self.at("}"):
            if self.at("use"):
                while not self.at(";"):
                    self.eat()
                self.eat(";")
                continue
            if self.at("fn"):
                self.eat()
                fname = self.eat()[1]
                self.eat("(")
                params = []
                while not self.at(")"):
                    if self.at("mut"):
                        self.eat()
                    n = self.eat()[1]
                    self.eat(":")
                    params.append((n, self.type_()))
                    if self.at(","):
                        self.eat()
                self.eat(")")
                ret = None
                if self.at("->"):
                    self.eat()
                    ret = self.type_()
                stmts.append(("localfn", fname, params, ret, ("block", self.block())))
                continue
            if self.at("let"):
                self.eat()
                mut = False
                if self.at("mut"):
                    self.eat()
                    mut = True
                if self.at("("):
                    self.eat()
                    names = []
                    while not self.at(")"):
                        names.append(self.eat()[1])
                        if self.at(","):
                            self.eat()
                    self.eat(")")
                    self.eat("=")
                    e = self.expr()
                    self.eat(";")
                    stmts.append(("lettuple", names, e))
                    continue
                name = self.eat()[1]
                ty = None
                if self.at(":"):
                    self.eat()
                    ty = self.type_()
                self.eat("=")
                e = self.expr()
                if self.at(".") and self.at(".", 1):
                    self.eat(); self.eat()          # `let r = a..b;`
                    e = ("range", e, self.expr())
                self.eat(";")
                stmts.append(("let", name, ty, e))
                continue
            if self.at("const") and self.peek(1)[0] == "id" and self.at(":", 2):
                # a local constant `const NAME: T = e;`: a `let` with a type annotation
                self.eat()
                name = self.eat()[1]
                self.eat(":")
                ty = self.type_()
                self.eat("=")
                e = self.expr()
                self.eat(";")
                stmts.append(("let", name, ty, e))
                continue
            if self.at("for"):
                # `for x in e { .. }` (a statement)
                self.eat()
                var = self.eat()[1]
                self.eat("in")
                it = self.cond_expr()
                stmts.append(("expr", ("for", var, it, self.block())))
                continue
            if self.at("return"):
                self.eat()
                e = self.expr() if not self.at(";") else ("unit",)
                if self.at(";"):
                    self.eat()
                stmts.append(("return", e, "explicit"))
                continue
            if self.at("assert") and self.at("!", 1) and self.at("(", 2):
                # `assert!(cond, "message", ..);`: a panic site; the message arguments are not evaluated unless it fails
                self.eat(); self.eat(); self.eat("(")
                cond = self.inner(self.expr)
                depth = 1
                while depth:
                    t = self.eat()[1]
                    depth += 1 if t == "(" else (-1 if t == ")" else 0)
                self.eat(";")
                stmts.append(("assert", cond))
                continue
            if self.at("debug_assert") or self.at("debug_assert_eq") or self.at("debug_assert_ne"):
                # debug_assert!(..): not part of the value; skipped (its condition is not an obligation here)
                self.eat(); self.eat("!"); self.skip_parens(); self.eat(";")
                continue
            e = self.expr(stmt=True)
            if self.peek()[1] in ("=", "+=", "-=", "*=", "/=") and self.peek()[0] == "op":
                op = self.eat()[1]
                rhs = self.expr()
                self.eat(";")
                if e[0] not in ("var", "field", "index"):
                    raise Unsupported("assignment to a non-variable")
                if op != "=":
                    rhs = ("bin", op[0], e, rhs)
                stmts.append(("assign", e, rhs))
                continue
            if self.at(";"):
                self.eat()
                stmts.append(("expr", e))
                continue
            if e[0] in ("if", "match") and not self.at("}"):
                stmts.append(("expr", e))
                continue
            # tail expression
            if not self.at("}"):
                raise Unsupported("statement form not supported near %r" % (self.peek()[1],))
            stmts.append(("return", e))
        self.eat("}")
        return stmts

    def skip_parens(self):
        self.eat("(")
        d = 1
        while d:
            t = self.eat()[1]
            if t == "(":
                d += 1
            elif t == ")":
                d -= 1

    def type_(self):
        if self.at("&"):
            self.eat()
            if self.at("'"):
                self.eat(); self.eat()
            if self.at("mut"):
                self.eat()
        name = self.eat()[1]
        if name == "[":
            inner = self.type_()
            self.eat("]")
            return ("slice", inner)
        if self.at("<"):
            self.eat()
            inner = self.type_()
            while self.at(","):
                self.eat()
                self.type_()
            self.eat(">")
            if name == "Option":
                return ("opt", inner)
            if name == "Result":
                return "result" if inner in ("unit",) else ("resultof", inner)
            raise Unsupported("generic type %s" % name)
        if name == "(":
            if self.at(")"):
                self.eat(")")
                return "unit"
            items = [self.type_()]
            while self.at(","):
                self.eat()
                if self.at(")"):
                    break
                items.append(self.type_())
            self.eat(")")
            return ("tup", items) if len(items) > 1 else items[0]
        while self.at("::"):           # a path `a::b::T`: the last segment names the type
            self.eat()
            name = self.eat()[1]
        return name

    # ---- expressions (precedence climbing)
    LEVELS = [["||"], ["&&"], ["==", "!=", "<", ">", "<=", ">="], ["|"], ["^"], ["&"], ["<<", ">>"], ["+", "-"], ["*", "/", "%"]]

    def expr(self, lvl=0, stmt=False):
        if lvl == len(self.LEVELS):
            return self.cast()
        lhs = self.expr(lvl + 1, stmt)
        if stmt and lhs[0] in ("if", "match", "block"):
            return lhs      # a block-like expression at the start of a statement ends there (Rust's rule): `if c { .. } &mut x` is two things
        while self.peek()[0] == "op" and self.peek()[1] in self.LEVELS[lvl]:
            op = self.eat()[1]
            rhs = self.expr(lvl + 1)
            lhs = ("bin", op, lhs, rhs)
        return lhs

    def cast(self):
        e = self.unary()
        while self.at("as"):
            self.eat()
            e = ("cast", e, self.type_())
        return e

    def unary(self):
        if self.at("-"):
            self.eat()
            return ("neg", self.unary())
        if self.at("!"):
            self.eat()
            return ("not", self.unary())
        if self.at("*") or self.at("&"):
            amp = self.eat()[1] == "&"  # deref / borrow of a scalar: transparent
            if amp and self.at("mut"):
                self.eat()
            return self.unary()
        return self.postfix()

    def args(self):
        return self.inner(self.args_)

    def args_(self):
        self.eat("(")
        a = []
        while not self.at(")"):
            e = self.expr()
            if self.at(".") and self.at(".", 1):
                self.eat(); self.eat()              # a range argument `a..` / `a..b`
                e = ("range", e, None if (self.at(",") or self.at(")")) else self.expr())
            a.append(e)
            if self.at(","):
                self.eat()
        self.eat(")")
        return a

    def postfix(self):
        e = self.primary()
        while True:
            if self.at(".") and self.at(".", 1):
                return e   # a range `a..b`
            if self.at("."):
                self.eat()
                name = self.eat()[1]
                tf = None
                if self.at("::") and self.at("<", 1):
                    self.eat(); self.eat()
                    tf = self.type_()
                    self.eat(">")
                if self.at("("):
                    e = ("method", e, name, self.args()) if tf is None else ("method", e, name, self.args(), tf)
                else:
                    e = ("field", e, name)
            elif self.at("?"):
                self.eat()
                e = ("try", e)
            elif self.at("["):
                self.eat()
                if self.at(".") and self.at(".", 1) and self.at("]", 2):
                    self.eat(); self.eat(); self.eat()
                    e = ("fullslice", e)
                    continue
                idx = None
                if not (self.at(".") and self.at(".", 1)):
                    idx = self.inner(self.expr)
                if self.at(".") and self.at(".", 1):
                    self.eat(); self.eat()          # `v[a..b]`, `v[a..]`, `v[..b]`
                    hi = None if self.at("]") else self.inner(self.expr)
                    self.eat("]")
                    e = ("slice", e, idx, hi)
                    continue
                self.eat("]")
                e = ("index", e, idx)
            else:
                return e

    def primary(self):
        k, v = self.peek()
        if k == "num":
            self.eat()
            mh = re.match(r"(0x[0-9a-fA-F_]+?|0b[01_]+?)([iu](?:8|16|32|64|size))?$", v)
            if mh:
                return ("lit", int(mh.group(1).replace("_", ""), 0), mh.group(2))
            m = re.match(r"([\d_]+)(?:\.(\d+))?([iu](?:8|16|32|64|size))?$", v)
            if m.group(2) is not None:
                if int(m.group(2)) != 0:
                    raise Unsupported("float literal with a fraction")
                return ("flit", int(m.group(1).replace("_", "")))
            return ("lit", int(m.group(1).replace("_", "")), m.group(3))
        if v == "(":
            return self.inner(self.paren)
        if v == "[" and k == "op" and self.at("]", 1):
            self.eat(); self.eat()
            return ("emptyslice",)      # `[]` / `&[]`
        return self.primary_()

    def paren(self):
            self.eat()
            if self.at(")"):
                self.eat()
                return ("unit",)
            e = self.expr()
            if self.at(".") and self.at(".", 1):
                self.eat(); self.eat()
                hi = self.expr()
                self.eat(")")
                return ("range", e, hi)
            if self.at(","):
                items = [e]
                while self.at(","):
                    self.eat()
                    if self.at(")"):
                        break
                    items.append(self.expr())
                self.eat(")")
                return ("tuple", items)
            self.eat(")")
            return e

    def primary_(self):
        k, v = self.peek()
        if v == "if":
            self.eat()
            bindpat = None
            if self.at("let"):
                # `if let PAT = e { A } else { B }`  ==  if (e matches PAT) { bind PAT; A } else { B }
                self.eat()
                pat = self.pattern()
                self.eat("=")
                if self.at("&") and self.at("mut", 1) and pat[0] == "pctor":
                    pat = pat[:3] + (True,)         # `= &mut x`: the bindings of the pattern are mutable references into x
                scrut = self.cond_expr()
                c = ("islet", pat, scrut)
                bindpat = ("bindpat", pat, scrut)
            else:
                c = self.cond_expr()
            a = self.block()
            if bindpat:
                a = [bindpat] + a
            b = None
            if self.at("else"):
                self.eat()
                # the marker "elseif": this `return` stands for the nested `if` of an `else if` chain, not for a tail expression
                b = [("return", self.primary(), "elseif")] if self.at("if") else self.block()
            return ("if", c, a, b)
        if v == "match":
            self.eat()
            mutborrow = self.at("&") and self.at("mut", 1)
            scrut = self.cond_expr()
            m = self.inner(lambda: self.match_arms(scrut))
            if mutborrow:
                m = ("match", m[1], [([(p[:3] + (True,)) if p[0] == "pctor" else p for p in pats], body, guard) for pats, body, guard in m[2]])
            return m
        if v == "{":
            return ("block", self.block())
        if v == "Default" and self.at("::", 1) and self.at("default", 2) and self.at("(", 3) and self.at(")", 4):
            for _ in range(5):
                self.eat()
            return ("default",)
        if v == "||" and k == "op":
            self.eat()
            return ("closure0", self.expr())
        if v == "move" or v == "|":
            if v == "move":
                self.eat()
            self.eat("|")
            params = []
            while not self.at("|"):
                if self.at("&"):
                    self.eat()          # `|&b|`: the element by value
                n = self.eat()[1]
                t = None
                if self.at(":"):
                    self.eat()
                    t = self.type_()
                params.append((n, t))
                if self.at(","):
                    self.eat()
            self.eat("|")
            ret = None
            if self.at("->"):
                self.eat()
                ret = self.type_()
            body = self.expr()
            if len(params) == 1 and params[0][1] is None and ret is None:
                return ("closure", params[0][0], body)
            return ("closureN", params, ret, body)
        if v == "matches" and self.at("!", 1):
            # `matches!(e, P1 | P2)` = `match e { P1 | P2 => true, _ => false }`
            self.eat(); self.eat("!"); self.eat("(")
            scrut = self.inner(self.expr)
            self.eat(",")
            pats = [self.pattern()]
            while self.at("|"):
                self.eat()
                pats.append(self.pattern())
            if self.at(","):
                self.eat()
            self.eat(")")
            return ("match", scrut, [(pats, [("return", ("var", "true"))], None), ([("pwild",)], [("return", ("var", "false"))], None)])
        if v in ("unreachable", "panic") and self.at("!", 1):
            self.eat(); self.eat("!"); self.skip_parens()
            return ("panic",)
        if k == "id":
            path = [self.eat()[1]]
            while self.at("::"):
                self.eat()
                path.append(self.eat()[1])
            if self.at("("):
                return ("call", path, self.args())
            if self.at("{") and path[-1][:1].isupper() and len(path) > 1 and self.at("}", 1):
                self.eat(); self.eat()  # `Variant {}`
                return ("path", path)
            if self.at("{") and path[-1][:1].isupper() and not self.nostruct:
                return self.inner(lambda: self.struct_lit(path))
            if len(path) == 1:
                return ("var", path[0])
            return ("path", path)
        raise Unsupported("unexpected token %r" % v)

    def match_arms(self, scrut):
            self.eat("{")
            arms = []
            while not self.at("}"):
                pats = [self.pattern()]
                while self.at("|"):
                    self.eat()
                    pats.append(self.pattern())
                guard = None
                if self.at("if"):
                    self.eat()
                    guard = self.expr()
                self.eat("=>")
                if self.at("return"):
                    self.eat()
                    body = [("return", self.expr() if not (self.at(",") or self.at("}")) else ("unit",), "explicit")]
                else:
                    body = self.block() if self.at("{") else [("return", self.expr())]
                if self.at(","):
                    self.eat()
                arms.append((pats, body, guard))
            self.eat("}")
            return ("match", scrut, arms)

    def struct_lit(self, path):
        """`Name { f: e, g, ..base }`"""
        self.eat("{")
        items, base = [], None
        while not self.at("}"):
            if self.at(".") and self.at(".", 1):
                self.eat(); self.eat()
                base = self.expr()
                break
            f = self.eat()[1]
            if self.at(":"):
                self.eat()
                items.append((f, self.expr()))
            else:
                items.append((f, ("var", f)))
            if self.at(","):
                self.eat()
        self.eat("}")
        return ("structlit", path[-1], items, base)

    def pattern(self):
        k, v = self.peek()
        if k == "num":
            self.eat()
            mh = re.match(r"(0x[0-9a-fA-F_]+?|0b[01_]+?)([iu](?:8|16|32|64|size))?$", v)
            if mh:
                return ("plit", int(mh.group(1).replace("_", ""), 0), mh.group(2))
            ms = re.match(r"([\d_]+)([iu](?:8|16|32|64|size))?$", v)
            return ("plit", int(ms.group(1).replace("_", "")), ms.group(2))
        if v == "_":
            self.eat()
            return ("pwild",)
        path = [self.eat()[1]]
        while self.at("::"):
            self.eat()
            path.append(self.eat()[1])
        if len(path) == 1 and path[0][:1].islower():
            return ("pbind", path[0])
        if self.at("("):
            # `Some(x)` / `Some(ref mut x)` / `Some(_)`;  `Enum::Variant(_)` / `Enum::Variant(x)` / `Enum::Variant(Struct { f, g: h, .. })`
            self.eat()
            byref = False
            if self.at("ref"):
                self.eat()
                byref = True
            if self.at("mut"):
                self.eat()
            sub = None
            if self.at("_"):
                self.eat()
            else:
                name = [self.eat()[1]]
                while self.at("::"):
                    self.eat()
                    name.append(self.eat()[1])
                if self.at("{"):
                    self.eat()
                    binds = []
                    while not self.at("}"):
                        if self.at(".") and self.at(".", 1):
                            self.eat(); self.eat()
                            break
                        if self.at("ref"):
                            self.eat()
                        if self.at("mut"):
                            self.eat()
                        f = self.eat()[1]
                        b = f
                        if self.at(":"):
                            self.eat()
                            b = self.eat()[1]
                        binds.append((f, b))
                        if self.at(","):
                            self.eat()
                    self.eat("}")
                    sub = ("fields", name[-1], binds)
                elif len(name) == 1 and name[0][:1].islower():
                    sub = ("name", name[0])
                else:
                    raise Unsupported("pattern inside %s(..)" % path[-1])
            self.eat(")")
            return ("pctor", path[-1], sub, byref)
        return ("pvariant", path[-1])


# --------------------------------------------------------------------------------------------- translation

def is_opt(t):
    return isinstance(t, tuple) and len(t) == 2 and t[0] == "opt"


def is_tup(t):
    return isinstance(t, tuple) and len(t) == 2 and t[0] == "tup"


def is_ref(t):
    return isinstance(t, tuple) and len(t) == 3 and t[0] == "ref"


class Tr:
    def __init__(self, kernel, enums, sigs, load=None):
        self.k = kernel
        self.enums = enums          # enum name -> {variant: discriminant}
        self.sigs = sigs            # lean name -> (impl, fn, param names, param types, ret type, extra)
        self.load = load            # file name -> comment-free source text
        self.params = []            # (lean name, type)
        self.origin = {}            # lean parameter name -> where it comes from: ("field", path, f) / ("some", path) / ("flag", path, F) / ..
        self.used_groups = set()    # groups of the translated functions this kernel calls
        self.flagtab = {}           # bitflags type -> [(constant, value)] in declaration order
        self.payload = {}           # parameter -> (variants in declaration order, {variant: (struct, {field: type})})
        self.valdepth = 0           # > 0 while translating something whose value is USED by the function (operand, condition, `let`
                                    # right-hand side, argument); 0 = tail position: the value of a block there is the function's result
        self.in_local = False       # inside the body of an inlined local fn / closure
        self.env = {}               # rust var -> type
        self.self_ty = None
        self.ret = None
        self.localfns = {}          # local helper functions / closures: name -> (params, ret, body); inlined at calls
        self.fden = {}              # f64 variable -> denominator (a power of two): the variable holds the numerator
        self.retk = []              # continuations of `return` inside inlined fns of the reader subset (None = value mode)
        self.rkind = None           # reader subset: "result" / "resultdecoded" / "decoded" / "unit"
        self.assigned = set()       # dotted paths of the struct fields this function assigns (directly or through a translated callee)

    # --- types
    def is_int(self, t):
        return t in INT_TYPES

    def enum_of_variant(self, v, hint=None):
        if hint in self.enums and v in self.enums[hint]:
            return hint
        c = [e for e, tab in self.enums.items() if v in tab]
        if len(c) >= 1:
            return c[0]
        return None

    def rng(self, t, x):
        lo, hi = INT_TYPES[t]
        return "decide (%d ≤ %s ∧ %s ≤ %d)" % (lo, x, x, hi)

    def wrap(self, t, x):
        lo, hi = INT_TYPES[t]
        n = hi - lo + 1
        if lo == 0:
            return "(%s %% %d)" % (x, n)
        return "((%s + %d) %% %d - %d)" % (x, -lo, n, -lo)

    def pname(self, path, f):
        return "%s_%s" % (path.replace(".", "_"), f)

    def add_param(self, name, ty, origin):
        if name not in [p[0] for p in self.params]:
            self.params.append((name, ty))
            self.origin[name] = origin

    def free_field(self, obj, f):
        """struct field `obj.f` -> parameter obj_f (`obj` may be a dotted path `self.info`: parameter self_info_f); a field of
        an `Option<struct>` path declared under `opts` likewise (it is only reachable through a `Some(..)` pattern)"""
        for tab in (self.k.get("fields", {}), self.k.get("opts", {})):
            if obj in tab and f in tab[obj]:
                name = self.pname(obj, f)
                if name in self.env:
                    return name, self.env[name]
                self.add_param(name, tab[obj][f], ("field", obj, f))
                return name, tab[obj][f]
        raise Unsupported("field %s.%s is not declared for this kernel" % (obj, f))

    def path_kind(self, path):
        if path in self.k.get("opts", {}):
            return "opt"
        if path in self.k.get("flags", {}):
            return "flags"
        if path in self.k.get("fields", {}) or path == "self" or path in [v[0] for v in self.k.get("structcalls", {}).values()]:
            return "struct"
        if path in self.k.get("pathtypes", {}):
            return "struct"
        return None

    def resolve_path(self, x):
        """the dotted path of a place expression (`self`, a struct parameter, an alias introduced by `let` / a `Some(..)` pattern,
        a field of a path, a call declared under `structcalls`), or None"""
        if x[0] == "var":
            if x[1] == "self":
                return "self" if self.self_ty is None else None
            t = self.env.get(x[1])
            if isinstance(t, tuple) and t[0] == "alias":
                return t[1]
            if x[1] not in self.env and (x[1] in self.k.get("fields", {}) or x[1] in self.k.get("opts", {})):
                return x[1]
            return None
        if x[0] == "field":
            p = self.resolve_path(x[1])
            return p + "." + x[2] if p else None
        if x[0] == "method" and not x[3]:
            p = self.resolve_path(x[1])
            sc = self.k.get("structcalls", {})
            if p and "%s.%s()" % (p, x[2]) in sc:
                return sc["%s.%s()" % (p, x[2])][0]
        return None

    def some_param(self, path):
        """the Bool parameter `<path>_is_some` of an `Option<..>` path (its current value, if it was assigned)"""
        if path not in self.k.get("opts", {}):
            raise Unsupported("%s is not declared as an Option field of this kernel" % path)
        name = self.pname(path, "is_some")
        if name not in self.env:
            self.add_param(name, "bool", ("some", path))
        return name

    def flag_table(self, ty):
        if ty not in self.flagtab:
            files = [v[1] for v in self.k.get("flags", {}).values() if v[0] == ty]
            if not files:
                raise Unsupported("bitflags type %s is not declared for this kernel" % ty)
            tab = bitflags_table(self.load(files[0]), ty)
            bits = [v for _, v in tab if v != 0]
            if any(v & (v - 1) for v in bits) or len(set(bits)) != len(bits):
                raise Unsupported("bitflags type %s has a constant that is not a single bit of its own" % ty)
            self.flagtab[ty] = tab
        return self.flagtab[ty]

    def flag_params(self, path):
        """[(flag name, Bool parameter)] for every single-bit flag of the bitflags type of `path`, in declaration order"""
        ty = self.k["flags"][path][0]
        out = []
        for c, v in self.flag_table(ty):
            if v != 0:
                name = self.pname(path, c)
                self.add_param(name, "bool", ("flag", path, c))
                out.append((c, name))
        return out

    def declare_fixed(self):
        """`fixed` kernels: every declared flag / field / Option field is a parameter, in the order of the declaration"""
        for path in self.k.get("flags", {}):
            self.flag_params(path)
        for path, fs in self.k.get("fields", {}).items():
            for f in fs:
                self.free_field(path, f)
        for path, fs in self.k.get("opts", {}).items():
            self.some_param(path)
            for f in fs:
                self.free_field(path, f)
        for c, t in self.k.get("consts", {}).items():
            self.add_param(c, t, ("const", c))
        for key, pn in self.k.get("bytevals", {}).items():
            self.add_param(pn, "u8", ("byteval", key))
        for key, pn in self.k.get("extern_vals", {}).items():
            self.add_param(pn, "bool", ("extern", key))
        for key, d in self.k.get("extern_calls", {}).items():
            self.add_param(d["ok"], "bool", ("extern", key))
            for pn, ty in d["values"]:
                self.add_param(pn, ty, ("extern", key))

    # --- expressions: returns (lean term, type, ok term or None)
    def conj(self, *oks):
        oks = [o for o in oks if o]
        if not oks:
            return None
        return " && ".join("(%s)" % o for o in oks) if len(oks) > 1 else oks[0]

    def e(self, x, want=None):
        if x[0] in ("if", "match", "block"):
            return self.e_(x, want)      # their branches stay in the position the whole expression is in
        self.valdepth += 1
        try:
            return self.e_(x, want)
        finally:
            self.valdepth -= 1

    def ev(self, x, want=None):
        """translate x as a used value (never in tail position)"""
        self.valdepth += 1
        try:
            return self.e(x, want)
        finally:
            self.valdepth -= 1

    def e_(self, x, want=None):
        k = x[0]
        if k == "lit":
            return (str(x[1]) if x[1] >= 0 else "(%d)" % x[1]), (x[2] or want or "lit"), None
        if k == "unit":
            return "()", "unit", None
        if k == "rawlean":
            return x[1], x[2], None
        if k == "flit":
            return ("f64", str(x[1]), 1), "f64", None
        if k == "tuple":
            vals, tys, oks = [], [], []
            wants = want[1] if is_tup(want) and len(want[1]) == len(x[1]) else [None] * len(x[1])
            for it, w in zip(x[1], wants):
                v, t, o = self.e(it, w)
                if not isinstance(v, str) or not (self.is_int(t) or t in self.enums or t in ("bool", "lit")):
                    raise Unsupported("tuple component of type %s" % (t,))
                if t == "lit" and w:
                    t = w
                vals.append(v); tys.append(t); oks.append(o)
            return "(%s)" % ", ".join(vals), ("tup", tys), self.conj(*oks)
        if k == "var":
            n = x[1]
            if n == "self":
                if self.self_ty is None:
                    return ("ref", "self"), ("ref", "struct", "self"), None
                return "self_", self.self_ty, None
            if n in self.env:
                if self.env[n] == "f64":
                    return ("f64", self.lname(n), self.fden[n]), "f64", None
                if isinstance(self.env[n], tuple) and self.env[n][0] == "alias":
                    path = self.env[n][1]
                    return ("ref", path), ("ref", self.path_kind(path), path), None
                if isinstance(self.env[n], tuple) and self.env[n][0] in ("payload", "structlocal", "array", "sized", "rangelocal"):
                    raise Unsupported("%s used as a value" % n)
                return self.lname(n), self.env[n], None
            if n in self.k.get("consts", {}):
                if n not in [p[0] for p in self.params]:
                    self.params.append((n, self.k["consts"][n]))
                return n, self.k["consts"][n], None
            if n == "None":
                if is_opt(want) and want[1] == "bytes":
                    return "(none : Option (List Int))", want, None
                return "(none : Option Int)", ("opt", want[1] if is_opt(want) else "lit"), None
            if n in ("true", "false"):
                return n, "bool", None
            v = self.enum_of_variant(n, self.self_ty)
            if v:
                return str(self.enums[v][n]), v, None
            raise Unsupported("unknown variable %s" % n)
        if k == "path":
            p = x[1]
            if len(p) == 2 and p[0] in INT_TYPES and p[1] in ("MAX", "MIN"):
                lo, hi = INT_TYPES[p[0]]
                return ("%d" % hi if p[1] == "MAX" else "(%d)" % lo), p[0], None
            en = p[-2] if len(p) >= 2 else None
            if en == "Self":
                en = self.self_ty
            if en in self.enums and p[-1] in self.enums[en]:
                return str(self.enums[en][p[-1]]), en, None
            if en in [v[0] for v in self.k.get("flags", {}).values()]:
                tab = dict(self.flag_table(en))
                if p[-1] not in tab:
                    raise Unsupported("unknown flag %s" % "::".join(p))
                return ("flagset", frozenset([p[-1]] if tab[p[-1]] else [])), ("flagconst", en), None
            raise Unsupported("path %s" % "::".join(p))
        if k == "field":
            base = self.resolve_path(x[1])
            if base is None:
                raise Unsupported("nested field access")
            if base in self.k.get("opts", {}) and not (x[1][0] == "var" and isinstance(self.env.get(x[1][1]), tuple)):
                raise Unsupported("field of an Option read without a `Some(..)` pattern")
            full = base + "." + x[2]
            if self.path_kind(full) in ("opt", "flags") or (self.path_kind(full) == "struct" and not self.declared_field(base, x[2])):
                return ("ref", full), ("ref", self.path_kind(full), full), None
            n, t = self.free_field(base, x[2])
            return n, t, None
        if k == "index":
            if self.k.get("sizeof") is not None:
                r_ = self.index_sized(x)
                if r_ is not None:
                    return r_
            if x[1][0] == "var" and isinstance(self.env.get(x[1][1]), tuple) and self.env[x[1][1]][0] == "array":
                _, ety, n = self.env[x[1][1]]
                if x[2][0] != "lit" or not (0 <= x[2][1] < n):
                    raise Unsupported("array index that is not a literal inside the array")
                return "%s_%d" % (self.lname(x[1][1]), x[2][1]), ety, None
            if x[1][0] == "var" and self.env.get(x[1][1]) == "bytes" and x[2][0] == "lit" and x[2][1] >= 0:
                ln = self.lname(x[1][1])
                return "(List.getD %s %d 0)" % (ln, x[2][1]), "u8", "decide (%d < %s.length)" % (x[2][1], ln)
            raise Unsupported("index expression")
        if k == "try":
            raise Unsupported("`?` in a position the translator does not move it out of")
        if k in ("fullslice", "closure0", "for"):
            raise Unsupported("%s used as a value" % k)
        if k == "islet":
            return self.islet(x[1], x[2])
        if k in ("structlit", "default"):
            raise Unsupported("struct value in an expression position")
        if k == "neg":
            a, t, o = self.e(x[1], want)
            r = "(-%s)" % a
            return r, t, self.conj(o, self.rng(t, r) if self.is_int(t) else None)
        if k == "not":
            a, t, o = self.e(x[1], "bool")
            if t != "bool":
                raise Unsupported("! on a non-bool")
            return "(!%s)" % a, "bool", o
        if k == "cast":
            a, t, o = self.e(x[1])
            tt = x[2]
            if not self.is_int(tt):
                raise Unsupported("cast to %s" % tt)
            if t == "f64":
                # float -> integer `as`: truncation toward zero, saturating at the bounds of the target type
                if a[2] != 1:
                    raise Unsupported("`as` on a float that is not known to be integral (use ceil/floor first)")
                lo, hi = INT_TYPES[tt]
                return "(max %s (min %d %s))" % (("(%d)" % lo) if lo < 0 else "0", hi, a[1]), tt, o
            if t == "bool":
                return "(if %s then 1 else 0)" % a, tt, o
            if t in self.enums or t == "lit":
                return a, tt, o  # discriminants fit every integer type used here
            if self.is_int(t):
                lo, hi = INT_TYPES[t]
                lo2, hi2 = INT_TYPES[tt]
                if lo2 <= lo and hi <= hi2:
                    return a, tt, o          # widening: value preserved
                return self.wrap(tt, a), tt, o
            raise Unsupported("cast from %s" % (t,))
        if k == "bin":
            return self.binop(x, want)
        if k == "if":
            c, ct, co = self.ev(x[1], "bool")
            if x[3] is None:
                raise Unsupported("if expression without else")
            a, at_, ao = self.blk(x[2], want)
            b, bt, bo = self.blk(x[3], want if at_ == "lit" else at_)
            t = at_ if at_ != "lit" else bt
            ok = None
            if ao or bo:
                ok = "(if %s then %s else %s)" % (c, ao or "true", bo or "true")
            return "(if %s then %s else %s)" % (c, a, b), t, self.conj(co, ok)
        if k == "block":
            return self.blk(x[1], want)
        if k == "match":
            return self.match(x, want)
        if k == "panic":
            return "0", want or "lit", "false"
        if k == "call":
            return self.call(x, want)
        if k == "method":
            return self.method(x, want)
        raise Unsupported("expression kind %s" % k)

    def declared_field(self, path, f):
        return f in self.k.get("fields", {}).get(path, {}) or f in self.k.get("opts", {}).get(path, {})

    def islet(self, pat, scrut):
        """the Bool `scrut matches pat` for the patterns that bind nothing by themselves (bindings: `bindpat`)"""
        if scrut[0] == "var" and isinstance(self.env.get(scrut[1]), tuple) and self.env[scrut[1]][0] == "payload":
            c = self.payload_cond(scrut[1], pat)
            if c is None:
                raise Unsupported("irrefutable `if let`")
            return "decide (%s)" % c, "bool", None
        path = self.resolve_path(scrut)
        if (path is None or self.path_kind(path) != "opt") and self.cps() and pat[0] == "pctor" and pat[1] == "Some":
            v, t, o = self.ev(scrut)
            if is_opt(t) and isinstance(v, str):
                return "(Option.isSome %s)" % v, "bool", o
        if path is None or self.path_kind(path) != "opt":
            raise Unsupported("`if let` on something that is not a declared Option field")
        sp = self.some_param(path)
        if pat[0] == "pctor" and pat[1] == "Some":
            return sp, "bool", None
        if pat[0] == "pvariant" and pat[1] == "None":
            return "(!%s)" % sp, "bool", None
        raise Unsupported("pattern of `if let`")

    def payload_cond(self, var, pat):
        """condition (a Prop over the tag parameter) under which the payload-enum parameter `var` matches `pat`; None = always"""
        variants, decl = self.payload[var]
        if pat[0] in ("pwild", "pbind"):
            return None
        if pat[0] in ("pctor", "pvariant"):
            names = [v for v, _ in variants]
            if pat[1] not in names:
                raise Unsupported("unknown variant %s" % pat[1])
            return "%s_tag = %d" % (self.lname(var), names.index(pat[1]))
        raise Unsupported("pattern on a payload enum")

    def payload_binds(self, var, pat):
        """[(rust name, lean parameter, type)] bound by `pat` on the payload-enum parameter `var`"""
        if pat[0] != "pctor" or pat[2] is None:
            return []
        variants, decl = self.payload[var]
        if pat[2][0] != "fields":
            raise Unsupported("binding the whole payload of %s" % pat[1])
        sname, fields = decl.get(pat[1], (None, {}))
        if pat[2][1] != sname:
            raise Unsupported("payload struct %s of variant %s" % (pat[2][1], pat[1]))
        out = []
        for f, b in pat[2][2]:
            if f not in fields:
                raise Unsupported("field %s of %s is not declared for this kernel" % (f, sname))
            out.append((b, "%s_%s_%s" % (self.lname(var), pat[1], f), fields[f]))
        return out

    def lname(self, n):
        if n.endswith("__idx"):
            return n[:-5]
        return n + "_" if n in ("min", "max", "out", "end", "from", "to", "at", "in", "then", "else", "fun", "do", "have", "show", "open", "by") else n

    def binop(self, x, want):
        op = x[1]
        if op in ("&&", "||"):
            a, _, ao = self.e(x[2], "bool")
            b, _, bo = self.e(x[3], "bool")
            ok = ao
            if bo:
                guard = "(!%s || %s)" % (a, bo) if op == "&&" else "(%s || %s)" % (a, bo)
                ok = self.conj(ao, guard)
            return "(%s %s %s)" % (a, op, b), "bool", ok
        if self.is_f64(x[2]) or self.is_f64(x[3]):
            return self.fbin(x)
        if op in ("==", "!=") and x[2][0] == "tuple" and x[3][0] == "tuple":
            # tuples are equal iff all components are
            if len(x[2][1]) != len(x[3][1]):
                raise Unsupported("comparison of tuples of different length")
            cs, oks = [], []
            for l, r in zip(x[2][1], x[3][1]):
                c, _, o = self.binop(("bin", "==", l, r), "bool")
                cs.append(c); oks.append(o)
            v = "(%s)" % " && ".join(cs)
            return (v if op == "==" else "(!%s)" % v), "bool", self.conj(*oks)
        # operand types: a literal takes the type of the other side
        a, ta, ao = self.e(x[2], None)
        if is_ref(ta) or (isinstance(ta, tuple) and ta[0] == "flagconst"):
            return self.flagop(op, a, ta, x[3])
        b, tb, bo = self.e(x[3], ta if ta != "lit" else None)
        if ta == "lit" and tb != "lit":
            a, ta, ao = self.e(x[2], tb)
        if ta == "lit" and tb == "lit" and want:
            ta = tb = want
        t = ta if ta != "lit" else tb
        if op in ("==", "!=", "<", ">", "<=", ">="):
            if is_tup(t):
                raise Unsupported("ordering / equality of tuple values")
            if is_opt(t):  # Option ordering
                f = {"<=": "optLe %s %s", "<": "optLt %s %s", ">=": "optLe %s %s", ">": "optLt %s %s", "==": "(%s == %s)", "!=": "(%s != %s)"}[op]
                args = (b, a) if op in (">=", ">") else (a, b)
                return "(" + f % args + ")", "bool", self.conj(ao, bo)
            if t == "bool":
                return "(%s %s %s)" % (a, "==" if op == "==" else "!=", b), "bool", self.conj(ao, bo)
            sym = {"==": "=", "!=": "≠", "<": "<", ">": ">", "<=": "≤", ">=": "≥"}[op]
            return "decide (%s %s %s)" % (a, sym, b), "bool", self.conj(ao, bo)
        if op in ("+", "-", "*"):
            r = "(%s %s %s)" % (a, op, b)
            return r, t, self.conj(ao, bo, self.rng(t, r) if self.is_int(t) else None)
        if op in ("/", "%"):
            r = "(%s %s %s)" % (a, op, b)
            if self.is_int(t) and INT_TYPES[t][0] < 0:
                r = "(Int.tdiv %s %s)" % (a, b) if op == "/" else "(Int.tmod %s %s)" % (a, b)
            return r, t, self.conj(ao, bo, "decide (%s ≠ 0)" % b)
        if op in (">>", "<<"):
            if x[3][0] != "lit":
                raise Unsupported("shift by a non-literal")
            n = 2 ** x[3][1]
            if op == ">>":
                if self.is_int(t) and INT_TYPES[t][0] < 0:
                    raise Unsupported(">> on a signed type")
                return "(%s / %d)" % (a, n), t, ao
            r = "(%s * %d)" % (a, n)
            return r, t, self.conj(ao, self.rng(t, r) if self.is_int(t) else None)
        if op == "&":
            # bit-and of an unsigned value with a non-negative literal mask: the sum of the mask's bits that are set in the value
            # (`x & 32` = `x / 32 % 2 * 32`); anything else is outside the subset
            lit, other, ot, oo = None, None, None, None
            if x[3][0] == "lit":
                lit, other, ot, oo = x[3][1], a, ta, ao
            elif x[2][0] == "lit":
                lit, other, ot, oo = x[2][1], b, tb, bo
            if lit is None or lit < 0 or not self.is_int(ot) or INT_TYPES[ot][0] < 0 or lit > INT_TYPES[ot][1]:
                raise Unsupported("`&` that is not <unsigned value> & <literal>")
            terms = ["(%s / %d %% 2 * %d)" % (other, 2 ** i, 2 ** i) for i in range(lit.bit_length()) if lit >> i & 1]
            return ("(%s)" % " + ".join(terms) if len(terms) != 1 else terms[0]) if terms else "0", ot, oo
        raise Unsupported("operator %s" % op)

    def flagset(self, x, ty=None):
        """a constant set of flags: `T::A`, `T::A | T::B`, `T::empty()`, `T::all()`"""
        if x[0] == "bin" and x[1] == "|":
            a, ta = self.flagset(x[2], ty)
            b, tb = self.flagset(x[3], ta)
            if ta != tb:
                raise Unsupported("union of flags of different types")
            return a | b, ta
        if x[0] == "call" and len(x[1]) == 2 and x[1][1] in ("empty", "all") and not x[2] and x[1][0] in [v[0] for v in self.k.get("flags", {}).values()]:
            tab = self.flag_table(x[1][0])
            return frozenset(c for c, v in tab if v != 0 and x[1][1] == "all"), x[1][0]
        v, t, _ = self.e(x)
        if not (isinstance(t, tuple) and t[0] == "flagconst"):
            raise Unsupported("expected a constant set of flags")
        return v[1], t[1]

    def flagop(self, op, a, ta, rhs):
        """`t == T::X`, `t != T::X` for a bitflags value `t` (a declared path: one Bool per single-bit flag) and a constant set"""
        if op not in ("==", "!="):
            raise Unsupported("operator %s on a struct / bitflags value" % op)
        if is_ref(ta) and ta[1] == "flags":
            fs, fty = self.flagset(rhs)
            path = ta[2]
        elif isinstance(ta, tuple) and ta[0] == "flagconst":
            b, tb, _ = self.e(rhs)
            if not (is_ref(tb) and tb[1] == "flags"):
                raise Unsupported("comparison of two flag constants")
            fs, fty, path = a[1], ta[1], tb[2]
        else:
            raise Unsupported("comparison of struct values")
        if self.k["flags"][path][0] != fty:
            raise Unsupported("comparison of flags of different types")
        v = "(%s)" % " && ".join((n if c in fs else "(!%s)" % n) for c, n in self.flag_params(path))
        return (v if op == "==" else "(!%s)" % v), "bool", None

    # --- f64: every value is numerator / denominator with the denominator a power of two known at translation time;
    # all operations used (from u32, +, -, * and / by small powers of two, ceil, floor) are exact in IEEE-754 binary64 as
    # long as the numerators stay below 2^53 in magnitude, which `_ok` demands
    def is_f64(self, x):
        if x[0] == "flit":
            return True
        if x[0] == "var":
            return self.env.get(x[1]) == "f64"
        if x[0] == "call":
            return x[1] == ["f64", "from"]
        if x[0] == "bin":
            return self.is_f64(x[2]) or self.is_f64(x[3])
        if x[0] == "method" and x[2] in ("ceil", "floor"):
            return True
        return False

    def fexact(self, n):
        return "decide (-9007199254740992 ≤ %s ∧ %s ≤ 9007199254740992)" % (n, n)

    def fbin(self, x):
        op = x[1]
        (fa, na, da), ta, ao = self.e(x[2])
        (fb, nb, db), tb, bo = self.e(x[3])
        if op in ("+", "-"):
            d = max(da, db)
            n = "(%s %s %s)" % (na if da == d else "(%s * %d)" % (na, d // da), op, nb if db == d else "(%s * %d)" % (nb, d // db))
            return ("f64", n, d), "f64", self.conj(ao, bo, self.fexact(n))
        if op == "/":
            if x[3][0] != "flit" or x[3][1] <= 0 or (x[3][1] & (x[3][1] - 1)) != 0:
                raise Unsupported("float division by something that is not a literal power of two")
            return ("f64", na, da * x[3][1]), "f64", ao
        if op == "*":
            if x[3][0] != "flit":
                raise Unsupported("float multiplication by a non-literal")
            n = "(%s * %d)" % (na, x[3][1])
            return ("f64", n, da), "f64", self.conj(ao, self.fexact(n))
        if op in ("<", "<=", ">", ">=", "==", "!="):
            d = max(da, db)
            l = na if da == d else "(%s * %d)" % (na, d // da)
            r = nb if db == d else "(%s * %d)" % (nb, d // db)
            sym = {"==": "=", "!=": "≠", "<": "<", ">": ">", "<=": "≤", ">=": "≥"}[op]
            return "decide (%s %s %s)" % (l, sym, r), "bool", self.conj(ao, bo)
        raise Unsupported("float operator %s" % op)

    def call(self, x, want):
        p, args = x[1], x[2]
        if self.cps():
            if len(p) > 2 and p[0] == "crate":
                p = p[-2:]
            if p == ["Cow", "Owned"] and len(args) == 1:
                v, t, o = self.e(args[0])
                if t != "bytes":
                    raise Unsupported("Cow::Owned of %s" % (t,))
                return v, t, o
            nt = self.k.get("newtypes", {})
            ctor = self.k["impl"] if p == ["Self"] else (p[0] if len(p) == 1 else None)
            if ctor in nt and len(args) == 1:
                u = newtype_scalar(self.load(nt[ctor]), ctor)
                if not u:
                    raise Unsupported("%s is not a newtype of an integer" % ctor)
                v, t, o = self.e(args[0], u)
                if t not in (u, "lit") or not isinstance(v, str):
                    raise Unsupported("%s(..) of %s" % (ctor, t))
                return v, u, o
        if len(p) == 1 and p[0] in self.localfns:
            # a local helper: inlined.  Arguments are evaluated first (bound to temporaries), then the parameters are bound.
            params, ret, body = self.localfns[p[0]]
            if len(params) != len(args):
                raise Unsupported("arity of %s" % p[0])
            self.ntmp = getattr(self, "ntmp", 0) + 1
            tmps, oks, tys = [], [], []
            for (pn, pt), a_ in zip(params, args):
                v, t, o = self.e(a_, pt)
                if t == "f64" or isinstance(v, tuple):
                    raise Unsupported("float / tuple argument of a local function")
                tmps.append(("%s__a%d" % (pn, self.ntmp), v))
                oks.append(o)
                tys.append(pt if (pt and pt != "lit") else t)
            saved, fd = dict(self.env), dict(self.fden)
            # a local fn (not a closure) does not see the enclosing variables; a closure does: both are fine here because
            # the parameters shadow and Rust has already checked scoping
            for (pn, _), t in zip(params, tys):
                self.env[pn] = t
            vd, il = self.valdepth, self.in_local
            self.valdepth, self.in_local = 0, True      # `return` in the body of a local fn returns from that fn
            self.retk.append(None)
            try:
                bv, bt, bo = self.e(body, ret)
            finally:
                self.valdepth, self.in_local = vd, il
                self.retk.pop()
            self.env, self.fden = saved, fd
            if ret and ret != "lit" and bt != "f64":
                bt = ret
            def wrap(inner):
                for (pn, _), (tn, _) in reversed(list(zip(params, tmps))):
                    inner = "(let %s := %s; %s)" % (self.lname(pn), tn, inner)
                for tn, v in reversed(tmps):
                    inner = "(let %s := %s; %s)" % (tn, v, inner)
                return inner
            return wrap(bv), bt, self.conj(*(oks + [wrap(bo) if bo else None]))
        if p == ["f64", "from"]:
            a, t, o = self.e(args[0])
            if t not in ("u8", "u16", "u32", "i8", "i16", "i32"):
                raise Unsupported("f64::from(%s)" % (t,))
            return ("f64", a, 1), "f64", o
        if len(p) == 2 and p[1] == "from" and p[0] in INT_TYPES:
            a, t, o = self.e(args[0])
            if t == "bool":
                return "(if %s then 1 else 0)" % a, p[0], o
            return a, p[0], o  # From is only implemented for value-preserving conversions
        if p == ["Some"]:
            a, t, o = self.e(args[0], want[1] if is_opt(want) else None)
            if not isinstance(a, str):
                raise Unsupported("Some(..) of a value that is not a scalar")
            return "(some %s)" % a, ("opt", t), o
        if p == ["Ok"]:
            return "0", "result", None
        if p == ["Err"]:
            names = re.findall(r"[A-Za-z_]\w*", json.dumps(args[0]))
            for i, en in enumerate(self.k.get("errors", [])):
                if en in names:
                    return str(i + 1), "result", None
            raise Unsupported("Err(..) with an error name that is not declared for this kernel")
        if p[-1] == "try_from" and len(args) == 1:
            a, t, o = self.e(args[0])
            return ("tryfrom", a, t), "tryfrom", o
        if len(p) == 2:
            # an associated function `Type::f(args)` that was translated before (no receiver)
            owner = self.k["impl"] if p[0] == "Self" else p[0]
            for ln, (impl, fn, pn, pt, rt, ex) in self.sigs.items():
                if ex["rawimpl"] == owner and fn == p[1] and all(o_[0] == "arg" for o_ in ex["origins"]) and not ex["outputs"]:
                    if len(args) != len(pn):
                        raise Unsupported("arity of %s" % "::".join(p))
                    vals, oks = [], []
                    for a_, pt_ in zip(args, pt):
                        v, t, o = self.e(a_, pt_)
                        if not isinstance(v, str):
                            raise Unsupported("argument of %s" % "::".join(p))
                        if self.cps() and self.is_int(t) and self.is_int(pt_) and t != pt_:
                            raise Unsupported("argument of type %s where %s takes %s" % (t, "::".join(p), pt_))
                        vals.append(v); oks.append(o)
                    self.used_groups.add(ex["group"])
                    return "(%s %s)" % (ln, " ".join(vals)), rt, self.conj(*(oks + ["%s_ok %s" % (ln, " ".join(vals))]))
        raise Unsupported("call of %s" % "::".join(p))

    def call_on_path(self, path, name, args):
        """`<path>.name(args)` for a function translated before whose receiver is a struct: its `self` is `path`, its flag /
        field / Option parameters are the corresponding ones of this kernel (which must declare them with the same types)"""
        sc = dict((v[0], v[1]) for v in self.k.get("structcalls", {}).values())
        owner = self.k["impl"] if path == "self" else sc.get(path)
        for ln, (impl, fn, pn, pt, rt, ex) in self.sigs.items():
            if owner is None or ex["rawimpl"] != owner or fn != name or ex["outputs"]:
                continue
            nargs = len([o_ for o_ in ex["origins"] if o_[0] == "arg"])
            if nargs != len(args):
                raise Unsupported("arity of %s" % name)
            tr = lambda q: (path + q[4:]) if (q == "self" or q.startswith("self.")) else q
            vals, oks, ai = [], [], 0
            for pn_, pt_, og in zip(pn, pt, ex["origins"]):
                if og[0] == "arg":
                    v, t, o = self.e(args[ai], pt_)
                    ai += 1
                    if not isinstance(v, str):
                        raise Unsupported("argument of %s" % name)
                    oks.append(o)
                elif og[0] == "field":
                    v, t = self.free_field(tr(og[1]), og[2])
                    if t != pt_:
                        raise Unsupported("field %s.%s has type %s here and %s in %s" % (tr(og[1]), og[2], t, pt_, ln))
                elif og[0] == "some":
                    v = self.some_param(tr(og[1]))
                elif og[0] == "flag":
                    q = tr(og[1])
                    if q not in self.k.get("flags", {}) or self.k["flags"][q][0] != ex["flagtypes"][og[1]]:
                        raise Unsupported("%s needs the flags %s" % (ln, q))
                    v = dict(self.flag_params(q))[og[2]]
                elif og[0] in ("free", "const") and og[1] in self.k.get("consts", {}) and self.k["consts"][og[1]] == pt_:
                    v = self.e(("var", og[1]))[0]       # a constant of the crate both kernels take as a parameter
                else:
                    raise Unsupported("%s has a parameter (%s) that cannot be passed on" % (ln, pn_))
                vals.append(v)
            self.used_groups.add(ex["group"])
            return "(%s %s)" % (ln, " ".join(vals)), rt, self.conj(*(oks + ["%s_ok %s" % (ln, " ".join(vals))]))
        raise Unsupported("method %s on %s" % (name, path))

    def method_cps(self, x, want):
        """methods of the reader subset (None = not one of them)"""
        recv, name, args = x[1], x[2], x[3]
        if recv[0] == "var" and isinstance(self.env.get(recv[1]), tuple) and self.env[recv[1]][0] == "reader" and not args:
            off = self.env[recv[1]][1]
            if name == "is_empty":
                return "decide (body.length ≤ %d)" % off, "bool", None
            if name == "len":
                return "(Int.ofNat (body.length - %d))" % off, "usize", None
            raise Unsupported("method %s on the byte reader" % name)
        rp = self.resolve_path(recv)
        if rp is not None and rp == self.k.get("body") and not args:
            if name == "len":
                return "(Int.ofNat body.length)", "usize", None
            if name == "is_empty":
                return "decide (body.length = 0)", "bool", None
            if name == "clone":
                return "body", "bytes", None
            raise Unsupported("method %s on the chunk body" % name)
        if recv[0] == "var" and self.env.get(recv[1]) == "bytes" and not args:
            if name == "len":
                return "(Int.ofNat %s.length)" % self.lname(recv[1]), "usize", None
            if name == "is_empty":
                return "decide (%s.length = 0)" % self.lname(recv[1]), "bool", None
            raise Unsupported("method %s on a byte vector" % name)
        if name == "position" and len(args) == 1 and recv[0] == "method" and recv[2] == "iter" and not recv[3] and \
                recv[1][0] == "var" and self.env.get(recv[1][1]) == "bytes":
            # `v.iter().position(|&b| b == <literal>)`: the declared list operation `firstIndexOf` (prelude of the group Text)
            cl = args[0]
            if not (cl[0] == "closure" and cl[2][0] == "bin" and cl[2][1] == "==" and cl[2][2] == ("var", cl[1]) and cl[2][3][0] == "lit"
                    and 0 <= cl[2][3][1] <= 255):
                raise Unsupported("position(..) with a closure that is not |&b| b == <byte literal>")
            return "(firstIndexOf %d %s)" % (cl[2][3][1], self.lname(recv[1][1])), ("opt", "usize"), None
        if name == "to_be_bytes" and not args:
            v, t, o = self.e(recv)
            if not self.is_int(t):
                raise Unsupported("to_be_bytes on %s" % (t,))
            return ("opaque", v), "opaque", o
        return None

    def method(self, x, want):
        recv, name, args = x[1], x[2], x[3]
        if self.k.get("sizeof") is not None:
            r_ = self.method_sized(x)
            if r_ is not None:
                return r_
        if self.cps():
            r_ = self.method_cps(x, want)
            if r_ is not None:
                return r_
        whole = self.resolve_path(x)
        if whole is not None and self.path_kind(whole) is not None:
            return ("ref", whole), ("ref", self.path_kind(whole), whole), None     # a call declared under `structcalls`
        rp = self.resolve_path(recv)
        if rp is not None and self.path_kind(rp) is not None and not self.is_declared_scalar(recv):
            r, t, ro = ("ref", rp), ("ref", self.path_kind(rp), rp), None
        else:
            r, t, ro = self.e(recv)
        if is_ref(t):
            kind, path = t[1], t[2]
            if kind == "opt" and not args and name in ("is_some", "is_none"):
                sp = self.some_param(path)
                return (sp if name == "is_some" else "(!%s)" % sp), "bool", None
            if kind == "flags" and name in ("contains", "intersects") and len(args) == 1:
                fs, fty = self.flagset(args[0])
                if self.k["flags"][path][0] != fty:
                    raise Unsupported("flags of different types")
                names = [n for c, n in self.flag_params(path) if c in fs]
                if name == "contains":      # every flag of the argument is set (vacuously true for the empty set)
                    return ("(%s)" % " && ".join(names) if names else "true"), "bool", None
                return ("(%s)" % " || ".join(names) if names else "false"), "bool", None   # some flag of the argument is set
            if kind == "flags" and name in ("is_empty", "is_all") and not args:
                names = [n for c, n in self.flag_params(path)]
                return "(%s)" % " && ".join((n if name == "is_all" else "(!%s)" % n) for n in names), "bool", None
            if kind == "struct":
                return self.call_on_path(path, name, args)
            raise Unsupported("method %s on %s" % (name, path))
        if isinstance(t, tuple) and t[0] == "flagconst":
            raise Unsupported("method %s on a flag constant" % name)
        if is_opt(t) and name in ("unwrap", "expect") and isinstance(r, str):
            # a panic site: `_ok` demands `Some`
            return "(Option.getD %s 0)" % r, t[1], self.conj(ro, "(Option.isSome %s)" % r)
        if is_opt(t) and name in ("is_some", "is_none") and not args and isinstance(r, str):
            return ("(Option.isSome %s)" if name == "is_some" else "(!Option.isSome %s)") % r, "bool", ro
        if t == "f64":
            if name in ("ceil", "floor") and not args:
                n, d = r[1], r[2]
                if d == 1:
                    return r, "f64", ro
                v = "(-((-%s) / %d))" % (n, d) if name == "ceil" else "(%s / %d)" % (n, d)
                return ("f64", v, 1), "f64", ro
            raise Unsupported("float method %s" % name)
        if t == "tryfrom":
            if name == "ok" and not args:
                a, src = r[1], r[2]
                target = want[1] if is_opt(want) else "usize"
                lo, hi = INT_TYPES.get(target, INT_TYPES["usize"])
                return "(if %d ≤ %s ∧ %s ≤ %d then some %s else none)" % (lo, a, a, hi, a), ("opt", target), ro
            raise Unsupported("method %s on try_from" % name)
        if t in self.enums or (t == self.self_ty and t):
            for ln, (impl, fn, pn, pt, rt, ex) in self.sigs.items():
                if impl == t and fn == name and ex["origins"][:1] == [("self",)]:
                    vals, oks = [r], [ro]
                    for a_, pt_ in zip(args, pt[1:]):
                        v, _, o = self.e(a_, pt_)
                        vals.append(v)
                        oks.append(o)
                    self.used_groups.add(ex["group"])
                    callok = "%s_ok %s" % (ln, " ".join(vals))
                    return "(%s %s)" % (ln, " ".join(vals)), rt, self.conj(*(oks + [callok]))
        if name == "into" and not args:
            tt = want if (want and want != "lit") else t
            return r, tt, ro
        if not self.is_int(t) and t != "lit":
            raise Unsupported("method %s on %s" % (name, t))
        if name == "abs":
            v = "(if %s < 0 then -%s else %s)" % (r, r, r)
            return v, t, self.conj(ro, self.rng(t, v) if self.is_int(t) else None)
        if name in ("min", "max"):
            b, tb, bo = self.e(args[0], t)
            return "(%s %s %s)" % (name, r, b), (t if t != "lit" else tb), self.conj(ro, bo)
        if name in ("wrapping_add", "wrapping_sub", "wrapping_mul"):
            b, tb, bo = self.e(args[0], t)
            op = {"wrapping_add": "+", "wrapping_sub": "-", "wrapping_mul": "*"}[name]
            return self.wrap(t, "(%s %s %s)" % (r, op, b)), t, self.conj(ro, bo)
        if name == "saturating_mul" and self.cps() and self.is_int(t) and INT_TYPES[t][0] == 0:
            b, tb, bo = self.e(args[0], t)
            return "(min %d (%s * %s))" % (INT_TYPES[t][1], r, b), t, self.conj(ro, bo)
        if name in ("saturating_add", "saturating_sub"):
            b, tb, bo = self.e(args[0], t)
            lo, hi = INT_TYPES[t]
            op = "+" if name == "saturating_add" else "-"
            return "(max %d (min %d (%s %s %s)))" % (lo, hi, r, op, b) if lo < 0 else "(max 0 (min %d (%s %s %s)))" % (hi, r, op, b), t, self.conj(ro, bo)
        if name in ("checked_add", "checked_sub", "checked_mul"):
            b, tb, bo = self.e(args[0], t)
            op = {"checked_add": "+", "checked_sub": "-", "checked_mul": "*"}[name]
            lo, hi = INT_TYPES[t]
            v = "(%s %s %s)" % (r, op, b)
            return "(if %d ≤ %s ∧ %s ≤ %d then some %s else none)" % (lo, v, v, hi, v), ("opt", t), self.conj(ro, bo)
        raise Unsupported("method %s" % name)

    def match(self, x, want):
        # the scrutinee: a scalar (integer / field-less enum), a declared Option field (patterns `Some(..)`, `None`, `_`) or a
        # parameter that is an enum with payloads (patterns `Variant(..)`, `_`)
        mode, s, st, so, path, pvar = "scalar", None, None, None, None, None
        if x[1][0] == "var" and isinstance(self.env.get(x[1][1]), tuple) and self.env[x[1][1]][0] == "payload":
            mode, pvar = "payload", x[1][1]
        else:
            path = self.resolve_path(x[1])
            if path is not None and self.path_kind(path) == "opt":
                mode = "opt"
            else:
                s, st, so = self.ev(x[1])
                if isinstance(s, str) and is_opt(st) and (self.is_int(st[1]) or st[1] in self.enums):
                    mode = "optval"     # an `Option<scalar>` value: patterns `Some(v)`, `Some(_)`, `None`, `_`
                elif not (isinstance(s, str) and (st in self.enums or self.is_int(st) or st == "lit")):
                    raise Unsupported("match on %s" % (st,))
        arms = x[2]
        val, ok, ty = None, None, None
        # built from the last arm backwards
        out = []
        for pats, body, guard in arms:
            conds = []
            bind = None
            binds = []          # (rust name, lean value, type) bound by a payload pattern
            alias = None        # (rust name, path, by reference) bound by `Some(name)`
            for p in pats:
                if mode == "opt":
                    if p[0] == "pctor" and p[1] == "Some":
                        if p[2] is not None:
                            if p[2][0] != "name" or len(pats) > 1:
                                raise Unsupported("pattern inside Some(..)")
                            alias = (p[2][1], path, p[3])
                        conds.append("%s = true" % self.some_param(path))
                    elif p[0] == "pvariant" and p[1] == "None":
                        conds.append("%s = false" % self.some_param(path))
                    elif p[0] == "pwild":
                        conds = None
                        break
                    else:
                        raise Unsupported("pattern on an Option")
                    continue
                if mode == "optval":
                    if p[0] == "pctor" and p[1] == "Some":
                        if p[2] is not None:
                            if p[2][0] != "name" or len(pats) > 1:
                                raise Unsupported("pattern inside Some(..)")
                            binds = [(p[2][1], "(Option.getD %s 0)" % s, st[1])]
                        conds.append("Option.isSome %s = true" % s)
                    elif p[0] == "pvariant" and p[1] == "None":
                        conds.append("Option.isSome %s = false" % s)
                    elif p[0] == "pwild":
                        conds = None
                        break
                    else:
                        raise Unsupported("pattern on an Option")
                    continue
                if mode == "payload":
                    c = self.payload_cond(pvar, p)
                    if c is None:
                        if p[0] == "pbind":
                            raise Unsupported("binding a whole payload enum")
                        conds = None
                        break
                    conds.append(c)
                    bs = self.payload_binds(pvar, p)
                    if bs and len(pats) > 1:
                        raise Unsupported("bindings in alternatives")
                    binds = bs
                    continue
                if p[0] == "plit":
                    conds.append("%s = %d" % (s, p[1]))
                elif p[0] == "pvariant":
                    en = st if st in self.enums else self.enum_of_variant(p[1], self.self_ty)
                    if en is None or p[1] not in self.enums[en]:
                        raise Unsupported("unknown variant %s" % p[1])
                    conds.append("%s = %d" % (s, self.enums[en][p[1]]))
                elif p[0] == "pwild":
                    conds = None
                    break
                elif p[0] == "pbind":
                    conds = None
                    bind = p[1]
                    break
                else:
                    raise Unsupported("pattern on a scalar")
            saved = dict(self.env)
            if bind:
                self.env[bind] = st
            for b, lv, bt in binds:
                self.env[b] = bt
            if alias:
                self.env[alias[0]] = ("alias", alias[1], alias[2])
                if not alias[2]:
                    self.env[("copied", alias[1])] = True
            def wrap(inner):
                if bind:
                    inner = "(let %s := %s; %s)" % (self.lname(bind), s, inner)
                for b, lv, bt in reversed(binds):
                    inner = "(let %s := %s; %s)" % (self.lname(b), lv, inner)
                return inner
            g, go = None, None
            if guard is not None:
                g, gt, go = self.ev(guard, "bool")
                if gt != "bool":
                    raise Unsupported("match guard that is not a bool")
                g, go = wrap(g), (wrap(go) if go else None)
            v, t, o = self.blk(body, want if ty in (None, "lit") else ty)
            self.env = saved
            v = wrap(v)
            o = wrap(o) if o else None
            if ty in (None, "lit"):
                ty = t
            out.append((conds, v, o, g, go))
        if out[-1][0] is not None or out[-1][3] is not None:
            # no catch-all arm: Rust checked exhaustiveness over the enum; values outside it are unreachable
            out.append((None, "0" if (ty in self.enums or self.is_int(ty) or ty in ("lit", "result", None)) else "default", None, None, None))
        val, ok = out[-1][1], out[-1][2]
        anyok = any(o or go for _, _, o, _, go in out)
        for conds, v, o, g, go in reversed(out[:-1]):
            c = " ∨ ".join(conds) if conds is not None else None
            if g is not None:
                # `pat if guard`: taken when the pattern matches and the guard (evaluated only then) holds
                full = "(%s) ∧ %s = true" % (c, g) if c is not None else "%s = true" % g
                if anyok:
                    gok = ("(if %s then %s else true)" % (c, go) if c is not None else go) if go else None
                    ok = "(if %s then %s else %s)" % (full, o or "true", ok or "true")
                    ok = self.conj(gok, ok)
                val = "(if %s then %s else %s)" % (full, v, val)
                continue
            if c is None:
                raise Unsupported("an arm after a catch-all arm")
            val = "(if %s then %s else %s)" % (c, v, val)
            if anyok:
                ok = "(if %s then %s else %s)" % (c, o or "true", ok or "true")
        return val, ty, self.conj(so, ok)

    # --- blocks (continuation style: what follows an `if` statement is repeated in both branches)
    def mapchain(self, x, want):
        """`(0..n).map(|i| e1).map(|j| e2)...` as the function index -> element (for 0 <= index < n); the kernel's
        `index` parameter is the position in the iterator"""
        chain = []
        while x[0] == "method" and x[2] == "map" and len(x[3]) == 1 and x[3][0][0] == "closure":
            chain.append(x[3][0])
            x = x[1]
        if x[0] != "range" or x[1] != ("lit", 0, None):
            raise Unsupported("iterator chain that does not start with (0..n)")
        hi, ht, ho = self.e(x[2])
        idx = self.k["index"]
        if idx not in [p[0] for p in self.params]:
            self.params.append((idx, ht))
        self.env["%s__idx" % idx] = ht
        order = list(reversed(chain))          # order of application
        ss = [("let", order[0][1], None, ("var", "%s__idx" % idx))]
        for prev, cl in zip(order, order[1:]):
            ss.append(("let", cl[1], None, prev[2]))
        ss.append(("return", order[-1][2]))
        v, t, o = self.stmts(ss, want)
        return v, t, self.conj(ho, o)

    def blk(self, stmts, want=None):
        saved, fd = dict(self.env), dict(self.fden)
        r = self.stmts(list(stmts), want)
        self.env, self.fden = saved, fd
        return r

    def finish(self):
        """value of a body that ends without a value: the final values of the declared output fields"""
        outs = self.k.get("outputs")
        if self.k.get("loop") and self.cps() and not self.in_local:
            return self.final_tuple("0", None)      # the body of the loop was left normally (the next thing is the loop condition)
        if not outs:
            return "()", "unit", None
        return "(%s)" % ", ".join(self.output_values()), "outputs", None

    def output_values(self):
        """the current values of the declared output fields (`a_b` = field b of a; `p.q.f` = field f of the path p.q;
        `p.q?` = whether the Option field p.q is `Some`)"""
        vals = []
        for o in self.k.get("outputs", []):
            if o.endswith("?"):
                vals.append(self.some_param(o[:-1]))
            elif "." in o:
                obj, f = o.rsplit(".", 1)
                vals.append(self.free_field(obj, f)[0])
            elif o in self.env:
                vals.append(o)
            else:
                obj, f = o.split("_", 1)
                vals.append(self.free_field(obj, f)[0])
        return vals

    def output_types(self):
        tys = []
        for o in self.k.get("outputs", []):
            if o.endswith("?"):
                tys.append("bool")
            elif "." in o:
                obj, f = o.rsplit(".", 1)
                tys.append(self.free_field(obj, f)[1])
            elif o in self.k.get("effects", {}).values() or o in self.k.get("defaults", {}).values():
                tys.append("bool")
            else:
                tys.append("int")
        return tys

    def bind(self, name, v, t, rest, want, o):
        """let name := v; rest"""
        ln = self.lname(name)
        if t == "f64":
            self.env[name] = "f64"
            self.fden[name] = v[2]
            v = v[1]
        else:
            self.env[name] = t
        rv, rt, ro = self.stmts(rest, want)
        val = "(let %s := %s; %s)" % (ln, v, rv)
        ok = self.conj(o, "(let %s := %s; %s)" % (ln, v, ro) if ro else None)
        return val, rt, ok

    def lettuple(self, names, ex, rest, want):
        """let (a, b) = e; rest   with e a tuple, or an if / match whose arms end in tuples: the rest is moved into the arms"""
        k = ex[0]
        if k == "tuple":
            if len(ex[1]) != len(names):
                raise Unsupported("tuple arity")
            ss = [("let", n, None, it) for n, it in zip(names, ex[1])]
            # simultaneous binding: the components must not mention the names being bound
            return self.stmts(ss + rest, want)
        if k == "block":
            body = list(ex[1])
            if body and body[-1][0] in ("expr", "return") and body[-1][1][0] == "panic":
                return "default", want or "lit", "false"
            if not body or body[-1][0] != "return" or (len(body[-1]) > 2 and body[-1][2] == "explicit"):
                raise Unsupported("tuple-valued block without a tail")
            return self.stmts(body[:-1] + [("lettuple", names, body[-1][1])] + rest, want)
        if k == "if":
            c, _, co = self.ev(ex[1], "bool")
            env0, fd0 = dict(self.env), dict(self.fden)
            a, at_, ao = self.lettuple(names, ("block", ex[2]), rest, want)
            self.env, self.fden = dict(env0), dict(fd0)
            b, bt, bo = self.lettuple(names, ("block", ex[3]), rest, want)
            self.env, self.fden = env0, fd0
            ok = "(if %s then %s else %s)" % (c, ao or "true", bo or "true") if (ao or bo) else None
            return "(if %s then %s else %s)" % (c, a, b), at_, self.conj(co, ok)
        if k == "match":
            arms = [(pats, [("lettuple", names, ("block", body))] + rest, guard) for pats, body, guard in ex[2]]
            return self.match(("match", ex[1], arms), want)
        if k == "panic":
            return "default", want or "lit", "false"
        # any other expression of a tuple type (e.g. the call of a translated function): bind it, then its components
        v, t, o = self.ev(ex)
        if not (is_tup(t) and len(t[1]) == len(names) and isinstance(v, str)):
            raise Unsupported("tuple pattern bound to %s" % k)
        self.ntmp = getattr(self, "ntmp", 0) + 1
        tmp = "tup__%d" % self.ntmp
        n = len(names)
        ss = []
        for i, (nm, ti) in enumerate(zip(names, t[1])):
            proj = ".2" * i + (".1" if i < n - 1 else "")
            self.env["%s__p%d" % (tmp, i)] = ti
            ss.append(("let", nm, ti, ("rawlean", "%s%s" % (tmp, proj), ti)))
        rv, rt, ro = self.stmts(ss + rest, want)
        return "(let %s := %s; %s)" % (tmp, v, rv), rt, self.conj(o, "(let %s := %s; %s)" % (tmp, v, ro) if ro else None)

    def is_declared_scalar(self, x):
        return x[0] == "field" and self.resolve_path(x[1]) is not None and self.declared_field(self.resolve_path(x[1]), x[2])

    def open_chain(self, x):
        """an `if` / `else if` chain without a final `else`"""
        while x[0] == "if":
            if x[3] is None:
                return True
            if len(x[3]) == 1 and x[3][0][0] == "return" and len(x[3][0]) > 2:
                x = x[3][0][1]
            else:
                return False
        return False

    def struct_decl(self, name):
        files = self.k.get("structs", {})
        if name not in files:
            raise Unsupported("struct %s is not declared for this kernel" % name)
        return struct_fields(self.load(files[name]), name)

    def struct_value(self, x, depth=0):
        """`Name { f: e, .., ..Default::default() }` -> [(field, lean value, type, ok)] for ALL fields of the struct as declared in
        the source, in the order of evaluation (written fields first, then the base)"""
        name, items, base = x[1], x[2], x[3]
        if name == "Self":
            name = self.k["impl"]
        decl = self.struct_decl(name)
        given = {}
        out = []
        for f, ex in items:
            if f not in decl or f in given:
                raise Unsupported("field %s of %s" % (f, name))
            ty = decl[f]
            if ty == "Vec<u8>" and self.k.get("sizeof") is not None and ex == ("call", ["Vec", "new"], []):
                given[f] = True
                out.append((f, "0", "Vec<u8>", None))       # size level: an empty vector has length 0
                continue
            if not (ty in INT_TYPES or ty == "bool" or ty in self.enums):
                raise Unsupported("field %s: %s of %s" % (f, ty, name))
            v, t, o = self.e(ex, ty)
            if not isinstance(v, str) or (t != ty and t != "lit"):
                raise Unsupported("value of field %s of %s" % (f, name))
            given[f] = True
            out.append((f, v, ty, o))
        missing = [f for f in decl if f not in given]
        if missing:
            if base is None:
                raise Unsupported("struct literal of %s without %s" % (name, ", ".join(missing)))
            if base != ("default",) or depth > 0:
                raise Unsupported("struct base that is not Default::default()")
            # `impl Default for Name { fn default() -> Name { Name { .. } } }`, evaluated in an empty scope
            _, _, body = find_fn(self.load(self.k["structs"][name]), "Default for %s" % name, "default")
            st = Parser(lex(body)).block()
            if len(st) != 1 or st[0][0] != "return" or st[0][1][0] != "structlit" or st[0][1][1] not in (name, "Self"):
                raise Unsupported("Default for %s is not one struct literal" % name)
            saved = self.env
            self.env = {}
            try:
                _, dv = self.struct_value(("structlit", name, st[0][1][2], st[0][1][3]), depth + 1)
            finally:
                self.env = saved
            for f, v, ty, o in dv:
                if f in missing:
                    out.append((f, v, ty, o))
        return name, out

    def let_struct(self, var, x, rest, want):
        """`let v = Name { .. };`: one Lean `let` per field"""
        name, fv = self.struct_value(x)
        loc = {}
        def go(i):
            if i == len(fv):
                self.env[var] = ("structlocal", name, dict(loc))
                return self.stmts(rest, want)
            f, v, ty, o = fv[i]
            ln = "%s__%s" % (self.lname(var), f)
            loc[f] = (ln, ty)
            self.env[ln] = ty
            rv, rt, ro = go(i + 1)
            return "(let %s := %s; %s)" % (ln, v, rv), rt, self.conj(o, "(let %s := %s; %s)" % (ln, v, ro) if ro else None)
        return go(0)

    def assign_opt(self, path, rhs, rest, want):
        """`<Option field> = None;` / `= Some(<struct local>);` / `= Some(Name { .. });`"""
        if ("copied", path) in self.env:
            raise Unsupported("assignment to %s while a copy of it is in use" % path)
        decl = self.k["opts"][path]
        some = self.pname(path, "is_some")
        self.some_param(path)
        if rhs == ("var", "None"):
            return self.bind(some, "false", "bool", rest, want, None)
        if not (rhs[0] == "call" and rhs[1] == ["Some"] and len(rhs[2]) == 1):
            raise Unsupported("value assigned to the Option field %s" % path)
        a = rhs[2][0]
        if a[0] == "structlit":
            tmp = "%s__new" % self.pname(path, "v")
            return self.let_struct(tmp, a, [("assign", ("field",) + tuple(self.path_ast(path)), ("call", ["Some"], [("var", tmp)]))] + rest, want)
        if not (a[0] == "var" and isinstance(self.env.get(a[1]), tuple) and self.env[a[1]][0] == "structlocal"):
            raise Unsupported("value assigned to the Option field %s" % path)
        _, sname, loc = self.env[a[1]]
        if set(loc) != set(decl) or any(loc[f][1] != decl[f] for f in decl):
            raise Unsupported("the fields of %s and the fields declared for %s differ" % (sname, path))
        for f in decl:
            self.free_field(path, f)
        fs = list(decl)
        def go(i):
            if i == len(fs):
                return self.bind(some, "true", "bool", rest, want, None)
            f = fs[i]
            ln = self.pname(path, f)
            self.env[ln] = decl[f]
            rv, rt, ro = go(i + 1)
            return "(let %s := %s; %s)" % (ln, loc[f][0], rv), rt, ("(let %s := %s; %s)" % (ln, loc[f][0], ro) if ro else None)
        return go(0)

    def path_ast(self, path):
        parts = path.split(".")
        x = ("var", parts[0])
        for q in parts[1:-1]:
            x = ("field", x, q)
        return (x, parts[-1])

    def stmts(self, ss, want):
        if not ss:
            return self.finish()
        s, rest = ss[0], ss[1:]
        if self.k.get("sizeof") is not None:
            r_ = self.stmt_sized(s, rest, want)
            if r_ is not None:
                return r_
        if self.cps():
            r_ = self.stmt_cps(s, rest, want)
            if r_ is not None:
                return r_
        if s[0] == "localfn" or (s[0] == "let" and s[3][0] == "closureN"):
            if s[0] == "localfn":
                self.localfns[s[1]] = (s[2], s[3], s[4])
            else:
                self.localfns[s[1]] = (s[3][1], s[3][2], s[3][3])
            return self.stmts(rest, want)
        if s[0] == "lettuple":
            env0, fd0 = dict(self.env), dict(self.fden)
            r = self.lettuple(s[1], s[2], rest, want)
            self.env, self.fden = env0, fd0
            return r
        if s[0] == "bindpat":
            # the bindings of `if let PAT = scrut` (the test itself is the `islet` condition)
            pat, scrut = s[1], s[2]
            if scrut[0] == "var" and isinstance(self.env.get(scrut[1]), tuple) and self.env[scrut[1]][0] == "payload":
                ss = [("let", b, bt, ("rawlean", lv, bt)) for b, lv, bt in self.payload_binds(scrut[1], pat)]
                return self.stmts(ss + rest, want)
            if pat[0] == "pctor" and pat[1] == "Some" and pat[2] is not None:
                if pat[2][0] != "name":
                    raise Unsupported("pattern inside Some(..)")
                path = self.resolve_path(scrut)
                if (path is None or self.path_kind(path) != "opt") and self.cps():
                    v, t, o = self.ev(scrut)
                    if not (is_opt(t) and isinstance(v, str)):
                        raise Unsupported("`if let Some(..)` on %s" % (t,))
                    self.check_capture([pat[2][1]], rest)
                    return self.stmts([("let", pat[2][1], t[1], ("rawlean", "(Option.getD %s 0)" % v, t[1]))] + rest, want)
                self.env[pat[2][1]] = ("alias", path, pat[3])
                if not pat[3]:
                    self.env[("copied", path)] = True
            return self.stmts(rest, want)
        if s[0] == "let" and s[3][0] not in ("structlit",) and self.resolve_path(s[3]) is not None and \
                self.path_kind(self.resolve_path(s[3])) is not None and not self.is_declared_scalar(s[3]):
            # `let t = self.transform;` / `let info = self.info();`: a name for a declared struct / bitflags / Option field.
            # The name stands for a COPY or a shared reference: assigning to the fields of that path while it is alive is refused
            path = self.resolve_path(s[3])
            self.env[s[1]] = ("alias", path, False)
            self.env[("copied", path)] = True
            return self.stmts(rest, want)
        if s[0] == "let" and s[3][0] == "structlit":
            return self.let_struct(s[1], s[3], rest, want)
        if s[0] == "assign" and s[1][0] == "field":
            obj = self.resolve_path(s[1][1])
            if obj is None:
                raise Unsupported("assignment to a nested field")
            f = s[1][2]
            if s[1][1][0] == "var" and isinstance(self.env.get(s[1][1][1]), tuple) and self.env[s[1][1][1]][0] == "alias" and not self.env[s[1][1][1]][2]:
                raise Unsupported("assignment through a name that is a copy")
            if self.path_kind(obj + "." + f) == "opt":
                return self.assign_opt(obj + "." + f, s[2], rest, want)
            if ("copied", obj) in self.env:
                raise Unsupported("assignment to %s while a copy of it is in use" % obj)
            if not self.declared_field(obj, f):
                raise Unsupported("assignment to undeclared field %s.%s" % (obj, f))
            fty = (self.k.get("fields", {}).get(obj, {}).get(f) or self.k.get("opts", {}).get(obj, {}).get(f))
            name = self.pname(obj, f)
            self.assigned.add(obj + "." + f)
            v, t, o = self.ev(s[2], fty)
            if t == "f64":
                raise Unsupported("float stored in a field")
            if not isinstance(v, str):
                raise Unsupported("value stored in a field")
            return self.bind(name, v, fty, rest, want, o)
        if s[0] == "let" or s[0] == "assign":
            if s[0] == "let":
                name, ann, ex = s[1], s[2], s[3]
            else:
                if s[1][0] == "field":
                    raise Unsupported("assignment to a field")
                name, ann, ex = s[1][1], self.env.get(s[1][1]), s[2]
            v, t, o = self.ev(ex, ann)
            if self.cps() and ann in INT_TYPES and t in INT_TYPES and t != ann:
                raise Unsupported("a value of type %s bound to a name of type %s" % (t, ann))
            if ann and ann != "lit" and t != "f64":
                t = ann
            if is_tup(t):
                raise Unsupported("tuple bound to one name")
            if t != "f64" and not isinstance(v, str):
                raise Unsupported("a value of type %s bound to a name" % (t,))
            return self.bind(name, v, t, rest, want, o)
        if s[0] == "return":
            if len(s) > 2 and s[2] == "explicit" and self.valdepth > 0:
                raise Unsupported("`return` inside an expression whose value is used")
            if len(s) == 2 and s[1][0] == "if" and self.open_chain(s[1]):
                # an `if` (chain) without a final `else` at the end of a block: a statement of type (), control continues
                return self.stmts([("expr", s[1])] + rest, want)
            if len(s) > 2 and s[2] == "elseif" and (rest or self.open_chain(s[1])):
                # the nested `if` of an `else if` chain that is a STATEMENT (something follows, or the chain has no final
                # `else`): control continues with what follows
                return self.stmts([("expr", s[1])] + rest, want)
            if self.k.get("returns_ref") and self.valdepth == 0 and not self.in_local and self.resolve_path(s[1]) == self.k["returns_ref"]:
                # the function returns a reference to a declared byte vector of its `self`: nothing but the declared outputs
                return self.finish()
            if (self.k.get("step") or self.k.get("ret_struct")) and self.valdepth == 0 and not self.in_local and \
                    s[1][0] not in ("if", "match", "block"):
                return self.step_return(s[1])
            if self.cps() and not self.k.get("plain") and self.valdepth == 0 and s[1][0] not in ("if", "match", "block"):
                if self.retk and self.retk[-1] is not None:
                    return self.retk[-1](s[1])
                if self.k.get("arm_value") == "ignore" and len(s) == 2 and not self.in_local:
                    # the value of a match arm translated on its own (not a result of the function): the arm was left normally
                    return self.final_tuple("0", None)
                if not self.in_local:
                    return self.final_return(s[1], want)
            if s[1][0] == "unit" and self.k.get("outputs"):
                return self.finish()
            if self.k.get("index") and s[1][0] == "method" and s[1][2] == "map":
                return self.mapchain(s[1], want)
            v, t, o = self.e(s[1], want)
            if t == "f64":
                raise Unsupported("float result")
            if not isinstance(v, str):
                raise Unsupported("result of type %s" % (t,))
            if self.k.get("outputs") and want != "unit" and self.valdepth == 0 and not self.in_local and \
                    not (isinstance(t, tuple) and t[0] == "withoutputs"):
                # `&mut self` with a result, at the end of a path through the function: (result, final values of the declared
                # output fields).  (An `if` / `match` in tail position has done this in its branches already.)
                return "(%s, %s)" % (v, ", ".join(self.output_values())), ("withoutputs", t), o
            return v, t, o
        if s[0] == "expr":
            ex = s[1]
            if ex[0] == "if":
                c, _, co = self.ev(ex[1], "bool")
                env0, fd0 = dict(self.env), dict(self.fden)
                a, at_, ao = self.stmts(list(ex[2]) + rest, want)
                self.env, self.fden = dict(env0), dict(fd0)
                b, bt, bo = self.stmts(list(ex[3] or []) + rest, want)
                self.env, self.fden = env0, fd0
                ok = None
                if ao or bo:
                    ok = "(if %s then %s else %s)" % (c, ao or "true", bo or "true")
                return "(if %s then %s else %s)" % (c, a, b), (at_ if at_ != "lit" else bt), self.conj(co, ok)
            if ex[0] == "method" and (not self.cps() or self.k.get("sizeof") is not None):
                r_ = self.call_outputs_stmt(ex, rest, want)
                if r_ is not None:
                    return r_
            if not rest:
                return self.e(ex, want)
            raise Unsupported("expression statement without effect")
        raise Unsupported("statement %s" % s[0])


    # ================================================================================================================
    # the step subset (group Adam7Iter): a `&mut self` method whose whole receiver state is declared, that may call translated
    # `&mut self` methods of the same struct, and whose only recursion is `self.<itself>()` as the value of the function
    # ================================================================================================================
    def out_path(self, o):
        """an `outputs` entry (`self.line` or the old form `self_line`) as (object path, field)"""
        if o.endswith("?"):
            raise Unsupported("output %s" % o)
        return tuple(o.rsplit(".", 1)) if "." in o else tuple(o.split("_", 1))

    def call_outputs_stmt(self, ex, rest, want, bind=None):
        """the statement `self.f(args);` / `<struct local>.f();` for a translated `fn f(&mut self, ..)` whose declared outputs are fields of
        its `self` (or lengths of byte-vector arguments, size level): the callee reads the CURRENT values of the caller's fields of the
        same name and type, and its outputs become their new values; a result of the callee is discarded (this is a statement).  The
        callee must not assign any field outside its outputs.  None = not such a call."""
        recv, name, args = ex[1], ex[2], ex[3]
        local, path = None, None
        if recv[0] == "var" and isinstance(self.env.get(recv[1]), tuple) and self.env[recv[1]][0] == "structlocal":
            local = recv[1]
            owner = self.env[local][1]
        else:
            path = self.resolve_path(recv)
            if path != "self":
                return None
            owner = self.k.get("self_type", self.k["impl"])
        for ln, (impl, fn, pn, pt, rt, ex_) in self.sigs.items():
            if ex_["rawimpl"] != owner or fn != name or not ex_["outputs"]:
                continue
            rnames = [r_[0] for r_ in ex_["rparams"]]
            if len(args) != len(rnames) or (local is not None and args):
                raise Unsupported("arity of %s" % ln)
            if not (rt == "unit" or self.is_int(rt) or rt == "bool"):
                raise Unsupported("call of %s, whose result is %s, as a statement" % (ln, rt))
            if bind is not None and rt == "unit":
                raise Unsupported("the unit result of %s bound to a name" % ln)

            def tr(q):
                """a path of the callee as a path of the caller"""
                if q == "self" or q.startswith("self."):
                    if local is not None and q != "self":
                        raise Unsupported("%s reads %s of a struct local" % (ln, q))
                    return "self" + q[4:]
                head = q.split(".")[0]
                if head in rnames:
                    ap = self.resolve_path(args[rnames.index(head)])
                    if ap is None or ap not in (self.k.get("sizeof") or []):
                        raise Unsupported("argument %s of %s is not a declared byte vector" % (head, ln))
                    return ap + q[len(head):]
                raise Unsupported("%s uses %s, which the caller cannot provide" % (ln, q))

            outs = [self.out_path(o) for o in ex_["outlist"]]
            if not set(ex_["assigned"]) <= set("%s.%s" % o for o in outs):
                raise Unsupported("%s assigns a field that is not one of its declared outputs" % ln)
            if local is not None:
                loc = self.env[local][2]
            vals, oks = [], []
            for pn_, pt_, og in zip(pn, pt, ex_["origins"]):
                if og[0] == "field" and local is not None:
                    tr(og[1])
                    if og[2] not in loc or loc[og[2]][1] != pt_:
                        raise Unsupported("field %s of %s has not the type %s takes" % (og[2], local, ln))
                    vals.append(loc[og[2]][0])
                elif og[0] == "field":
                    q = tr(og[1])
                    if ("copied", q) in self.env:
                        raise Unsupported("call of %s while a copy of %s is in use" % (ln, q))
                    v, t = self.free_field(q, og[2])
                    if t != pt_:
                        raise Unsupported("field %s.%s has type %s here and %s in %s" % (q, og[2], t, pt_, ln))
                    vals.append(v)
                elif og[0] == "arg":
                    v, t, o = self.ev(args[ex_["argpos"][og[1]]], pt_)
                    if not isinstance(v, str) or (self.is_int(t) and self.is_int(pt_) and t != pt_):
                        raise Unsupported("argument of %s" % ln)
                    vals.append(v); oks.append(o)
                elif og[0] in ("free", "const") and og[1] in self.k.get("consts", {}) and self.k["consts"][og[1]] == pt_:
                    vals.append(self.e(("var", og[1]))[0])
                else:
                    raise Unsupported("%s has a parameter (%s) that cannot be passed on" % (ln, pn_))
            self.used_groups.add(ex_["group"])
            self.ntmp = getattr(self, "ntmp", 0) + 1
            tmp = "call__%d" % self.ntmp
            shift = 0 if rt == "unit" else 1
            n = len(outs) + shift
            binds = []
            for i, (obj, f) in enumerate(outs):
                ftypes = ex_["kfields"].get(obj, {})
                if f not in ftypes:
                    raise Unsupported("output %s.%s of %s has no declared type" % (obj, f, ln))
                j = i + shift
                proj = tmp if n == 1 else "%s%s" % (tmp, ".2" * j + (".1" if j < n - 1 else ""))
                if local is not None:
                    if obj != "self" or f not in loc or loc[f][1] != ftypes[f]:
                        raise Unsupported("field %s of %s has not the type %s gives it" % (f, local, ln))
                    binds.append((loc[f][0], proj))
                else:
                    q = tr(obj)
                    n_, t_ = self.free_field(q, f)
                    if t_ != ftypes[f]:
                        raise Unsupported("field %s.%s has type %s here and %s in %s" % (q, f, t_, ftypes[f], ln))
                    self.assigned.add(q + "." + f)
                    binds.append((self.pname(q, f), proj))
                    self.env[self.pname(q, f)] = t_
            if bind is not None:
                # `let x = self.f(..);`: the result of the callee (the first component)
                binds.append((self.lname(bind), "%s.1" % tmp))
                self.env[bind] = rt
            call = "(%s %s)" % (ln, " ".join(vals))
            callok = "%s_ok %s" % (ln, " ".join(vals))
            rv, rt_, ro = self.stmts(rest, want)
            pre = "(let %s := %s; " % (tmp, call) + "".join("(let %s := %s; " % b_ for b_ in binds)
            close = ")" * (1 + len(binds))
            return pre + rv + close, rt_, self.conj(*(oks + [callok, (pre + ro + close) if ro else None]))
        return None

    def step_return(self, e):
        """the value of a `step` / `ret_struct` kernel at the end of a path"""
        if self.k.get("ret_struct"):
            # `this` (a struct local of the declared type): the tuple of its fields in the order of `ret_fields`
            name, decl = self.k["ret_struct"], self.k["ret_fields"]
            if not (e[0] == "var" and isinstance(self.env.get(e[1]), tuple) and self.env[e[1]][0] == "structlocal" and self.env[e[1]][1] == name):
                raise Unsupported("result that is not a local %s" % name)
            src = self.struct_decl(name)
            loc = self.env[e[1]][2]
            if set(src) != set(decl) or any(src[f] != decl[f] or loc[f][1] != decl[f] for f in decl):
                raise Unsupported("the fields of %s in the source and the declared `ret_fields` differ" % name)
            return "(%s)" % ", ".join(loc[f][0] for f in decl), ("structret", name), None
        iname, idecl = self.k["step"]["item"]
        zeros = ["0"] * len(idecl)
        ok = None
        if e == ("var", "None"):
            comps = ["0"] + zeros
        elif e[0] == "call" and e[1] == ["Some"] and len(e[2]) == 1 and e[2][0][0] == "structlit" and e[2][0][1] == iname:
            items, base = e[2][0][2], e[2][0][3]
            src = self.struct_decl(iname)
            if base is not None or set(src) != set(idecl) or any(src[f] != idecl[f] for f in idecl) or \
                    sorted(f for f, _ in items) != sorted(idecl):
                raise Unsupported("the item %s { .. } does not have exactly the declared fields" % iname)
            vals, oks = {}, []
            for f, ex in items:
                v, t, o = self.ev(ex, idecl[f])
                if not isinstance(v, str) or not self.is_int(idecl[f]) or t not in (idecl[f], "lit"):
                    raise Unsupported("field %s of the item has type %s" % (f, t))
                vals[f] = v
                oks.append(o)
            comps = ["1"] + [vals[f] for f in idecl]
            ok = self.conj(*oks)
        elif e[0] == "method" and e[1] == ("var", "self") and e[2] == self.k["fn"] and not e[3] and self.self_ty is None:
            # the recursive call `self.next()` as the value of the function: the step ends here with the tag "advance"; the state the
            # call would start from is the current state (the outputs)
            comps = ["2"] + zeros
        else:
            raise Unsupported("result of a step kernel that is not None / Some(%s { .. }) / self.%s()" % (iname, self.k["fn"]))
        return "(%s)" % ", ".join(comps + self.output_values()), ("withoutputs", "step"), ok


    # ================================================================================================================
    # the size-level subset (group BufferSizes): under the DECLARED abstraction `sizeof=[path, ..]` a `Vec<u8>` / `&mut Vec<u8>` at one of
    # these paths is represented by its LENGTH only (the pseudo-field `<path>.len : usize`); slices taken from it are locals with a
    # length.  Contents are not represented: a read of a byte's value must be declared (`bytevals`), calls that only touch contents
    # must be declared (`ignore_calls`).  Reached only for kernels that declare `sizeof`; what is not listed raises `Unsupported`.
    # ================================================================================================================
    ISIZE_MAX = 2 ** 63 - 1

    def sized_of(self, x):
        """("path", path, lean term of its length) for a declared byte vector, ("local", name, lean term) for a local slice, or None"""
        if self.k.get("sizeof") is None:
            return None
        if x[0] == "var" and isinstance(self.env.get(x[1]), tuple) and self.env[x[1]][0] == "sized":
            return ("local", x[1], self.env[x[1]][1])
        p = self.resolve_path(x)
        if p is not None and p in self.k["sizeof"]:
            return ("path", p, self.free_field(p, "len")[0])
        return None

    def usize_arg(self, x):
        v, t, o = self.ev(x, "usize")
        if not isinstance(v, str) or t not in ("usize", "lit"):
            raise Unsupported("an index / length of type %s" % (t,))
        return v, o

    def sized_value(self, ex):
        """(lean term of the length, ok) of an expression that is a byte vector / slice: a declared path, a local slice,
        `v.as_slice()` / `v.as_mut_slice()`, `v[a..b]` / `v[a..]` / `v[..b]` (a panic site: `_ok` demands a ≤ b ≤ len); or None"""
        if self.k.get("sizeof") is None:
            return None
        sz = self.sized_of(ex)
        if sz:
            return sz[2], None
        if ex == ("emptyslice",):
            return "0", None
        if ex[0] == "method" and ex[2] in ("as_mut_slice", "as_slice") and not ex[3]:
            return self.sized_value(ex[1])
        if ex[0] == "slice":
            b = self.sized_value(ex[1])
            if b is None:
                return None
            n, bo = b
            lo, lok = self.usize_arg(ex[2]) if ex[2] is not None else ("0", None)
            hi, hok = self.usize_arg(ex[3]) if ex[3] is not None else (n, None)
            return "(%s - %s)" % (hi, lo), self.conj(bo, lok, hok, "decide (%s ≤ %s ∧ %s ≤ %s)" % (lo, hi, hi, n))
        return None

    def bind_size(self, target, val, rest, want, ok):
        """the length of a declared vector (`("path", p)`) / of a local slice (`("local", name)`) becomes `val`"""
        if target[0] == "path":
            if ("copied", target[1]) in self.env:
                raise Unsupported("%s changes while a copy of it is in use" % target[1])
            self.assigned.add(target[1] + ".len")
            return self.bind(self.pname(target[1], "len"), val, "usize", rest, want, ok)
        name = target[1]
        if isinstance(self.env.get(name), tuple) and self.env[name][0] == "sized":
            self.env[("stale", name)] = True        # a declared byte value `name[k]` was a byte of the OLD slice
        ln = "%s__len" % self.lname(name)
        self.env[name] = ("sized", ln)
        rv, rt, ro = self.stmts(rest, want)
        return "(let %s := %s; %s)" % (ln, val, rv), rt, self.conj(ok, "(let %s := %s; %s)" % (ln, val, ro) if ro else None)

    def range_arg(self, x, n):
        """(start, end, ok) of a range argument `a..b` / `a..` (end = the length n) / a range local"""
        if x[0] == "range":
            lo, lok = self.usize_arg(x[1])
            hi, hok = self.usize_arg(x[2]) if x[2] is not None else (n, None)
            return lo, hi, self.conj(lok, hok)
        if x[0] == "var" and isinstance(self.env.get(x[1]), tuple) and self.env[x[1]][0] == "rangelocal":
            return self.env[x[1]][1], self.env[x[1]][2], None
        raise Unsupported("range argument")

    def ignored_key(self, ex):
        """the key under which a call may be declared in `ignore_calls`: `f` / `a::f` for a function, `<path>.m` for a method (a struct local
        of the impl type counts as `self`)"""
        if ex[0] == "call":
            return "::".join(ex[1])
        if ex[0] == "method":
            recv = ex[1]
            if recv[0] == "var" and isinstance(self.env.get(recv[1]), tuple) and self.env[recv[1]][0] == "structlocal" and \
                    self.env[recv[1]][1] == self.k["impl"]:
                return "self.%s" % ex[2]
            rp = self.resolve_path(recv)
            return "%s.%s" % (rp, ex[2]) if rp else None
        return None

    def once(self, key):
        """the call `key` (`self.state.read`) occurs exactly once in the text of the function"""
        pat = r"\b" + r"\s*\.\s*".join(re.escape(q) for q in key.split(".")) + r"\s*\("
        if len(re.findall(pat, self.k["_body"])) != 1:
            raise Unsupported("%s is called more than once (one parameter is one answer)" % key)

    def stmt_sized(self, s, rest, want):
        """statements of the size-level subset; None = not one of them"""
        if s[0] == "lettuple" and s[2][0] == "try":
            inner, errarg = s[2][1], None
            if inner[0] == "method" and inner[2] == "map_err" and len(inner[3]) == 1:
                inner, errarg = inner[1], inner[3][0]
            key = self.ignored_key(inner) if inner[0] == "method" else None
            d = self.k.get("extern_calls", {}).get(key)
            if d is not None:
                # `let (a, b) = self.state.read(..).map_err(|e| <error>)?;`: the call is answered by the outside world - a Bool `ok` and
                # the values as PARAMETERS (no contract assumed here) - and its failure is the declared error
                self.once(key)
                if len(s[1]) != len(d["values"]):
                    raise Unsupported("%s gives %d values" % (key, len(d["values"])))
                if errarg is not None and d["error"] not in re.findall(r"[A-Za-z_]\w*", json.dumps(errarg)):
                    raise Unsupported("the error of %s is not the declared %s" % (key, d["error"]))
                oks = []
                for a in inner[3]:
                    sv = self.sized_value(a)
                    if sv is not None:
                        oks.append(sv[1])
                    else:
                        v, t, o = self.ev(a)
                        oks.append(o)
                self.add_param(d["ok"], "bool", ("extern", key))
                for pn, ty in d["values"]:
                    self.add_param(pn, ty, ("extern", key))
                errv = self.err_exit(self.errcode(d["error"]), want)
                env0 = dict(self.env)
                r = self.stmts([("let", n_, ty, ("rawlean", pn, ty)) for n_, (pn, ty) in zip(s[1], d["values"])] + rest, want)
                self.env = env0
                v, t, o = self.ite(d["ok"], r, errv)
                return v, t, self.conj(*(oks + [o]))
        if s[0] == "assert":
            c, ct, co = self.ev(s[1], "bool")
            if ct != "bool":
                raise Unsupported("assert! of a non-bool")
            v, t, o = self.stmts(rest, want)
            return v, t, self.conj(co, c, o)
        if s[0] == "let" and s[3][0] == "method" and s[2] is None:
            r_ = self.call_outputs_stmt(s[3], rest, want, bind=s[1])
            if r_ is not None:
                return r_
        if s[0] == "let":
            name, ann, ex = s[1], s[2], s[3]
            if ex[0] == "range":
                # `let r = a..b;`: a range value (its `len()` is `end - start`, 0 when start > end)
                if ex[2] is None:
                    raise Unsupported("open range bound to a name")
                lo, lok = self.usize_arg(ex[1])
                hi, hok = self.usize_arg(ex[2])
                ls, le = "%s__start" % self.lname(name), "%s__end" % self.lname(name)
                self.env[name] = ("rangelocal", ls, le)
                rv, rt, ro = self.stmts(rest, want)
                pre = "(let %s := %s; (let %s := %s; " % (ls, lo, le, hi)
                return pre + rv + "))", rt, self.conj(lok, hok, (pre + ro + "))") if ro else None)
            if self.sized_of(ex) is not None and self.sized_of(ex)[0] == "path":
                raise Unsupported("a name for a whole byte vector (its length could change behind the name)")
            sv = self.sized_value(ex)
            if sv is not None:
                if ann is not None and ann != ("slice", "u8"):
                    raise Unsupported("type %s of a slice" % (ann,))
                return self.bind_size(("local", name), sv[0], rest, want, sv[1])
            return None
        if s[0] == "lettuple" and s[2][0] == "method" and s[2][2] in ("split_at", "split_at_mut") and len(s[2][3]) == 1 and len(s[1]) == 2:
            b = self.sized_value(s[2][1])
            if b is None:
                return None
            k_, kok = self.usize_arg(s[2][3][0])
            self.ntmp = getattr(self, "ntmp", 0) + 1
            tn, tk = "split__n%d" % self.ntmp, "split__k%d" % self.ntmp
            for nm in s[1]:
                if isinstance(self.env.get(nm), tuple) and self.env[nm][0] == "sized":
                    self.env[("stale", nm)] = True
            la, lb = "%s__len" % self.lname(s[1][0]), "%s__len" % self.lname(s[1][1])
            self.env[s[1][0]] = ("sized", la)
            self.env[s[1][1]] = ("sized", lb)
            rv, rt, ro = self.stmts(rest, want)
            pre = "(let %s := %s; (let %s := %s; (let %s := %s; (let %s := (%s - %s); " % (tn, b[0], tk, k_, la, tk, lb, tn, tk)
            return pre + rv + "))))", rt, self.conj(b[1], kok, "decide (%s ≤ %s)" % (k_, b[0]), (pre + ro + "))))") if ro else None)
        if s[0] == "expr" and s[1][0] in ("call", "method"):
            ex = s[1]
            key = self.ignored_key(ex)
            if key is not None and key in self.k.get("ignore_calls", []):
                oks = []
                for a in (ex[2] if ex[0] == "call" else ex[3]):
                    sv = self.sized_value(a)
                    if sv is not None:
                        oks.append(sv[1])
                    elif a[0] == "var" and self.env.get(a[1]) == "opaque":
                        continue
                    else:
                        v, t, o = self.ev(a)
                        oks.append(o)
                v, t, o = self.stmts(rest, want)
                return v, t, self.conj(*(oks + [o]))
        if s[0] == "expr" and s[1][0] == "method":
            recv, name, args = s[1][1], s[1][2], s[1][3]
            sz = self.sized_of(recv)
            if sz is None:
                return None
            n = sz[2]
            if name in ("truncate", "resize", "clear", "extend_from_slice"):
                if sz[0] != "path":
                    raise Unsupported("%s on a slice" % name)
                ok = None
                if name == "truncate" and len(args) == 1:
                    v, ok = self.usize_arg(args[0])
                    new = "(min %s %s)" % (n, v)
                elif name == "resize" and len(args) == 2:
                    v, ok = self.usize_arg(args[0])
                    fv, ft, fo = self.ev(args[1], "u8")
                    if ft not in ("u8", "lit"):
                        raise Unsupported("resize with a fill value of type %s" % (ft,))
                    new, ok = v, self.conj(ok, fo, "decide (%s ≤ %d)" % (v, self.ISIZE_MAX))
                elif name == "clear" and not args:
                    new = "0"
                elif name == "extend_from_slice" and len(args) == 1:
                    sv = self.sized_value(args[0])
                    if sv is None:
                        raise Unsupported("extend_from_slice of something that is not a slice")
                    new = "(%s + %s)" % (n, sv[0])
                    ok = self.conj(sv[1], "decide (%s ≤ %d)" % (new, self.ISIZE_MAX))
                else:
                    raise Unsupported("arguments of %s" % name)
                return self.bind_size(("path", sz[1]), new, rest, want, ok)
            if name == "copy_within" and len(args) == 2:
                # the length does not change; panics unless start ≤ end ≤ len and dest ≤ len - (end - start)
                lo, hi, rok = self.range_arg(args[0], n)
                d, dok = self.usize_arg(args[1])
                ok = self.conj(rok, dok, "decide (%s ≤ %s ∧ %s ≤ %s ∧ %s + (%s - %s) ≤ %s)" % (lo, hi, hi, n, d, hi, lo, n))
                v, t, o = self.stmts(rest, want)
                return v, t, self.conj(ok, o)
            raise Unsupported("method %s on a byte vector of a size-level kernel" % name)
        return None

    def method_sized(self, x):
        """value methods of the size-level subset; None = not one of them"""
        recv, name, args = x[1], x[2], x[3]
        key = self.ignored_key(x)
        if key is not None and key in self.k.get("extern_vals", {}) and not args:
            # a Bool the outside world answers (`self.state.is_done()`): a parameter; it may be asked once only, because one parameter
            # is one answer
            self.once(key)
            pn = self.k["extern_vals"][key]
            self.add_param(pn, "bool", ("extern", key))
            return pn, "bool", None
        if recv[0] == "var" and isinstance(self.env.get(recv[1]), tuple) and self.env[recv[1]][0] == "rangelocal":
            if name == "len" and not args:
                _, ls, le = self.env[recv[1]]
                return "(max 0 (%s - %s))" % (le, ls), "usize", None
            raise Unsupported("method %s on a range" % name)
        sv = self.sized_value(recv)
        if sv is None:
            return None
        if name == "len" and not args:
            return sv[0], "usize", sv[1]
        if name == "is_empty" and not args:
            return "decide (%s = 0)" % sv[0], "bool", sv[1]
        raise Unsupported("method %s on a byte vector / slice used as a value" % name)

    def index_sized(self, x):
        """`v[k]` on a slice: the VALUE of a byte - only as a declared parameter (`bytevals={"row[0]": "filter_byte"}`); `_ok`: k < length"""
        if not (x[1][0] == "var" and x[2][0] == "lit"):
            return None
        sz = self.sized_of(x[1])
        if sz is None or sz[0] != "local":
            return None
        key = "%s[%d]" % (x[1][1], x[2][1])
        if key not in self.k.get("bytevals", {}):
            raise Unsupported("the value of the byte %s is read but not declared (`bytevals`)" % key)
        if ("stale", x[1][1]) in self.env:
            raise Unsupported("%s is read after %s was bound again: not the declared byte any more" % (key, x[1][1]))
        pn = self.k["bytevals"][key]
        self.add_param(pn, "u8", ("byteval", key))
        return pn, "u8", "decide (%d < %s)" % (x[2][1], sz[2])

    # ================================================================================================================
    # the byte-reader subset (group Parsers): chunk parsers of `StreamingDecoder`.  Everything here is reached only for
    # kernels declared with `cps=True`; nothing is guessed: what is not listed raises `Unsupported`.
    # ================================================================================================================
    def cps(self):
        return bool(self.k.get("cps"))

    def errcode(self, name):
        errs = self.k.get("errors", [])
        if name not in errs:
            raise Unsupported("error %s is not declared for this kernel" % name)
        return str(errs.index(name) + 1)

    def eof_error(self):
        """the `FormatErrorInner` that `parse_chunk` gives to an `UnexpectedEof` of `read_be` (read from the source of `parse_chunk`)"""
        _, _, body = find_fn(self.load(self.k["file"]), self.k["impl"], "parse_chunk")
        m = re.search(r"ErrorKind\s*::\s*UnexpectedEof\s*=>\s*\{[^{}]*?FormatErrorInner\s*::\s*(\w+)", body)
        if not m:
            raise Unsupported("parse_chunk: the mapping of UnexpectedEof was not found")
        return m.group(1)

    def check_read_be(self):
        """`read_be` is the big-endian reader of src/traits.rs: `read_exact` of size_of::<T>() bytes, then `from_be_bytes`, for u8, u16, u32"""
        if getattr(self, "_rb_checked", False):
            return
        src = re.sub(r"\s+", "", self.load("src/traits.rs"))
        need = ["fnread_be(&mutself)->io::Result<$output_type>{letmutbytes=[0u8;std::mem::size_of::<$output_type>()];"
                "self.read_exact(&mutbytes)?;Ok(<$output_type>::from_be_bytes(bytes))}",
                "read_bytes_ext!(u8);", "read_bytes_ext!(u16);", "read_bytes_ext!(u32);"]
        if not all(n in src for n in need):
            raise Unsupported("src/traits.rs: read_be is not the big-endian reader the translator knows")
        self._rb_checked = True

    def norm_type(self, ty):
        """type text of a struct field / payload -> scalar type of the translator, or None"""
        ty = ty.strip()
        if ty in INT_TYPES or ty == "bool" or ty in self.enums:
            return ty
        nt = self.k.get("newtypes", {})
        if ty in nt:
            u = newtype_scalar(self.load(nt[ty]), ty)
            if not u:
                raise Unsupported("%s is not a newtype of an integer" % ty)
            return u
        return None

    def flat_fields(self, sname):
        """[(flattened field name, scalar type)] of struct `sname` as declared in the source: tuple-typed fields `f: (A, B)` become
        f_0, f_1; fields whose type is another declared struct are flattened with the prefix `f_`"""
        out = []
        for f, ty in self.struct_decl(sname).items():
            t = self.norm_type(ty)
            if t:
                out.append((f, t))
            elif ty.startswith("(") and ty.endswith(")"):
                for i, c in enumerate([c for c in split_top(ty[1:-1]) if c.strip()]):
                    tc = self.norm_type(c)
                    if not tc:
                        raise Unsupported("field %s: %s of %s" % (f, ty, sname))
                    out.append(("%s_%d" % (f, i), tc))
            elif ty in self.k.get("structs", {}):
                out += [("%s_%s" % (f, g), tg) for g, tg in self.flat_fields(ty)]
            else:
                raise Unsupported("field %s: %s of %s" % (f, ty, sname))
        return out

    def struct_stmts(self, var, x):
        """`let var = Name { f: e, .. }` as statements: one `let` per (flattened) field in the order of evaluation, then `mkstruct`"""
        name, items, base = x[1], x[2], x[3]
        if base is not None:
            raise Unsupported("struct base in a reader kernel")
        decl = self.struct_decl(name)
        ss, loc, given = [], {}, []
        for f, ex in items:
            if f not in decl or f in given:
                raise Unsupported("field %s of %s" % (f, name))
            given.append(f)
            ty = decl[f]
            t = self.norm_type(ty)
            if t:
                ln = "%s__%s" % (var, f)
                ss.append(("letcps", ln, t, ex))
                loc[f] = (ln, t)
            elif ty.startswith("(") and ty.endswith(")"):
                comps = [c for c in split_top(ty[1:-1]) if c.strip()]
                if ex[0] != "tuple" or len(ex[1]) != len(comps):
                    raise Unsupported("value of the tuple field %s of %s" % (f, name))
                for i, (c, it) in enumerate(zip(comps, ex[1])):
                    tc = self.norm_type(c)
                    if not tc:
                        raise Unsupported("field %s: %s of %s" % (f, ty, name))
                    ln = "%s__%s_%d" % (var, f, i)
                    ss.append(("letcps", ln, tc, it))
                    loc["%s_%d" % (f, i)] = (ln, tc)
            elif ty in self.k.get("structs", {}):
                if not (ex[0] == "var" and isinstance(self.env.get(ex[1]), tuple) and self.env[ex[1]][0] == "structlocal" and self.env[ex[1]][1] == ty):
                    raise Unsupported("value of the struct field %s of %s" % (f, name))
                for g, (lg, tg) in self.env[ex[1]][2].items():
                    loc["%s_%s" % (f, g)] = (lg, tg)
            else:
                raise Unsupported("field %s: %s of %s" % (f, ty, name))
        missing = [f for f in decl if f not in given]
        if missing:
            raise Unsupported("struct literal of %s without %s" % (name, ", ".join(missing)))
        ss.append(("mkstruct", var, name, loc))
        return ss

    def check_capture(self, names, rest, keep=None):
        """names bound inside a block / arm / inlined fn whose scope ends in Rust but not in the generated `let` chain: refused when
        what follows still uses an outer variable of the same name"""
        for n in names:
            if n != keep and n in self.env and mentions(rest, n):
                raise Unsupported("the inner binding %s would capture an outer variable used later" % n)

    def ev_width(self):
        """number of Int components that carry the payload of the `Decoded` event in the result"""
        evs = self.k.get("events")
        if not evs:
            return 0
        return max([self.ev_variant(v)[1] for v in evs if evs[v] != "ignore"] + [0])

    def ev_variant(self, name):
        """(tag = index of the variant in `enum Decoded` of the source, number of flattened payload components)"""
        variants = enum_variants(self.load(self.k["file"]), "Decoded")
        names = [v for v, _ in variants]
        if name not in names:
            raise Unsupported("Decoded::%s is not a variant" % name)
        payload = dict(variants)[name]
        w = 0
        if payload and self.k["events"].get(name) != "ignore":
            for c in [c.strip() for c in split_top(payload) if c.strip()]:
                if self.norm_type(c):
                    w += 1
                elif c in self.k.get("structs", {}):
                    w += len(self.flat_fields(c))
                else:
                    raise Unsupported("payload %s of Decoded::%s" % (c, name))
        return names.index(name), w

    def as_int(self, v, t):
        return "(if %s then 1 else 0)" % v if t == "bool" else v

    def event(self, x):
        """`Decoded::V` / `Decoded::V(args)` -> ([tag, payload components .., padding zeros], ok)"""
        evs = self.k.get("events")
        if evs is None:
            raise Unsupported("this kernel declares no events")
        if x[0] == "path":
            p, args = x[1], []
        elif x[0] == "call":
            p, args = x[1], x[2]
        else:
            raise Unsupported("result that is not a Decoded value")
        if len(p) < 2 or p[-2] != "Decoded" or p[-1] not in evs:
            raise Unsupported("event %s is not declared for this kernel" % "::".join(p))
        tag, w = self.ev_variant(p[-1])
        vals, oks = [], []
        if evs[p[-1]] != "ignore":
            for a in args:
                if a[0] == "var" and isinstance(self.env.get(a[1]), tuple) and self.env[a[1]][0] == "structlocal":
                    _, sname, loc = self.env[a[1]]
                    for f, _t in self.flat_fields(sname):
                        vals.append(self.as_int(loc[f][0], loc[f][1]))
                else:
                    v, t, o = self.ev(a)
                    if not isinstance(v, str) or not (self.is_int(t) or t in self.enums or t in ("bool", "lit")):
                        raise Unsupported("payload of %s" % p[-1])
                    vals.append(self.as_int(v, t)); oks.append(o)
            if len(vals) != w:
                raise Unsupported("payload arity of Decoded::%s" % p[-1])
        return [str(tag)] + vals + ["0"] * (self.ev_width() - len(vals)), self.conj(*oks)

    def final_tuple(self, code, ev, val=None):
        """the result of the function at an exit: [code,] [value of `Ok(value)`, 0 on an error,] [event tag, payload ..,] final values of
        the declared outputs"""
        comps = []
        if self.rkind in ("result", "resultdecoded", "resultval", "resultslices"):
            comps.append(code)
        if self.rkind == "resultval":
            comps.append(val if val is not None else "0")
        if self.rkind == "resultslices":
            comps += list(val) if val is not None else ["([] : List Int)", "([] : List Int)"]
        if self.k.get("events") is not None:
            comps += ev if ev is not None else ["0"] * (1 + self.ev_width())
        comps += self.output_values()
        return ("(%s)" % ", ".join(comps)) if len(comps) > 1 else comps[0], ("withoutputs", "result"), None

    def err_exit(self, code, want):
        """leave with the error code `code` (a Lean term): through the continuation of an inlined fn, or out of the function"""
        if self.retk and self.retk[-1] is not None:
            return self.retk[-1](("errcode", code))
        return self.final_tuple(code, None)

    def final_return(self, e, want):
        """`return e` / tail `e` at the end of a path through a cps kernel (e is not an if / match / block)"""
        if e[0] == "call" and e[1] == ["Err"]:
            v, _, o = self.e(e)
            r = self.final_tuple(v, None)
            return r[0], r[1], o
        if e[0] == "call" and e[1] == ["Ok"] and len(e[2]) == 1 and self.rkind == "resultslices":
            # `Ok((&v[a..b], &v[c..d]))`: two slices of a byte vector (panic sites: `_ok` demands a ≤ b ≤ len)
            tp = e[2][0]
            if tp[0] != "tuple" or len(tp[1]) != 2:
                raise Unsupported("Ok(..) of something that is not a pair of slices")
            vals, oks = [], []
            for sl in tp[1]:
                if not (sl[0] == "slice" and sl[1][0] == "var" and self.env.get(sl[1][1]) == "bytes"):
                    raise Unsupported("component of the result that is not a slice of a byte vector")
                ln = self.lname(sl[1][1])
                n = "(Int.ofNat %s.length)" % ln
                lo, lok = (self.usize_arg(sl[2]) if sl[2] is not None else ("0", None))
                hi, hok = (self.usize_arg(sl[3]) if sl[3] is not None else (n, None))
                oks += [lok, hok, "decide (%s ≤ %s ∧ %s ≤ %s)" % (lo, hi, hi, n)]
                vals.append("(List.drop (Int.toNat %s) (List.take (Int.toNat %s) %s))" % (lo, hi, ln))
            r = self.final_tuple("0", None, vals)
            return r[0], r[1], self.conj(*oks)
        if e[0] == "call" and e[1] == ["Ok"] and len(e[2]) == 1 and self.rkind == "resultval":
            v, t, o = self.ev(e[2][0], "usize")
            if not isinstance(v, str) or t not in ("usize", "lit"):
                raise Unsupported("Ok(..) of a value of type %s" % (t,))
            r = self.final_tuple("0", None, v)
            return r[0], r[1], o
        if e[0] == "call" and e[1] == ["Ok"] and len(e[2]) == 1 and self.rkind in ("result", "resultdecoded"):
            if self.rkind == "result":
                if e[2][0] != ("unit",):
                    raise Unsupported("Ok(..) of a value")
                return self.final_tuple("0", None)
            ev, o = self.event(e[2][0])
            r = self.final_tuple("0", ev)
            return r[0], r[1], o
        if self.rkind == "decoded":
            ev, o = self.event(e)
            r = self.final_tuple(None, ev)
            return r[0], r[1], o
        if self.rkind == "unit" and e == ("unit",):
            return self.final_tuple(None, None)
        raise Unsupported("result expression of a reader kernel")

    def ite(self, c, a, b):
        """(if c then a else b) for two (value, type, ok) triples"""
        ok = None
        if a[2] or b[2]:
            ok = "(if %s then %s else %s)" % (c, a[2] or "true", b[2] or "true")
        return "(if %s then %s else %s)" % (c, a[0], b[0]), (a[1] if a[1] != "lit" else b[1]), ok

    def unwrap_chain(self, x):
        """(path, [ok]) of `<Option<struct> path>.as_ref() / .as_mut() / .unwrap()` chains (an `unwrap` demands `is_some`), or None"""
        oks = []
        seen_unwrap = False
        while x[0] == "method" and not x[3] and x[2] in ("as_ref", "as_mut", "unwrap"):
            if x[2] == "unwrap":
                seen_unwrap = True
            x = x[1]
        p = self.resolve_path(x)
        if p is None or not seen_unwrap or self.path_kind(p) != "opt":
            return None
        return p, [self.some_param(p)]

    def stmt_cps(self, s, rest, want):
        """statements of the reader subset; None = not one of them (the general code continues)"""
        k = s[0]
        if k == "mkstruct":
            self.env[s[1]] = ("structlocal", s[2], dict(s[3]))
            return self.stmts(rest, want)
        if k == "setdefault":
            # the declared fields of <path> take the values new__f, the path becomes Some, the `defaults` output true
            path, fs = s[1], s[2]
            if ("copied", path) in self.env:
                raise Unsupported("assignment to %s while a copy of it is in use" % path)
            some = self.some_param(path)
            binds = [(self.pname(path, f), self.lname("new__%s" % f), self.k["opts"][path][f]) for f in fs]
            for f in fs:
                self.free_field(path, f)
            binds += [(some, "true", "bool"), (self.k["defaults"][path], "true", "bool")]
            for bn, _, bt in binds:
                self.env[bn] = bt
            v, t, o = self.stmts(rest, want)
            pre = "".join("(let %s := %s; " % (bn, bv) for bn, bv, _ in binds)
            return pre + v + ")" * len(binds), t, (pre + o + ")" * len(binds)) if o else None
        if k == "letcps":
            name, ann, ex = s[1], s[2], s[3]
            if has_exit(ex):
                return self.let_cps(name, ann, ex, rest, want)
            if name is None:
                if ex == ("unit",):
                    return self.stmts(rest, want)
                if ex[0] == "block":
                    return self.block_cps(None, None, list(ex[1]), rest, want)
                return self.stmts([("expr", ex)] + rest, want)
            return self.stmts([("let", name, ann, ex)] + rest, want)
        if k == "let":
            name, ann, ex = s[1], s[2], s[3]
            if ex[0] == "fullslice" and self.resolve_path(ex[1]) == self.k.get("body"):
                self.check_read_be()
                self.env[name] = ("reader", 0)
                return self.stmts(rest, want)
            if ex[0] == "structlit":
                return self.stmts(self.struct_stmts(name, ex) + rest, want)
            uc = self.unwrap_chain(ex)
            if uc:
                # `let info = self.info.as_mut().unwrap();`: a name for the struct inside the Option (a panic site: `_ok` demands `Some`)
                self.env[name] = ("alias", uc[0], True)
                v, t, o = self.stmts(rest, want)
                return v, t, self.conj(*(uc[1] + [o]))
            if has_exit(ex):
                return self.let_cps(name, ann, ex, rest, want)
            if ex[0] == "method" and ex[2] == "to_be_bytes" and not ex[3]:
                v, t, o = self.ev(ex)
                self.env[name] = "opaque"           # only usable as the argument of an ignored call
                v2, t2, o2 = self.stmts(rest, want)
                return v2, t2, self.conj(o, o2)
            return None
        if k == "assign":
            lhs, rhs = s[1], s[2]
            if lhs[0] == "index":
                if not (lhs[1][0] == "var" and self.env.get(lhs[1][1]) == "bytes" and lhs[2][0] == "lit"):
                    raise Unsupported("assignment to an element")
                v, t, o = self.ev(rhs, "u8")
                if t not in ("u8", "lit") or not isinstance(v, str):
                    raise Unsupported("value stored in a byte vector")
                ln = self.lname(lhs[1][1])
                r = self.bind(lhs[1][1], "(List.set %s %d %s)" % (ln, lhs[2][1], v), "bytes", rest, want,
                              self.conj(o, "decide (%d < %s.length)" % (lhs[2][1], ln)))
                return r
            if has_exit(rhs):
                pre, rhs2 = self.hoist(rhs)
                if not pre:
                    raise Unsupported("`?` / `return` in an assigned value")
                return self.stmts(pre + [("assign", lhs, rhs2)] + rest, want)
            if lhs[0] == "field":
                uc = self.unwrap_chain(lhs[1])
                if uc:
                    # `self.info.as_mut().unwrap().f = e`
                    alias = "unwrapped__%s" % uc[0].replace(".", "_")
                    self.env[alias] = ("alias", uc[0], True)
                    v, t, o = self.stmts([("assign", ("field", ("var", alias), lhs[2]), rhs)] + rest, want)
                    return v, t, self.conj(*(uc[1] + [o]))
                obj = self.resolve_path(lhs[1])
                full = (obj + "." + lhs[2]) if obj else None
                if full and self.path_kind(full) == "opt" and rhs[0] == "method" and rhs[2] == "ok" and not rhs[3] and \
                        rhs[1][0] == "call" and len(rhs[1][1]) == 1 and rhs[1][1][0] in self.localfns:
                    return self.inline_ok(lhs, rhs[1], rest, want)
                if full and full in self.k.get("ignore_assign", []):
                    return self.stmts(rest, want)
                if full and self.path_kind(full) == "opt" and rhs[0] == "call" and rhs[1] == ["Some"] and len(rhs[2]) == 1 and \
                        rhs[2][0][0] == "structlit" and rhs[2][0][3] == ("default",):
                    return self.assign_default(full, rhs[2][0], rest, want)
            return None
        if k == "expr":
            ex = s[1]
            if ex[0] == "try":
                return self.let_cps(None, None, ex, rest, want)
            if ex[0] == "for":
                return self.for_any(ex[1], ex[2], ex[3], rest, want)
            if ex[0] in ("match", "block") and has_exit(ex):
                return self.let_cps(None, None, ex, rest, want)
            if ex[0] == "if" and has_exit(ex[1]):
                raise Unsupported("`?` in a condition")
            if ex[0] == "method":
                rp = self.resolve_path(ex[1])
                key = "%s.%s" % (rp, ex[2]) if rp else None
                if key and key in self.k.get("effects", {}):
                    if ex[3]:
                        raise Unsupported("arguments of %s" % key)
                    return self.bind(self.k["effects"][key], "true", "bool", rest, want, None)
                if key and key in self.k.get("ignore_calls", []):
                    oks = []
                    for a in ex[3]:
                        if a[0] == "var" and self.env.get(a[1]) == "opaque":
                            continue
                        v, t, o = self.ev(a)
                        oks.append(o)
                    v, t, o = self.stmts(rest, want)
                    return v, t, self.conj(*(oks + [o]))
                if ex[1][0] == "var" and self.env.get(ex[1][1]) == "bytes" and ex[2] == "truncate" and len(ex[3]) == 1 and ex[3][0][0] == "lit":
                    ln = self.lname(ex[1][1])
                    return self.bind(ex[1][1], "(List.take %d %s)" % (ex[3][0][1], ln), "bytes", rest, want, None)
            return None
        return None

    def assign_default(self, path, lit, rest, want):
        """`<Option<struct> field> = Some(Name { f: e, .., ..Default::default() })` where only some fields of Name are declared for the kernel:
        the written fields must be declared; a declared field that is not written takes its value from `impl Default for Name`; every
        other field must be `None` / `Vec::new()` there, and the Bool output declared under `defaults` for this path records that"""
        name, items = lit[1], lit[2]
        if path not in self.k.get("defaults", {}):
            raise Unsupported("%s = Some(%s { .., ..Default::default() }) without a `defaults` output" % (path, name))
        decl = self.k["opts"][path]
        sdecl = self.struct_decl(name)
        _, _, body = find_fn(self.load(self.k["structs"][name]), "Default for %s" % name, "default")
        st = Parser(lex(body)).block()
        if len(st) != 1 or st[0][0] != "return" or st[0][1][0] != "structlit" or st[0][1][1] not in (name, "Self") or st[0][1][3] is not None:
            raise Unsupported("Default for %s is not one struct literal" % name)
        dflt = dict(st[0][1][2])
        written = [f for f, _ in items]
        ss = []
        for f, ex in items:
            if f not in decl or f not in sdecl or written.count(f) != 1:
                raise Unsupported("field %s of %s is written but not declared for this kernel" % (f, name))
            if self.norm_type(sdecl[f]) != decl[f]:
                raise Unsupported("field %s: %s of %s" % (f, sdecl[f], name))
            ss.append(("letcps", "new__%s" % f, decl[f], ex))
        sub = [q for q in self.k["opts"] if q.startswith(path + ".")]
        for f in sdecl:
            if f in written:
                continue
            if f not in dflt:
                raise Unsupported("Default for %s has no field %s" % (name, f))
            if f in decl:
                if is_opt(decl[f]):
                    if dflt[f] != ("var", "None"):
                        raise Unsupported("default of %s.%s" % (name, f))
                    ss.append(("letcps", "new__%s" % f, decl[f], ("var", "None")))
                else:
                    if dflt[f][0] not in ("lit", "path", "var") or self.norm_type(sdecl[f]) != decl[f]:
                        raise Unsupported("default of %s.%s" % (name, f))
                    ss.append(("letcps", "new__%s" % f, decl[f], dflt[f]))
            elif path + "." + f in sub:
                if dflt[f] != ("var", "None"):
                    raise Unsupported("default of %s.%s" % (name, f))
                ss.append(("assign", ("field",) + tuple(self.path_ast(path + "." + f)), ("var", "None")))
            elif not (dflt[f] == ("var", "None") or (dflt[f][0] == "call" and dflt[f][1] == ["Vec", "new"] and not dflt[f][2])):
                raise Unsupported("default of %s.%s is not None / Vec::new()" % (name, f))
        ss.append(("setdefault", path, [f for f in decl]))
        return self.stmts(ss + rest, want)

    def hoist(self, ex):
        """move the sub-expressions of ex that contain a `?` / `return` (and the ones evaluated before them) into `let`s in the order of
        evaluation: ([statements], expression over the new names)"""
        pre = []

        def tmp(sub):
            self.ntmp = getattr(self, "ntmp", 0) + 1
            n = "h__%d" % self.ntmp
            pre.append(("letcps", n, None, sub))
            return ("var", n)

        def seq(items):
            last = max([i for i, it in enumerate(items) if has_exit(it)] + [-1])
            return [(tmp(it) if (i <= last and it[0] not in ("lit", "path")) else it) for i, it in enumerate(items)]

        k = ex[0]
        if k == "call":
            return pre, ("call", ex[1], seq(ex[2])) if True else None
        if k == "method":
            items = seq([ex[1]] + list(ex[3]))
            return pre, ("method", items[0], ex[2], items[1:]) + tuple(ex[4:])
        if k == "tuple":
            return pre, ("tuple", seq(ex[1]))
        if k in ("cast",):
            return pre, ("cast", seq([ex[1]])[0], ex[2])
        if k in ("not", "neg", "try"):
            return pre, (k, seq([ex[1]])[0])
        if k == "bin":
            if ex[1] in ("&&", "||") and has_exit(ex[3]):
                raise Unsupported("`?` / `return` on the right of a short-circuit operator")
            items = seq([ex[2], ex[3]])
            return pre, ("bin", ex[1], items[0], items[1])
        if k == "field":
            return pre, ("field", seq([ex[1]])[0], ex[2])
        raise Unsupported("`?` / `return` inside %s" % k)

    def let_cps(self, name, ann, ex, rest, want):
        """`let name = ex; rest` where ex contains a `?` or an explicit `return`: the rest moves into the paths that continue"""
        if self.valdepth > 0:
            raise Unsupported("`?` / `return` inside an expression whose value is used")
        k = ex[0]
        if k == "try":
            return self.try_cps(name, ann, ex[1], rest, want)
        if k == "block":
            return self.block_cps(name, ann, list(ex[1]), rest, want)
        if k == "if":
            if ex[3] is None:
                if name is not None:
                    raise Unsupported("if without else bound to a name")
                return self.stmts([("expr", ex)] + rest, want)
            if has_exit(ex[1]):
                raise Unsupported("`?` in a condition")
            c, _, co = self.ev(ex[1], "bool")
            env0, fd0 = dict(self.env), dict(self.fden)
            a = self.block_cps(name, ann, list(ex[2]), rest, want)
            self.env, self.fden = dict(env0), dict(fd0)
            b = self.block_cps(name, ann, list(ex[3]), rest, want)
            self.env, self.fden = env0, fd0
            v, t, o = self.ite(c, a, b)
            return v, t, self.conj(co, o)
        if k == "match":
            scrut = ex[1]
            if has_exit(scrut):
                # the scrutinee is evaluated first; the type of a `read_be()` there is the suffix of a literal pattern (`0u8 => ..`)
                sty = None
                for pats, _, _ in ex[2]:
                    for p in pats:
                        if p[0] == "plit" and len(p) > 2 and p[2]:
                            sty = p[2]
                self.ntmp = getattr(self, "ntmp", 0) + 1
                tmpn = "scrut__%d" % self.ntmp
                return self.stmts([("letcps", tmpn, sty, scrut), ("letcps", name, ann, ("match", ("var", tmpn), ex[2]))] + rest, want)
            arms = []
            for pats, body, guard in ex[2]:
                bound = [p[1] for p in pats if p[0] == "pbind"] + [p[2][1] for p in pats if p[0] == "pctor" and p[2] and p[2][0] == "name"]
                self.check_capture(bound, rest, name)
                arms.append((pats, [("letcps", name, ann, ("block", body))] + rest, guard))
            return self.match(("match", scrut, arms), want)
        pre, ex2 = self.hoist(ex)
        if not pre:
            raise Unsupported("`?` / `return` inside %s" % k)
        return self.stmts(pre + [("letcps", name, ann, ex2)] + rest, want)

    def block_cps(self, name, ann, body, rest, want):
        """`let name = { body }; rest`"""
        if not body:
            if name is not None:
                raise Unsupported("empty block bound to a name")
            return self.stmts(rest, want)
        last = body[-1]
        if last[0] == "return" and len(last) > 2 and last[2] == "explicit":
            return self.stmts(body, want)               # this path leaves the function: what follows is not reached
        bound = [st[1] for st in body if st[0] in ("let", "letcps") and isinstance(st[1], str)] + \
                [st[1][2][1] for st in body if st[0] == "bindpat" and st[1][0] == "pctor" and st[1][2] and st[1][2][0] == "name"]
        self.check_capture(bound, rest, name)
        if last[0] == "return":
            return self.stmts(body[:-1] + [("letcps", name, ann, last[1])] + rest, want)
        if name is not None:
            raise Unsupported("a block without a value bound to a name")
        return self.stmts(body + rest, want)

    def infer_read_type(self, name, rest):
        """the integer type of the unannotated `let name = buf.read_be()?` from its first DETERMINING use in what follows, in program order
        (Rust gives the variable one type, so any determining use gives it): the value initialises a struct field (`Name { f: name }` /
        `Name { name }`: the declared type of f), or is an argument of a translated function (`T::f(name)`: its parameter type).  The search
        stops where the name is bound again.  None = not determined this way."""
        found = []

        def use(x):
            """scan an expression"""
            if found or not isinstance(x, (tuple, list)):
                return
            if isinstance(x, tuple) and x and x[0] == "structlit":
                try:
                    decl = self.struct_decl(x[1])
                except Unsupported:
                    decl = {}
                for f, ex in x[2]:
                    if ex == ("var", name) and f in decl:
                        t = self.norm_type(decl[f])
                        if t in INT_TYPES:
                            found.append(t)
                            return
            if isinstance(x, tuple) and x and x[0] == "call" and len(x[1]) >= 2:
                pth = x[1][-2:] if x[1][0] == "crate" else x[1]
                for ln, (impl, fn, pn, pt, rt, ex) in self.sigs.items():
                    if len(pth) == 2 and ex["rawimpl"] == pth[0] and fn == pth[1] and all(o_[0] == "arg" for o_ in ex["origins"]) and len(pn) == len(x[2]):
                        for a_, pt_ in zip(x[2], pt):
                            if a_ == ("var", name) and pt_ in INT_TYPES:
                                found.append(pt_)
                                return
            for y in x:
                use(y)

        def stmts_(ss):
            """scan statements in order; True = the name was bound again (stop)"""
            for st in ss:
                if found:
                    return True
                if isinstance(st, tuple) and st and st[0] in ("let", "letcps") and st[1] == name:
                    use(st[3])
                    return True
                use(st)
            return False

        stmts_(rest)
        return found[0] if found else None

    def try_cps(self, name, ann, inner, rest, want):
        """`let name = inner?; rest`"""
        # (1) a read of the byte reader
        if inner[0] == "method" and inner[2] == "read_be" and not inner[3] and inner[1][0] == "var" and \
                isinstance(self.env.get(inner[1][1]), tuple) and self.env[inner[1][1]][0] == "reader":
            ty = inner[4] if len(inner) > 4 else (ann or self.k.get("reads", {}).get(name) or (self.infer_read_type(name, rest) if name else None))
            if ty not in ("u8", "u16", "u32"):
                raise Unsupported("the width of the read_be() bound to %s cannot be determined" % name)
            w = {"u8": 1, "u16": 2, "u32": 4}[ty]
            off = self.env[inner[1][1]][1]
            errv = self.err_exit(self.errcode(self.eof_error()) if not (self.retk and self.retk[-1] is not None) else "0", want)
            self.env[inner[1][1]] = ("reader", off + w)
            val = "(beU%d body %d)" % (8 * w, off)
            r = self.bind(name, val, ty, rest, want, None) if name is not None else self.stmts(rest, want)
            return self.ite("decide (%d ≤ body.length)" % (off + w), r, errv)
        # (2) `x.ok_or(..)?` / `x.ok_or_else(|| ..)?` on an Option value
        if inner[0] == "method" and inner[2] in ("ok_or", "ok_or_else") and len(inner[3]) == 1:
            v, t, o = self.ev(inner[1])
            if not (is_opt(t) and isinstance(v, str)):
                raise Unsupported("ok_or on %s" % (t,))
            arg = inner[3][0]
            names = re.findall(r"[A-Za-z_]\w*", json.dumps(arg))
            code = None
            for en in self.k.get("errors", []):
                if en in names:
                    code = self.errcode(en)
                    break
            if code is None:
                raise Unsupported("ok_or(..) with an error name that is not declared for this kernel")
            self.ntmp = getattr(self, "ntmp", 0) + 1
            tmpn = "opt__%d" % self.ntmp
            errv = self.err_exit(code, want)
            r = self.bind(name, "(Option.getD %s 0)" % tmpn, t[1], rest, want, None) if name is not None else self.stmts(rest, want)
            iv, it, io = self.ite("(Option.isSome %s)" % tmpn, r, errv)
            return "(let %s := %s; %s)" % (tmpn, v, iv), it, self.conj(o, "(let %s := %s; %s)" % (tmpn, v, io) if io else None)
        # (3) the call of a translated function with a `Result<(), _>`: its error is this function's error of the same name
        if inner[0] == "method":
            return self.call_try(name, inner, rest, want)
        raise Unsupported("`?` on this expression")

    def call_try(self, name, inner, rest, want):
        """`<path>.f(args)?` for a translated f (result code, maybe outputs that are fields of <path>)"""
        recv, fname, args = inner[1], inner[2], inner[3]
        oks = []
        uc = self.unwrap_chain(recv)
        if uc:
            path, oks = uc[0], list(uc[1])
        else:
            path = self.resolve_path(recv)
        owner = self.k.get("pathtypes", {}).get(path) if path else None
        if owner is None:
            raise Unsupported("`?` on a call whose receiver has no declared type")
        for ln, (impl, fn, pn, pt, rt, ex) in self.sigs.items():
            if ex["rawimpl"] != owner or fn != fname:
                continue
            if rt != "result":
                raise Unsupported("`?` on %s, which has no Result<(), _>" % ln)
            rparams = ex.get("rparams", [])
            if len(rparams) != len(args):
                raise Unsupported("arity of %s" % fname)
            tr = lambda q: (path + q[4:]) if (q == "self" or q.startswith("self.")) else q
            vals = []
            for pn_, pt_, og in zip(pn, pt, ex["origins"]):
                if og[0] == "arg":
                    v, t, o = self.ev(args[ex["argpos"][og[1]]], pt_)
                    if not isinstance(v, str) or (self.is_int(t) and self.is_int(pt_) and t != pt_):
                        raise Unsupported("argument of %s" % fname)
                    oks.append(o)
                elif og[0] == "field" and og[1] in [r_[0] for r_ in rparams]:
                    a = args[[r_[0] for r_ in rparams].index(og[1])]
                    if not (a[0] == "var" and isinstance(self.env.get(a[1]), tuple) and self.env[a[1]][0] == "structlocal"):
                        raise Unsupported("struct argument of %s" % fname)
                    loc = self.env[a[1]][2]
                    if og[2] not in loc or loc[og[2]][1] != pt_:
                        raise Unsupported("field %s of the struct argument of %s" % (og[2], fname))
                    v = loc[og[2]][0]
                elif og[0] == "field":
                    v, t = self.free_field(tr(og[1]), og[2])
                    if t != pt_:
                        raise Unsupported("field %s.%s has type %s here and %s in %s" % (tr(og[1]), og[2], t, pt_, ln))
                elif og[0] == "some":
                    v = self.some_param(tr(og[1]))
                else:
                    raise Unsupported("%s has a parameter (%s) that cannot be passed on" % (ln, pn_))
                vals.append(v)
            self.used_groups.add(ex["group"])
            call = "(%s %s)" % (ln, " ".join(vals))
            oks.append("%s_ok %s" % (ln, " ".join(vals)))
            self.ntmp = getattr(self, "ntmp", 0) + 1
            res = "res__%d" % self.ntmp
            outs = ex.get("outlist", [])
            # the callee's outputs are fields of its `self`: they become the caller's fields of <path> (also when it fails)
            code = res if not outs else "%s.1" % res
            binds = []
            for i, o_ in enumerate(outs):
                if not (o_.startswith("self.") and "?" not in o_):
                    raise Unsupported("output %s of %s" % (o_, ln))
                obj, f = tr(o_).rsplit(".", 1)
                pnm, pty = self.free_field(obj, f)
                proj = "%s%s" % (res, ".2" * (i + 1) + (".1" if i < len(outs) - 1 else ""))
                binds.append((self.pname(obj, f), proj, pty))
            for bn, _, bt in binds:
                self.env[bn] = bt
            cerrs = ex.get("errors", [])
            if not cerrs:
                raise Unsupported("%s has no errors" % ln)
            mapped = "0"
            for i in reversed(range(len(cerrs))):
                c_ = self.errcode(cerrs[i])
                mapped = c_ if (i == len(cerrs) - 1) else "(if %s = %d then %s else %s)" % (code, i + 1, c_, mapped)
            errv = self.err_exit(mapped, want)
            r = self.stmts(rest, want)
            iv, it, io = self.ite("decide (%s = 0)" % code, r, errv)
            lets = "(let %s := %s; " % (res, call) + "".join("(let %s := %s; " % (bn, bp) for bn, bp, _ in binds)
            close = ")" * (1 + len(binds))
            return lets + iv + close, it, self.conj(*(oks + [(lets + io + close) if io else None]))
        raise Unsupported("method %s on %s" % (fname, path))

    def for_any(self, var, it, body, rest, want):
        """`for x in &v { if c { return Err(..) } }` over a byte vector: leaves with the error iff some element satisfies c (which element
        is found first only matters for the error's payload, which is not part of the result)"""
        v, t, o = self.ev(it)
        if t != "bytes" or not isinstance(v, str):
            raise Unsupported("for over %s" % (t,))
        if not (len(body) == 1 and body[0][0] in ("expr", "return") and body[0][1][0] == "if" and body[0][1][3] is None and len(body[0][1][2]) == 1
                and body[0][1][2][0][0] == "return" and body[0][1][2][0][1][0] == "call" and body[0][1][2][0][1][1] == ["Err"]):
            raise Unsupported("body of a for loop that is not `if c { return Err(..) }`")
        iff = body[0][1]
        saved = dict(self.env)
        self.env[var] = "u8"
        c, ct, co = self.ev(iff[1], "bool")
        errv = self.stmts(list(iff[2]), want)
        self.env = saved
        r = self.stmts(rest, want)
        ln = self.lname(var)
        iv, ity, io = self.ite("(List.any %s (fun %s => %s))" % (v, ln, c), errv, r)
        return iv, ity, self.conj(o, "(List.all %s (fun %s => %s))" % (v, ln, co) if co else None, io)

    def inline_ok(self, lhs, callx, rest, want):
        """`<Option<struct> field> = f(<body slice>).ok();` for a local fn f with a `Result<Struct, _>`: f is inlined; `Ok(s)` stores
        `Some(s)`, every `Err(..)` and every failed `?` stores `None`"""
        params, ret, body = self.localfns[callx[1][0]]
        if len(params) != 1 or params[0][1] != ("slice", "u8") or len(callx[2]) != 1:
            raise Unsupported("inlined fn that does not take the chunk body")
        a = callx[2][0]
        if not (a[0] == "fullslice" and self.resolve_path(a[1]) == self.k.get("body")):
            raise Unsupported("argument of the inlined fn is not the chunk body")
        if not (isinstance(ret, tuple) and ret[0] == "resultof"):
            raise Unsupported("inlined fn without a Result")
        self.check_read_be()
        stm = list(body[1])
        bound = [params[0][0]] + [st[1] for st in stm if st[0] in ("let", "letcps") and isinstance(st[1], str)]
        self.check_capture(bound, rest)
        saved = dict(self.env)
        self.env[params[0][0]] = ("reader", 0)

        def K(e):
            self.retk.pop()
            try:
                if e[0] == "errcode" or (e[0] == "call" and e[1] == ["Err"]):
                    ss = [("assign", lhs, ("var", "None"))] + rest
                elif e[0] == "call" and e[1] == ["Ok"] and len(e[2]) == 1 and e[2][0][0] == "structlit":
                    self.ntmp = getattr(self, "ntmp", 0) + 1
                    tmpn = "ok__%d" % self.ntmp
                    ss = self.struct_stmts(tmpn, e[2][0]) + [("assign", lhs, ("call", ["Some"], [("var", tmpn)]))] + rest
                elif e[0] == "call" and e[1] == ["Ok"] and len(e[2]) == 1 and e[2][0][0] == "var":
                    ss = [("assign", lhs, ("call", ["Some"], [e[2][0]]))] + rest
                else:
                    raise Unsupported("result of the inlined fn")
                return self.stmts(ss, want)
            finally:
                self.retk.append(K)

        self.retk.append(K)
        try:
            r = self.stmts(stm, want)
        finally:
            self.retk.pop()
            self.env = saved
        return r


def parse_params(text, impl, enums):
    """[(rust name, type)]"""
    out = []
    depth = 0
    cur = ""
    parts = []
    for ch in text:
        if ch in "<(":
            depth += 1
        if ch in ">)":
            depth -= 1
        if ch == "," and depth == 0:
            parts.append(cur)
            cur = ""
        else:
            cur += ch
    if cur.strip():
        parts.append(cur)
    for p in parts:
        p = p.strip()
        if p in ("self", "&self", "&mut self", "mut self"):
            out.append(("self", impl))
            continue
        m = re.match(r"(?:mut\s+)?(\w+)\s*:\s*&?\s*(?:mut\s+)?([\w<>' ]+|\[u8\])$", p)
        if not m:
            # a newtype pattern `Name(x): Name` (e.g. `ChunkType(type_): ChunkType`): x is the wrapped value
            m2 = re.match(r"(\w+)\s*\(\s*(\w+)\s*\)\s*:\s*(\w+)$", p)
            if m2 and m2.group(1) == m2.group(3):
                out.append((m2.group(2), ("newtype", m2.group(1))))
                continue
            raise Unsupported("parameter %r" % p)
        out.append((m.group(1), m.group(2)))
    return out


def lean_type(t):
    """Lean type of a value of the (translator's) Rust type t"""
    if t == "bool":
        return "Bool"
    if t == "bytes":
        return "List Int"
    if is_opt(t) and t[1] == "bytes":
        return "Option (List Int)"
    if is_opt(t):
        return "Option Int"
    if is_tup(t):
        return " × ".join(lean_type(c) for c in t[1])
    if t == "unit":
        return "Unit"
    return "Int"


def translate_all():
    srcs = {}
    enums = {}

    def load(file):
        path = os.path.join(REPO, file)
        if path not in srcs:
            srcs[path] = strip_comments(open(path).read())
        return srcs[path]

    for file, en in ENUMS:
        try:
            tab = enum_table(load(file), en)
        except OSError:
            tab = None
        if tab:
            enums[en] = tab
    sigs = {}
    results = []
    broken = []
    defs = []
    used = {}
    for k in KERNELS:
        try:
            path = os.path.join(REPO, k["file"])
            if path not in srcs:
                srcs[path] = strip_comments(open(path).read())
            params_text, ret, body = find_fn(srcs[path], k["impl"], k["fn"])
            impl_ty = k["impl"] if k["impl"] in enums else None
            if k.get("arm"):
                # one arm `<pattern> => { .. }` of a `match` of the function, translated as a function of its own: the scalar values it uses
                # from the enclosing function are the declared `args`
                ms_ = list(re.finditer(re.escape(k["arm"]).replace(r"\ ", r"\s*") + r"\s*=>\s*\{", body))
                if len(ms_) != 1:
                    raise Unsupported("arm %s of %s not found (or not unique)" % (k["arm"], k["fn"]))
                body = body[ms_[0].end() - 1:match_brace(body, ms_[0].end() - 1)]
                params_text = "&mut self"
            if k.get("loop"):
                # the body of the one loop `while <cond> { .. }` of the function, translated as a function of its own (ONE iteration; the
                # condition is evaluated by the caller of the step)
                pat_ = r"\bwhile\s+" + r"\s*".join(re.escape(t_) for t_ in re.findall(r"\w+|[^\w\s]", k["loop"])) + r"\s*\{"
                ms_ = list(re.finditer(pat_, body))
                if len(ms_) != 1 or len(re.findall(r"\b(?:while|loop|for)\b", body)) != 1:
                    raise Unsupported("the loop `while %s` of %s not found (or not the only loop)" % (k["loop"], k["fn"]))
                body = body[ms_[0].end() - 1:match_brace(body, ms_[0].end() - 1)]
                if re.search(r"\b(?:break|continue)\b", body):
                    raise Unsupported("break / continue in the loop body")
                params_text = "&mut self"
            params = parse_params(params_text, impl_ty, enums)
            k["_body"] = body
            tr = Tr(k, enums, sigs, load)
            tr.self_ty = impl_ty
            lean_params = []
            origins = []
            nargs = 0
            argpos = []
            rparams = [(n_, t_) for (n_, t_) in params if n_ != "self"]
            if k.get("cps"):
                if k.get("body"):
                    lean_params.append(("body", "bytes"))
                    origins.append(("body",))
                for n_, t_ in k.get("args", {}).items():
                    tr.env[n_] = t_
                    lean_params.append((tr.lname(n_), t_))
                    origins.append(("arg", nargs))
                    nargs += 1
            for pi_, (n, t) in enumerate(params):
                if n == "self":
                    if impl_ty:
                        lean_params.append(("self_", impl_ty))
                        origins.append(("self",))
                    continue  # struct receiver: its fields become parameters on use
                if isinstance(t, tuple) and t[0] == "newtype":
                    # `Name(x): Name` with `struct Name(pub [T; N]);`: the N elements are the parameters x_0 .. x_{N-1}
                    arr = newtype_array(srcs[path], t[1])
                    if not arr or arr[0] not in INT_TYPES:
                        raise Unsupported("parameter %s: %s is not a newtype of an integer array" % (n, t[1]))
                    tr.env[n] = ("array", arr[0], arr[1])
                    for i in range(arr[1]):
                        lean_params.append(("%s_%d" % (tr.lname(n), i), arr[0]))
                        origins.append(("arg", nargs))
                    nargs += 1
                elif t in INT_TYPES or t == "bool" or t in enums:
                    tr.env[n] = t
                    lean_params.append((tr.lname(n), t))
                    origins.append(("arg", nargs))
                    argpos.append([n_ for n_, _ in rparams].index(n))
                    nargs += 1
                elif n in k.get("fields", {}):
                    continue
                elif t == "[u8]" and n in k.get("bytes_params", []):
                    # a `&[u8]` parameter whose CONTENTS matter: a `List Int` (bytes 0..255), as the chunk body of the reader subset
                    tr.env[n] = "bytes"
                    lean_params.append((tr.lname(n), "bytes"))
                    origins.append(("arg", nargs))
                    nargs += 1
                elif n in k.get("payload", {}) and k["payload"][n][0] == t:
                    # an enum whose variants carry one struct each: a tag (index of the variant in the declaration) and the
                    # declared fields of the declared variants
                    _, pfile, pdecl = k["payload"][n]
                    variants = payload_enum(load(pfile), t)
                    decl = {}
                    lean_params.append(("%s_tag" % tr.lname(n), "usize"))
                    origins.append(("tag", n))
                    for vname, (sname, sfile, fs) in pdecl.items():
                        if (vname, sname) not in variants:
                            raise Unsupported("variant %s(%s) of %s" % (vname, sname, t))
                        if fs:
                            sf = struct_fields(load(sfile), sname)
                            for f, fty in fs.items():
                                if sf.get(f) != fty:
                                    raise Unsupported("field %s: %s of %s" % (f, fty, sname))
                                lean_params.append(("%s_%s_%s" % (tr.lname(n), vname, f), fty))
                                origins.append(("payload", n, vname, f))
                        decl[vname] = (sname, fs)
                    tr.payload[n] = (variants, decl)
                    tr.env[n] = ("payload", n)
                else:
                    raise Unsupported("parameter %s: %s" % (n, t))
            if k.get("fixed"):
                tr.declare_fixed()
            mret = re.match(r"impl\s+Iterator<Item\s*=\s*(\w+)>", ret)
            if mret:
                ret = mret.group(1)
            if k.get("returns_ref"):
                # `-> &mut Vec<u8>`: a reference to the declared byte vector; the result is represented by the outputs alone
                if re.sub(r"\s+", "", ret) not in ("&mutVec<u8>", "&Vec<u8>", "&[u8]", "&mut[u8]"):
                    raise Unsupported("return type %s of a kernel that returns a reference to a byte vector" % ret)
                ret = ""
            ret_ty = Parser(lex(ret)).type_() if ret else "unit"
            if ret_ty == "Self":
                ret_ty = k["impl"]
            if is_opt(ret_ty) and ret_ty[1] == "Self":
                ret_ty = ("opt", k["impl"])
            if isinstance(ret_ty, str) and ret_ty in k.get("newtypes", {}):
                ret_ty = newtype_scalar(load(k["newtypes"][ret_ty]), ret_ty) or ret_ty
            stmts = Parser(lex(body)).block()
            if k.get("cps"):
                if isinstance(ret_ty, tuple) and len(ret_ty) == 2 and ret_ty[0] == "resultof" and is_tup(ret_ty[1]):
                    tr.rkind = "resultslices" if list(ret_ty[1][1]) == [("slice", "u8"), ("slice", "u8")] else None
                else:
                    tr.rkind = {"result": "result", ("resultof", "Decoded"): "resultdecoded", "Decoded": "decoded", "unit": "unit",
                                ("resultof", "usize"): "resultval"}.get(ret_ty)
                if tr.rkind is None and not k.get("plain"):
                    raise Unsupported("return type %s of a reader kernel" % (ret_ty,))
                for en_ in list(k.get("effects", {}).values()) + list(k.get("defaults", {}).values()):
                    tr.env[en_] = "bool"
            if k.get("step"):
                # the declared state must be the WHOLE receiver (nothing the step reads or writes is hidden), the result `Option<item>`
                sdecl = struct_fields(load(k["structs"][k["self_type"]]), k["self_type"])
                if dict(sdecl) != dict(k["fields"]["self"]):
                    raise Unsupported("the fields of %s in the source and the declared state differ" % k["self_type"])
                if ret_ty not in (("opt", "Item"), ("opt", k["step"]["item"][0])):
                    raise Unsupported("return type %s of a step kernel" % (ret_ty,))
            if k.get("ret_struct") and ret_ty != k["ret_struct"]:
                raise Unsupported("return type %s of a kernel that returns %s" % (ret_ty, k["ret_struct"]))
            val, ty, ok = tr.stmts(stmts, ret_ty)
            if k.get("step"):
                if not (isinstance(ty, tuple) and ty == ("withoutputs", "step")):
                    raise Unsupported("a path through the step does not end in None / Some(item) / the recursive call")
                if not tr.assigned <= set(k["outputs"]):
                    raise Unsupported("the step assigns a field that is not a declared output: %s" % ", ".join(sorted(tr.assigned - set(k["outputs"]))))
            if k.get("ret_struct") and ty != ("structret", k["ret_struct"]):
                raise Unsupported("a path through the function does not end in the struct local")
            if k.get("cps"):
                for en_ in reversed(list(k.get("effects", {}).values()) + list(k.get("defaults", {}).values())):
                    val = "(let %s := false; %s)" % (en_, val)
                    ok = "(let %s := false; %s)" % (en_, ok) if ok else ok
            all_params = lean_params + tr.params
            origins = origins + [tr.origin.get(p[0], ("free", p[0])) for p in tr.params]
            extra = dict(group=k["group"], rawimpl=k["impl"], origins=origins, outputs=bool(k.get("outputs")),
                         flagtypes={q: v[0] for q, v in k.get("flags", {}).items()},
                         rparams=rparams, argpos=argpos, outlist=list(k.get("outputs", [])), errors=list(k.get("errors", [])),
                         assigned=sorted(tr.assigned), kfields=k.get("fields", {}))
            sigs[k["lean"]] = (k["impl"] if k["impl"] in enums else None, k["fn"], [p[0] for p in all_params], [p[1] for p in all_params], ret_ty, extra)
            lean_ret = "Bool" if ret_ty == "bool" else ("Option Int" if is_opt(ret_ty) else (lean_type(ret_ty) if is_tup(ret_ty) else "Int"))
            if ty == "outputs":
                lean_ret = " × ".join("Int" for _ in k["outputs"])
            elif k.get("outputs") and ret_ty != "unit":
                lean_ret = " × ".join([lean_ret] + [("Bool" if t_ == "bool" else "Int") for t_ in tr.output_types()])
            if k.get("step"):
                lean_ret = " × ".join(["Int"] * (1 + len(k["step"]["item"][1]) + len(k["outputs"])))
            if k.get("ret_struct"):
                lean_ret = " × ".join(("Bool" if t_ == "bool" else "Int") for t_ in k["ret_fields"].values())
            binder = lambda p: "(%s : %s)" % (p[0], "Bool" if p[1] == "bool" else "Int")
            if k.get("cps") and not k.get("plain"):
                comps_ = (["Int"] if tr.rkind in ("result", "resultdecoded", "resultval", "resultslices") else []) + (["Int"] if tr.rkind == "resultval" else []) + \
                         (["List Int", "List Int"] if tr.rkind == "resultslices" else []) + \
                         (["Int"] * (1 + tr.ev_width()) if k.get("events") is not None else []) + [lean_type(t_) for t_ in tr.output_types()]
                lean_ret = " × ".join(comps_) if comps_ else "Unit"
            if k.get("cps"):
                binder = lambda p: "(%s : %s)" % (p[0], lean_type(p[1]))
            sig = " ".join(binder(p) for p in all_params)
            tname = lambda t_: ("Option<%s>" % t_[1]) if is_opt(t_) else t_
            doc = "/-- `%s%s` (%s)%s, parameters %s -/" % ((k["impl"] + "::") if k["impl"] else "", k["fn"], k["file"],
                                                           (", the arm `%s`" % k["arm"]) if k.get("arm") else
                                                           ((", one iteration of `while %s`" % k["loop"]) if k.get("loop") else ""),
                                                           ", ".join("%s : %s" % (p[0], tname(p[1])) for p in all_params))
            defs.append((k["group"], "%s\ndef %s %s : %s :=\n  %s\n\n/-- no overflow, no division by zero, no panic on this run -/\ndef %s_ok %s : Bool :=\n  %s\n" % (
                doc, k["lean"], sig, lean_ret, val, k["lean"], sig, ok or "true") + (step_unfolding(k, tr, all_params, lean_ret) if k.get("step") else "")))
            results.append((k["group"], k["lean"]))
            used.setdefault(k["group"], set()).update(tr.used_groups)
        except (Unsupported, IndexError, KeyError, ValueError, TypeError, AttributeError, AssertionError, OSError) as ex:
            broken.append((k["lean"], "%s: %s" % (type(ex).__name__, ex)))
            # the text of the last successful translation is kept (see main): the group still builds, and `./check`
            # reports the kernel as no longer tied by translation (tie by correspondence only)
            defs.append((k["group"], ("KEEP", k["lean"])))
    return defs, results, broken, enums, used


def step_unfolding(k, tr, all_params, lean_ret):
    """the recursion of a step kernel: `<name>_rec fuel` follows the recursive call site (tag 2) at most `fuel` times, starting every
    further step from the state the step before it left (the outputs; the other parameters are not assigned and stay)"""
    name = k["lean"]
    names = [p[0] for p in all_params]
    n = 1 + len(k["step"]["item"][1]) + len(k["outputs"])
    newarg = {}
    for i, o in enumerate(k["outputs"]):
        obj, f = tr.out_path(o)
        j = 1 + len(k["step"]["item"][1]) + i
        if tr.pname(obj, f) not in names:
            raise Unsupported("output %s is not a parameter" % o)
        newarg[tr.pname(obj, f)] = "r%s" % (".2" * j + (".1" if j < n - 1 else ""))
    tys = " → ".join(["Nat"] + [("Bool" if p[1] == "bool" else "Int") for p in all_params])
    args = " ".join(names)
    pats = ", ".join(names)
    nxt = " ".join(newarg.get(a, a) for a in names)
    return ("\n/-- the recursion of `%s`: the call `self.%s()` at the end of a step (tag 2) is followed at most `fuel` times; a result with tag 2 "
            "means the recursion was still going on when the fuel ran out -/\n"
            "def %s_rec : %s → %s\n  | 0, %s => %s %s\n  | fuel + 1, %s => (let r := %s %s; if r.1 = 2 then %s_rec fuel %s else r)\n\n"
            "/-- every step of that run is `_ok` -/\n"
            "def %s_rec_ok : %s → Bool\n  | 0, %s => %s_ok %s\n  | fuel + 1, %s => %s_ok %s && (let r := %s %s; if r.1 = 2 then %s_rec_ok fuel %s else true)\n"
            "-- end of the unfolding of %s\n") % (
        k["fn"], k["fn"], name, tys, lean_ret, pats, name, args, pats, name, args, name, nxt,
        name, tys, pats, name, args, pats, name, args, name, args, name, nxt, name)


PRELUDE = '''/-
  GENERATED by tools/rs2lean.py from the Rust source on every run - do not edit.
  Exact-integer translation of straight-line kernels of image-png; `f_ok` = "this run stays inside the Rust types".
-/
'''

OPT = '''/-- Rust's ordering of `Option<T>`: `None < Some(_)` -/
def optLe : Option Int → Option Int → Bool
  | none, _ => true
  | some _, none => false
  | some a, some b => decide (a ≤ b)

def optLt : Option Int → Option Int → Bool
  | none, none => false
  | none, some _ => true
  | some _, none => false
  | some a, some b => decide (a < b)

'''


BE = '''/-- `read_be::<u8>()` at offset `k` of the chunk body (src/traits.rs: `read_exact` of one byte, `u8::from_be_bytes`) -/
def beU8 (body : List Int) (k : Nat) : Int := body.getD k 0

/-- `read_be::<u16>()` at offset `k`: two bytes, most significant first -/
def beU16 (body : List Int) (k : Nat) : Int := body.getD k 0 * 256 + body.getD (k + 1) 0

/-- `read_be::<u32>()` at offset `k`: four bytes, most significant first -/
def beU32 (body : List Int) (k : Nat) : Int :=
  body.getD k 0 * 16777216 + body.getD (k + 1) 0 * 65536 + body.getD (k + 2) 0 * 256 + body.getD (k + 3) 0

'''
FIRSTIDX = '''/-- `s.iter().position(|&b| b == v)`: the index of the first element equal to `v` -/
def firstIndexOf (v : Int) : List Int → Option Int
  | [] => none
  | x :: xs => if x = v then some 0 else (firstIndexOf v xs).map (· + 1)

'''
GROUP_PRELUDE = {"Parsers": BE, "Text": FIRSTIDX}
GROUP_IMPORTS = {"ParsersApng": ["Parsers"]}          # the readers beU8 / beU16 / beU32


def kept_block(old_text, name):
    """the definitions `name` and `name_ok` (with their doc comments) as the generated file of the last run has them, or ''"""
    if not old_text:
        return ""
    m = re.search(r"(/-- `[^\n]*\n)def %s [^\n]*\n.*?\ndef %s_ok [^\n]*\n[^\n]*\n" % (re.escape(name), re.escape(name)), old_text, re.S)
    if not m:
        return ""
    # the doc comment matched may belong to an earlier kernel when `name` is not the first: cut at the last doc start
    blk = m.group(0)
    i = blk.rfind("/-- `", 0, blk.find("\ndef %s " % name) + 1)
    blk = blk[i:] if i >= 0 else blk
    m2 = re.search(r"\n/-- the recursion of [^\n]*\ndef %s_rec .*?-- end of the unfolding of %s\n" % (re.escape(name), re.escape(name)), old_text, re.S)
    return blk + (m2.group(0) if m2 else "")


def main():
    defs, ok, broken, enums, used = translate_all()
    for gi, g in enumerate(GROUPS):
        text = PRELUDE
        out = os.path.join(OUTDIR, "Kernels%s.lean" % g)
        old = open(out).read() if os.path.exists(out) else None
        # a kernel whose last translation is kept may call functions of groups that the kernels translated on this run do not: the
        # imports of the file of the last run are kept with it
        kept_imports = set()
        if old and any(gg == g and not isinstance(d, str) for (gg, d) in defs):
            kept_imports = set(re.findall(r"^import PngVerif\.Generated\.Kernels(\w+)$", old, re.M))
        if gi > 0:
            text += "import PngVerif.Generated.Kernels%s\n" % GROUPS[0]
        for g2 in GROUPS[1:gi]:
            if g2 in used.get(g, ()) or g2 in GROUP_IMPORTS.get(g, ()) or g2 in kept_imports:
                text += "import PngVerif.Generated.Kernels%s\n" % g2
        text += "set_option linter.unusedVariables false\nnamespace Png.Gen\n\n"
        if gi == 0:
            text += OPT
        text += GROUP_PRELUDE.get(g, "")
        text += "\n".join((d if isinstance(d, str) else kept_block(old, d[1])) for (gg, d) in defs if gg == g)
        text += "\n/-- kernels of this group translated on this run -/\ndef translated%s : List String := [%s]\n" % (g, ", ".join('"%s"' % n for (gg, n) in ok if gg == g))
        text += "\nend Png.Gen\n"
        if old != text:
            with open(out, "w") as f:
                f.write(text)
    for n, why in broken:
        print("TIE-A-BROKEN kernel:%s %s" % (n, why))
    print("TIE-A kernels translated: %s" % ", ".join(n for (_, n) in ok))
    return 3 if broken else 0


if __name__ == "__main__":
    sys.exit(main())
