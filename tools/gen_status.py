#!/usr/bin/env python3
"""Rewrites the status table in section 0 of DESIGN.md (between markers) from MANIFEST.json, lean/registry.json,
known_findings.json, evidence/*.json and seeded/*/meta.json."""
import json, os, re, glob
ROOT = os.path.join(os.path.dirname(os.path.abspath(__file__)), "..")
reg = json.load(open(os.path.join(ROOT, "lean", "registry.json")))
man = json.load(open(os.path.join(ROOT, "MANIFEST.json")))
kf = json.load(open(os.path.join(ROOT, "known_findings.json")))
props = [json.loads(l) for l in open(os.path.join(ROOT, "properties.jsonl"))]
claimed = {c["property_id"] for c in man["checks"]}
seeds = {}
for m in glob.glob(os.path.join(ROOT, "seeded", "*", "meta.json")):
    j = json.load(open(m))
    seeds.setdefault(j["breaks_property"], []).append(j)
rows = ["<!-- STATUS-BEGIN -->",
        "| Property | claimed | theorems full / partial / counterex. | open findings | fixed findings | seeded changes caught / total | last quick run (cases) |",
        "|---|---|---|---|---|---|---|"]
for p in props:
    pid = p["id"]
    e = reg.get(pid, {})
    op = [f for f in kf.get("open", []) if f["property"] == pid]
    fx = [f for f in kf.get("fixed", []) if f["property"] == pid]
    ss = seeds.get(pid, [])
    caught = sum(1 for s in ss if s.get("caught_by"))
    ev = os.path.join(ROOT, "evidence", pid + ".json")
    cases = ""
    if os.path.exists(ev):
        try:
            j = json.load(open(ev))
            cases = str(j.get("coverage", {}).get("evaluations", ""))
        except Exception:
            pass
    rows.append("| %s %s | %s | %d / %d / %d | %d | %d | %d / %d | %s |" % (
        pid, p["title"][:60], "yes" if pid in claimed else "no", len(e.get("theorems", [])), len(e.get("partial", [])),
        len(e.get("counterexamples", [])), len(op), len(fx), caught, len(ss), cases))
rows.append("<!-- STATUS-END -->")
text = "\n".join(rows)
p = os.path.join(ROOT, "DESIGN.md")
s = open(p).read()
assert "<!-- STATUS-BEGIN -->" in s
s = re.sub(r"<!-- STATUS-BEGIN -->.*<!-- STATUS-END -->", lambda _: text, s, flags=re.S)
open(p, "w").write(s)
print("status table written")
