#!/usr/bin/env python3
"""Evaluate a seeded change against the checks WITHOUT touching /repo.

  tools/seed_eval.py <patch.diff> <demo.rs> <prop ids comma separated | all> [--skip-verify]

1. scratch worktree of /repo's HEAD under /tmp, patch applied;
2. (verify) existing test suite still passes with the patch; the demonstration fails with the patch and passes without;
3. for each property id: `PNG_REPO=<worktree> ./check <id>` (quick tier) -> caught / missed;
4. worktree and its build output removed.
Prints a JSON summary.  (The registered interface - apply to /repo, run, undo - gives the same result; this route exists
so that other work in progress that builds against /repo is not disturbed.)
"""
import sys, os, subprocess, json, shutil, tempfile, time

ROOT = os.path.join(os.path.dirname(os.path.abspath(__file__)), "..")


def sh(cmd, cwd=None, env=None, timeout=3600):
    e = dict(os.environ)
    if env:
        e.update(env)
    p = subprocess.run(cmd, cwd=cwd, env=e, stdout=subprocess.PIPE, stderr=subprocess.STDOUT, text=True, timeout=timeout)
    return p.returncode, p.stdout


def main():
    patch, demo, ids = sys.argv[1], sys.argv[2], sys.argv[3]
    skip_verify = "--skip-verify" in sys.argv
    claimed = [c["property_id"] for c in json.load(open(os.path.join(ROOT, "MANIFEST.json")))["checks"]]
    ids = claimed if ids == "all" else ids.split(",")
    # one fixed path, so that cargo re-uses its build output from one evaluation to the next
    tag = os.environ.get("SEED_EVAL_TAG", "")   # several evaluations side by side: each with its own mirror of /verif and its own paths
    wt = "/tmp/seed_eval_wt" + tag
    sh(["git", "-C", "/repo", "worktree", "remove", "--force", wt])
    shutil.rmtree(wt, ignore_errors=True)
    sh(["git", "-C", "/repo", "worktree", "prune"])
    target = "/tmp/seed_eval_target" + tag
    out = {"patch": patch, "demo": demo, "verify": {}, "checks": {}}
    try:
        rc, o = sh(["git", "-C", "/repo", "worktree", "add", "-q", "--detach", wt, "HEAD"])
        assert rc == 0, o
        env = {"CARGO_TARGET_DIR": target, "CARGO_NET_OFFLINE": "true"}
        os.makedirs(os.path.join(wt, "target"), exist_ok=True)  # a doctest writes target/text_chunk.png
        demo_name = os.path.splitext(os.path.basename(demo))[0]
        if not skip_verify:
            shutil.copy(demo, os.path.join(wt, "tests", os.path.basename(demo)))
            rc, o = sh(["cargo", "test", "--offline", "--test", demo_name], cwd=wt, env=env)
            out["verify"]["demo_passes_without_change"] = rc == 0
        rc, o = sh(["git", "-C", wt, "apply", os.path.abspath(patch)])
        out["verify"]["patch_applies"] = rc == 0
        if rc != 0:
            out["verify"]["apply_output"] = o[-500:]
            print(json.dumps(out, indent=1))
            return 1
        if not skip_verify:
            rc, o = sh(["cargo", "test", "--offline", "--test", demo_name], cwd=wt, env=env)
            out["verify"]["demo_fails_with_change"] = rc != 0
            os.remove(os.path.join(wt, "tests", os.path.basename(demo)))
            rc, o = sh(["cargo", "test", "--offline"], cwd=wt, env=env)
            out["verify"]["existing_tests_pass_with_change"] = rc == 0
            if rc != 0:
                out["verify"]["test_output"] = o[-1500:]
        for pid in ids:
            t0 = time.time()
            rc, o = sh([os.path.join(ROOT, "check"), pid], cwd=ROOT, env={"PNG_REPO": wt})
            viol = [l for l in o.splitlines() if l.startswith("VIOLATION")]
            detail = [l.strip() for l in o.splitlines() if l.startswith("  ")][:4]
            out["checks"][pid] = {"exit": rc, "violations": len(viol), "first": viol[:1], "detail": detail, "wall_s": round(time.time() - t0, 1)}
    finally:
        sh(["git", "-C", "/repo", "worktree", "remove", "--force", wt])
        shutil.rmtree(wt, ignore_errors=True)
        # restore the generated parameters and kernels for the real tree
        sh([sys.executable, os.path.join(ROOT, "tools", "extract_params.py")])
        sh([sys.executable, os.path.join(ROOT, "tools", "rs2lean.py")])
    out["caught_by"] = [p for p, r in out["checks"].items() if r["exit"] == 1]
    if "test_output" in out["verify"]:
        out["verify"]["test_output"] = out["verify"]["test_output"][-400:]
    print(json.dumps(out, indent=1))
    return 0


if __name__ == "__main__":
    sys.exit(main())
