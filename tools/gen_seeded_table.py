#!/usr/bin/env python3
"""Rewrites Appendix G of DESIGN.md (between the markers) from seeded/*/meta.json."""
import json, glob, os, re
ROOT = os.path.join(os.path.dirname(os.path.abspath(__file__)), "..")
rows = []
for f in sorted(glob.glob(os.path.join(ROOT, "seeded", "*", "meta.json"))):
    m = json.load(open(f))
    rows.append("| `%s` | %s | %s | %s | %s | %s |" % (m["id"], m["breaks_property"], m["change"].replace("|", "/"), m["needs_to_manifest"].replace("|", "/"),
                                                ", ".join(m["caught_by"]) or "**missed**", (m.get("notes") or "").replace("|", "/")))
text = """<!-- SEEDED-BEGIN -->
## Appendix G — Seeded changes: which checks catch which change

Each change was written by a fresh sub-agent that was given only the text of one property and its own scratch worktree of
`/repo` (nothing from `/verif`), asked for a realistic change that breaks the property, still compiles and passes the 74
existing tests, with a demonstration that fails with the change and passes without.  I re-verified all of that in a
scratch worktree (`tools/seed_eval.py`), ran the quick tier of the relevant checks against the changed tree, and kept the
change under `seeded/<id>/` (`patch.diff`, the demonstration, `meta.json`).  "Strengthened" says what the machinery lacked
when a change was first missed or only reported without a failing input.

| id | breaks | change | needs | caught by (quick tier) | what had to be strengthened |
|---|---|---|---|---|---|
%s
<!-- SEEDED-END -->""" % "\n".join(rows)
p = os.path.join(ROOT, "DESIGN.md")
s = open(p).read()
if "<!-- SEEDED-BEGIN -->" in s:
    s = re.sub(r"<!-- SEEDED-BEGIN -->.*<!-- SEEDED-END -->", lambda _: text, s, flags=re.S)
else:
    s = s.rstrip("\n") + "\n\n" + text + "\n"
open(p, "w").write(s)
print(len(rows), "seeded changes listed")
