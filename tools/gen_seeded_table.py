#!/usr/bin/env python3
"""Rewrites Appendix G of DESIGN.md (between the markers) from seeded/*/meta.json."""
import json, glob, os, re
ROOT = os.path.join(os.path.dirname(os.path.abspath(__file__)), "..")
rows = []
for f in sorted(glob.glob(os.path.join(ROOT, "seeded", "*", "meta.json"))):
    m = json.load(open(f))
    rows.append("| `%s` | %s | %s | %s | %s | %s |" % (m["id"], m["breaks_property"], m["change"].replace("|", "/"), m["needs_to_manifest"].replace("|", "/"),
                                                ", ".join(m["caught_by"]) or "**missed**", (m.get("notes") or "").replace("|", "/")))
text = """<!-- SEEDED-BEGIN -->
## Appendix G — Seeded changes: which checks catch which change

Each change was written by a fresh sub-agent that was given only the text of one property and its own scratch worktree of
`/repo` (nothing from `/verif`), asked for a realistic change that breaks the property, still compiles and passes the 74
existing tests, with a demonstration that fails with the change and passes without.  I re-verified all of that in a
scratch worktree (`tools/seed_eval.py`), ran the quick tier of the relevant checks against the changed tree, and kept the
change under `seeded/<id>/` (`patch.diff`, the demonstration, `meta.json`).  "Strengthened" says what the machinery lacked
when a change was first missed or only reported without a failing input.

Third session, waves 8 and 9 (one agent per property and wave, two changes each; the prompt of wave 9 listed every earlier change of the property
as "do not repeat").  Wave 8: 38 changes kept (2 duplicates of earlier ones dropped); at FIRST evaluation 28 were caught by the property's own check,
6 only by the checks of other properties (C15_4, C19_5, C13_7, C01_7, C01_8, C07_7) and 4 by no check that was run (C11_5, C10_8, C03_8, C07_8).
Wave 9 (after the strengthening that wave 8 led to): 34 kept (6 duplicates dropped); 29 caught by the property's own check at first evaluation, 2 only
by other properties' checks (C09_9; C13_9, which is in C15's domain and stays there) and 3 by none (C02_8, C16_6, C18_10).  Every miss was followed by a new
generator family or oracle (last column), the change was evaluated again and is caught with a concrete failing input.  What the misses had in common:
a public entry point or call ORDER the harness never used (options set after `read_header_info`, `set_filter` between rows, `next_frame_info` before `next_frame`,
accessors instead of stored fields), an input family nobody had thought of (a back-reference before the start of a LATER frame's stream, a source that is not
ready, chunk bodies cut at every length, more frames than `acTL` declares, bytes after `IEND`) — never a weakness of a theorem: each of these changes alters
behaviour the model fixes, so the model disagrees as soon as the harness asks the question.  The coverage measurement of section 5 would have pointed at
three of the seven "missed by all" changes in advance (C11_5, C07_8's `fill_buf` error arm, C16_6's accessors).
Wave 10 (ten properties, after the strengthening that wave 9 led to): 19 kept (1 duplicate dropped); 18 caught by the property's own check at first
evaluation, 1 (C13_11, a sub-byte scatter mask, in C15's domain) only by the checks of other properties, none missed.
Wave 11 (the four properties with the fewest changes so far: C11, C14, C15, C20; two changes each, the agents were told what earlier waves had used): 8 kept;
7 caught by the property's own check at first evaluation, 1 (C14_7: the stream writer's row buffer not shrunk for a narrower later frame) only by C12 and C03 —
C14 enumerated `filter` / `unfilter` directly and never drove the encoder's row bookkeeping, although the property says "the encoder's filtering followed by that
reconstruction is the identity".  Strengthened with `props/c14_enc.rs` (every row the encoder emits through `write_image_data` and `StreamWriter`, over 1..4 images
of different sizes, reconstructed with the specification's formula from the harness's own parse of the file); C14_7 and the older C14_3 (previous-row buffer not
cleared between frames, until then caught by C03 only) are now caught by C14 with a shrunk two-image session.
Wave 12 (C08, C12, C16, C19, two changes each): 8 kept; all 8 caught by the property's own check at first evaluation; one of them (C19_10: a rectangle bound
check written as `offset + size > canvas`) at first only through its broken kernel theorem (Tie A part 2), i.e. reported with `no-failing-input-found`, because
no generator offered a rectangle setter a value near `u32::MAX`; the generators now do, and the re-evaluation reports the overflow panic with its operation
sequence.  This is the first seeded change that the translated-kernel theorems caught BEFORE the differential harness did.
Wave 13 (C01, C02, C06, C07; the C07 agent delivered after the evaluation window had closed — two non-termination changes in `stream.rs`, NOT evaluated and not kept: (1) the flush block of the `Type` arm records the new chunk type only when it is not IDAT / fdAT, so an IDAT directly followed by an fdAT (or the reverse) is flushed forever with `(0, ImageDataFlushed)`; (2) `buf_avail` in `ReadChunkData` computed from `min(capacity, max(limits.bytes, CHUNK_BUFFER_SIZE))`, so a caller limit between 32 KiB and the chunk length makes `ReadChunkData` / `ParseChunkData` alternate forever — both are for the next session to rebuild and run against C07; the C01 agent one change — three more candidates of its were caught by the crate's own tests): 5 kept;
2 caught by the property's own check at first evaluation.  The three others each exposed a gap: C06_11 (inflater output buffer sized from the header at once) made the C06 check
END with an infrastructure error — the mutant asked for 3.3 TB and the runtime aborted the harness; an allocator abort under C06 is now a reported violation with the
running case as replay.  C02_12 (a stale previous row after a failed frame) needs a failed frame followed by a frame of ANOTHER width and the call sequence
`next_frame, next_frame_info, next_frame`: C18 saw wrong pixels through the model, C02 saw nothing; the Reader-layer failing files now carry a narrower second frame and get all
short call sequences in C02.  C01_10 (`read_row` with a buffer longer than a line) was caught by C02 and C13; C01 now also decodes row by row into roomy buffers.

| id | breaks | change | needs | caught by (quick tier) | what had to be strengthened |
|---|---|---|---|---|---|
%s
<!-- SEEDED-END -->""" % "\n".join(rows)
p = os.path.join(ROOT, "DESIGN.md")
s = open(p).read()
if "<!-- SEEDED-BEGIN -->" in s:
    s = re.sub(r"<!-- SEEDED-BEGIN -->.*<!-- SEEDED-END -->", lambda _: text, s, flags=re.S)
else:
    s = s.rstrip("\n") + "\n\n" + text + "\n"
open(p, "w").write(s)
print(len(rows), "seeded changes listed")
