#!/usr/bin/env python3
"""tools/reg_add.py <pid> <module> <full|partial|counterexamples> <namespace> name...   - registers theorems (and the module) for a property"""
import json, sys, os
p = os.path.join(os.path.dirname(os.path.abspath(__file__)), "..", "lean", "registry.json")
r = json.load(open(p))
pid, module, kind, ns = sys.argv[1:5]
names = sys.argv[5:]
e = r[pid]
mods = e.get("modules") or [e["module"]]
if module not in mods:
    mods.append(module)
e["modules"] = mods
key = "theorems" if kind == "full" else kind
lst = e.setdefault(key, [])
for n in names:
    q = ns + "." + n
    if q not in lst:
        lst.append(q)
json.dump(r, open(p, "w"), indent=1)
print(pid, key, len(lst))
