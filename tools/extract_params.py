#!/usr/bin/env python3
"""Tie A: regenerate lean/PngVerif/Generated/Params.lean from /repo's current source.

Each rule is (lean name, file, anchored regex, converter).  A rule whose regex no longer matches is
reported (exit status 3, names on stdout as `TIE-A-BROKEN <name>`) and the previous value is kept so
that the Lean project still builds; ./check turns that into a broken-tie verdict.
"""
import re, sys, os, json

REPO = os.environ.get("PNG_REPO", "/repo")
OUT = os.path.join(os.path.dirname(os.path.abspath(__file__)), "..", "lean", "PngVerif", "Generated", "Params.lean")

def rd(p):
    with open(os.path.join(REPO, p), encoding="utf-8") as f:
        return f.read()

def arith(expr):
    expr = expr.replace("_", "")
    if not re.fullmatch(r"[0-9*+\- ()<>]+", expr):
        raise ValueError(expr)
    return int(eval(expr))

def adam7_init_pass(src):
    """rows `k => (EXPRW / A, EXPRH / B)` of Adam7Iterator::init_pass -> (xoff, yoff, xstep, ystep)"""
    m = re.search(r"fn init_pass\(&mut self\) \{(.*?)\n    \}", src, re.S)
    body = m.group(1)
    out = []
    for k in range(1, 8):
        mm = re.search(r"\b%d => \((.*?),\s*(.*?)\),\n" % k, body)
        def parse(e, var):
            e = e.strip()
            m1 = re.fullmatch(r"\(%s - ([0-9.]+)\) / ([0-9.]+)" % var, e)
            if m1: return int(float(m1.group(1))), int(float(m1.group(2)))
            m2 = re.fullmatch(r"%s / ([0-9.]+)" % var, e)
            if m2: return 0, int(float(m2.group(1)))
            if e == var: return 0, 1
            raise ValueError(e)
        xo, xs = parse(mm.group(1), "w")
        yo, ys = parse(mm.group(2), "h")
        out.append((xo, yo, xs, ys))
    return out

def adam7_expand_bits(src):
    """rows `k => (line_mul, line_off, samp_mul, samp_off)` of expand_adam7_bits"""
    m = re.search(r"let \(line_mul, line_off, samp_mul, samp_off\) = match pass \{(.*?)_ =>", src, re.S)
    body = m.group(1)
    out = []
    for k in range(1, 8):
        mm = re.search(r"\b%d => \((\d+), (\d+), (\d+), (\d+)\)," % k, body)
        out.append(tuple(int(x) for x in mm.groups()))
    return out

def signature(src):
    m1 = re.search(r"U32ValueKind::Signature1stU32 => \{\s*if bytes == \[(.*?)\]", src, re.S)
    m2 = re.search(r"U32ValueKind::Signature2ndU32 => \{\s*if bytes == \[(.*?)\]", src, re.S)
    def bs(t): return [int(x.strip(), 0) for x in t.split(",") if x.strip()]
    return bs(m1.group(1)) + bs(m2.group(1))

def benign_list(src):
    m = re.search(r"matches!\(\s*type_str,\s*((?:chunk::\w+\s*\|?\s*)+)\)\s*\{\s*parse_result = Ok\(Decoded::Nothing\)", src, re.S)
    return [[ord(c) for c in name] for name in re.findall(r"chunk::(\w+)", m.group(1))]

def srgb_values(src):
    g = int(re.search(r"fn substitute_gamma.*?from_scaled\((\d+)\)", src, re.S).group(1))
    body = re.search(r"fn substitute_chromaticities.*?\n\}", src, re.S).group(0)
    vals = {}
    for name in ("white", "red", "green", "blue"):
        mm = re.search(name + r": \(\s*ScaledFloat::from_scaled\((\d+)\),\s*ScaledFloat::from_scaled\((\d+)\),?\s*\)", body, re.S)
        vals[name] = (int(mm.group(1)), int(mm.group(2)))
    return [g] + [v for name in ("white", "red", "green", "blue") for v in vals[name]]

def color_types(src):
    """ColorType::from_u8 arms joined with samples_u8: [(value, samples)]"""
    body = re.search(r"pub fn from_u8\(n: u8\) -> Option<ColorType> \{\s*match n \{(.*?)_ => None", src, re.S).group(1)
    arms = re.findall(r"(\d+) => Some\(ColorType::(\w+)\)", body)
    sm = re.search(r"fn samples_u8\(self\) -> u8 \{.*?match self \{(.*?)\n        \}", src, re.S).group(1)
    samples = {}
    for names, n in re.findall(r"([\w| ]+?) => (\d+),", sm):
        for nm in names.split("|"):
            samples[nm.strip()] = int(n)
    return [(int(v), samples[name]) for v, name in arms]

def bit_depths(src):
    body = re.search(r"pub fn from_u8\(n: u8\) -> Option<BitDepth> \{\s*match n \{(.*?)_ => None", src, re.S).group(1)
    return [int(v) for v in re.findall(r"(\d+) => Some\(BitDepth::\w+\)", body)]

def invalid_combos(src):
    """is_combination_invalid: ((depth in A) && (color in B)) || (depth == D && color == C) -> [(color value, depth)]"""
    body = re.search(r"fn is_combination_invalid\(self, bit_depth: BitDepth\) -> bool \{(.*?)\n    \}", src, re.S).group(1)
    body = re.sub(r"//.*", "", body)
    m = re.fullmatch(r"\s*\(\(((?:bit_depth == BitDepth::\w+\s*\|\|\s*)*bit_depth == BitDepth::\w+)\)\s*&&\s*\(((?:self == ColorType::\w+\s*\|\|\s*)*self == ColorType::\w+)\)\)\s*\|\|\s*\(bit_depth == BitDepth::(\w+) && self == ColorType::(\w+)\)\s*", body, re.S)
    dn = {"One": 1, "Two": 2, "Four": 4, "Eight": 8, "Sixteen": 16}
    cbody = re.search(r"pub fn from_u8\(n: u8\) -> Option<ColorType> \{\s*match n \{(.*?)_ => None", src, re.S).group(1)
    cn = {name: int(v) for v, name in re.findall(r"(\d+) => Some\(ColorType::(\w+)\)", cbody)}
    ds = [dn[x] for x in re.findall(r"BitDepth::(\w+)", m.group(1))]
    cs = [cn[x] for x in re.findall(r"ColorType::(\w+)", m.group(2))]
    out = sorted([(c, d) for d in ds for c in cs] + [(cn[m.group(4)], dn[m.group(3)])])
    return out

def parse_dispatch(src):
    """the chunk kinds `parse_chunk` has an arm for, in order"""
    body = re.search(r"fn parse_chunk\(&mut self, type_str: ChunkType\).*?let mut parse_result = match type_str \{(.*?)_ => Ok\(Decoded::PartialChunk", src, re.S).group(1)
    names = re.findall(r"^\s*(?:chunk::)?(\w+)(?: if [^=]*)? =>", body, re.M)
    return [[ord(c) for c in n] for n in names]

def row_filters(src):
    body = re.search(r"impl RowFilter \{\s*pub fn from_u8\(n: u8\) -> Option<Self> \{\s*match n \{(.*?)_ => None", src, re.S).group(1)
    return [int(v) for v in re.findall(r"(\d+) => Some\(Self::\w+\)", body)]

RULES = [
    ("benignChunks", "src/decoder/stream.rs", benign_list),
    ("srgbSubstitutes", "src/srgb.rs", srgb_values),
    ("decompressionLimit", "src/text_metadata.rs", lambda s: arith(re.search(r"pub const DECOMPRESSION_LIMIT: usize = ([^;]+);", s).group(1))),
    ("defaultLimitBytes", "src/decoder/mod.rs", lambda s: arith(re.search(r"impl Default for Limits \{.*?bytes: ([0-9* ]+),", s, re.S).group(1))),
    ("keywordMaxEncode", "src/text_metadata.rs", lambda s: arith(re.search(r"data\.is_empty\(\) \|\| data\.len\(\) > (\d+)", s).group(1))),
    ("keywordMaxDecode", "src/decoder/stream.rs", lambda s: arith(re.search(r"null_byte_index == 0 \|\| null_byte_index > (\d+)", s).group(1))),
    ("chunkBufferSize", "src/decoder/stream.rs", lambda s: arith(re.search(r"pub const CHUNK_BUFFER_SIZE: usize = ([^;]+);", s).group(1))),
    ("lookbackSize", "src/decoder/zlib.rs", lambda s: arith(re.search(r"const LOOKBACK_SIZE: usize = ([^;]+);", s).group(1))),
    ("compactFactor", "src/decoder/zlib.rs", lambda s: arith(re.search(r"if self\.out_pos > LOOKBACK_SIZE \* (\d+) \{", s).group(1))),
    ("filterChunkSize", "src/filter.rs", lambda s: arith(re.search(r"fn filter_internal\(.*?const CHUNK_SIZE: usize = (\d+);", s, re.S).group(1))),
    ("adam7Pass", "src/adam7.rs", adam7_init_pass),
    ("adam7Bits", "src/adam7.rs", adam7_expand_bits),
    ("signature", "src/decoder/stream.rs", signature),
    ("colorTypes", "src/common.rs", color_types),
    ("bitDepths", "src/common.rs", bit_depths),
    ("invalidCombos", "src/common.rs", invalid_combos),
    ("parseDispatch", "src/decoder/stream.rs", parse_dispatch),
    ("rowFilters", "src/filter.rs", row_filters),
    ("criticalMask", "src/chunk.rs", lambda s: arith(re.search(r"pub fn is_critical\(ChunkType\(type_\): ChunkType\) -> bool \{\s*type_\[0\] & (\d+) == 0", s).group(1))),
    ("maxIdatChunkLen", "src/encoder.rs", lambda s: (lambda e: (2**32 - 1) >> int(e))(re.search(r"const MAX_IDAT_CHUNK_LEN: u32 = u32::MAX >> (\d+);", s).group(1))),
    ("maxFdatChunkLen", "src/encoder.rs", lambda s: (lambda m: ((2**32 - 1) >> int(m.group(1))) - int(m.group(2)))(re.search(r"const MAX_fdAT_CHUNK_LEN: u32 = \(u32::MAX >> (\d+)\) - (\d+);", s))),
    ("streamChunkCap", "src/encoder.rs", lambda s: (lambda e: (2**32 - 1) >> int(e))(re.search(r"const CAP: usize = u32::MAX as usize >> (\d+);", s).group(1))),
    ("streamMinBuffer", "src/encoder.rs", lambda s: arith(re.search(r"buffer: vec!\[0; CAP\.min\(buf_len\)\.max\((\d+)\)\]", s).group(1))),
    ("defaultBufferLength", "src/encoder.rs", lambda s: arith(re.search(r"const DEFAULT_BUFFER_LENGTH: usize = ([^;]+);", s).group(1))),
]

def lean_val(v):
    if isinstance(v, bool): return "true" if v else "false"
    if isinstance(v, int): return str(v)
    if isinstance(v, tuple): return "(" + ", ".join(lean_val(x) for x in v) + ")"
    if isinstance(v, list): return "[" + ", ".join(lean_val(x) for x in v) + "]"
    raise TypeError(v)

TYPES = {
    "benignChunks": "List (List Nat)",
    "srgbSubstitutes": "List Nat",
    "adam7Pass": "List (Nat × Nat × Nat × Nat)",
    "adam7Bits": "List (Nat × Nat × Nat × Nat)",
    "signature": "List Nat",
    "colorTypes": "List (Nat × Nat)",
    "bitDepths": "List Nat",
    "invalidCombos": "List (Nat × Nat)",
    "parseDispatch": "List (List Nat)",
    "rowFilters": "List Nat",
}

def main():
    prev = {}
    cache = OUT + ".json"
    if os.path.exists(cache):
        try: prev = json.load(open(cache))
        except Exception: prev = {}
    vals, broken = {}, []
    for name, path, fn in RULES:
        try:
            vals[name] = fn(rd(path))
        except Exception as e:
            broken.append(name)
            if name in prev:
                v = prev[name]
                def fix(x):
                    if TYPES.get(name, "").startswith("List (List"):
                        return x
                    return [tuple(y) if isinstance(y, list) else y for y in x] if isinstance(x, list) else x
                vals[name] = fix(v)
            else:
                raise SystemExit("TIE-A-BROKEN %s (no previous value): %s" % (name, e))
    lines = ["/-! GENERATED by tools/extract_params.py from /repo's current source (Tie A). Do not edit. -/",
             "namespace Png.Params", ""]
    for name, path, _ in RULES:
        ty = TYPES.get(name, "Nat")
        lines.append("/-- extracted from `%s` -/" % path)
        lines.append("def %s : %s := %s" % (name, ty, lean_val(vals[name])))
        lines.append("")
    lines.append("end Png.Params")
    text = "\n".join(lines) + "\n"
    old = open(OUT).read() if os.path.exists(OUT) else None
    if old != text:
        os.makedirs(os.path.dirname(OUT), exist_ok=True)
        with open(OUT, "w") as f: f.write(text)
    json.dump(vals, open(cache, "w"))
    for b in broken:
        print("TIE-A-BROKEN", b)
    print("TIE-A", json.dumps(vals))
    sys.exit(3 if broken else 0)

if __name__ == "__main__":
    main()
