import sys
pid=sys.argv[1]
prop=open('/tmp/prop_%s.txt'%pid).read()
print(f"""You are helping to test a verification effort by playing the role of a developer who introduces a subtle regression.

You have your OWN scratch git worktree of the Rust crate image-rs/image-png at `/tmp/mut_{pid}` (a detached checkout; work ONLY inside this directory; never touch `/repo` or `/verif`, do not read `/verif`).  The sandbox has no network: build and test with `cd /tmp/mut_{pid} && CARGO_TARGET_DIR=/tmp/mut_{pid}/target cargo test --offline` (first build ~1 min).

Here is a semantic property of the crate that is supposed to hold:

{prop}
Your job: produce TWO different, independent source changes (each a separate small patch against the pristine worktree, touching different places / mechanisms) that each
 (1) make the crate VIOLATE this property,
 (2) still compile, and still pass the crate's existing test suite unchanged (`cargo test --offline` all green — run it and confirm; do not edit or delete tests),
 (3) are REALISTIC: the kind of slip a maintainer could make in a refactor or optimisation (an off-by-one, a dropped condition, a wrong constant, a swapped argument, a state flag not reset, an early return, a missing update on one path) — not sabotage that ordinary use would expose at once.  Prefer changes that need something SPECIFIC to manifest: a particular input shape or size, a rare branch, a particular interleaving or multi-step sequence of API calls, a fault at a particular point, or two cooperating sites that each look fine alone.
For each change also write a DEMONSTRATION: a small Rust test file (placed under `/tmp/mut_{pid}/tests/` as an integration test using only the public API of the crate, name it `demo_{pid.lower()}_1.rs` / `demo_{pid.lower()}_2.rs`) that FAILS with the change applied and PASSES on the pristine source.  Verify both directions yourself (git stash / git checkout to switch).  The demonstration must not depend on anything outside the crate and std (dev-dependencies already in Cargo.toml are fine).

Deliverables, in `/tmp/mut_{pid}/out/` (create it): `change1.diff`, `change2.diff` (output of `git diff` for the source change ONLY, without the demo file, each relative to the pristine checkout), `demo_{pid.lower()}_1.rs`, `demo_{pid.lower()}_2.rs`, and `notes.md` saying for each change: what it breaks, what it needs in order to manifest, the exact commands you ran and their outcome (existing tests green with the change; demo fails with the change, passes without).  At the end leave the worktree's tracked files PRISTINE (`git checkout -- . `; the `out/` directory and the demo files under `tests/` may stay untracked) and delete `/tmp/mut_{pid}/target` to save disk.
Final message: a short summary of the two changes and where the files are.""")
