#!/usr/bin/env python3
"""Package an evaluated seeded change into /verif/seeded/<id>/ (patch.diff, demonstration, meta.json).

  tools/package_seed.py <id> <patch.diff> <demo.rs> <change text> <needs text> <notes text> <seed_eval result json>...

Several result files (first evaluation, re-evaluation after strengthening) are merged: later ones override per check.
"""
import sys, os, json, shutil

ROOT = os.path.join(os.path.dirname(os.path.abspath(__file__)), "..")


def main():
    sid, patch, demo, change, needs, notes = sys.argv[1:7]
    results = sys.argv[7:]
    d = os.path.join(ROOT, "seeded", sid)
    os.makedirs(d, exist_ok=True)
    shutil.copy(patch, os.path.join(d, "patch.diff"))
    shutil.copy(demo, os.path.join(d, os.path.basename(demo)))
    verify, checks = {}, {}
    first_caught = None
    for r in results:
        j = json.load(open(r))
        if j.get("verify"):
            for k, v in j["verify"].items():
                verify.setdefault(k, v)
        if first_caught is None:
            first_caught = list(j.get("caught_by", []))
        for pid, c in j.get("checks", {}).items():
            checks[pid] = {"exit": c["exit"], "violations": c["violations"], "detail": [x[:700] for x in c.get("detail", [])],
                           "no_failing_input_found": any("no-failing-input-found" in f for f in c.get("first", []))}
    meta = {
        "id": sid,
        "breaks_property": sid.split("_")[0],
        "change": change,
        "needs_to_manifest": needs,
        "written_by": "fresh sub-agent given only the property text and a scratch worktree of /repo (no access to /verif)",
        "verified": verify,
        "what_i_ran": "tools/seed_eval.py: scratch worktree of /repo HEAD; demo passes on the pristine tree; patch applied; demo fails; existing `cargo test --offline` suite passes; then `PNG_REPO=<worktree> ./check <id>` (quick tier) for the listed properties; worktree removed",
        "caught_by": sorted(p for p, c in checks.items() if c["exit"] == 1),
        "caught_at_first_evaluation": first_caught,
        "checks_run": checks,
        "notes": notes,
    }
    json.dump(meta, open(os.path.join(d, "meta.json"), "w"), indent=1)
    print(sid, "caught_by", meta["caught_by"])


if __name__ == "__main__":
    main()
