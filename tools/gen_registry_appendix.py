#!/usr/bin/env python3
"""Rewrites Appendix H of DESIGN.md (between markers) from lean/registry.json and MANIFEST.json."""
import json, os, re
ROOT = os.path.join(os.path.dirname(os.path.abspath(__file__)), "..")
reg = json.load(open(os.path.join(ROOT, "lean", "registry.json")))
man = json.load(open(os.path.join(ROOT, "MANIFEST.json")))
claimed = {c["property_id"]: c for c in man["checks"]}
out = ["<!-- REGISTRY-BEGIN -->", "## Appendix H — As built: theorems registered per property (generated from `lean/registry.json`)", "",
       "`full` theorems are the property's obligations at full strength on the model; `partial` theorems carry an explicit excluding",
       "hypothesis and come with `counterexample` theorems (proved by evaluation) showing the exclusion is necessary on the code as it is or was;",
       "`assumptions` are the contract hypotheses about code outside image-png and the parts covered by the correspondence only.",
       "Every check additionally discharges the Tie A consistency theorems `" + ", ".join(t.split(".")[-1] for t in reg.get("_global", {}).get("theorems", [])) + "`.", ""]
for pid in sorted(k for k in reg if not k.startswith("_")):
    e = reg[pid]
    out.append("### %s%s" % (pid, "" if pid in claimed else " (not yet claimed)"))
    out.append("* module `%s`" % e["module"])
    out.append("* full (%d): %s" % (len(e["theorems"]), ", ".join("`%s`" % t.split(".", 2)[-1] for t in e["theorems"])))
    if e.get("partial"):
        out.append("* partial (%d): %s" % (len(e["partial"]), ", ".join("`%s`" % t.split(".", 2)[-1] for t in e["partial"])))
    if e.get("counterexamples"):
        out.append("* counterexamples (%d): %s" % (len(e["counterexamples"]), ", ".join("`%s`" % t.split(".", 2)[-1] for t in e["counterexamples"])))
    for a in e.get("assumptions", []):
        out.append("* assumes: " + a)
    out.append("")
out.append("<!-- REGISTRY-END -->")
text = "\n".join(out)
p = os.path.join(ROOT, "DESIGN.md")
s = open(p).read()
if "<!-- REGISTRY-BEGIN -->" in s:
    s = re.sub(r"<!-- REGISTRY-BEGIN -->.*<!-- REGISTRY-END -->", lambda _: text, s, flags=re.S)
else:
    s = s.rstrip("\n") + "\n\n" + text + "\n"
open(p, "w").write(s)
print("appendix H written for", len([k for k in reg if not k.startswith('_')]), "properties")
