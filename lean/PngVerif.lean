import PngVerif.Model.Filter
import PngVerif.Proofs.Filter
import PngVerif.Props.C14
import PngVerif.Props.C01
import PngVerif.Props.C03
