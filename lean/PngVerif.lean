import PngVerif.Model.Filter
import PngVerif.Proofs.Filter
import PngVerif.Props.C14
