import PngVerif.Driver.C14
import PngVerif.Driver.C01
import PngVerif.Driver.C08
import PngVerif.Driver.C15
import PngVerif.Driver.C20
import PngVerif.Driver.Framing
import PngVerif.Driver.Components
import PngVerif.Driver.C17
import PngVerif.Driver.C12
import PngVerif.Driver.Reader
import PngVerif.Driver.C06DataPath
import PngVerif.Driver.Lazy
/-!
`pngmodel`: line-protocol driver.  One case per input line, one canonical answer per output line,
`bad-op` for anything that does not parse (never a default).  The functions called here are the
definitions the theorems in `PngVerif/Props` are about.
-/
open Png Png.Driver

def answer (line : String) : String :=
  match line.trimAscii.toString.splitOn " " with
  | "c14" :: args => c14 args
  | "c01" :: args => c01 args
  | "c08" :: args => c08 args
  | "c15" :: args => c15 args
  | "c20" :: args => c20 args
  | "frm" :: args => frm args
  | "cmp" :: args => cmp args
  | "c17" :: args => c17 args
  | "c12" :: args => c12 args
  | "rdr" :: args => rdr args
  | "c06dp" :: args => c06dp args
  | "lazy" :: args => «lazy» args
  | _ => "bad-op"

partial def loop (hin hout : IO.FS.Stream) : IO Unit := do
  let line ← hin.getLine
  if line.isEmpty then return ()
  hout.putStrLn (answer line)
  hout.flush
  loop hin hout

def main : IO Unit := do loop (← IO.getStdin) (← IO.getStdout)
