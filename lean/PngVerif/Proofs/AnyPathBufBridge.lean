import PngVerif.Proofs.AnyPathBufStart
import PngVerif.Proofs.AnyPathReal
/-!
# From `WholeFrames` to C13 for an ARBITRARY fresh buffer of the assembling caller

`Proofs/AnyPathBridge.lean` (`anyPath_of_run`) reaches the reference of C13 (`refFrames`) through the results of
`Reader.run` on `Op.nextFrame p`, hence only for the fresh buffer `List.replicate need p`.  `WholeFrames` (the white-box
description of the reader `read_info` returns, `Proofs/AnyPathBufWhole.lean`) gives `refFrames` for EVERY fresh buffer
of at least the documented size:

* `AnyPathBufOk`, `anyPathBufOk_of_contracts`, `anyPathBufOk_real`: C13 (`asmRun_agrees`) from the reader `read_info`
  returns, as a property of `(cfg, t)`; it holds under the contracts `t.Ok` / `t.SnapIndep`, and for `Driver.realT`
  without any hypothesis;
* `anyPath_of_wholeFrames`: the composition.
-/
namespace Png.Reader
open Png Png.Framing Png.WellFormed Png.Driver

/-- **C13 from the reader `read_info` returns, for any fresh buffer, as a property of `(cfg, t)`**: on every input
    shorter than 4 GiB on which `read_info` succeeds, if the remaining frames all decode by whole-frame calls into the
    fresh buffer `fresh` (`refFrames … = some ref`), every interleaving of `next_frame`, `next_row`, `read_row`,
    `next_frame_info` assembled by `asmRun` with that fresh buffer has no problem and records, with index `k`, only
    `ref[k]` -/
def AnyPathBufOk (cfg : Cfg) (t : TCfg) : Prop :=
  ∀ (opts : Options) (limit : Nat) (flags : Flags) (input : Bytes), input.length < 2 ^ 32 →
    ∀ (r0 : R) (fresh : Bytes) (ref : List Bytes),
      step cfg t (R.init opts limit flags input input.length) .readInfo = (r0, .header) →
      refFrames cfg t fresh r0.remaining r0 = some ref →
      ∀ ops : List PathOp,
        (asmRun cfg t fresh (r0, Asm.init fresh) ops).2.problem = false ∧
        ∀ k px, (k, px) ∈ (asmRun cfg t fresh (r0, Asm.init fresh) ops).2.frames → ref[k]? = some px

/-- the contracts of C13 give it -/
theorem anyPathBufOk_of_contracts (cfg : Cfg) {t : TCfg} (ht : t.Ok) (hs : t.SnapIndep) : AnyPathBufOk cfg t := by
  intro opts limit flags input hlen r0 fresh ref h0 href ops
  obtain ⟨a1, a2, a3, a4⟩ := start_good cfg ht opts limit flags input input.length hlen h0
  exact asmRun_agrees cfg ht hs a1 a2 a3 a4 href ops

/-- the executable model's transformation has it without any contract hypothesis (the `Reader` model cannot tell
    `realT` from `realTK`, which satisfies the contracts) -/
theorem anyPathBufOk_real (cfg : Cfg) : AnyPathBufOk cfg realT := by
  intro opts limit flags input hlen r0 fresh ref h0 href ops
  have hk0 := ki_init opts limit flags input input.length
  have hk : KI r0 := ki_of_eq h0 (step_ki cfg realT _ .readInfo hk0)
  have h0' : step cfg realTK (R.init opts limit flags input input.length) .readInfo = (r0, .header) := by
    rw [step_agree realT_agree cfg _ hk0]; exact h0
  have href' : refFrames cfg realTK fresh r0.remaining r0 = some ref := by
    rw [refFrames_agree realT_agree cfg fresh _ r0 hk]; exact href
  have := anyPathBufOk_of_contracts cfg realTK_ok realTK_snapIndep opts limit flags input hlen r0 fresh ref h0' href' ops
  rw [asmRun_agree realT_agree cfg fresh ops (r0, Asm.init fresh) hk] at this
  exact this

/-- **`WholeFrames`, composed with C13.**  `read_info` succeeds on an input shorter than 4 GiB and returns the reader
    `r0` with `ds.length` frames remaining, all of them to come by whole-frame calls as `WholeFrames` says.  Then for
    EVERY fresh buffer of at least `need` bytes and EVERY interleaving `ops` of the four calls, the assembling caller has
    no problem and every frame it records with index `k` is `specFrame` of frame `k`'s own data computed on `fresh`. -/
theorem anyPath_of_wholeFrames (cfg : Cfg) {t : TCfg} (hap : AnyPathBufOk cfg t) (opts : Options) (limit : Nat)
    (flags : Flags) (input : Bytes) (hlen : input.length < 2 ^ 32) (r0 : R) (need : Nat)
    (ds : List (OutputInfo × Header × Bytes)) (fresh : Bytes) (hfresh : need ≤ fresh.length)
    (h0 : step cfg t (R.init opts limit flags input input.length) .readInfo = (r0, .header))
    (hrem : r0.remaining = ds.length) (hw : WholeFrames cfg t need r0 ds) (ops : List PathOp) :
    (asmRun cfg t fresh (r0, Asm.init fresh) ops).2.problem = false ∧
    ∀ k px, (k, px) ∈ (asmRun cfg t fresh (r0, Asm.init fresh) ops).2.frames →
      ∃ d, ds[k]? = some d ∧ specFrame d.2.1 d.2.2 fresh = some px := by
  obtain ⟨bs, hbs, _, hall⟩ := hw.refFrames fresh hfresh ds r0
  obtain ⟨a, b⟩ := hap opts limit flags input hlen r0 fresh bs h0 (by rw [hrem]; exact hbs) ops
  exact ⟨a, fun k px hk => hall k px (b k px hk)⟩

/-- the descriptors of the frames after the first, by index -/
theorem descOf_getElem? (h : Header) (frames : List (FrameControl × List Bytes × Bytes)) (k : Nat)
    (d : OutputInfo × Header × Bytes) (hd : (frames.map (descOf h))[k]? = some d) :
    ∃ fr, frames[k]? = some fr ∧ d.2.1 = h.frame fr.1 ∧ d.2.2 = fr.2.2 := by
  rw [List.getElem?_map] at hd
  cases hf : frames[k]? with
  | none => rw [hf] at hd; cases hd
  | some fr =>
    rw [hf] at hd
    simp only [Option.map_some, Option.some.injEq] at hd
    subst hd
    exact ⟨fr, rfl, rfl, rfl⟩

end Png.Reader
