import PngVerif.Proofs.RoundTripAnimSpec
import PngVerif.Props.C09
import PngVerif.Proofs.RoundTripDecode
/-!
# C03 end to end for animations: the composition of the encoder model with the decoder model

`post_accepted`: behind the `acTL` the decoder reads `PLTE`, `tRNS` and the text chunks `encode_header` writes
(`chain_of_accepts`, `accepts_PLTE` … of `Proofs/RoundTripMeta.lean` / `RoundTripKinds.lean`).
`anim_encode_decode_core` / `anim_default_encode_decode_core`: the file `anim_run` / `anim_default_run` leave is
`wellFormedApng` / `wellFormedApngDefault` (`animBytes_eq`), its frames satisfy the hypotheses of `C09.C09_frames` /
`C09.C09_default_image`, and the results these promise (`FramesOk`: `specFrame` of each frame) are the data given for each
frame (`framesOk_results`).
-/
namespace Png.RoundTrip
open Png Png.Val Png.Enc Png.Framing Png.Reader Png.WellFormed

/-! ## the chunks behind `acTL` -/

/-- what the decoder needs of `PLTE`, `tRNS` and the text chunks: text chunks it accepts, bodies that fit the length field -/
structure PostOk (cfg : Framing.Cfg) (ignoreText : Bool) (c : Enc.Cfg) : Prop where
  texts : ∀ ch ∈ (Enc.textPrefix c.texts).1, TextChunkOk cfg ignoreText ch.ty ch.data
  len : ∀ ch ∈ postChunks c, ch.data.length < 2 ^ 32

/-- a sufficient limit for them: three times the bytes of their bodies -/
def postCost (c : Enc.Cfg) : Nat := listCost (iccpExtra 0) (postChunks c)

theorem post_accepted (cfg : Framing.Cfg) (opts : Options) (P : Nat) (c : Enc.Cfg) (need : Nat) (hm : PostOk cfg opts.ignoreText c)
    (d0 : Dec) (i0 : Info) (hr0 : Ready d0 i0 opts) (hpal0 : i0.palette = none)
    (hlimit : need + listCost (iccpExtra P) (postChunks c) ≤ d0.limit) :
    ∃ dA, AncChunksG cfg d0 (pairs (postChunks c)) dA ∧ need ≤ dA.limit := by
  have hmem : ∀ ch, ch ∈ Enc.optChunk tyPLTE c.palette ∨ ch ∈ Enc.optChunk tyTRNS c.trns ∨
      ch ∈ (Enc.textPrefix c.texts).1 → ch ∈ postChunks c := by
    intro ch h
    simp only [postChunks, List.mem_append]
    grind
  have hcost : listCost (iccpExtra P) (postChunks c) = listCost (iccpExtra P) (Enc.optChunk tyPLTE c.palette) +
      listCost (iccpExtra P) (Enc.optChunk tyTRNS c.trns ++ (Enc.textPrefix c.texts).1) := by
    simp only [postChunks, listCost_append]; omega
  rw [hcost] at hlimit
  have hstage2 : ∃ d2 i2, AncChunksG cfg d0 (pairs (Enc.optChunk tyPLTE c.palette)) d2 ∧ Ready d2 i2 opts ∧
      d0.limit ≤ d2.limit + listCost (iccpExtra P) (Enc.optChunk tyPLTE c.palette) := by
    cases hp : c.palette with
    | none => exact ⟨d0, i0, .nil d0, hr0, Nat.le_add_right _ _⟩
    | some pal =>
      have hlen : pal.length < 2 ^ 32 := hm.len ⟨tyPLTE, pal⟩ (hmem _ (Or.inl (by simp [hp, Enc.optChunk])))
      have hne : ¬ (tyPLTE = tyICCP) := by decide
      have hc : listCost (iccpExtra P) (Enc.optChunk tyPLTE (some pal)) = 3 * pal.length := by
        simp [Enc.optChunk, listCost, chunkCost, iccpExtra, hne]
      rw [hp, hc] at hlimit
      obtain ⟨d2, i2, hs2, hr2, hl2, _⟩ := step_of_accepts cfg (typeOk_of_mem (t := PLTE) (by simp)) hlen
        (accepts_PLTE cfg opts pal) hr0 hpal0 (by omega) (by omega)
      refine ⟨d2, i2, ?_, hr2, by rw [hc]; omega⟩
      have : pairs (Enc.optChunk tyPLTE (some pal)) = [(PLTE, pal)] := by
        simp only [pairs, Enc.optChunk, List.map_cons, List.map_nil, ty_eqs.2.1]
      rw [this]
      exact .cons hs2 (.nil d2)
  obtain ⟨d2, i2, hc2, hr2, hl2⟩ := hstage2
  obtain ⟨d3, i3, hc3, hr3, hl3, _⟩ := chain_of_accepts cfg opts (iccpExtra P)
    (Enc.optChunk tyTRNS c.trns ++ (Enc.textPrefix c.texts).1)
    (fun ch hch => by
      rcases List.mem_append.mp hch with h | h
      · exact inert_post cfg opts P ch (hm.len ch (hmem ch (Or.inr (Or.inl h))))
          (Or.inl (by rw [Enc.optChunk_ty h]; exact ty_eqs.2.2.2.2.1))
      · exact inert_post cfg opts P ch (hm.len ch (hmem ch (Or.inr (Or.inr h)))) (Or.inr (hm.texts ch h)))
    d2 i2 hr2 (by omega)
  refine ⟨d3, ?_, by omega⟩
  have : postChunks c = Enc.optChunk tyPLTE c.palette ++ (Enc.optChunk tyTRNS c.trns ++ (Enc.textPrefix c.texts).1) := by
    simp only [postChunks, List.append_assoc]
  rw [this, pairs_append]
  exact AncChunksG.append hc2 hc3

theorem noActl_post (cfg : Framing.Cfg) (ig : Bool) (c : Enc.Cfg) (hm : PostOk cfg ig c) : NoActl (pairs (postChunks c)) := by
  intro x hx
  simp only [pairs, List.mem_map] at hx
  obtain ⟨ch, hch, rfl⟩ := hx
  simp only [postChunks, List.mem_append] at hch
  show ch.ty ≠ acTL
  rcases hch with (h | h) | h
  · rw [Enc.optChunk_ty h]; decide +kernel
  · rw [Enc.optChunk_ty h]; decide +kernel
  · rcases (hm.texts ch h).1 with h1 | h1 | h1 <;> rw [h1] <;> decide +kernel

/-- the decoder right behind the `acTL` chunk that follows `IHDR` -/
theorem ready_actlAfter (cfg : Framing.Cfg) (opts : Options) (limit : Nat) (h : Header) (n plays : Nat) (hn : n < 2 ^ 32)
    (hp : plays < 2 ^ 32) :
    Ready (actlAfter (afterIhdr cfg opts limit h) n plays) { h.info with actl := some (n, plays) } opts ∧
    (actlAfter (afterIhdr cfg opts limit h) n plays).limit = limit := by
  obtain ⟨_, hi⟩ := ancStep_acTL cfg (afterIhdr cfg opts limit h) h.info n plays hn hp rfl rfl
    (by show 8 ≤ Params.chunkBufferSize; decide)
  exact ⟨⟨hi, by show 0 < Params.chunkBufferSize; decide, rfl⟩, rfl⟩

/-- the chunks behind `acTL` are read; `need` bytes of the limit are left -/
theorem post_accepted_actl (cfg : Framing.Cfg) (opts : Options) (limit : Nat) (c : Enc.Cfg) (n plays : Nat) (hn : n < 2 ^ 32)
    (hp : plays < 2 ^ 32) (need : Nat) (hm : PostOk cfg opts.ignoreText c) (hlimit : need + postCost c ≤ limit) :
    ∃ dA, AncChunksG cfg (actlAfter (afterIhdr cfg opts limit (headerOf c)) n plays) (pairs (postChunks c)) dA ∧
      need ≤ dA.limit := by
  obtain ⟨hr, hl⟩ := ready_actlAfter cfg opts limit (headerOf c) n plays hn hp
  exact post_accepted cfg opts 0 c need hm _ _ hr rfl (by rw [hl]; exact hlimit)

/-! ## the composition -/

theorem valid_of_anim {c : Enc.Cfg} {n plays : Nat} {f0 : FC} (hc : c.Anim n plays f0) : (headerOf c).Valid :=
  ⟨Nat.pos_of_ne_zero hc.wpos, hc.wlt, Nat.pos_of_ne_zero hc.hpos, hc.hlt,
    (legal_iff c.color c.depth).mpr ⟨hc.color, hc.depth, hc.comb⟩⟩

/-- the file the encoder model leaves in a sink that never fails -/
def encodedAnim (compress : Bytes → Bytes) (choose : Bytes → Bytes → FilterType) (c : Enc.Cfg) (frames : List Frame) : Bytes :=
  (runWriter (scanCodec compress choose) c {} (animOps frames) .finish).state.sink.bytes

/-- **the composition for an animation whose first frame is the `IDAT` image** -/
theorem anim_encode_decode_core (cfg : Framing.Cfg) (t : TCfg) (f : Flags) (opts : Options) (limit : Nat)
    (compress : Bytes → Bytes) (choose : Bytes → Bytes → FilterType) (c : Enc.Cfg) (n plays : Nat) (f0 : FC)
    (fr0 : Frame) (frs : List Frame) (p0 : UInt8) (ps : List UInt8) (q : UInt8)
    (hI : cfg.InflateOk) (hcrc : ∀ b, cfg.crc b = crcOfList b) (ht : t.IsIdentity f)
    (hc : c.Anim n plays f0) (hsep : c.sepDefImg = false) (hmd : preChunks c.md = []) (hm : PostOk cfg opts.ignoreText c)
    (hn : n = frs.length + 1) (h0 : FirstOk c f0 fr0)
    (hl : LaterOk (scanCodec compress choose) c { fcOf c.width c.height f0 fr0.pre with seq := 1 } frs)
    (hsz : c.rowLen * c.height < 2 ^ 64)
    (hnil : ∀ o, cfg.inflate [] ≠ some (o, true))
    (hinf0 : cfg.inflate (compress (rawOf choose c fr0.data)) = some (rawOf choose c fr0.data, true))
    (hinf : ∀ x ∈ decFrames compress choose c { fcOf c.width c.height f0 fr0.pre with seq := 1 } frs,
      cfg.inflate (compress x.2.2) = some (x.2.2, true))
    (hlimit : c.rowLen + lineSum c (fcOf c.width c.height f0 fr0.pre) frs + postCost c ≤ limit)
    (hps : ps.length = frs.length) :
    (Reader.run cfg t
      (R.init opts limit f (encodedAnim compress choose c (fr0 :: frs)) (encodedAnim compress choose c (fr0 :: frs)).length)
      (.readInfo :: .nextFrame p0 :: (ps.map Op.nextFrame ++ [.nextFrame q]))).2 =
      .header :: .frame { width := c.width, height := c.height, color := c.color, depth := c.depth,
                          lineSize := c.rowLen } fr0.data ::
        (frameResults c (fcOf c.width c.height f0 fr0.pre) frs ps ++ [.err .parameter "PolledAfterEndOfImage"]) := by
  have hC := crcOk_of_eq cfg hcrc
  obtain ⟨rs, _, _, _, _, hlog⟩ := anim_run (scanCodec compress choose) c n plays f0 hc hsep fr0 frs hn h0 hl hsz
  obtain ⟨hin', hfine', hseq'⟩ := fcOf_facts (W := c.width) (H := c.height) fr0.pre f0 hc.rect hc.fine (fun o ho => (h0.pre o ho).2)
  have hseq0 : (fcOf c.width c.height f0 fr0.pre).seq = 0 := by rw [hseq', hc.seq0]
  have hfile : encodedAnim compress choose c (fr0 :: frs) = _ :=
    ((bytes_of_fullLog _ _ hlog).1).trans
      (animBytes_eq cfg hcrc compress choose c n plays hc.actl hmd f0 fr0 frs hn hseq0)
  rw [hfile]
  have hcov := h0.cover
  generalize hf' : fcOf c.width c.height f0 fr0.pre = f' at *
  have hsub : c.sub f' = c := sub_cover c f' hcov.2.2.1 hcov.2.2.2
  have hlen0 : fr0.data.length = (c.sub f').rowLen * f'.h := by rw [hsub, hcov.2.2.2]; exact h0.len
  have hzne : compress (rawOf choose c fr0.data) ≠ [] := by
    intro z0; rw [z0] at hinf0; exact hnil _ hinf0
  obtain ⟨z1, z2, z3⟩ := idat_cut _ hzne
  have hdl := decFrames_length compress choose c frs { f' with seq := 1 }
  obtain ⟨dA, hanc, hlim⟩ := post_accepted_actl cfg opts limit c n plays hc.nlt hc.plt
    (c.rowLen + lineSum c f' frs) hm hlimit
  have hframe0 : (headerOf c).frame (fcDec f') = headerOf c := by rw [frame_dec, hsub]
  have hls := headerOf_lineSize (c := c) hc.depth
  obtain ⟨buf0, rs', hrun, hspec, _, hfo⟩ :=
    C09.C09_frames cfg t f opts limit (headerOf c) plays (pairs (postChunks c)) dA
      (decFrames compress choose c { f' with seq := 1 } frs) (fcDec f')
      (chunksOf maxIdatChunkLen (compress (rawOf choose c fr0.data))) (rawOf choose c fr0.data) p0 ps q
      hI hC ht (valid_of_anim hc) hc.plt (by rw [hdl, ← hn]; exact hc.nlt)
      (by rw [hdl, ← hn]; exact hanc) (noActl_post cfg _ c hm) (fcOk_dec hin' hfine') z1 z2 (by rw [z3]; exact hinf0)
      (by rw [hframe0]; exact rawOk_encode choose c hc.depth fr0.data h0.len)
      (frameOk_dec cfg compress choose c hc.depth hnil frs _ hin' hfine' hl hinf)
      (by
        have := seq_sum_lt compress choose c frs { f' with seq := 1 } (by show (1 : Nat) < 2 ^ 32; decide) hl
        exact this)
      (by rw [hls]; exact hsz)
      (by
        rw [hframe0, hls, lineSum_dec compress choose c hc.depth, lineSum_setSeq]
        exact hlim)
      (by rw [hdl]; exact hps)
  have hrs := framesOk_results compress choose c hc.depth frs _ ps rs' hl hfo
  rw [frameResults_setSeq] at hrs
  have hspec' := specFrame_encode choose c hc.depth f' fr0.data hlen0 (headerOf c).bufferSize p0
  rw [hsub] at hspec'
  rw [hspec'] at hspec
  have hB : (headerOf c).bufferSize = c.rowLen * c.height := by
    show (headerOf c).lineSize * c.height = _
    rw [hls]
  cases hspec
  rw [hrun, hrs, hframe0, hls, hB, h0.len, Nat.sub_self]
  simp only [List.replicate_zero, List.append_nil]
  rw [show (fcDec f').width = c.width from hcov.2.2.1, show (fcDec f').height = c.height from hcov.2.2.2]
  rfl

/-- **the composition for an animation with a separate default image**: the first `next_frame` returns the default image -/
theorem anim_default_encode_decode_core (cfg : Framing.Cfg) (t : TCfg) (f : Flags) (opts : Options) (limit : Nat)
    (compress : Bytes → Bytes) (choose : Bytes → Bytes → FilterType) (c : Enc.Cfg) (n plays : Nat) (f0 : FC)
    (fr0 : Frame) (frs : List Frame) (p0 : UInt8) (ps : List UInt8) (q : UInt8)
    (hI : cfg.InflateOk) (hcrc : ∀ b, cfg.crc b = crcOfList b) (ht : t.IsIdentity f)
    (hc : c.Anim n plays f0) (hsep : c.sepDefImg = true) (hmd : preChunks c.md = []) (hm : PostOk cfg opts.ignoreText c)
    (hn : n = frs.length) (h0 : FirstOk c f0 fr0)
    (hl : LaterOk (scanCodec compress choose) c (fcOf c.width c.height f0 fr0.pre) frs)
    (hsz : c.rowLen * c.height < 2 ^ 64)
    (hnil : ∀ o, cfg.inflate [] ≠ some (o, true))
    (hinf0 : cfg.inflate (compress (rawOf choose c fr0.data)) = some (rawOf choose c fr0.data, true))
    (hinf : ∀ x ∈ decFrames compress choose c (fcOf c.width c.height f0 fr0.pre) frs,
      cfg.inflate (compress x.2.2) = some (x.2.2, true))
    (hlimit : c.rowLen + lineSum c (fcOf c.width c.height f0 fr0.pre) frs + postCost c ≤ limit)
    (hps : ps.length = frs.length) :
    (Reader.run cfg t
      (R.init opts limit f (encodedAnim compress choose c (fr0 :: frs)) (encodedAnim compress choose c (fr0 :: frs)).length)
      (.readInfo :: .nextFrame p0 :: (ps.map Op.nextFrame ++ [.nextFrame q]))).2 =
      .header :: .frame { width := c.width, height := c.height, color := c.color, depth := c.depth,
                          lineSize := c.rowLen } fr0.data ::
        (frameResults c (fcOf c.width c.height f0 fr0.pre) frs ps ++ [.err .parameter "PolledAfterEndOfImage"]) := by
  have hC := crcOk_of_eq cfg hcrc
  obtain ⟨rs, _, _, _, _, hlog⟩ := anim_default_run (scanCodec compress choose) c n plays f0 hc hsep fr0 frs hn h0 hl hsz
  obtain ⟨hin', hfine', hseq'⟩ := fcOf_facts (W := c.width) (H := c.height) fr0.pre f0 hc.rect hc.fine (fun o ho => (h0.pre o ho).2)
  have hseq0 : (fcOf c.width c.height f0 fr0.pre).seq = 0 := by rw [hseq', hc.seq0]
  have hfile : encodedAnim compress choose c (fr0 :: frs) = _ :=
    ((bytes_of_fullLog _ _ hlog).1).trans
      (animDefaultBytes_eq cfg hcrc compress choose c n plays hc.actl hmd f0 fr0 frs hn hseq0)
  rw [hfile]
  generalize hf' : fcOf c.width c.height f0 fr0.pre = f' at *
  have hzne : compress (rawOf choose c fr0.data) ≠ [] := by
    intro z0; rw [z0] at hinf0; exact hnil _ hinf0
  obtain ⟨z1, z2, z3⟩ := idat_cut _ hzne
  have hdl := decFrames_length compress choose c frs f'
  obtain ⟨dA, hanc, hlim⟩ := post_accepted_actl cfg opts limit c n plays hc.nlt hc.plt
    (c.rowLen + lineSum c f' frs) hm hlimit
  have hls := headerOf_lineSize (c := c) hc.depth
  obtain ⟨buf0, rs', hrun, hspec, _, hfo⟩ :=
    C09.C09_default_image cfg t f opts limit (headerOf c) plays (pairs (postChunks c)) dA
      (decFrames compress choose c f' frs)
      (chunksOf maxIdatChunkLen (compress (rawOf choose c fr0.data))) (rawOf choose c fr0.data) p0 ps q
      hI hC ht (valid_of_anim hc) hc.plt (by rw [hdl, ← hn]; exact hc.nlt)
      (by rw [hdl, ← hn]; exact hanc) (noActl_post cfg _ c hm) z1 z2 (by rw [z3]; exact hinf0)
      (rawOk_encode choose c hc.depth fr0.data h0.len)
      (frameOk_dec cfg compress choose c hc.depth hnil frs _ hin' hfine' hl hinf)
      (by
        have := seq_sum_lt compress choose c frs f' (by rw [hseq0]; decide) hl
        rw [hseq0] at this
        omega)
      (by rw [hls]; exact hsz)
      (by rw [hls, lineSum_dec compress choose c hc.depth]; exact hlim)
      (by rw [hdl]; exact hps)
  have hrs := framesOk_results compress choose c hc.depth frs _ ps rs' hl hfo
  rw [specPixels_encode choose c hc.depth fr0.data h0.len] at hspec
  cases hspec
  rw [hrun, hrs, hls]
  rfl

end Png.RoundTrip
