import PngVerif.Proofs.LazyRefineAdvance
/-!
# `Reader` refines `Lazy`, part 6: the public calls

One lemma per call of `Reader.step` (`next_row` / `read_row`, `next_frame`, `next_frame_info`, `finish`): given the
simulation relation `SimI`, the `Lazy` invariant `Good` and the fact that the decoder keeps the `IHDR` fields
(`CorePred`), a call whose answer the `Lazy` model speaks about (`okRes`) is answered by the `Lazy` model with the
skeleton of that answer (`resMatch`), and the relation holds again.
-/
namespace Png.LazyRefine
open Png Png.Framing Png.WellFormed Png.Reader

/-! ## to the end of the file -/

theorem dataEvs_not_end : ∀ {pend : List (Ev × Bytes)}, DataEvs pend → ∀ e ∈ pend, e.1 ≠ .imageEnd := by
  intro pend h
  induction h with
  | last dl => intro e he; simp only [List.mem_cons, List.mem_nil_iff, or_false] at he; subst he; simp
  | more ev data rest hm hr ih =>
    intro e he
    simp only [List.mem_cons] at he
    rcases he with rfl | he
    · intro h; simp only at h; subst h; cases hm
    · exact ih e he

/-- `read_until_end_of_input` along a trace that ends with `ImageEnd` -/
theorem readUntilEndOfInput_trace {cfg : Cfg} {P : Dec → Prop} {d' : Dec} {b' : Bytes} {dl : Bytes} :
    ∀ (evs : List (Ev × Bytes)) (r : R) (fuel : Nat), evs.length < fuel → r.dec.out = [] → (∀ e ∈ evs, e.1 ≠ .imageEnd) →
      Trace cfg P r.dec (avail r) (evs ++ [(.imageEnd, dl)]) d' b' →
      ∃ r', readUntilEndOfInput cfg fuel r = (r', .ok ()) ∧ After r d' b' r' ∧ r'.dec.out = [] := by
  intro evs
  induction evs with
  | nil =>
    intro r fuel hf ho _ ht
    obtain ⟨r1, hn1, hf1, ho1, _, hr1⟩ := trace_head rfl rfl ho ht
    obtain ⟨hd1, hb1⟩ := trace_nil hr1
    refine ⟨r1, ?_, ⟨hf1, hd1.symm, hb1.symm⟩, ho1⟩
    cases fuel with
    | zero => omega
    | succ fuel => rw [readUntilEndOfInput, hn1]
  | cons x evs ih =>
    intro r fuel hf ho hne ht
    obtain ⟨ev, data⟩ := x
    have hev : ev ≠ .imageEnd := hne (ev, data) (by simp)
    obtain ⟨r1, hn1, hf1, ho1, _, hr1⟩ := trace_head rfl rfl ho ht
    cases fuel with
    | zero => omega
    | succ fuel =>
      obtain ⟨r', hr', ha', ho'⟩ := ih r1 fuel (by simp at hf; omega) ho1 (fun e he => hne e (by simp [he])) hr1
      refine ⟨r', ?_, ⟨hf1.trans ha'.frame, ha'.dec, ha'.avail⟩, ho'⟩
      rw [readUntilEndOfInput, hn1]
      cases ev with
      | imageEnd => exact absurd rfl hev
      | _ => exact hr'

/-! ## the relation and the fields no call looks at -/

/-- the position as a `Pos`, whatever `Where` says -/
theorem Where.pos {cfg : Cfg} {G : List Header} {e : Lazy.Env} {L : Info → Nat} {i : Info} {r : R} {s : Lazy.St}
    (h : Where cfg G e L i r s) (hg : Lazy.Good e s) : ∃ dEnd bEnd, Pos cfg i r s.src dEnd bEnd := by
  cases h with
  | inFrame dEnd bEnd _ hpos _ _ => exact ⟨dEnd, bEnd, hpos⟩
  | atEnd hend _ => exact ⟨r.dec, avail r, .after rfl rfl (hg.inv.src_none (hg.inv.end_caf hend))⟩

/-- the position after a call that stayed in the frame -/
theorem Where.keep {cfg : Cfg} {G : List Header} {e : Lazy.Env} {L : Info → Nat} {i : Info} {r r' : R} {s s' : Lazy.St}
    (h : Where cfg G e L i r s) (hg' : Lazy.Good e s') (hfi : s'.fi = s.fi) (hend : s'.atEnd = s.atEnd)
    (hp : ∀ dEnd bEnd, Pos cfg i r s.src dEnd bEnd → Pos cfg i r' s'.src dEnd bEnd) (hg : Lazy.Good e s) :
    Where cfg G e L i r' s' := by
  cases h with
  | inFrame dEnd bEnd he hpos hto htail =>
    exact .inFrame dEnd bEnd (hend.trans he) (hp _ _ hpos) hto (by rw [hfi]; exact htail)
  | atEnd he hav =>
    have hsn : s.src = none := hg.inv.src_none (hg.inv.end_caf he)
    have hsn' : s'.src = none := hg'.inv.src_none (hg'.inv.end_caf (hend.trans he))
    refine .atEnd (hend.trans he) ?_
    cases hp r.dec (avail r) (.after rfl rfl hsn) with
    | inData pend hev htr hs => rw [hsn'] at hs; cases hs
    | after hd hb _ => rw [hb]; exact hav

theorem pb_none_dec (r : R) : ({ r with pendingBuf := none } : R).dec = r.dec := rfl

/-- forgetting the buffer of an interrupted `next_frame` -/
theorem SimI.clearPending {cfg : Cfg} {G : List Header} {e : Lazy.Env} {L : Info → Nat} {f : Flags} {i : Info} {r : R} {s : Lazy.St}
    (h : SimI cfg G e L f i r s) (pb : Option Bytes) : SimI cfg G e L f i { r with pendingBuf := pb } s := by
  obtain ⟨a, b, c, d, f', g, k, fl⟩ := h
  refine ⟨a, b.congr rfl rfl rfl rfl rfl rfl rfl rfl, CurRel.congr c rfl rfl rfl, ?_, f', g, k, fl⟩
  cases d with
  | inFrame dEnd bEnd he hpos hto htail => exact .inFrame dEnd bEnd he (hpos.congr rfl rfl) hto htail
  | atEnd he hav => exact .atEnd he hav

/-! ## results -/

theorem scanlines_eq_scan (g : Header) : g.scanlines = scan g.interlaced g.width g.height := rfl

theorem resMatch_row {G : List Header} {i : Info} {r : R} {s s' : Lazy.St} {res : Reader.Res} {lres : Lazy.Res}
    (hgeo : GeoAt G i r s) (h : RowMatch i r s s' res lres) : resMatch G res lres = true := by
  obtain ⟨g, g1, g2, g3, g4⟩ := hgeo
  cases h with
  | noRow _ _ => rfl
  | noMore _ => rfl
  | row ii out idx hcur hs hidx hadv =>
    simp only [resMatch, g1, scanlines_eq_scan, descIn, g2, g3, g4, hidx, beq_self_eq_true]

theorem resMatch_frame {G : List Header} {i : Info} {r1 : R} {s1 : Lazy.St} {res : Reader.Res} {lres : Lazy.Res}
    (hgeo : GeoAt G i r1 s1) (h : FrameMatch r1 s1 res lres) : resMatch G res lres = true := by
  obtain ⟨g, g1, g2, g3, g4⟩ := hgeo
  cases h with
  | noMore => rfl
  | frame oi buf w hw hh => simp [resMatch, g1, hw, hh, g2, g3]

/-! ## `next_row` / `next_interlaced_row` / `read_row` -/

/-- a row-level call `f` that is simulated by `Lazy.nextRow` keeps the relation -/
theorem rowCall_op (cfg : Cfg) (G : List Header) (e : Lazy.Env) (hv : e.Valid) (L : Info → Nat) (f : Flags) (i : Info) (r : R) (s : Lazy.St)
    (hS : SimI cfg G e L f i r s) (hg : Lazy.Good e s) (r' : R) (res : Reader.Res)
    (hsim : ∀ dEnd bEnd, Pos cfg i r s.src dEnd bEnd → ∃ s' lres, Lazy.nextRow s = (s', lres) ∧
      Pos cfg i r' s'.src dEnd bEnd ∧ Cnt i r' s' ∧ CurRel i r' s' ∧ RowKeep r r' s s' ∧ RowMatch i r s s' res lres) :
    resMatch G res (Lazy.step e s .nextRow).2 = true ∧ SimI cfg G e L f i r' (Lazy.step e s .nextRow).1 := by
  obtain ⟨dEnd0, bEnd0, hpos0⟩ := hS.wh.pos hg
  obtain ⟨s', lres, hrun, hpos', hc', hcr', hk, hm⟩ := hsim dEnd0 bEnd0 hpos0
  have hg' : Lazy.Good e (Lazy.step e s .nextRow).1 := (Lazy.step_refines e hv s hg .nextRow).1
  have hst : Lazy.step e s .nextRow = (s', lres) := hrun
  rw [hst] at hg' ⊢
  refine ⟨resMatch_row hS.geo hm, hS.il, hc', hcr', ?_, ?_, ?_, hk.env.isReader.trans hS.rd,
    hk.env.flags.trans hS.flags⟩
  · refine hS.wh.keep hg' hk.fi hk.atEnd (fun dEnd bEnd hpos => ?_) hg
    obtain ⟨s'', lres'', hrun'', hpos'', _⟩ := hsim dEnd bEnd hpos
    rw [hrun] at hrun''
    cases hrun''
    exact hpos''
  · obtain ⟨g, g1, g2, g3, g4⟩ := hS.geo
    exact ⟨g, by rw [hk.fi]; exact g1, by rw [hk.width]; exact g2, by rw [hk.height]; exact g3, g4⟩
  · show s'.finished = r'.finished
    rw [hk.finished, hk.env.finished]; exact hS.fin

/-- **`next_row` / `next_interlaced_row`** as an operation of `Reader.step` -/
theorem nextRow_op (cfg : Cfg) (t : TCfg) (hts : CreateSafe t) (G : List Header) (e : Lazy.Env) (hv : e.Valid)
    (L : Info → Nat) (f : Flags) (i : Info)
    (r : R) (s : Lazy.St) (hS : SimI cfg G e L f i r s) (hg : Lazy.Good e s)
    (hok : okRes (step cfg t r .nextRow).2 = true) :
    resMatch G (step cfg t r .nextRow).2 (Lazy.step e s .nextRow).2 = true ∧
      SimI cfg G e L f i (step cfg t r .nextRow).1 (Lazy.step e s .nextRow).1 := by
  have hst : step cfg t r .nextRow = nextInterlacedRow cfg t { r with pendingBuf := none } := by
    show (if !r.isReader then _ else nextInterlacedRow cfg t { r with pendingBuf := none }) = _
    simp [hS.rd]
  rw [hst] at hok ⊢
  have hS0 := hS.clearPending none
  cases hx : nextInterlacedRow cfg t { r with pendingBuf := none } with
  | mk r' res =>
    rw [hx] at hok
    exact rowCall_op cfg G e hv L f i _ s hS0 hg r' res (fun dEnd bEnd hpos =>
      nextInterlacedRow_sim cfg t hts i dEnd bEnd _ s hpos hS0.cnt hS0.cur r' res hx hok)

/-- **`read_row`** with a buffer of the documented size as an operation of `Reader.step` -/
theorem readRow_op (cfg : Cfg) (t : TCfg) (hts : CreateSafe t) (G : List Header) (e : Lazy.Env) (hv : e.Valid)
    (L : Info → Nat) (f : Flags) (i : Info)
    (r : R) (s : Lazy.St) (hS : SimI cfg G e L f i r s) (hg : Lazy.Good e s)
    (hok : okRes (step cfg t r .readRow).2 = true) :
    resMatch G (step cfg t r .readRow).2 (Lazy.step e s .nextRow).2 = true ∧
      SimI cfg G e L f i (step cfg t r .readRow).1 (Lazy.step e s .nextRow).1 := by
  have hi : infoOf r = some i := hS.cnt.info
  have hst : step cfg t r .readRow = readRow cfg t { r with pendingBuf := none } (outLineSize t i r.flags i.width) := by
    show (if !r.isReader then _ else (match infoOf r with
      | none => (r, Res.panic "info().unwrap()")
      | some i => readRow cfg t { r with pendingBuf := none } (outLineSize t i r.flags i.width))) = _
    simp [hS.rd, hi]
  rw [hst] at hok ⊢
  have hS0 := hS.clearPending none
  cases hx : readRow cfg t { r with pendingBuf := none } (outLineSize t i r.flags i.width) with
  | mk r' res =>
    rw [hx] at hok
    exact rowCall_op cfg G e hv L f i _ s hS0 hg r' res (fun dEnd bEnd hpos =>
      readRow_sim cfg t hts i dEnd bEnd _ s _ hpos hS0.cnt hS0.cur r' res hx hok)

/-! ## `next_frame` -/

/-- `next_frame` once the reader stands in the frame's data keeps the relation -/
theorem frameCall_op (cfg : Cfg) (t : TCfg) (hts : CreateSafe t) (G : List Header) (e : Lazy.Env) (L : Info → Nat)
    (f : Flags) (i : Info)
    (r1 : R) (s1 : Lazy.St) (buf : Bytes) (hS : SimI cfg G e L f i r1 s1) (hg : Lazy.Good e s1)
    (r' : R) (res : Reader.Res) (buf' : Bytes) (hx : Reader.frameInto cfg t r1 buf = (r', res, buf'))
    (hok : okRes res = true) :
    resMatch G res (Lazy.frameInto e s1).2 = true ∧ SimI cfg G e L f i r' (Lazy.frameInto e s1).1 := by
  have hsim := fun dEnd bEnd hpos =>
    frameInto_sim cfg t hts i dEnd bEnd e hS.il r1 s1 buf hpos hS.cnt hS.cur r' res buf' hx hok
  obtain ⟨dEnd0, bEnd0, hpos0⟩ := hS.wh.pos hg
  obtain ⟨s', lres, hrun, hpos', hc', hcr', hk, hm⟩ := hsim dEnd0 bEnd0 hpos0
  have hg' : Lazy.Good e (Lazy.frameInto e s1).1 := (Lazy.frameInto_refines e s1 hg).1
  rw [hrun] at hg' ⊢
  refine ⟨resMatch_frame hS.geo hm, hS.il, hc', hcr', ?_, ?_, ?_, hk.env.isReader.trans hS.rd,
    hk.env.flags.trans hS.flags⟩
  · refine hS.wh.keep hg' hk.fi hk.atEnd (fun dEnd bEnd hpos => ?_) hg
    obtain ⟨s'', lres'', hrun'', hpos'', _⟩ := hsim dEnd bEnd hpos
    rw [hrun] at hrun''
    cases hrun''
    exact hpos''
  · obtain ⟨g, g1, g2, g3, g4⟩ := hS.geo
    exact ⟨g, by rw [hk.fi]; exact g1, by rw [hk.width]; exact g2, by rw [hk.height]; exact g3, g4⟩
  · show s'.finished = r'.finished
    rw [hk.finished, hk.env.finished]; exact hS.fin

theorem CurRel.isSome_iff {i : Info} {r : R} {s : Lazy.St} (h : CurRel i r s) : r.sub.cur.isSome = s.cur.isSome := by
  cases hs : s.cur with
  | none => rw [h.cur_none hs]; rfl
  | some k => obtain ⟨c, hc⟩ := h.cur_some hs; rw [hc]; rfl

/-- **`next_frame`** into a caller buffer (`nextFrameBuf`) against `Lazy.nextFrame` -/
theorem nextFrameBuf_sim (cfg : Cfg) (t : TCfg) (hts : CreateSafe t) (G : List Header) (e : Lazy.Env) (hv : e.Valid)
    (hG : G.length = e.frames.length) (L : Info → Nat) (f : Flags)
    (hL : ∀ i', L i' = outLineSize t i' f (Sub.new i').width) (i0 i : Info) (r : R) (s : Lazy.St) (buf : Bytes)
    (hS : SimI cfg G e L f i r s) (hg : Lazy.Good e s) (hH : CorePred i0 r.dec)
    (r' : R) (res : Reader.Res) (buf' : Bytes) (hx : nextFrameBuf cfg t r buf = (r', res, buf')) (hok : okRes res = true) :
    resMatch G res (Lazy.nextFrame e s).2 = true ∧ ∃ i', SimI cfg G e L f i' r' (Lazy.nextFrame e s).1 := by
  unfold nextFrameBuf at hx
  unfold Lazy.nextFrame
  have hcs := hS.cur.isSome_iff
  by_cases hc : r.sub.cur.isSome = true
  · rw [if_pos hc] at hx
    have hc' : s.cur.isSome = true := by rw [← hcs]; exact hc
    simp only [hc', if_true]
    obtain ⟨h1, h2⟩ := frameCall_op cfg t hts G e L f i r s buf hS hg r' res buf' hx hok
    exact ⟨h1, i, h2⟩
  · rw [if_neg hc] at hx
    have hc' : ¬ s.cur.isSome = true := by rw [← hcs]; exact hc
    simp only [hc', Bool.false_eq_true, if_false]
    by_cases hr : r.remaining = 0
    · rw [if_pos hr] at hx
      have hr' : s.rem = 0 := by rw [hS.cnt.rem]; exact hr
      simp only [hr', if_true]
      simp only [Prod.mk.injEq] at hx
      obtain ⟨rfl, rfl, rfl⟩ := hx
      exact ⟨rfl, i, hS⟩
    · rw [if_neg hr] at hx
      have hr' : ¬ s.rem = 0 := by rw [hS.cnt.rem]; exact hr
      simp only [hr', if_false]
      cases hcaf : r.sub.caf with
      | false =>
        have hcaf' : s.caf = false := by rw [hS.cnt.caf]; exact hcaf
        simp only [hcaf, Bool.false_eq_true, if_false] at hx
        simp only [hcaf', Bool.false_eq_true, if_false]
        obtain ⟨h1, h2⟩ := frameCall_op cfg t hts G e L f i r s buf hS hg r' res buf' hx hok
        exact ⟨h1, i, h2⟩
      | true =>
        have hcaf' : s.caf = true := by rw [hS.cnt.caf]; exact hcaf
        simp only [hcaf, if_true] at hx
        simp only [hcaf', if_true]
        cases hadv : readUntilImageData cfg t r with
        | mk r1 x1 =>
          rw [hadv] at hx
          have hok1 : ∀ e', x1 = .error e' → okRes e' = true := by
            intro e' he'; subst he'
            simp only [Prod.mk.injEq] at hx
            rw [← hx.2.1] at hok; exact hok
          obtain ⟨s1, lx, i', hrun, hm, hS1, hrem1, _, hokc, herrc⟩ :=
            readUntilImageData_sim cfg t G e hG L f hL i0 i r s hS hcaf hH r1 x1 hadv hok1
          have hg1 : Lazy.Good e s1 := by
            have := (Lazy.readUntil_refines e hv s hg hcaf' (by omega)).1
            rw [hrun] at this; exact this
          rw [hrun]
          cases hm with
          | ok =>
            simp only at hx ⊢
            obtain ⟨h1, h2⟩ := frameCall_op cfg t hts G e L f i' r1 s1 buf hS1 hg1 r' res buf' hx hok
            exact ⟨h1, i', h2⟩
          | missing =>
            simp only [Prod.mk.injEq] at hx ⊢
            obtain ⟨rfl, rfl, rfl⟩ := hx
            exact ⟨rfl, i', hS1⟩
          | eof =>
            simp only [Prod.mk.injEq] at hx ⊢
            obtain ⟨rfl, rfl, rfl⟩ := hx
            exact ⟨rfl, i', hS1⟩

/-- **`next_frame`** as an operation of `Reader.step` (a buffer of `output_buffer_size()` bytes, pre-filled with `p`) -/
theorem nextFrame_op (cfg : Cfg) (t : TCfg) (hts : CreateSafe t) (G : List Header) (e : Lazy.Env) (hv : e.Valid)
    (hG : G.length = e.frames.length) (L : Info → Nat) (f : Flags)
    (hL : ∀ i', L i' = outLineSize t i' f (Sub.new i').width) (i0 i : Info) (r : R) (s : Lazy.St) (p : UInt8)
    (hS : SimI cfg G e L f i r s) (hg : Lazy.Good e s) (hH : CorePred i0 r.dec)
    (hok : okRes (step cfg t r (.nextFrame p)).2 = true) :
    resMatch G (step cfg t r (.nextFrame p)).2 (Lazy.step e s .nextFrame).2 = true ∧
      ∃ i', SimI cfg G e L f i' (step cfg t r (.nextFrame p)).1 (Lazy.step e s .nextFrame).1 := by
  have hi : infoOf r = some i := hS.cnt.info
  have hst : step cfg t r (.nextFrame p) = nextFrameOp cfg t r p := by
    show (if !r.isReader then _ else nextFrameOp cfg t r p) = _
    simp [hS.rd]
  rw [hst] at hok ⊢
  unfold nextFrameOp at hok ⊢
  simp only [hi] at hok ⊢
  generalize hx : nextFrameBuf cfg t { r with pendingBuf := none }
    (callerBuf r (outLineSize t i r.flags i.width * i.height) p) = out at hok ⊢
  obtain ⟨r', res, buf'⟩ := out
  · have hS0 := hS.clearPending none
    have hok' : okRes res = true := by
      simp only at hok
      split at hok <;> exact hok
    obtain ⟨h1, i', h2⟩ := nextFrameBuf_sim cfg t hts G e hv hG L f hL i0 i _ s _ hS0 hg hH r' res buf' hx hok'
    have hL : Lazy.step e s .nextFrame = Lazy.nextFrame e s := rfl
    rw [hL]
    simp only
    split
    · exact ⟨h1, i', h2.clearPending _⟩
    · exact ⟨h1, i', h2⟩

/-! ## `next_frame_info` -/

/-- the second half of `next_frame_info`: on to the next frame, whose frame control is returned -/
theorem infoTail_sim (cfg : Cfg) (t : TCfg) (G : List Header) (e : Lazy.Env) (hG : G.length = e.frames.length)
    (L : Info → Nat) (f : Flags) (hL : ∀ i', L i' = outLineSize t i' f (Sub.new i').width) (i0 i : Info) (r1 : R) (s1 : Lazy.St) (hS : SimI cfg G e L f i r1 s1) (hcaf : r1.sub.caf = true) (hH : CorePred i0 r1.dec)
    (r2 : R) (x2 : Except Reader.Res Unit) (hadv : readUntilImageData cfg t r1 = (r2, x2))
    (hok2 : ∀ e', x2 = .error e' → okRes e' = true) :
    ∃ s2 lx i', Lazy.readUntilImageData e s1 = (s2, lx) ∧ SimI cfg G e L f i' r2 s2 ∧
      (∀ e', x2 = .error e' → ∃ le, lx = some le ∧ resMatch G e' le = true) ∧
      (x2 = .ok () → lx = none ∧ ∀ fc, (infoOf r2 >>= (·.fctl)) = some fc →
        resMatch G (.frameInfo fc) (.fctl s2.fi) = true) := by
  obtain ⟨s2, lx, i', hrun, hm, hS2, _, _, hokc, _⟩ :=
    readUntilImageData_sim cfg t G e hG L f hL i0 i r1 s1 hS hcaf hH r2 x2 hadv hok2
  refine ⟨s2, lx, i', hrun, hS2, ?_, ?_⟩
  · intro e' he'
    subst he'
    cases hm with
    | missing => exact ⟨_, rfl, rfl⟩
    | eof => exact ⟨_, rfl, rfl⟩
  · intro hx2
    subst hx2
    cases hm with
    | ok =>
      refine ⟨rfl, fun fc hfc => ?_⟩
      have hi2 : infoOf r2 = some i' := hS2.cnt.info
      obtain ⟨_, _, hsub2⟩ := hokc rfl
      simp only [hi2, Option.bind_eq_bind, Option.bind_some] at hfc
      obtain ⟨g, g1, g2, g3, _⟩ := hS2.geo
      obtain ⟨hsw, hsh, _, _⟩ := subNew_dims i'
      have hd : Sub.dims i' = (fc.width, fc.height) := by simp [Sub.dims, hfc]
      simp only [resMatch, g1, g2, g3, hsub2, hsw, hsh, hd, beq_self_eq_true, Bool.and_self]

theorem curRel_cur_none {i : Info} {r : R} {s : Lazy.St} (h : CurRel i r s) :
    CurRel i { r with sub := { r.sub with cur := none } } { s with cur := none } := by
  obtain ⟨a, b, c, d, _⟩ := h
  refine ⟨a, ?_, c, d, [], Or.inr ⟨rfl, rfl⟩, Nat.zero_le _, ?_, rfl⟩
  · unfold CurOk; simp only
  · show [] = List.drop (s.sub.length - 0) _
    rw [d]; simp

/-- **`next_frame_info`** as an operation of `Reader.step` -/
theorem nextFrameInfo_op (cfg : Cfg) (t : TCfg) (G : List Header) (e : Lazy.Env)
    (hG : G.length = e.frames.length) (L : Info → Nat) (f : Flags)
    (hL : ∀ i', L i' = outLineSize t i' f (Sub.new i').width) (i0 i : Info) (r : R) (s : Lazy.St)
    (hS : SimI cfg G e L f i r s) (hg : Lazy.Good e s) (hH : CorePred i0 r.dec)
    (hok : okRes (step cfg t r .nextFrameInfo).2 = true) :
    resMatch G (step cfg t r .nextFrameInfo).2 (Lazy.step e s .nextFrameInfo).2 = true ∧
      ∃ i', SimI cfg G e L f i' (step cfg t r .nextFrameInfo).1 (Lazy.step e s .nextFrameInfo).1 := by
  have hst : step cfg t r .nextFrameInfo = nextFrameInfo cfg t { r with pendingBuf := none } := by
    show (if !r.isReader then _ else nextFrameInfo cfg t { r with pendingBuf := none }) = _
    simp [hS.rd]
  rw [hst] at hok ⊢
  have hS0 := hS.clearPending none
  generalize hr0 : ({ r with pendingBuf := none } : R) = r0 at hok hS0 ⊢
  have hH0 : CorePred i0 r0.dec := by subst hr0; exact hH
  have hLz : Lazy.step e s .nextFrameInfo = Lazy.nextFrameInfo e s := rfl
  rw [hLz]
  unfold Reader.nextFrameInfo at hok ⊢
  unfold Lazy.nextFrameInfo
  generalize hrc : ({ r0 with sub := { r0.sub with cur := none } } : R) = rc at hok ⊢
  by_cases hcaf : r0.sub.caf = true
  · have hcaf' : s.caf = true := by rw [hS0.cnt.caf]; exact hcaf
    have hn : ¬ (!r0.sub.caf) = true := by simp [hcaf]
    have hn' : ¬ (!s.caf) = true := by simp [hcaf']
    simp only [if_pos hcaf, if_neg hn] at hok ⊢
    simp only [if_pos hcaf', if_neg hn']
    cases hrem : r0.remaining with
    | zero =>
      have : s.rem = 0 := by rw [hS0.cnt.rem]; exact hrem
      simp only [this, if_true]
      exact ⟨rfl, i, hS0⟩
    | succ n =>
      have : ¬ s.rem = 0 := by rw [hS0.cnt.rem, hrem]; omega
      simp only [this, if_false]
      rw [hrem] at hok
      simp only at hok ⊢
      cases hadv : readUntilImageData cfg t r0 with
      | mk r2 x2 =>
        rw [hadv] at hok
        have hok2 : ∀ e', x2 = .error e' → okRes e' = true := by
          intro e' he'; subst he'; exact hok
        obtain ⟨s2, lx, i', hrun, hS2, herr, hokc⟩ := infoTail_sim cfg t G e hG L f hL i0 i r0 s hS0 hcaf hH0 r2 x2 hadv hok2
        rw [hrun]
        cases x2 with
        | error e' =>
          obtain ⟨le, rfl, hm⟩ := herr e' rfl
          exact ⟨hm, i', hS2⟩
        | ok u =>
          cases u
          obtain ⟨rfl, hfc⟩ := hokc rfl
          simp only at hok ⊢
          cases hf : (infoOf r2 >>= (·.fctl)) with
          | none =>
            rw [hf] at hok
            simp [okRes] at hok
          | some fc => exact ⟨hfc fc hf, i', hS2⟩
  · have hcafF : r0.sub.caf = false := by simpa using hcaf
    have hcaf' : s.caf = false := by rw [hS0.cnt.caf]; exact hcafF
    have hcn' : ¬ s.caf = true := by simp [hcaf']
    have hn : (!r0.sub.caf) = true := by simp [hcafF]
    have hn' : (!s.caf) = true := by simp [hcaf']
    simp only [if_neg hcaf, if_pos hn] at hok ⊢
    simp only [if_neg hcn', if_pos hn']
    cases hrem : r0.remaining - 1 with
    | zero =>
      have : s.rem - 1 = 0 := by rw [hS0.cnt.rem]; exact hrem
      simp only [this, if_true]
      exact ⟨rfl, i, hS0⟩
    | succ n =>
      have hrs : ¬ s.rem - 1 = 0 := by rw [hS0.cnt.rem, hrem]; omega
      simp only [hrs, if_false]
      rw [hrem] at hok
      simp only at hok ⊢
      have hrcd : rc.dec = r0.dec := by subst hrc; rfl
      have hrca : avail rc = avail r0 := by subst hrc; rfl
      have hrcs : rc.sub = { r0.sub with cur := none } := by subst hrc; rfl
      have hcrc : Cnt i rc { s with cur := none } := by
        subst hrc; exact hS0.cnt.congr rfl rfl rfl rfl rfl rfl rfl rfl
      have hcurc : CurRel i rc { s with cur := none } := by subst hrc; exact curRel_cur_none hS0.cur
      cases hfd : finishDecoding cfg rc with
      | mk r1 x1 =>
        rw [hfd] at hok
        have hok1 : ∀ e', x1 = .error e' → okRes e' = true := by
          intro e' he'; subst he'; exact hok
        have hsim := fun dEnd bEnd (hpos : Pos cfg i r0 s.src dEnd bEnd) =>
          finishDecoding_sim cfg i dEnd bEnd rc { s with cur := none } (hpos.congr hrcd hrca) hcrc (by rw [hrcs]) rfl
            r1 x1 hfd hok1
        obtain ⟨dEnd0, bEnd0, hpos0⟩ := hS0.wh.pos hg
        obtain ⟨hx1, s1, hrun1, hpos1, hc1, hsrc1, hlf1, hsub1, hse1, _⟩ := hsim dEnd0 bEnd0 hpos0
        subst hx1
        rw [hrun1]
        simp only at hok ⊢
        -- the `Lazy` invariant after `finish_decoding`
        have hi0 : Lazy.Inv { s with cur := none } :=
          ⟨hg.inv.rem_pos, hg.inv.src_some, hg.inv.src_none, fun k hk => by simp at hk, hg.inv.end_caf⟩
        obtain ⟨_, f2, f3⟩ := Lazy.finishDecoding_spec { s with cur := none } hi0 rfl
        rw [hrun1] at f2 f3
        simp only at f2 f3
        have hcur1 : s1.cur = none := hlf1.cur
        have hg1 : Lazy.Good e s1 := ⟨f3, fun k hk => by rw [hcur1] at hk; cases hk⟩
        have hcaf1 : r1.sub.caf = true := by rw [hsub1]
        have hse01 : SameEnv r0 r1 := by
          subst hrc
          exact ⟨hse1.input, hse1.visible, hse1.flags, hse1.isReader, hse1.finished, hse1.dead, hse1.pendingBuf⟩
        have hS1 : SimI cfg G e L f i r1 s1 := by
          refine ⟨hS0.il, hc1, CurRel.congr hcurc (by rw [hsub1]) hlf1.sub hlf1.cur, ?_, ?_, ?_, hse01.isReader.trans hS0.rd,
            hse01.flags.trans hS0.flags⟩
          · refine hS0.wh.keep hg1 hlf1.fi hlf1.atEnd (fun dEnd bEnd hpos => ?_) hg
            obtain ⟨_, s1', hrun1', hpos1', _⟩ := hsim dEnd bEnd hpos
            rw [hrun1] at hrun1'
            cases hrun1'
            exact hpos1'
          · obtain ⟨g, g1, g2, g3, g4⟩ := hS0.geo
            exact ⟨g, by rw [hlf1.fi]; exact g1, by rw [hsub1, hrcs]; exact g2, by rw [hsub1, hrcs]; exact g3, g4⟩
          · show s1.finished = r1.finished
            rw [hlf1.finished, hse01.finished]; exact hS0.fin
        have hH1 : CorePred i0 r1.dec := by
          have := finishDecoding_decP (corePred_decPred cfg i0) rc (by rw [hrcd]; exact hH0)
          rw [hfd] at this; exact this
        cases hadv : readUntilImageData cfg t r1 with
        | mk r2 x2 =>
          rw [hadv] at hok
          have hok2 : ∀ e', x2 = .error e' → okRes e' = true := by
            intro e' he'; subst he'; exact hok
          obtain ⟨s2, lx, i', hrun, hS2, herr, hokc⟩ := infoTail_sim cfg t G e hG L f hL i0 i r1 s1 hS1 hcaf1 hH1 r2 x2 hadv hok2
          rw [hrun]
          cases x2 with
          | error e' =>
            obtain ⟨le, rfl, hm⟩ := herr e' rfl
            exact ⟨hm, i', hS2⟩
          | ok u =>
            cases u
            obtain ⟨rfl, hfc⟩ := hokc rfl
            simp only at hok ⊢
            cases hf : (infoOf r2 >>= (·.fctl)) with
            | none =>
              rw [hf] at hok
              simp [okRes] at hok
            | some fc => exact ⟨hfc fc hf, i', hS2⟩

/-! ## `finish` -/

theorem currLen_new : UB.new.currLen = 0 := rfl

/-- **`finish`** as an operation of `Reader.step` -/
theorem finish_op (cfg : Cfg) (t : TCfg) (G : List Header) (e : Lazy.Env) (L : Info → Nat) (f : Flags) (i0 i : Info) (r : R) (s : Lazy.St)
    (hS : SimI cfg G e L f i r s) (hg : Lazy.Good e s) (hH : CorePred i0 r.dec)
    (hok : okRes (step cfg t r .finish).2 = true) :
    resMatch G (step cfg t r .finish).2 (Lazy.step e s .finish).2 = true ∧
      ∃ i', SimI cfg G e L f i' (step cfg t r .finish).1 (Lazy.step e s .finish).1 := by
  have hst : step cfg t r .finish = finish cfg { r with pendingBuf := none } := by
    show (if !r.isReader then _ else finish cfg { r with pendingBuf := none }) = _
    simp [hS.rd]
  rw [hst] at hok ⊢
  have hS0 := hS.clearPending none
  generalize hr0 : ({ r with pendingBuf := none } : R) = r0 at hok hS0 ⊢
  have hH0 : CorePred i0 r0.dec := by subst hr0; exact hH
  have hH' : CorePred i0 (finish cfg r0).1.dec := finish_decP (corePred_decPred cfg i0) r0 hH0
  have hL : Lazy.step e s .finish = Lazy.finish s := rfl
  rw [hL]
  unfold Reader.finish at hok hH' ⊢
  unfold Lazy.finish
  generalize hrz : ({ r0 with remaining := 0, ub := UB.new, sub := { r0.sub with cur := none, caf := true } } : R) = rz
    at hok hH' ⊢
  by_cases hfin : r0.finished = true
  · have hfin' : s.finished = true := by rw [hS0.fin]; exact hfin
    simp only [hfin, hfin', if_true]
    exact ⟨rfl, i, hS0⟩
  · have hfin' : ¬ s.finished = true := by rw [hS0.fin]; exact hfin
    simp only [hfin, hfin', Bool.false_eq_true, if_false] at hok hH' ⊢
    have hzd : rz.dec = r0.dec := by subst hrz; rfl
    have hza : avail rz = avail r0 := by subst hrz; rfl
    have hzs : rz.sub = { r0.sub with cur := none, caf := true } := by subst hrz; rfl
    have hzr : rz.remaining = 0 := by subst hrz; rfl
    have hzu : rz.ub = UB.new := by subst hrz; rfl
    have hzf : rz.finished = r0.finished := by subst hrz; rfl
    have hzi : rz.isReader = r0.isReader := by subst hrz; rfl
    have hzfl : rz.flags = r0.flags := by subst hrz; rfl
    -- the cursor relation with the cursor cleared and the frame closed
    have hcurz : ∀ (s' : Lazy.St), s'.sub = s.sub → s'.cur = none → CurRel i rz s' := by
      intro s' h1 h2
      exact CurRel.congr (curRel_cur_none hS0.cur) (by rw [hzs]) h1 h2
    have hgeoz : ∀ (j : Info) (s' : Lazy.St), j.interlaced = i.interlaced → s'.fi = s.fi → GeoAt G j rz s' := by
      intro j s' hj h1
      obtain ⟨g, g1, g2, g3, g4⟩ := hS0.geo
      exact ⟨g, by rw [h1]; exact g1, by rw [hzs]; exact g2, by rw [hzs]; exact g3, by rw [g4, hj]⟩
    cases hS0.wh with
    | atEnd hend hav =>
      have hsn : s.src = none := hg.inv.src_none (hg.inv.end_caf hend)
      have hrun : readUntilEndOfInput cfg (fuelOf rz) rz = (rz, .error (.err .eof "UnexpectedEof")) := by
        have : fuelOf rz = (fuelOf rz - 1) + 1 := by unfold fuelOf; omega
        rw [this, readUntilEndOfInput, eof_of_avail_nil (by rw [hza]; exact hav)]
      rw [hrun] at hok ⊢
      simp only [hend, if_true]
      refine ⟨rfl, i, hS0.il, ?_, hcurz _ rfl rfl, .atEnd rfl (by rw [hza]; exact hav), hgeoz i _ rfl rfl, ?_,
        hzi.trans hS0.rd, hzfl.trans hS0.flags⟩
      · exact ⟨by rw [hzd]; exact hS0.cnt.info, hzr.symm, by rw [hzs], by rw [hzu]; rfl, by rw [hzu]; exact UB.inv_new,
          by rw [hzd]; exact hS0.cnt.out, ⟨fun _ => by rw [hzs], fun _ => hsn⟩⟩
      · show false = rz.finished
        rw [hzf]
        have : r0.finished = false := by simpa using hfin
        exact this.symm
    | inFrame dEnd bEnd hend hpos hto htail =>
      have hend' : ¬ s.atEnd = true := by simp [hend]
      simp only [hend', Bool.false_eq_true, if_false]
      obtain ⟨evs, dE, hevs, htrE⟩ := hto
      -- the trace from the reader to the end of the file
      have full : ∃ evs', (∀ e ∈ evs', e.1 ≠ .imageEnd) ∧
          Trace cfg (fun _ => True) rz.dec (avail rz) (evs' ++ [(.imageEnd, [])]) dE [] := by
        rw [hzd, hza]
        cases hpos with
        | inData pend hev htr _ =>
          refine ⟨pend ++ evs, ?_, ?_⟩
          · intro e he
            simp only [List.mem_append] at he
            rcases he with he | he
            · exact dataEvs_not_end hev e he
            · exact hevs e he
          · have := (htr.mono (fun _ _ => trivial)).append htrE
            simpa [List.append_assoc] using this
        | after hd hb _ => exact ⟨evs, hevs, by rw [hd, hb]; exact htrE⟩
      obtain ⟨evs', hevs', htr'⟩ := full
      obtain ⟨r1, hrun, ha, ho1⟩ := readUntilEndOfInput_trace evs' rz (fuelOf rz)
        (by have := trace_length_lt_fuel htr'; simp at this; omega) (by rw [hzd]; exact hS0.cnt.out) hevs' htr'
      rw [hrun] at hok hH' ⊢
      simp only at hH' ⊢
      have hfr := ha.frame
      have hse := hfr.sameEnv
      unfold Reader.Frame at hfr
      obtain ⟨j, hj⟩ := hdrPred_some hH'
      obtain ⟨cj1, cj2, cj3⟩ := hdrPred_info hH' hj
      obtain ⟨ci1, ci2, ci3⟩ := hdrPred_info hH0 hS0.cnt.info
      have hsub1 : r1.sub = rz.sub := by rw [hfr]
      have hrem1 : r1.remaining = rz.remaining := by rw [hfr]
      have hub1 : r1.ub = rz.ub := by rw [hfr]
      refine ⟨rfl, j, by rw [cj1, ← ci1]; exact hS0.il, ?_, ?_, .atEnd rfl ha.avail, ?_, rfl, ?_, ?_⟩
      · exact ⟨hj, by show 0 = r1.remaining; rw [hrem1, hzr], by show true = r1.sub.caf; rw [hsub1, hzs],
          by show 0 = r1.ub.currLen; rw [hub1, hzu]; rfl, by show r1.ub.Inv; rw [hub1, hzu]; exact UB.inv_new, ho1,
          ⟨fun _ => by show r1.sub.caf = true; rw [hsub1, hzs], fun _ => rfl⟩⟩
      · refine CurRel.of_same (cj1.trans ci1.symm) (cj2.trans ci2.symm) (cj3.trans ci3.symm) ?_
        exact CurRel.congr (hcurz { s with rem := 0, buf := 0, cur := none, caf := true } rfl rfl)
          (by show r1.sub = _; rw [hsub1]) rfl rfl
      · obtain ⟨g, g1, g2, g3, g4⟩ := hgeoz j { s with rem := 0, buf := 0, cur := none, caf := true }
          (cj1.trans ci1.symm) rfl
        exact ⟨g, g1, by show g.width = r1.sub.width; rw [hsub1]; exact g2, by show g.height = r1.sub.height; rw [hsub1]; exact g3, g4⟩
      · show r1.isReader = true
        rw [hse.isReader, hzi]; exact hS0.rd
      · show r1.flags = f
        rw [hse.flags, hzfl]; exact hS0.flags

end Png.LazyRefine
