import PngVerif.Proofs.MetaBytesFile
import PngVerif.Proofs.ComposeFrames
/-!
# C17 at the byte level, part 7: the animation control and the first frame control

`header_bytes` already covers `acTL` (it is one of the header chunks).  `write_image_data` writes the pending frame control as
an `fcTL` chunk in front of the `IDAT` chunks of the first frame; `fctl0_step_info` (`ComposeApng.fctl0_step` with the whole
`Info` in the conclusion) reads it at the byte level; `animated_read_info`: `read_info` on a stream that consists of the
signature, the header chunks written for `m`, the `fcTL` chunk of a frame control with sequence number 0 that lies inside the
canvas, `IDAT` chunks and anything that begins with another chunk returns `expectedInfo m` — `acTL` values included —
with that frame control.

The stream is described by its layout here; `Proofs/MetaBytesAnimFile.lean` shows that the writer model's run for an animated
configuration (`Enc.anim_run`) leaves a file of this layout.
-/
namespace Png.MetaBytes
open Png Png.Framing Png.EncodeMeta Png.WellFormed Png.RoundTrip Png.Reader

/-- the two models lay an `fcTL` body out alike -/
theorem encodeFctl_eq (fc : FrameControl) : EncodeMeta.encodeFctl fc = fctlBody fc := by
  simp only [EncodeMeta.encodeFctl, fctlBody, List.append_assoc]

/-- **the `fcTL` chunk in front of the `IDAT` chunks, with the `Info` afterwards**: `ComposeApng.fctl0_step`, and `info` is the
    `Info` before with the frame control stored -/
theorem fctl0_step_info (cfg : Framing.Cfg) (hC : cfg.CrcOk) {d : Dec} {c : Nat × Nat × Nat × Nat × Bool}
    {fo : Option FrameControl} (fc : FrameControl) (i : Info) (hi : d.info = some i) (hd : IdleF d c fo) (hcap : 26 ≤ d.cap)
    (hfit : fc.Fits) (hseq : Framing.SeqOk d.seqNo fc.seq) (hdis : fc.dispose ≤ 2) (hbl : fc.blend ≤ 1)
    (hin : fctlInBounds i fc = true) :
    ∃ d', AncTrace cfg d (chunk cfg fcTL (fctlBody fc)) d' ∧ IdleF d' c (some fc) ∧ d'.seqNo = some fc.seq ∧
      d'.limit = d.limit ∧ d'.cap = d.cap ∧ d'.opts = d.opts ∧ d'.info = some { i with fctl := some fc } ∧
      d'.haveIdat = d.haveIdat ∧ d'.haveIccp = d.haveIccp := by
  obtain ⟨i', hi', hcore, _⟩ := hd.info
  rw [hi] at hi'
  cases hi'
  have hnf : ¬ IsFlush d fcTL := fun h => hd.notData h.2
  generalize hD1 : ({ d with state := some (if 26 = 0 then St.parseChunkData fcTL else St.readChunkData fcTL), curType := fcTL, crcAcc := if d.opts.ignoreCrc then d.crcAcc else typeBytes fcTL, remaining := 26, raw := [] } : Dec) = D1
  have ho1 : D1.out = [] := by rw [← hD1]; exact hd.out
  have hat : AtFctl D1 i := by
    rw [← hD1]
    refine ⟨rfl, rfl, rfl, rfl, hd.out, hi, hcap, fun hig => ?_⟩
    have hig' : d.opts.ignoreCrc = false := hig
    simp [hig']
  have hsq1 : D1.seqNo = d.seqNo := by rw [← hD1]
  obtain ⟨hs2, hc2, hi2, hq2, hz2, _, hze2, _, ho2, hri2, hop2, hl2, hcp2⟩ := fctlAfter_facts fc hat
  refine ⟨fctlAfter D1 fc, ?_, ?_, hq2, ?_, ?_, ?_, hi2, by rw [← hD1]; rfl, by rw [← hD1]; rfl⟩
  · intro tb htb
    have hu1 := update_chunkBegin_other (cfg := cfg) (len := 26) (t := fcTL)
      (rest := fctlBody fc ++ (be32Bytes (cfg.crc (typeBytes fcTL ++ fctlBody fc)) ++ tb))
      hd.state (by decide) fcTL_lt (Or.inl (by rw [hi]; rfl)) hnf (by decide +kernel) (by decide +kernel)
    rw [hD1] at hu1
    have T2 := fctl_body_trace cfg hC fc tb hat hfit (by rw [hsq1]; exact hseq) hdis hbl hin
    refine ⟨[(.chunkBegin 26 fcTL, []), (.frameControl fc, []),
      (.chunkComplete (cfg.crc (typeBytes fcTL ++ fctlBody fc)) fcTL, [])], ?_, ?_⟩
    · rw [chunk_append, fctlBody_length]
      exact Trace.cons' (head8_ne_nil _ _ _) hu1 ho1 (clearOut_of_nil ho1) trivial (drop_head8 _ _ _) T2
    · intro e he
      simp only [List.mem_cons, List.mem_nil_iff, or_false] at he
      rcases he with rfl | rfl | rfl
      · exact ⟨rfl, by simp, fun _ _ hx => by cases hx; exact ⟨by decide +kernel, by decide +kernel⟩⟩
      · exact ⟨rfl, by simp, fun _ _ hx => by cases hx⟩
      · exact ⟨rfl, by simp, fun _ _ hx => by cases hx⟩
  · refine ⟨hs2, ho2, ⟨_, hi2, hcore, rfl⟩, ?_, ?_, hz2, hze2⟩
    · rw [hc2]; exact fun h => h.elim (by decide +kernel) (by decide +kernel)
    · rw [hri2, ← hD1]; exact hd.readyIdat
  · rw [hl2, ← hD1]
  · rw [hcp2, ← hD1]
  · rw [hop2, ← hD1]

theorem fits_of_inRange {fc : FrameControl} (h : FcInRange fc) : fc.Fits := by
  obtain ⟨h1, h2, h3, h4, h5, h6, h7, h8, h9⟩ := h
  unfold U32 at h1 h2 h3 h4 h5
  unfold U16 at h6 h7
  exact ⟨h1, h2, h3, h4, h5, h6, h7, by omega, by omega⟩

theorem seqOk_conv {prev : Option Nat} {seq : Nat} (h : EncodeMeta.SeqOk prev seq) : Framing.SeqOk prev seq := by
  cases prev with
  | none => exact h
  | some s => exact ⟨h.2, h.1⟩

/-- **`fcTL`: `feedChunk` agrees with the byte-level machine** (the chunk type `feedChunk_is_parse_chunk` leaves out).  Under the
    hypotheses of `C17.C17_fctl_roundtrip` (fields in their types' ranges, the sequence number the decoder expects, the frame
    inside the canvas), in a between-chunks state with room for 26 bytes in the chunk buffer: `feedChunk` accepts the chunk and
    the byte-level machine reads its serialisation into a decoder with the same `info` (the frame control stored), `haveIdat`,
    `haveIccp`, `limit`, `opts`, `seqNo` -/
theorem fctl_bytes (cfg : Framing.Cfg) (hC : cfg.CrcOk) {D : Dec} {c : Nat × Nat × Nat × Nat × Bool}
    {fo : Option FrameControl} (fc : FrameControl) (i : Info) (hi : D.info = some i) (hd : IdleF D c fo) (hcap : 26 ≤ D.cap)
    (hr : FcInRange fc) (hs : EncodeMeta.SeqOk D.seqNo fc.seq) (hb : FcInv i.width i.height fc) :
    ∃ dF D', feedChunk cfg D (fcTL, EncodeMeta.encodeFctl fc) = .ok dF ∧
      AncTrace cfg D (chunk cfg fcTL (EncodeMeta.encodeFctl fc)) D' ∧ IdleF D' c (some fc) ∧ ms D' = ms dF ∧
      dF.info = some { i with fctl := some fc } ∧ dF.seqNo = some fc.seq := by
  have hp := parseFctl_enc (armed D fcTL (EncodeMeta.encodeFctl fc)) i fc hr hs hb hi rfl
  have hf := feedChunk_of_dispatch cfg D _ fcTL _ _ (be32Bytes_ne_nil _ _) (by rw [EncodeMeta.dispatch_fcTL]; exact hp)
  obtain ⟨_, _, hdis, hbl⟩ : U16 fc.delayNum ∧ U16 fc.delayDen ∧ fc.dispose ≤ 2 ∧ fc.blend ≤ 1 := hr.2.2.2.2.2
  obtain ⟨D', T, hidle, hsq, hlim, _, hopts, hinfo, hhi, hhc⟩ := fctl0_step_info cfg hC fc i hi hd hcap (fits_of_inRange hr)
    (seqOk_conv hs) hdis hbl (fctlInBounds_of_inv i fc hb)
  refine ⟨_, D', hf, by rw [encodeFctl_eq]; exact T, hidle, ?_, ?_, rfl⟩
  · simp only [ms, hinfo, hhi, hhc, hlim, hopts, hsq, setInfo, armed, hi, Option.map_some]
  · simp only [setInfo, armed, hi, Option.map_some]

/-- **the header chunks and the first frame control, read by the byte-level machine**: `header_bytes`, then the `fcTL` chunk
    `write_image_data` emits for a frame control `fc` with sequence number 0 inside the canvas: `Info` is `expectedInfo m` (with
    the animation control of `m`) with the text chunks and `fc` stored; the next sequence number expected is 1 -/
theorem animated_header_bytes (cfg : Framing.Cfg) (hC : cfg.CrcOk) (z : ZCodec) (hz : z.Ok) (hc : CfgAgrees cfg z)
    (m : MetaConfig) (hr : m.InRange) (cs : List Chunk) (h : encodeHeaderChunks z m = .ok cs)
    (hlen : ∀ c ∈ cs, c.2.length < 2 ^ 32) (hpe : parseEmptyChunks = true)
    (fc : FrameControl) (hfr : FcInRange fc) (hfi : FcInv m.width m.height fc) (hf0 : fc.seq = 0)
    (opts : Options) (ho1 : opts.ignoreText = false) (ho2 : opts.ignoreIccp = false)
    (limit : Nat) (hl : m.budget z + 3 * bodyBytes cs.tail ≤ limit) :
    ∃ rest dF tcs, cs = (Framing.IHDR, (hdrOf m).body) :: rest ∧
      AncTrace cfg (afterIhdr cfg opts limit (hdrOf m)) (chunks cfg rest ++ chunk cfg fcTL (EncodeMeta.encodeFctl fc)) dF ∧
      IdleF dF (hdrOf m).info.core (some fc) ∧
      dF.info = some { expectedInfo m with text := tcs, fctl := some fc } ∧ tcs.map viewText = expectedViews z m ∧
      dF.seqNo = some 0 ∧ limit ≤ dF.limit + (m.budget z + 2 * bodyBytes rest) := by
  obtain ⟨rest, dA, tcs, h1, h2, h3, h4, _, h6, _, h8, _⟩ :=
    header_bytes cfg z hz hc m hr cs h hlen hpe opts ho1 ho2 limit hl
  obtain ⟨TA, hidle, _, _, hcap⟩ := anc_chunks_g cfg hC (idle_afterIhdr cfg opts limit (hdrOf m))
    (by show 0 < Params.chunkBufferSize; decide) h2
  have hcap26 : 26 ≤ dA.cap := by
    have : (afterIhdr cfg opts limit (hdrOf m)).cap = Params.chunkBufferSize := rfl
    rw [this] at hcap
    have : (26 : Nat) ≤ Params.chunkBufferSize := by decide
    omega
  obtain ⟨_, _, hdis, hbl⟩ : U16 fc.delayNum ∧ U16 fc.delayDen ∧ fc.dispose ≤ 2 ∧ fc.blend ≤ 1 := hfr.2.2.2.2.2
  obtain ⟨dF, TF, hidleF, hsq, hlim, _, _, hinfo, _, _⟩ := fctl0_step_info cfg hC fc _ h3 hidle hcap26 (fits_of_inRange hfr)
    (by rw [h6, hf0]; rfl) hdis hbl
    (by
      rw [fctlInBounds_iff]
      obtain ⟨a, b, c, d⟩ := hfi
      exact ⟨Nat.pos_of_ne_zero a, Nat.pos_of_ne_zero b, c, d⟩)
  refine ⟨rest, dF, tcs, h1, ?_, hidleF, hinfo, h4, by rw [hsq, hf0], by rw [hlim]; exact h8⟩
  rw [encodeFctl_eq]
  exact TA.append TF

theorem hdrOf_valid (z : ZCodec) (m : MetaConfig) (hr : m.InRange) (cs : List Chunk) (h : encodeHeaderChunks z m = .ok cs) :
    (hdrOf m).Valid := by
  obtain ⟨hw0, hh0, hcomb, _⟩ := writeHeader_ok z m cs h
  obtain ⟨rw_, rh, rd, rc, _⟩ := hr
  exact ⟨Nat.pos_of_ne_zero hw0, rw_, Nat.pos_of_ne_zero hh0, rh, (legal_iff m.color m.depth).mpr ⟨rc, rd, hcomb⟩⟩

/-- **`read_info` on an animated stream of the encoder's layout**: signature, the header chunks of `m` (`acTL` among them), the
    `fcTL` chunk of `fc`, `IDAT` chunks whose stream inflates completely, then anything that begins like a chunk other than
    `IDAT`: `read_info` succeeds and the reader holds `expectedInfo m` with the text chunks and the frame control -/
theorem animated_read_info (cfg : Framing.Cfg) (t : TCfg) (f : Flags) (opts : Options) (limit : Nat) (z : ZCodec)
    (m : MetaConfig) (fc : FrameControl) (zs : List Bytes) (raw : Bytes) (len' t' : Nat) (rest' : Bytes)
    (hI : cfg.InflateOk) (hC : cfg.CrcOk) (ht : t.IsIdentity f) (hz : z.Ok) (hc : CfgAgrees cfg z)
    (hpe : parseEmptyChunks = true) (hr : m.InRange) (cs : List Chunk) (h : encodeHeaderChunks z m = .ok cs)
    (hlen32 : ∀ c ∈ cs, c.2.length < 2 ^ 32)
    (hfr : FcInRange fc) (hfi : FcInv m.width m.height fc) (hf0 : fc.seq = 0)
    (ho1 : opts.ignoreText = false) (ho2 : opts.ignoreIccp = false)
    (hzs : zs ≠ []) (hzl : ∀ z' ∈ zs, z'.length < 2 ^ 32) (hinf : cfg.inflate zs.flatten = some (raw, true))
    (hlen' : len' < 2 ^ 32) (ht' : t' < 2 ^ 32) (hne' : t' ≠ IDAT)
    (hsize : (hdrOf m).lineSize * m.height < 2 ^ 64)
    (hlimit : (hdrOf m).lineSize + m.budget z + 3 * bodyBytes cs.tail ≤ limit) :
    ∃ r tcs,
      Reader.run cfg t
        (R.init opts limit f
          (signature ++ (chunks cfg cs ++ (chunk cfg fcTL (EncodeMeta.encodeFctl fc) ++ (idats cfg zs ++
            (be32Bytes len' ++ typeBytes t' ++ rest')))))
          (signature ++ (chunks cfg cs ++ (chunk cfg fcTL (EncodeMeta.encodeFctl fc) ++ (idats cfg zs ++
            (be32Bytes len' ++ typeBytes t' ++ rest'))))).length)
        [.readInfo] = (r, [.header]) ∧
      r.dec.info = some { expectedInfo m with text := tcs, fctl := some fc } ∧ tcs.map viewText = expectedViews z m := by
  obtain ⟨rest, dF, tcs, hshape, hanc, hidle, hinfo, hviews, _, hlow⟩ :=
    animated_header_bytes cfg hC z hz hc m hr cs h hlen32 hpe fc hfr hfi hf0 opts ho1 ho2 limit (by omega)
  have htl : cs.tail = rest := by rw [hshape]; rfl
  rw [htl] at hlimit
  have hv := hdrOf_valid z m hr cs h
  have hd : depthOk (hdrOf m).depth = true := hr.2.2.1
  cases zs with
  | nil => exact absurd rfl hzs
  | cons z0 zs =>
    have hfile : signature ++ (chunks cfg cs ++ (chunk cfg fcTL (EncodeMeta.encodeFctl fc) ++ (idats cfg (z0 :: zs) ++
          (be32Bytes len' ++ typeBytes t' ++ rest')))) =
        signature ++ (chunk cfg IHDR (hdrOf m).body ++ ((chunks cfg rest ++ chunk cfg fcTL (EncodeMeta.encodeFctl fc)) ++
          (idats cfg (z0 :: zs) ++ (be32Bytes len' ++ typeBytes t' ++ rest')))) := by
      rw [hshape]
      simp [chunks, List.append_assoc]
    rw [hfile]
    obtain ⟨r, i, N, dEnd, hri, hR, hcore, hfctl, _, _, _, _, _, hdF, _⟩ :=
      readInfo_wf cfg hI hC ht opts limit (hdrOf m) hv _ dF (some fc) hanc hidle z0 zs raw (hzl z0 (by simp))
        (fun z' hz' => hzl z' (by simp [hz'])) hinf len' t' rest' hlen' ht' hne' hsize
        (fun j hcj hfj => by
          have hj : ({ j with fctl := some fc } : Info) = j := by cases j; simp only at hfj; subst hfj; rfl
          have := hdrOf_frame (i := j) fc hcj
          rw [hj] at this
          rw [this]
          obtain ⟨_, _, c3, c4⟩ := hfi
          have := (frame_fits (hdrOf m) hd fc (by show fc.width ≤ m.width; omega) (by show fc.height ≤ m.height; omega)).1
          omega)
    obtain ⟨pend, hP, _⟩ := hR.pend
    refine ⟨r, tcs, ?_, ?_, hviews⟩
    · generalize (signature ++ (chunk cfg IHDR (hdrOf m).body ++ ((chunks cfg rest ++ chunk cfg fcTL (EncodeMeta.encodeFctl fc)) ++
        (idats cfg (z0 :: zs) ++ (be32Bytes len' ++ typeBytes t' ++ rest'))))) = file at hri ⊢
      have hdead : (R.init opts limit f file file.length).dead = false := rfl
      generalize R.init opts limit f file file.length = r0 at hri hdead ⊢
      have hs1 : Reader.step cfg t r0 .readInfo = (r, .header) := by
        show (if r0.dead then _ else readInfo cfg t r0) = _
        rw [hdead]; exact hri
      simp [Reader.run, hs1]
    · have : r.dec.info = some i := hP.info
      rw [this, ← hdF, hinfo]

end Png.MetaBytes
