import PngVerif.Proofs.ReaderPathsOps
/-!
# Decoding paths, part 5: a row-level call followed by `next_frame` = `next_frame` (C13)

`frameInto_row`: if `next_frame` on the buffer `buf` succeeds from a reader standing anywhere inside a
frame (frame `B`), then a row-level call from the same reader succeeds, the row can be placed into
`buf` (`placeRow`: copy at `line * line_size`, or the public Adam7 helper), and `next_frame` on the
resulting buffer from the resulting reader succeeds with the same frame `B` — and leaves a reader that
differs at most in the scratch length.  `frameInto_end`: at the end of the frame the row-level call
returns `None` and `B = buf`.  `path_agreement`: any number of row-level calls.
-/
namespace Png.Reader
open Png Png.Framing

/-! ## fuel of the interlaced loop -/

/-- the interlaced loop does not depend on its fuel (beyond `rowsLeft`) -/
theorem frameInterlaced_pfuel (cfg : Cfg) {t : TCfg} (ht : t.Ok) {i : Info} {stride : Nat} (bits : Nat) :
    ∀ (fuel fuel' : Nat) (r : R) (buf : Bytes), FIPre t i stride fuel r buf → FIPre t i stride fuel' r buf →
    bits = outBits t i r.flags →
    frameInterlaced cfg t stride bits fuel r buf = frameInterlaced cfg t stride bits fuel' r buf := by
  intro fuel
  induction fuel with
  | zero => intro _ r buf h _ _; have := h.fuel; omega
  | succ fuel ih =>
    intro fuel' r buf h h' hbits
    cases fuel' with
    | zero => have := h'.fuel; omega
    | succ fuel' =>
      have hr := h.row cfg ht
      have hr' := h'.row cfg ht
      rw [frameInterlaced, frameInterlaced]
      cases hx : nextInterlacedRow cfg t r with
      | mk r1 res =>
        rw [hx] at hr hr'
        cases res with
        | row ii data =>
          simp only at hr hr'
          obtain ⟨_, hk, _, p, l, w, buf', rfl, hex, _, hn⟩ := hr
          obtain ⟨_, _, _, p', l', w', buf'', hii, hex', _, hn'⟩ := hr'
          cases hii
          rw [hex] at hex'; cases hex'
          simp only
          rw [hbits, hex]
          simp only
          rw [← hbits]
          exact ih fuel' r1 buf' hn hn' (by rw [hk.flags]; exact hbits)
        | noRow => rfl
        | err c w => rfl
        | panic s => exact hr.elim
        | header => exact hr.elim
        | frame _ _ => exact hr.elim
        | frameInfo _ => exact hr.elim
        | done => exact hr.elim

/-! ## placing a delivered row; the fresh-buffer fact at line 0 -/

/-- where a caller puts a delivered row: a non-interlaced row `l` at offset `l * line_size`; an Adam7 row
    through the public helper `expand_interlaced_row` (`Adam7.expandPass`); `none` = the helper indexes out of range -/
def placeRow (stride bits : Nat) (buf : Bytes) (ii : IInfo) (data : Bytes) : Option Bytes :=
  match ii with
  | .null l => some (setSlice buf (l * stride) data)
  | .adam7 p l w => Adam7.expandPass buf stride data { pass := p, line := l, width := w } bits

/-- at the first row of a non-interlaced frame the unfiltering buffer holds no previous row (it was
    created anew by `read_until_image_data`; only `read_row` calls `reset_prev_row`, the non-interlaced
    loop of `next_frame` does not) -/
def Line0Fresh (r : R) : Prop := r.sub.cur = some (.null 0) → r.ub.prevRow = []

theorem resetPrev_of_nil (u : UB) (hi : u.Inv) (h : u.prevRow = []) : u.resetPrev = u := by
  obtain ⟨h1, h2⟩ := hi
  have hl := congrArg List.length h
  simp only [UB.prevRow, List.length_take, List.length_drop, List.length_nil] at hl
  have : u.curStart = u.prevStart := by omega
  cases u
  simp only [UB.resetPrev] at this ⊢
  rw [this]

theorem rowStart_fresh {t : TCfg} {r : R} {k : Nat} (hI : Inv t r) (hF : Line0Fresh r)
    (hcur : r.sub.cur = some (.null k)) : rowStart r (.null k) = r := by
  unfold rowStart
  split
  · rename_i hl
    simp only [IInfo.line] at hl
    subst hl
    rw [resetPrev_of_nil r.ub hI.ub (hF hcur)]
  · rfl

/-- after a delivered row the reader does not stand at line 0 of a non-interlaced frame -/
theorem fresh_of_advance {t : TCfg} {r r1 : R} {i : Info} {ii : IInfo} (hI : Inv t r) (hI1 : Inv t r1)
    (hi : r.dec.info = some i) (hi1 : r1.dec.info = some i) (hcur : r.sub.cur = some ii)
    (hs : r1.sub = { r.sub.advance with caf := r1.sub.caf }) : Line0Fresh r1 := by
  intro h0
  exfalso
  obtain ⟨j, hj, hg⟩ := hI.info
  rw [hi] at hj; cases hj
  obtain ⟨j, hj, hg1⟩ := hI1.info
  rw [hi1] at hj; cases hj
  cases hil : i.interlaced with
  | true =>
    have hc := hg1.cur
    unfold CurOk at hc
    rw [hil, h0] at hc
    cases hit : r1.sub.iter <;> (rw [hit] at hc; exact hc.elim)
  | false =>
    have hc := hg.cur
    unfold CurOk at hc
    rw [hil, hcur] at hc
    cases ii with
    | adam7 _ _ _ => cases hit : r.sub.iter <;> (rw [hit] at hc; exact hc.elim)
    | null k =>
      have := advance_null (hil ▸ hg.iter) (hil ▸ hg.cur) hcur
      rw [hs] at h0
      simp only at h0
      rw [this] at h0
      split at h0
      · cases h0
      · cases h0

/-! ## `next_frame` succeeded: what that says about its parts -/

theorem frameInto_ok_need (cfg : Cfg) (t : TCfg) {r rE : R} {i : Info} {buf B B' : Bytes} {oi : OutputInfo}
    (hi : r.dec.info = some i) (h : frameInto cfg t r buf = (rE, .frame oi B, B')) : needOf t r i ≤ buf.length := by
  apply Classical.byContradiction
  intro hn
  have hlt : buf.length < outLineSize t i r.flags i.width * i.height := by unfold needOf at hn; omega
  unfold frameInto at h
  simp only [infoOf, hi] at h
  rw [if_pos hlt] at h
  cases h

/-- the row loop of `next_frame` under the invariant (both kinds of frame) -/
theorem frameBody_pspec (cfg : Cfg) {t : TCfg} (ht : t.Ok) {r : R} {i : Info} {buf : Bytes} (hI : Inv t r)
    (hi : r.dec.info = some i) (hbuf : needOf t r i ≤ buf.length) :
    match frameBody cfg t r i.interlaced (outLineSize t i r.flags r.sub.width) (outBits t i r.flags) buf with
    | (r', buf', none) => Inv t r' ∧ Keep r r' ∧ r'.sub.cur = none ∧ buf'.length = buf.length
    | (r', buf', some e) => e.isErr = true ∧ Inv t r' ∧ Keep r r' ∧ buf'.length = buf.length := by
  cases hil : i.interlaced with
  | false =>
    obtain ⟨f1, f2⟩ := frameBody_null cfg ht hI hi hil hbuf
    rw [f1]
    exact frameRows_spec cfg ht i hil _ _ _ r buf hI hi f2.ls f2.kn f2.cur0 f2.cur1 f2.buf
  | true =>
    obtain ⟨f1, f2⟩ := frameBody_adam7 cfg ht hI hi hil hbuf
    rw [f1]
    exact frameInterlaced_spec cfg ht i hil _ _ r buf hI hi f2.st f2.fuel f2.buf

/-- `next_frame` returned a frame: the row loop ended without an error and `finish_decoding` succeeded -/
theorem frameInto_ok_body (cfg : Cfg) {t : TCfg} (ht : t.Ok) {r rE : R} {i : Info} {buf B B' : Bytes} {oi : OutputInfo}
    (hI : Inv t r) (hi : r.dec.info = some i) (h : frameInto cfg t r buf = (rE, .frame oi B, B')) :
    ∃ r2, frameBody cfg t r i.interlaced (outLineSize t i r.flags r.sub.width) (outBits t i r.flags) buf = (r2, B, none) ∧
      finishDecoding cfg r2 = (rE, .ok ()) ∧ oi = outInfoOf t r i ∧ B' = B ∧ Inv t r2 ∧ Keep r r2 ∧ r2.sub.cur = none ∧
      B.length = buf.length := by
  have hneed := frameInto_ok_need cfg t hi h
  rw [frameInto_peq cfg t buf hi hneed] at h
  have hsp := frameBody_pspec cfg ht hI hi hneed
  generalize frameBody cfg t r i.interlaced (outLineSize t i r.flags r.sub.width) (outBits t i r.flags) buf = x at h hsp
  obtain ⟨r2, buf', oe⟩ := x
  cases oe with
  | some e =>
    simp only [Prod.mk.injEq] at h
    obtain ⟨_, rfl, _⟩ := h
    exact absurd hsp.1 (by simp [Res.isErr])
  | none =>
    simp only at h
    obtain ⟨b1, b2, b3, b4⟩ := hsp
    have hf := finishDecoding_spec cfg r2 b1 b3
    cases hy : finishDecoding cfg r2 with
    | mk r3 w =>
      rw [hy] at h hf
      cases w with
      | error e =>
        simp only [Prod.mk.injEq] at h
        obtain ⟨_, rfl, _⟩ := h
        exact absurd hf.1 (by simp [Res.isErr])
      | ok u =>
        simp only [Prod.mk.injEq, Res.frame.injEq] at h
        obtain ⟨rfl, ⟨rfl, rfl⟩, rfl⟩ := h
        exact ⟨r2, rfl, hy, rfl, rfl, b1, b2, b3, b4⟩

/-- … and conversely -/
theorem frameInto_of_body (cfg : Cfg) (t : TCfg) {r r2 rE : R} {i : Info} {buf B : Bytes} (hi : r.dec.info = some i)
    (hneed : needOf t r i ≤ buf.length)
    (hb : frameBody cfg t r i.interlaced (outLineSize t i r.flags r.sub.width) (outBits t i r.flags) buf = (r2, B, none))
    (hf : finishDecoding cfg r2 = (rE, .ok ())) : frameInto cfg t r buf = (rE, .frame (outInfoOf t r i) B, B) := by
  rw [frameInto_peq cfg t buf hi hneed, hb]
  simp only
  rw [hf]

theorem outInfoOf_eq (t : TCfg) {r r1 : R} (i : Info) (h1 : r1.flags = r.flags) (h2 : r1.sub.width = r.sub.width)
    (h3 : r1.sub.height = r.sub.height) : outInfoOf t r1 i = outInfoOf t r i := by
  unfold outInfoOf; rw [h1, h2, h3]

theorem needOf_eq (t : TCfg) {r r1 : R} (i : Info) (h1 : r1.flags = r.flags) : needOf t r1 i = needOf t r i := by
  unfold needOf; rw [h1]

/-! ## one row-level call, then `next_frame` -/

/-- `next_row` on a non-interlaced frame: the call of `next_interlaced_row_impl` it comes down to (at line 0
    `reset_prev_row` changes nothing) -/
theorem nextRow_null (cfg : Cfg) {t : TCfg} (ht : t.Ok) {r : R} {i : Info} {k : Nat} (hI : Inv t r) (hF : Line0Fresh r)
    (hi : r.dec.info = some i) (hcur : r.sub.cur = some (.null k)) :
    nextInterlacedRow cfg t r =
      (match nextRowImpl cfg t { r with scratchLen := outLineSize t i r.flags r.sub.width } r.sub.rowlen
          (outLineSize t i r.flags r.sub.width) with
       | (r', .error e) => (r', e)
       | (r', .ok out) => (r', .row (.null k) out)) := by
  have h1 : nextInterlacedRow cfg t r =
      readRow cfg t { r with scratchLen := outLineSize t i r.flags r.sub.width } (outLineSize t i r.flags r.sub.width) := by
    unfold nextInterlacedRow; simp only [infoOf, hi]
  have hIs := hI.setScratch (outLineSize t i r.flags r.sub.width)
  rw [h1, readRow_row cfg ht _ hIs hi hcur (Nat.le_refl _), rowStart_fresh hIs hF hcur]
  rfl

theorem FRPre.doneRows {t : TCfg} {i : Info} {ls n k : Nat} {r : R} {buf : Bytes} (h : FRPre t i ls n k r buf) :
    doneRows r = k ∧ r.sub.height - k = n := by
  have hkn := h.kn
  unfold Reader.doneRows
  cases n with
  | zero => rw [h.cur0 rfl]; exact ⟨by simp only; omega, by omega⟩
  | succ n => rw [h.cur1 (Nat.succ_pos n)]; exact ⟨rfl, by omega⟩

/-- **one row-level call, then `next_frame`, is `next_frame`**: from a reader anywhere inside a frame
    from which `next_frame` into `buf` returns the frame `B`, the row-level call delivers the current
    row, the row can be placed into `buf`, and `next_frame` into the result returns `B` again -/
theorem frameInto_row (cfg : Cfg) {t : TCfg} (ht : t.Ok) {r rE : R} {i : Info} {ii : IInfo} {buf B : Bytes}
    {oi : OutputInfo} (hI : Inv t r) (hF : Line0Fresh r) (hi : r.dec.info = some i) (hcur : r.sub.cur = some ii)
    (hW : frameInto cfg t r buf = (rE, .frame oi B, B)) :
    ∃ data r1 buf1, nextInterlacedRow cfg t r = (r1, .row ii data) ∧
      placeRow (outLineSize t i r.flags r.sub.width) (outBits t i r.flags) buf ii data = some buf1 ∧
      ∃ rE1, frameInto cfg t r1 buf1 = (rE1, .frame oi B, B) ∧ PSim False rE rE1 := by
  obtain ⟨r2, hb, hf, rfl, _, _, _, _, _⟩ := frameInto_ok_body cfg ht hI hi hW
  have hneed := frameInto_ok_need cfg t hi hW
  cases hil : i.interlaced with
  | true =>
    rw [hil] at hb
    obtain ⟨f1, f2⟩ := frameBody_adam7 cfg ht hI hi hil hneed
    rw [f1] at hb
    have f2' : FIPre t i (outLineSize t i r.flags r.sub.width) ((7 * r.sub.height + 7) + 1) r buf := f2
    have hr := f2'.row cfg ht
    have hb' : frameInterlaced cfg t (outLineSize t i r.flags r.sub.width) (outBits t i r.flags)
        ((7 * r.sub.height + 7) + 1) r buf = (r2, B, none) := hb
    rw [frameInterlaced] at hb'
    cases hx : nextInterlacedRow cfg t r with
    | mk r1 res =>
      rw [hx] at hr hb'
      cases res with
      | row ii' data =>
        simp only at hr
        obtain ⟨hc', hk, hsub, p, l, w, buf', rfl, hex, hbl, hn⟩ := hr
        rw [hcur] at hc'; cases hc'
        simp only at hb'
        rw [hex] at hb'
        simp only at hb'
        refine ⟨data, r1, buf', rfl, hex, rE, ?_, PSim.refl _ _⟩
        have hi1 := hn.info
        have hneed1 : needOf t r1 i ≤ buf'.length := by rw [needOf_eq t i hk.flags, hbl]; exact hneed
        obtain ⟨g1, g2⟩ := frameBody_adam7 cfg ht hn.inv hi1 hil hneed1
        obtain ⟨d1, d2, _, _⟩ := advance_dims r.sub
        have hw1 : r1.sub.width = r.sub.width := by rw [hsub]; exact d1
        have hh1 : r1.sub.height = r.sub.height := by rw [hsub]; exact d2
        rw [← hn.st] at g1 g2
        have hbody : frameBody cfg t r1 i.interlaced (outLineSize t i r1.flags r1.sub.width) (outBits t i r1.flags) buf' =
            (r2, B, none) := by
          rw [hil, ← hn.st, g1, frameInterlaced_pfuel cfg ht _ _ (7 * r.sub.height + 7) r1 buf' g2 hn rfl, hk.flags]
          exact hb'
        rw [frameInto_of_body cfg t hi1 hneed1 hbody hf, outInfoOf_eq t i hk.flags hw1 hh1]
      | noRow => simp only at hr; rw [hcur] at hr; cases hr.1
      | err c w => simp only at hb'; cases hb'
      | panic s => exact hr.elim
      | header => exact hr.elim
      | frame _ _ => exact hr.elim
      | frameInfo _ => exact hr.elim
      | done => exact hr.elim
  | false =>
    rw [hil] at hb
    obtain ⟨f1, f2⟩ := frameBody_null cfg ht hI hi hil hneed
    rw [f1] at hb
    generalize hn : r.sub.height - doneRows r = n at hb f2
    generalize hk : doneRows r = k at hb f2
    cases n with
    | zero => have := f2.cur0 rfl; rw [hcur] at this; cases this
    | succ n =>
      have hck := f2.cur1 (Nat.succ_pos n)
      rw [hcur] at hck; cases hck
      rw [f2.unfold cfg] at hb
      cases hx : nextRowImpl cfg t r r.sub.rowlen (outLineSize t i r.flags r.sub.width) with
      | mk a1 res =>
        rw [hx] at hb
        cases res with
        | error e => simp only at hb; cases hb
        | ok out =>
          simp only at hb
          obtain ⟨fn, hol, hka, hsa⟩ := f2.next cfg ht hx
          have hIs := hI.setScratch (outLineSize t i r.flags r.sub.width)
          have hs := nextRowImpl_sim cfg (b := False) False.elim (outLineSize t i r.flags r.sub.width)
            (PSim.scratch r (outLineSize t i r.flags r.sub.width)) f2.rowPre hIs
          have e1 : rowlenOf i.color i.depth r.sub (.null k) = r.sub.rowlen := rfl
          rw [e1, hx] at hs
          cases hx' : nextRowImpl cfg t { r with scratchLen := outLineSize t i r.flags r.sub.width } r.sub.rowlen
              (outLineSize t i r.flags r.sub.width) with
          | mk a1' res' =>
            rw [hx'] at hs
            obtain ⟨k1, k2⟩ := hs
            simp only at k1 k2
            subst k2
            -- the frame from `a1`
            have hi1 := fn.info
            have hlen : (setSlice buf (k * outLineSize t i r.flags r.sub.width) out).length = buf.length := by
              apply setSlice_length
              have hkn := f2.kn
              have hfit : (k + 1) * outLineSize t i r.flags r.sub.width ≤ buf.length := mul_le_of_le (by omega) f2.buf
              have : (k + 1) * outLineSize t i r.flags r.sub.width =
                  k * outLineSize t i r.flags r.sub.width + outLineSize t i r.flags r.sub.width := Nat.succ_mul _ _
              omega
            have hneed1 : needOf t a1 i ≤ (setSlice buf (k * outLineSize t i r.flags r.sub.width) out).length := by
              rw [needOf_eq t i hka.flags, hlen]; exact hneed
            obtain ⟨g1, _⟩ := frameBody_null cfg ht fn.inv hi1 hil hneed1
            obtain ⟨dr1, dr2⟩ := fn.doneRows
            rw [dr1, dr2, ← fn.ls] at g1
            obtain ⟨d1, d2, _, _⟩ := advance_dims r.sub
            have hw1 : a1.sub.width = r.sub.width := by rw [hsa]; exact d1
            have hh1 : a1.sub.height = r.sub.height := by rw [hsa]; exact d2
            have hbody : frameBody cfg t a1 i.interlaced (outLineSize t i a1.flags a1.sub.width) (outBits t i a1.flags)
                (setSlice buf (k * outLineSize t i r.flags r.sub.width) out) = (r2, B, none) := by
              rw [hil, ← fn.ls, g1]; exact hb
            have hW1 := frameInto_of_body cfg t hi1 hneed1 hbody hf
            rw [outInfoOf_eq t i hka.flags hw1 hh1] at hW1
            have hI1' : Inv t a1' := by
              have := nextRowImpl_spec cfg ht _ i (.null k) hIs hi hcur f2.rowPre.prev
              have e2 : outLineSize t i r.flags (widthOf r.sub (.null k)) = outLineSize t i r.flags r.sub.width := rfl
              rw [show rowlenOf i.color i.depth ({ r with scratchLen := outLineSize t i r.flags r.sub.width } : R).sub (.null k)
                = r.sub.rowlen from rfl] at this
              rw [show outLineSize t i ({ r with scratchLen := outLineSize t i r.flags r.sub.width } : R).flags
                (widthOf ({ r with scratchLen := outLineSize t i r.flags r.sub.width } : R).sub (.null k))
                = outLineSize t i r.flags r.sub.width from rfl, hx'] at this
              exact this.1
            have hfs := frameInto_sim cfg ht (b := False) False.elim
              (setSlice buf (k * outLineSize t i r.flags r.sub.width) out) k1 fn.inv hI1'
            rw [hW1] at hfs
            cases hy : frameInto cfg t a1' (setSlice buf (k * outLineSize t i r.flags r.sub.width) out) with
            | mk rE1 y =>
              rw [hy] at hfs
              obtain ⟨m1, m2⟩ := hfs
              simp only at m1 m2
              subst m2
              refine ⟨out, a1', _, ?_, rfl, rE1, hy, m1⟩
              rw [nextRow_null cfg ht hI hF hi hcur, hx']

/-- **at the end of a frame**: the row-level call returns `None`, the frame `next_frame` returns is the
    buffer as it is, and both leave the same reader (up to the scratch length) -/
theorem frameInto_end (cfg : Cfg) {t : TCfg} (ht : t.Ok) {r rE : R} {i : Info} {buf B : Bytes} {oi : OutputInfo}
    (hI : Inv t r) (hi : r.dec.info = some i) (hcur : r.sub.cur = none)
    (hW : frameInto cfg t r buf = (rE, .frame oi B, B)) :
    B = buf ∧ ∃ r1, nextInterlacedRow cfg t r = (r1, .noRow) ∧ PSim False rE r1 := by
  obtain ⟨r2, hb, hf, rfl, _, _, _, _, _⟩ := frameInto_ok_body cfg ht hI hi hW
  have hneed := frameInto_ok_need cfg t hi hW
  have hrow : nextInterlacedRow cfg t r =
      endRes (finishDecoding cfg { r with scratchLen := outLineSize t i r.flags r.sub.width }) := by
    have h1 : nextInterlacedRow cfg t r =
        readRow cfg t { r with scratchLen := outLineSize t i r.flags r.sub.width } (outLineSize t i r.flags r.sub.width) := by
      unfold nextInterlacedRow; simp only [infoOf, hi]
    rw [h1, readRow_none cfg t { r with scratchLen := outLineSize t i r.flags r.sub.width } _ hcur]
  have hfs : finishDecoding cfg { r with scratchLen := outLineSize t i r.flags r.sub.width } =
      mapFst (fun x => x.setSC (outLineSize t i r.flags r.sub.width) r.cached) (finishDecoding cfg r) :=
    finishDecoding_setSC cfg r _ r.cached
  cases hil : i.interlaced with
  | true =>
    rw [hil] at hb
    obtain ⟨f1, f2⟩ := frameBody_adam7 cfg ht hI hi hil hneed
    rw [f1] at hb
    have f2' : FIPre t i (outLineSize t i r.flags r.sub.width) ((7 * r.sub.height + 7) + 1) r buf := f2
    have hr := f2'.row cfg ht
    have hb' : frameInterlaced cfg t (outLineSize t i r.flags r.sub.width) (outBits t i r.flags)
        ((7 * r.sub.height + 7) + 1) r buf = (r2, B, none) := hb
    rw [frameInterlaced] at hb'
    cases hx : nextInterlacedRow cfg t r with
    | mk r1 res =>
      rw [hx] at hr hb'
      cases res with
      | row ii' data => simp only at hr; rw [hcur] at hr; cases hr.1
      | noRow =>
        simp only at hr hb'
        simp only [Prod.mk.injEq] at hb'
        obtain ⟨rfl, rfl, _⟩ := hb'
        obtain ⟨_, hI1, _, hs1⟩ := hr
        refine ⟨rfl, r1, rfl, ?_⟩
        have hsp := finishDecoding_spec cfg r1 hI1 (by rw [hs1]; exact hcur)
        rw [hf] at hsp
        have : rE = r1 := hsp.2.2.2.2.1 (by rw [hs1])
        rw [this]; exact PSim.refl _ _
      | err c w => simp only at hb'; cases hb'
      | panic s => exact hr.elim
      | header => exact hr.elim
      | frame _ _ => exact hr.elim
      | frameInfo _ => exact hr.elim
      | done => exact hr.elim
  | false =>
    rw [hil] at hb
    obtain ⟨f1, f2⟩ := frameBody_null cfg ht hI hi hil hneed
    rw [f1] at hb
    have hd : doneRows r = r.sub.height := by unfold doneRows; rw [hcur]
    rw [hd, Nat.sub_self, frameRows] at hb
    simp only [Prod.mk.injEq] at hb
    obtain ⟨rfl, rfl, _⟩ := hb
    refine ⟨rfl, (rE.setSC (outLineSize t i r.flags r.sub.width) r.cached), ?_, ?_⟩
    · rw [hrow, hfs, hf]; rfl
    · have := finishDecoding_cached cfg r
      rw [hf] at this
      exact ⟨_, _, rfl, Or.inl this.symm⟩

end Png.Reader
