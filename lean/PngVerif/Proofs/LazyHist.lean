import PngVerif.Proofs.LazySpec
/-!
# Lazy reader: row accounting over a whole run of the specification (history invariant)
-/
namespace Png.Lazy.Spec

theorem delivered_append (k : Nat) (rs rs' : List Res) :
    delivered k (rs ++ rs') = delivered k rs ++ delivered k rs' := by
  simp [delivered]

theorem delivered_single (k : Nat) (r : Res) : delivered k [r] = rowsOf k r := by
  simp [delivered]

theorem rowsOf_of_frameOf_ne {k : Nat} {r : Res} (h : ∀ k', frameOf r = some k' → k' ≠ k) : rowsOf k r = [] := by
  cases r <;> simp_all [rowsOf, frameOf]

theorem delivered_nil {k n : Nat} {rs : List Res} (h : ∀ r ∈ rs, ∀ k', frameOf r = some k' → k' ≤ n) (hk : n < k) :
    delivered k rs = [] := by
  unfold delivered
  rw [List.flatMap_eq_nil_iff]
  intro r hr
  exact rowsOf_of_frameOf_ne (fun k' hk' => by have := h r hr k' hk'; omega)

/-- what the current frame has handed out so far, in terms of the row cursor -/
def CurOK (fr : List Frame) (a : A) (d : Nat) : Prop :=
  (∀ i, a.cur = some i → d ≤ i ∧ (d < i → covers a.sub (availOf fr a.fi) i = false)) ∧
  (a.cur = none → a.caf = false → d = a.sub.length)

/-- the history invariant: `rs` = the results so far, `a` = the state reached -/
structure Hist (fr : List Frame) (a : A) (rs : List Res) : Prop where
  le_fi : ∀ r ∈ rs, ∀ k, frameOf r = some k → k ≤ a.fi
  sorted : (rs.filterMap frameOf).Pairwise (· ≤ ·)
  pref : ∀ k, ∃ d, d ≤ rowsLen fr k ∧ delivered k rs = List.range d
  done : ∀ p k w, rs[p]? = some (.frame k w) → delivered k (rs.take (p + 1)) = List.range (rowsLen fr k)
  backed : ∀ r ∈ rs, Backed fr r
  cur : ∃ d, d ≤ rowsLen fr a.fi ∧ delivered a.fi rs = List.range d ∧ CurOK fr a d

theorem hist_append {fr : List Frame} {a a' : A} {rs : List Res} {r : Res} (h : Hist fr a rs)
    (hfi : a.fi ≤ a'.fi)
    (hk : ∀ k, frameOf r = some k → k = a'.fi)
    (hnew : ∃ d', d' ≤ rowsLen fr a'.fi ∧ delivered a'.fi rs ++ rowsOf a'.fi r = List.range d' ∧ CurOK fr a' d')
    (hdone : ∀ k w, r = .frame k w → delivered k rs ++ w = List.range (rowsLen fr k))
    (hb : Backed fr r) : Hist fr a' (rs ++ [r]) := by
  refine ⟨?_, ?_, ?_, ?_, ?_, ?_⟩
  · intro r' hr' k hk'
    rcases List.mem_append.1 hr' with h1 | h1
    · have := h.le_fi r' h1 k hk'; omega
    · simp only [List.mem_singleton] at h1; subst h1; have := hk k hk'; omega
  · rw [List.filterMap_append, List.pairwise_append]
    refine ⟨h.sorted, ?_, ?_⟩
    · cases hf : frameOf r <;> simp [List.filterMap, hf]
    · intro x hx y hy
      rw [List.mem_filterMap] at hx hy
      obtain ⟨r1, hr1, hx⟩ := hx
      obtain ⟨r2, hr2, hy⟩ := hy
      simp only [List.mem_singleton] at hr2
      subst hr2
      have := h.le_fi r1 hr1 x hx
      have := hk y hy
      omega
  · intro k
    by_cases hkk : k = a'.fi
    · subst hkk
      obtain ⟨d', h1, h2, _⟩ := hnew
      exact ⟨d', h1, by rw [delivered_append, delivered_single]; exact h2⟩
    · obtain ⟨d, h1, h2⟩ := h.pref k
      refine ⟨d, h1, ?_⟩
      rw [delivered_append, delivered_single, rowsOf_of_frameOf_ne (fun k' hk' => by have := hk k' hk'; omega)]
      simpa using h2
  · intro p k w hp
    by_cases hlt : p < rs.length
    · rw [List.getElem?_append_left hlt] at hp
      rw [List.take_append_of_le_length (by omega)]
      exact h.done p k w hp
    · by_cases heq : p = rs.length
      · subst heq
        simp only [List.getElem?_append_right (Nat.le_refl _), Nat.sub_self, List.getElem?_cons_zero,
          Option.some.injEq] at hp
        have : (rs ++ [r]).take (rs.length + 1) = rs ++ [r] := by
          apply List.take_of_length_le; simp
        rw [this, delivered_append, delivered_single, hp]
        simp only [rowsOf, if_true]
        exact hdone k w hp
      · have : (rs ++ [r])[p]? = none := by
          rw [List.getElem?_eq_none_iff]; simp; omega
        rw [this] at hp; simp at hp
  · intro r' hr'
    rcases List.mem_append.1 hr' with h1 | h1
    · exact h.backed r' h1
    · simp only [List.mem_singleton] at h1; subst h1; exact hb
  · obtain ⟨d', h1, h2, h3⟩ := hnew
    exact ⟨d', h1, by rw [delivered_append, delivered_single]; exact h2, h3⟩


theorem hist_of_state {fr : List Frame} {a a' : A} {rs : List Res} (h : Hist fr a rs) (hfi : a'.fi = a.fi)
    (hc : ∀ d, CurOK fr a d → CurOK fr a' d) : Hist fr a' rs := by
  obtain ⟨d, h1, h2, h3⟩ := h.cur
  exact ⟨by rw [hfi]; exact h.le_fi, h.sorted, h.pref, h.done, h.backed, ⟨d, by rw [hfi]; exact h1, by rw [hfi]; exact h2, hc d h3⟩⟩

/-- a result that hands out no rows -/
theorem hist_quiet {fr : List Frame} {a : A} {rs : List Res} {r : Res} (h : Hist fr a rs)
    (hr : ∀ k, rowsOf k r = []) (hf : ∀ k w, r ≠ .frame k w) (hk : ∀ k, frameOf r = some k → k = a.fi) :
    Hist fr a (rs ++ [r]) := by
  obtain ⟨d, h1, h2, h3⟩ := h.cur
  refine hist_append h (Nat.le_refl _) hk ⟨d, h1, by rw [hr]; simpa using h2, h3⟩ (fun k w hkw => absurd hkw (hf k w)) ?_
  cases r <;> simp_all [Backed, rowsOf]

theorem hist_quiet' {fr : List Frame} {a a' : A} {rs : List Res} {r : Res} (h : Hist fr a rs) (hfi : a'.fi = a.fi)
    (hc : ∀ d, CurOK fr a d → CurOK fr a' d)
    (hr : frameOf r = none) : Hist fr a' (rs ++ [r]) := by
  refine hist_quiet (hist_of_state h hfi hc) ?_ ?_ ?_
  · intro k; exact rowsOf_of_frameOf_ne (fun k' hk' => by simp [hr] at hk')
  · intro k w hkw; subst hkw; simp [frameOf] at hr
  · intro k hk; simp [hr] at hk

theorem curOK_close {fr : List Frame} {a : A} {d : Nat} (h : CurOK fr a d) : CurOK fr (close a) d := by
  obtain ⟨e1, e2, e3, e4, e5, e6⟩ := close_fields a
  refine ⟨?_, ?_⟩
  · rw [e1, e2, e3]; exact h.1
  · intro _ hc; rw [e6] at hc; simp at hc

theorem curOK_closed {fr : List Frame} {a : A} {d : Nat} (hc : a.cur = none) (hcaf : a.caf = true) : CurOK fr a d :=
  ⟨fun i hi => by simp [hc] at hi, fun _ h => by simp [hcaf] at h⟩

theorem sub_eq_rowlensOf {fr : List Frame} {a : A} (h : SInv fr a) : a.sub = rowlensOf fr a.fi := by
  obtain ⟨f, hf, hs⟩ := h.sub_ok
  simp [rowlensOf, hf, hs]

theorem rowsLen_eq' {fr : List Frame} {a : A} (h : SInv fr a) : rowsLen fr a.fi = a.sub.length := by
  obtain ⟨f, hf, hs⟩ := h.sub_ok
  simp [rowsLen, hf, hs]

theorem nDeliv_le : ∀ (sub : List Nat) (a : Nat), nDeliv sub a ≤ sub.length := by
  intro sub
  induction sub with
  | nil => intro a; simp [nDeliv]
  | cons l ls ih => intro a; simp only [nDeliv]; split <;> simp; exact ih _

theorem hist_nextRow {fr : List Frame} {a : A} {rs : List Res} (b : Bool) (h : Hist fr a rs) (hi : SInv fr a) :
    Hist fr (nextRow fr a b).1 (rs ++ [(nextRow fr a b).2]) := by
  cases hc : a.cur with
  | none =>
    rw [nextRow_none hc]
    exact hist_quiet' h (close_fields a).1 (fun d hd => curOK_close hd) rfl
  | some i =>
    rw [nextRow_some hc]
    have hlt := hi.cur_lt i hc
    by_cases hcov : covers a.sub (availOf fr a.fi) i = true
    · simp only [hcov, if_true]
      obtain ⟨d, h1, h2, h3⟩ := h.cur
      have hdi : d = i := by
        obtain ⟨h4, h5⟩ := h3.1 i hc
        by_cases hlt : d < i
        · have := h5 hlt; simp [hcov] at this
        · omega
      subst hdi
      have hfi : (if b = true then close a else a).fi = a.fi := by
        cases b <;> simp [(close_fields a).1]
      have hsub : (if b = true then close a else a).sub = a.sub := by
        cases b <;> simp [(close_fields a).2.1]
      refine hist_append h (by simp only [hfi]; exact Nat.le_refl _) (by intro k hk; simp [frameOf] at hk; simp [hfi, hk]) ?_
        (by intro k w hkw; simp at hkw) ?_
      · simp only [hfi]
        refine ⟨d + 1, by rw [rowsLen_eq' hi]; omega, ?_, ?_, ?_⟩
        · simp only [rowsOf, if_true]; rw [h2, List.range_succ]
        · intro j hj
          simp only [advance, hc] at hj
          split at hj
          · simp only [Option.some.injEq] at hj; omega
          · simp at hj
        · intro hn _
          simp only [advance, hc, hsub] at hn ⊢
          split at hn
          · simp at hn
          · omega
      · simp only [Backed]
        rw [← sub_eq_rowlensOf hi]; exact hcov
    · simp only [hcov, Bool.false_eq_true, if_false]
      exact hist_quiet' h (close_fields a).1 (fun d hd => curOK_close hd) rfl

theorem hist_frameInto {fr : List Frame} {a : A} {rs : List Res} (h : Hist fr a rs) (hi : SInv fr a)
    (hopen : a.cur = none → a.caf = false) :
    Hist fr (frameInto fr a).1 (rs ++ [(frameInto fr a).2]) := by
  unfold frameInto
  simp only []
  obtain ⟨e1, e2, e3, e4, e5, e6⟩ := close_fields a
  have hnd := nDeliv_le a.sub (availOf fr a.fi)
  split
  · rename_i hlt
    refine hist_quiet' h (by simp [e1]) ?_ rfl
    intro d hd
    refine ⟨?_, fun hn => by simp at hn⟩
    intro j hj
    simp only [Option.some.injEq] at hj
    subst hj
    simp only [e1, e2]
    refine ⟨?_, fun _ => ?_⟩
    · cases hc : a.cur with
      | none => simp [hc] at hlt; omega
      | some i => have := (hd.1 i hc).1; simp; omega
    · generalize hj : max (a.cur.getD a.sub.length) (nDeliv a.sub (availOf fr a.fi)) = j at hlt ⊢
      cases hcv : covers a.sub (availOf fr a.fi) j with
      | false => rfl
      | true => have := (covers_iff_lt_nDeliv a.sub _ j hlt).1 hcv; omega
  · rename_i hge
    obtain ⟨d, h1, h2, h3⟩ := h.cur
    -- the rows written are exactly the missing ones
    have hlo : d = a.cur.getD a.sub.length ∧ (a.cur.getD a.sub.length < a.sub.length → nDeliv a.sub (availOf fr a.fi) = a.sub.length) := by
      cases hc : a.cur with
      | none => simp only [Option.getD_none]; exact ⟨h3.2 hc (hopen hc), fun h => by omega⟩
      | some i =>
        have hlt := hi.cur_lt i hc
        simp only [hc, Option.getD_some] at hge ⊢
        have hfull : nDeliv a.sub (availOf fr a.fi) = a.sub.length := by omega
        refine ⟨?_, fun _ => hfull⟩
        obtain ⟨h4, h5⟩ := h3.1 i hc
        by_cases hdi : d < i
        · have := h5 hdi
          have := (covers_iff_lt_nDeliv a.sub (availOf fr a.fi) i hlt).2 (by omega)
          simp_all
        · omega
    obtain ⟨hlo, hfull⟩ := hlo
    generalize a.cur.getD a.sub.length = lo at hlo hfull hge ⊢
    have hlole : lo ≤ a.sub.length := by rw [← hlo, ← rowsLen_eq' hi]; exact h1
    have hcat : List.range d ++ List.range' lo (a.sub.length - lo) = List.range a.sub.length := by
      rw [hlo, List.range_eq_range', List.range_eq_range']
      have := List.range'_append (s := 0) (m := lo) (n := a.sub.length - lo) (step := 1)
      simp only [Nat.one_mul, Nat.zero_add] at this
      rw [this]; congr 1; omega
    refine hist_append h (by simp [e1]) (by intro k hk; simp [frameOf] at hk; simp [e1, hk]) ?_ ?_ ?_
    · simp only [e1]
      refine ⟨a.sub.length, by rw [rowsLen_eq' hi]; exact Nat.le_refl _, ?_, ?_⟩
      · simp only [rowsOf, if_true]; rw [h2]; exact hcat
      · exact ⟨fun i hi => by simp at hi, fun _ hc => by simp [e6] at hc⟩
    · intro k w hkw
      simp only [Res.frame.injEq] at hkw
      obtain ⟨hk1, hk2⟩ := hkw
      subst hk1; subst hk2
      rw [h2, rowsLen_eq' hi]; exact hcat
    · simp only [Backed]
      intro i hmem
      rw [List.mem_range'_1] at hmem
      rw [← sub_eq_rowlensOf hi]
      have hil : i < a.sub.length := by omega
      exact (covers_iff_lt_nDeliv a.sub _ i hil).2 (by have := hfull (by omega); omega)


/-- entering the next frame: nothing of it has been handed out -/
theorem hist_newframe {fr : List Frame} {a : A} {rs : List Res} {f : Frame} (h : Hist fr a rs) :
    Hist fr { a with fi := a.fi + 1, sub := f.rowlens, cur := firstRow f.rowlens, caf := false } rs := by
  refine ⟨fun r hr k hk => by have := h.le_fi r hr k hk; simp only; omega, h.sorted, h.pref, h.done, h.backed,
    ⟨0, Nat.zero_le _, ?_, ?_, ?_⟩⟩
  · simp only [List.range_zero]
    exact delivered_nil h.le_fi (Nat.lt_succ_self _)
  · intro i hi
    have := firstRow_lt hi
    simp only at hi ⊢
    omega
  · intro hn _
    simp only [firstRow] at hn ⊢
    split at hn
    · simp at hn
    · omega

theorem hist_readUntil_fatal {fr : List Frame} {a : A} {rs : List Res} {r : Res} (h : Hist fr a rs)
    (hr : (readUntilImageData fr a).2 = some r) : Hist fr (readUntilImageData fr a).1 (rs ++ [r]) := by
  by_cases he : a.atEnd = true
  · rw [readUntil_end he] at hr ⊢
    simp only [Option.some.injEq] at hr; subst hr
    exact hist_quiet' h rfl (fun d hd => hd) rfl
  · have he' : a.atEnd = false := by simpa using he
    cases hf : fr[a.fi + 1]? with
    | none =>
      rw [readUntil_none he' hf] at hr ⊢
      simp only [Option.some.injEq] at hr; subst hr
      exact hist_quiet' h rfl (fun d hd => hd) rfl
    | some f => rw [readUntil_some he' hf] at hr; simp at hr

theorem hist_nextFrame {fr : List Frame} {a : A} {rs : List Res} (h : Hist fr a rs) (hi : SInv fr a) :
    Hist fr (nextFrame fr a).1 (rs ++ [(nextFrame fr a).2]) := by
  cases hc : a.cur with
  | some i => rw [nextFrame_cur hc]; exact hist_frameInto h hi (fun hn => by simp [hc] at hn)
  | none =>
    by_cases hr : a.rem = 0
    · rw [nextFrame_polled hc hr]; exact hist_quiet' h rfl (fun d hd => hd) rfl
    · cases hcaf : a.caf with
      | false => rw [nextFrame_open hc hr hcaf]; exact hist_frameInto h hi (fun _ => hcaf)
      | true =>
        rw [nextFrame_next hc hr hcaf]
        rcases readUntil_cases fr a with ⟨r, h1, _⟩ | ⟨f, hf, h1⟩
        · have := hist_readUntil_fatal h h1
          rcases hres : readUntilImageData fr a with ⟨a1, _ | r'⟩
          · rw [hres] at h1; simp at h1
          · rw [hres] at h1 this; simp only [Option.some.injEq] at h1; subst h1; exact this
        · rw [h1]
          simp only []
          have hi1 := readUntil_sinv hi (by omega)
          rw [h1] at hi1
          exact hist_frameInto (hist_newframe h) hi1 (fun _ => rfl)

theorem hist_nextFrameInfo {fr : List Frame} {a : A} {rs : List Res} (h : Hist fr a rs) (hi : SInv fr a) :
    Hist fr (nextFrameInfo fr a).1 (rs ++ [(nextFrameInfo fr a).2]) := by
  by_cases hr : (if a.caf = true then a.rem else a.rem - 1) = 0
  · rw [Spec.nextFrameInfo_polled hr]; exact hist_quiet' h rfl (fun d hd => hd) rfl
  · have tail : ∀ c : A, Hist fr c rs → SInv fr c →
        Hist fr (match readUntilImageData fr c with
          | (a2, some r) => (a2, r)
          | (a2, none) => (a2, Res.fctl a2.fi)).1
         (rs ++ [(match readUntilImageData fr c with
          | (a2, some r) => (a2, r)
          | (a2, none) => (a2, Res.fctl a2.fi)).2]) := by
      intro c hc hic
      rcases readUntil_cases fr c with ⟨r, h1, _⟩ | ⟨f, hf, h1⟩
      · have := hist_readUntil_fatal hc h1
        rcases hres : readUntilImageData fr c with ⟨a1, _ | r'⟩
        · rw [hres] at h1; simp at h1
        · rw [hres] at h1 this; simp only [Option.some.injEq] at h1; subst h1; exact this
      · rw [h1]
        simp only []
        have hn : Hist fr { c with fi := c.fi + 1, sub := f.rowlens, cur := firstRow f.rowlens, caf := false } rs :=
          hist_newframe hc
        exact hist_quiet hn (fun k => rfl) (fun k w hkw => by simp at hkw)
          (fun k hk => by simp [frameOf] at hk; simp [hk])
    cases hc : a.caf with
    | true =>
      rw [Spec.nextFrameInfo_caf hr hc]
      exact tail a h hi
    | false =>
      rw [Spec.nextFrameInfo_open hr hc]
      have h0 : SInv fr { a with cur := none } := ⟨hi.rem_pos, fun i hi => by simp at hi, hi.sub_ok⟩
      refine tail _ (hist_of_state h (close_fields _).1 ?_) (close_sinv h0)
      intro d _
      exact curOK_closed (by simp [(close_fields { a with cur := none }).2.2.1]) (close_fields _).2.2.2.2.2

theorem hist_finish {fr : List Frame} {a : A} {rs : List Res} (h : Hist fr a rs) :
    Hist fr (finish a).1 (rs ++ [(finish a).2]) := by
  unfold finish
  split
  · exact hist_quiet' h rfl (fun d hd => hd) rfl
  · simp only []
    split
    · exact hist_quiet' h rfl (fun d _ => curOK_closed rfl rfl) rfl
    · exact hist_quiet' h rfl (fun d _ => curOK_closed rfl rfl) rfl

theorem hist_step {fr : List Frame} {a : A} {rs : List Res} (op : Op) (b : Bool) (h : Hist fr a rs) (hi : SInv fr a) :
    Hist fr (step fr a op b).1 (rs ++ [(step fr a op b).2]) := by
  cases op with
  | nextFrame => exact hist_nextFrame h hi
  | nextRow => exact hist_nextRow b h hi
  | nextFrameInfo => exact hist_nextFrameInfo h hi
  | finish => exact hist_finish h

theorem hist_run (fr : List Frame) : ∀ (ops : List Op) (a : A) (bs : List Bool) (rs : List Res),
    Hist fr a rs → SInv fr a → Hist fr (run fr a ops bs).1 (rs ++ (run fr a ops bs).2) := by
  intro ops
  induction ops with
  | nil => intro a bs rs h _; simpa [run] using h
  | cons op ops ih =>
    intro a bs rs h hi
    simp only [run]
    have := ih _ bs.tail _ (hist_step op (bs.headD false) h hi) (step_sinv op (bs.headD false) hi)
    simpa [List.append_assoc] using this

theorem hist_init {fr : List Frame} {rem0 : Nat} {a : A} (h : Spec.init fr rem0 = some a) : Hist fr a [] := by
  unfold Spec.init at h
  cases hf : fr[0]? with
  | none => simp [hf] at h
  | some f =>
    simp only [hf, Option.some.injEq] at h
    subst h
    refine ⟨fun r hr => by simp at hr, by simp, fun k => ⟨0, Nat.zero_le _, rfl⟩, fun p k w hp => by simp at hp,
      fun r hr => by simp at hr, ⟨0, Nat.zero_le _, rfl, ?_, ?_⟩⟩
    · intro i hi
      have := firstRow_lt hi
      simp only at hi ⊢; omega
    · intro hn _
      simp only [firstRow] at hn ⊢
      split at hn
      · simp at hn
      · omega

end Png.Lazy.Spec
