import PngVerif.Model.Validator
/-!
# The sequencing automaton only asks the image rule about images inside the canvas

`skeletonOfChunks imgOk cw ch …` applies `imgOk` to the canvas size (IDAT run) and to the sizes of frames whose
fcTL passed `fctlFieldsOk` (inside the canvas).  So two image rules that agree on all sizes `w ≤ cw`, `h ≤ ch`
give the same verdict (`skeleton_congr`).  This is what lets a theorem assume the compressor contract only
for images that fit the canvas (the Lean inflater of `realImgOk` has an output limit of 2^40 bytes, so no
compressor meets the contract for ALL sizes).
-/
namespace Png.Val
open Png Png.Spec

def Agree (cw ch : Nat) (a b : ImgRule) : Prop := ∀ w h z, w ≤ cw → h ≤ ch → a w h z = b w h z

/-- canvas fixed, every recorded frame size inside the canvas -/
structure Bounded (cw ch : Nat) (sk : Sk) : Prop where
  hcw : sk.cw = cw
  hch : sk.ch = ch
  ph : ∀ w h acc, sk.phase = .fdat w h acc → w ≤ cw ∧ h ≤ ch
  pend : ∀ f, sk.pending = some f → f.width ≤ cw ∧ f.height ≤ ch

variable {cw ch : Nat} {a b : ImgRule}

theorem closeRun_congr (hab : Agree cw ch a b) {sk : Sk} (hb : Bounded cw ch sk) : closeRun a sk = closeRun b sk := by
  unfold closeRun
  cases hp : sk.phase with
  | idat acc => simp only; rw [hab _ _ _ (by rw [hb.hcw]; exact Nat.le_refl _) (by rw [hb.hch]; exact Nat.le_refl _)]
  | fdat w h acc => simp only; rw [hab _ _ _ (hb.ph w h acc hp).1 (hb.ph w h acc hp).2]
  | pre => rfl
  | mid => rfl
  | done => rfl

theorem closeRun_bounded {sk sk' : Sk} (h : closeRun a sk = .ok sk') (hb : Bounded cw ch sk) :
    Bounded cw ch sk' ∧ sk'.pending = sk.pending ∧ (∀ w h acc, sk'.phase ≠ .fdat w h acc ∨ sk' = sk) := by
  unfold closeRun at h
  cases hp : sk.phase with
  | idat acc =>
    simp only [hp] at h
    split at h
    · simp only [Except.ok.injEq] at h; subst h
      exact ⟨⟨hb.hcw, hb.hch, (by intro w h acc hh; cases hh), hb.pend⟩, rfl, fun _ _ _ => Or.inl (by simp)⟩
    · cases h
  | fdat w0 h0 acc =>
    simp only [hp] at h
    split at h
    · simp only [Except.ok.injEq] at h; subst h
      exact ⟨⟨hb.hcw, hb.hch, (by intro w h acc hh; cases hh), hb.pend⟩, rfl, fun _ _ _ => Or.inl (by simp)⟩
    · cases h
  | pre => simp only [hp, Except.ok.injEq] at h; subst h; exact ⟨hb, rfl, fun _ _ _ => Or.inr rfl⟩
  | mid => simp only [hp, Except.ok.injEq] at h; subst h; exact ⟨hb, rfl, fun _ _ _ => Or.inr rfl⟩
  | done => simp only [hp, Except.ok.injEq] at h; subst h; exact ⟨hb, rfl, fun _ _ _ => Or.inr rfl⟩

theorem skStep_congr (hab : Agree cw ch a b) {sk : Sk} (hb : Bounded cw ch sk) (c : CSum) :
    skStep a sk c = skStep b sk c := by
  unfold skStep
  split
  · rfl
  · cases c with
    | ihdr => rfl
    | plte len => rfl
    | idat d => rfl
    | actl n p => rfl
    | iend len => simp only [stepIend, closeRun_congr hab hb]
    | fctl f => simp only [stepFctl, closeRun_congr hab hb]
    | fdat seq d => simp only [stepFdat, closeRun_congr hab hb]
    | other ty len => simp only [stepOther, closeRun_congr hab hb]

theorem fctlFieldsOk_le {sk : Sk} {f : Fctl} (h : fctlFieldsOk sk f = .ok ()) : f.width ≤ sk.cw ∧ f.height ≤ sk.ch := by
  unfold fctlFieldsOk at h
  split at h
  · cases h
  · split at h
    · cases h
    · rename_i h2; omega

theorem skStep_bounded {sk sk' : Sk} {c : CSum} (h : skStep a sk c = .ok sk') (hb : Bounded cw ch sk) :
    Bounded cw ch sk' := by
  unfold skStep at h
  split at h
  · cases h
  · cases c with
    | ihdr => cases h
    | plte len =>
      simp only [stepPlte] at h
      repeat' (split at h; · cases h)
      simp only [Except.ok.injEq] at h; subst h
      exact ⟨hb.hcw, hb.hch, hb.ph, hb.pend⟩
    | actl n p =>
      simp only [stepActl] at h
      repeat' (split at h; · cases h)
      simp only [Except.ok.injEq] at h; subst h
      exact ⟨hb.hcw, hb.hch, hb.ph, hb.pend⟩
    | idat d =>
      simp only [stepIdat] at h
      split at h
      · split at h
        · cases h
        · split at h
          · split at h
            · simp only [Except.ok.injEq] at h; subst h
              exact ⟨hb.hcw, hb.hch, (by intro w h acc hh; cases hh), (by intro f hf; cases hf)⟩
            · cases h
          · simp only [Except.ok.injEq] at h; subst h
            exact ⟨hb.hcw, hb.hch, (by intro w h acc hh; cases hh), hb.pend⟩
      · simp only [Except.ok.injEq] at h; subst h
        exact ⟨hb.hcw, hb.hch, (by intro w h acc hh; cases hh), hb.pend⟩
      · cases h
    | iend len =>
      simp only [stepIend] at h
      cases hc : closeRun a sk with
      | error e => simp [hc] at h
      | ok s1 =>
        obtain ⟨b1, _, _⟩ := closeRun_bounded hc hb
        simp only [hc] at h
        repeat' (split at h; · cases h)
        simp only [Except.ok.injEq] at h; subst h
        exact ⟨b1.hcw, b1.hch, (by intro w h acc hh; cases hh), b1.pend⟩
    | other ty len =>
      simp only [stepOther] at h
      cases hc : closeRun a sk with
      | error e => simp [hc] at h
      | ok s1 =>
        obtain ⟨b1, _, _⟩ := closeRun_bounded hc hb
        simp only [hc] at h
        repeat' (split at h; · cases h)
        simp only [Except.ok.injEq] at h; subst h
        exact b1
    | fctl f =>
      simp only [stepFctl] at h
      cases hc : closeRun a sk with
      | error e => simp [hc] at h
      | ok s1 =>
        obtain ⟨b1, _, _⟩ := closeRun_bounded hc hb
        simp only [hc] at h
        split at h
        · cases h
        · split at h
          · cases h
          · split at h
            · cases h
            · cases hf : fctlFieldsOk s1 f with
              | error e => simp [hf] at h
              | ok u =>
                simp only [hf, Except.ok.injEq] at h; subst h
                have := fctlFieldsOk_le hf
                rw [b1.hcw, b1.hch] at this
                exact ⟨b1.hcw, b1.hch, b1.ph, by intro g hg; simp only [Option.some.injEq] at hg; subst hg; exact this⟩
    | fdat seq d =>
      simp only [stepFdat] at h
      split at h
      · cases h
      · split at h
        · cases h
        · cases hp : sk.phase with
          | pre => simp [hp] at h
          | fdat w0 h0 acc =>
            simp only [hp, Except.ok.injEq] at h; subst h
            exact ⟨hb.hcw, hb.hch, by
              intro w h acc' hh; simp only [Phase.fdat.injEq] at hh
              obtain ⟨e1, e2, _⟩ := hh; subst e1; subst e2; exact hb.ph _ _ _ hp, hb.pend⟩
          | idat acc =>
            simp only [hp] at h
            cases hc : closeRun a sk with
            | error e => simp [hc] at h
            | ok s1 =>
              obtain ⟨b1, _, _⟩ := closeRun_bounded hc hb
              simp only [hc] at h
              cases hpe : s1.pending with
              | none => simp [hpe] at h
              | some f =>
                simp only [hpe, Except.ok.injEq] at h; subst h
                exact ⟨b1.hcw, b1.hch, by
                  intro w h acc' hh; simp only [Phase.fdat.injEq] at hh
                  obtain ⟨e1, e2, _⟩ := hh; subst e1; subst e2; exact b1.pend f hpe, (by intro g hg; cases hg)⟩
          | mid =>
            simp only [hp] at h
            cases hc : closeRun a sk with
            | error e => simp [hc] at h
            | ok s1 =>
              obtain ⟨b1, _, _⟩ := closeRun_bounded hc hb
              simp only [hc] at h
              cases hpe : s1.pending with
              | none => simp [hpe] at h
              | some f =>
                simp only [hpe, Except.ok.injEq] at h; subst h
                exact ⟨b1.hcw, b1.hch, by
                  intro w h acc' hh; simp only [Phase.fdat.injEq] at hh
                  obtain ⟨e1, e2, _⟩ := hh; subst e1; subst e2; exact b1.pend f hpe, (by intro g hg; cases hg)⟩
          | done =>
            simp only [hp] at h
            cases hc : closeRun a sk with
            | error e => simp [hc] at h
            | ok s1 =>
              obtain ⟨b1, _, _⟩ := closeRun_bounded hc hb
              simp only [hc] at h
              cases hpe : s1.pending with
              | none => simp [hpe] at h
              | some f =>
                simp only [hpe, Except.ok.injEq] at h; subst h
                exact ⟨b1.hcw, b1.hch, by
                  intro w h acc' hh; simp only [Phase.fdat.injEq] at hh
                  obtain ⟨e1, e2, _⟩ := hh; subst e1; subst e2; exact b1.pend f hpe, (by intro g hg; cases hg)⟩

theorem skRun_congr (hab : Agree cw ch a b) : ∀ (cs : List CSum) (sk : Sk), Bounded cw ch sk →
    skRun a sk cs = skRun b sk cs := by
  intro cs
  induction cs with
  | nil => intro sk _; rfl
  | cons c cs ih =>
    intro sk hb
    simp only [skRun, ← skStep_congr hab hb c]
    cases hk : skStep a sk c with
    | error e => rfl
    | ok sk1 => exact ih sk1 (skStep_bounded hk hb)

/-- two image rules that agree on every size inside the canvas give the same verdict -/
theorem skeleton_congr (hab : Agree cw ch a b) (color : Nat) (rest : List RChunk) :
    skeletonOfChunks a cw ch color rest = skeletonOfChunks b cw ch color rest := by
  unfold skeletonOfChunks
  cases rest.mapM summarize with
  | error e => rfl
  | ok sums =>
    simp only [skeletonOk]
    rw [skRun_congr hab sums { cw, ch, color } ⟨rfl, rfl, (by intro w h acc hh; cases hh), (by intro f hf; cases hf)⟩]

/-- an image rule restricted to the sizes inside a canvas (anything goes outside) -/
def within (cw ch : Nat) (r : ImgRule) : ImgRule := fun w h z => if w ≤ cw ∧ h ≤ ch then r w h z else .ok ()

theorem within_agree (cw ch : Nat) (r : ImgRule) : Agree cw ch (within cw ch r) r := by
  intro w h z hw hh; simp [within, hw, hh]

end Png.Val
