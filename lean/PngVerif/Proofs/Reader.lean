import PngVerif.Proofs.ReaderSeq
import PngVerif.Proofs.ReaderInv
import PngVerif.Proofs.ReaderEnd
import PngVerif.Proofs.ReaderSplit
import PngVerif.Proofs.ReaderResume
import PngVerif.Proofs.ReaderToy
/-!
# Proofs about the `Reader` model (`Model/Reader.lean`) — overview

* `Proofs/ReaderSeq.lean` — what the `Reader` may assume about `update` (`Model/Framing.lean`): the
  decoder invariant `DInv`, the two modes `InSeq` / `OutSeq` and the events possible in each, `info`
  stability (`InfoStep`), no panic inside `update` for inputs shorter than 4 GiB (`Acct`).
* `Proofs/ReaderInv.lean` — the protocol invariant `Inv` (with the geometry of the (sub)frame, the row
  iterator and the unfiltering buffer), the contract `TCfg.Ok` of the row transformation, a
  specification lemma for every function of the model, `step_spec`, `run_no_panic` (C02).
* `Proofs/ReaderEnd.lean` — terminal states are absorbing (C18); end of input changes nothing and the
  preludes of the calls are idempotent under retry (C05).
* `Proofs/ReaderSplit.lean` — `update` on `a` versus `update` on `a ++ b` (`update_prefix`).
* `Proofs/ReaderResume.lean` — `decode_next` on a longer visible prefix, the generic `decode_next` loop
  `gloop` and its resumability, the five loops and the calls `read_row`, `next_row`, `finish`,
  `read_header_info` as instances (C05).
* `Proofs/ReaderToy.lean` — an identity `TCfg` and tiny streams for the non-vacuity examples.
-/
