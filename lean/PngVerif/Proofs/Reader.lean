import PngVerif.Proofs.ReaderSeq
import PngVerif.Proofs.ReaderInv
import PngVerif.Proofs.ReaderEnd
import PngVerif.Proofs.ReaderSplit
import PngVerif.Proofs.ReaderResume
import PngVerif.Proofs.ReaderToy
import PngVerif.Proofs.ReaderSim
import PngVerif.Proofs.ReaderLag
import PngVerif.Proofs.ReaderRetry
import PngVerif.Proofs.ReaderRun
import PngVerif.Proofs.ReaderStart
/-!
# Proofs about the `Reader` model (`Model/Reader.lean`) — overview

* `Proofs/ReaderSeq.lean` — what the `Reader` may assume about `update` (`Model/Framing.lean`): the
  decoder invariant `DInv`, the two modes `InSeq` / `OutSeq` and the events possible in each, `info`
  stability (`InfoStep`), no panic inside `update` for inputs shorter than 4 GiB (`Acct`).
* `Proofs/ReaderInv.lean` — the protocol invariant `Inv` (with the geometry of the (sub)frame, the row
  iterator and the unfiltering buffer), the contract `TCfg.Ok` of the row transformation, a
  specification lemma for every function of the model, `step_spec`, `run_no_panic` (C02).
* `Proofs/ReaderEnd.lean` — terminal states are absorbing (C18); end of input changes nothing and the
  preludes of the calls are idempotent under retry (C05).
* `Proofs/ReaderSplit.lean` — `update` on `a` versus `update` on `a ++ b` (`update_prefix`).
* `Proofs/ReaderResume.lean` — `decode_next` on a longer visible prefix, the generic `decode_next` loop
  `gloop` and its resumability, the five loops and the calls `read_row`, `next_row`, `finish`,
  `read_header_info` as instances (C05).
* `Proofs/ReaderToy.lean` — an identity `TCfg` and tiny streams for the non-vacuity examples.
* `Proofs/ReaderSim.lean` — `Sim` (readers equal up to the layout of the unfiltering buffer), `BehindN`
  (a reader ahead by some `decode_image_data` calls); the generic loop from such readers and on a
  shorter against a longer visible prefix.
* `Proofs/ReaderLag.lean` — every function and every call of the model from a reader that sees less
  against a reader that sees more and may be ahead (`step_lag`); `step_sim`, `run_sim`.
* `Proofs/ReaderRetry.lean` — the row loops, `finish_decoding`, `next_frame` retried after they ran out of
  input; `nextFrameOp_resumable`.
* `Proofs/ReaderRun.lean` — every call is resumable up to `Sim` and monotone in the visible prefix; the
  retrying caller `resumeRun` and `resumeRun_spec` (C05, whole runs).
* `Proofs/ReaderStart.lean` — `read_info` on a longer visible prefix; whole runs from the `Decoder`.
-/
