import PngVerif.Proofs.ReaderLag
/-!
# `next_frame` is resumable, and whole runs are (C05)

* where a loop around `decode_next` stops for lack of input (`gloop_eof`);
* the row loops of `next_frame`, `finish_decoding`, `next_frame` retried after they ran out of input,
  against the same call on the grown input from a reader that may be ahead (`*_retry`);
* `nextFrameOp_resumable`; the driver `resumeRun` and `C05_resume`.
-/
namespace Png.Reader
open Png Png.Framing

/-! ## Where a loop stops for lack of input -/

/-- a loop reports `UnexpectedEof` right after preparing a `decode_next` call with nothing visible -/
theorem gloop_eof {α : Type} (cfg : Cfg) (B : Body α) {I : R → Prop} (hB : B.Ok I) : ∀ (f : Nat) (r r1 : R) (w : String),
    gloop cfg B f r = (r1, .error (.err .eof w)) → ∃ r0, B.pre r0 = none ∧ r1 = B.prep r0 ∧ avail r1 = [] := by
  intro f
  induction f with
  | zero => intro r r1 w h; simp only [gloop, Prod.mk.injEq, Except.error.injEq] at h; cases h.2
  | succ f ih =>
    intro r r1 w h
    cases hpre : B.pre r with
    | some x =>
      rw [gloop, hpre] at h
      simp only at h
      exact absurd (by rw [h]) (hB.pre_noeof r x w hpre)
    | none =>
      rw [gloop_succ cfg B f r hpre] at h
      cases hd : decodeNext' cfg (B.prep r) with
      | mk r' res =>
        rw [hd] at h
        cases res with
        | error e =>
          simp only [Prod.mk.injEq, Except.error.injEq] at h
          obtain ⟨rfl, rfl⟩ := h
          obtain ⟨rfl, hav⟩ := decodeNext'_eof_iff cfg _ _ w hd
          exact ⟨r, hpre, rfl, hav⟩
        | ok p =>
          obtain ⟨ev, data⟩ := p
          simp only at h
          cases hp : B.post r' ev data with
          | inl x =>
            rw [hp] at h; simp only at h
            exact absurd (by rw [h]) (hB.post_noeof r' ev data x w hp)
          | inr r'' =>
            rw [hp] at h; simp only at h
            exact ih r'' r1 w h

/-- the row loop stops for lack of input only while the frame is not flushed -/
theorem nextRawRow_eof (cfg : Cfg) (rowlen fuel : Nat) (r r1 : R) (w : String)
    (h : nextRawRow cfg rowlen fuel r = (r1, .error (.err .eof w))) : r1.sub.caf = false ∧ avail r1 = [] := by
  rw [nextRawRow_gloop] at h
  obtain ⟨r0, hpre, rfl, hav⟩ := gloop_eof cfg (bodyRaw rowlen) (bodyRaw_ok rowlen) fuel r r1 w h
  refine ⟨?_, hav⟩
  simp only [bodyRaw] at hpre
  show r0.sub.caf = false
  by_cases hc : r0.ub.currLen < rowlen
  · rw [if_pos hc] at hpre
    cases hcaf : r0.sub.caf with
    | false => rfl
    | true => rw [hcaf] at hpre; simp at hpre
  · rw [if_neg hc] at hpre; cases hpre

theorem nextRowImpl_eof_facts (cfg : Cfg) (t : TCfg) (r r1 : R) (rowlen outLen : Nat) (w : String)
    (h : nextRowImpl cfg t r rowlen outLen = (r1, .error (.err .eof w))) : r1.sub.caf = false ∧ avail r1 = [] :=
  nextRawRow_eof cfg rowlen (fuelOf r) r r1 w (nextRowImpl_eof cfg t r r1 rowlen outLen w h)

/-! ## The row loops of `next_frame`, retried -/

/-- not a fatal error -/
def NotFatalO (x : Option Res) : Prop := ∀ e, x = some e → e.isFatal = false

theorem isFatal_of_isErr {e : Res} (h : e.isErr = true) (hne : ∀ w, e ≠ .err .eof w) : e.isFatal = true := by
  cases e with
  | err c w => cases c <;> first | rfl | exact absurd rfl (hne w)
  | _ => cases h

/-- the reader that sees `v'` bytes lags behind `B` as the reader that sees less did -/
theorem LagLe.grow {cfg : Cfg} {v v' m : Nat} {A B : R} (h : LagLe cfg v v' m A B) : ∃ m', LagLe cfg v' v' m' (growTo A v') B := by
  obtain ⟨n0, ⟨_, _, hb⟩, _⟩ := h
  exact ⟨n0, n0, ⟨rfl, Nat.le_refl _, hb⟩, fun _ => Nat.le_refl _⟩

/-- one iteration of the non-interlaced row loop as a function of the row's outcome -/
def rowsK (cfg : Cfg) (t : TCfg) (lineSize n k : Nat) (buf : Bytes) (o : R × Except Res Bytes) : R × Bytes × Option Res :=
  match o with
  | (r', .error e) => (r', buf, some e)
  | (r', .ok out) => frameRows cfg t lineSize n (k + 1) r' (setSlice buf (k * lineSize) out)

theorem frameRows_succ (cfg : Cfg) (t : TCfg) (lineSize n k : Nat) (r : R) (buf : Bytes)
    (h : ¬ (k + 1) * lineSize > buf.length) :
    frameRows cfg t lineSize (n + 1) k r buf = rowsK cfg t lineSize n k buf (nextRowImpl cfg t r r.sub.rowlen lineSize) := by
  rw [frameRows, if_neg h]
  unfold rowsK
  cases nextRowImpl cfg t r r.sub.rowlen lineSize with
  | mk r' res => cases res <;> rfl

/-- **the non-interlaced row loop, retried**: it ran out of input at row `ke`; run again for the rows
    `ke..` after the input grew, it ends as the loop on the grown input does from a reader that may be
    ahead -/
theorem frameRows_retry (cfg : Cfg) (hI : cfg.InflateOk) {t : TCfg} (ht : t.Ok) (i : Info) (hil : i.interlaced = false)
    (lineSize : Nat) {v v' : Nat} : ∀ (n k : Nat) (A B : R) (buf : Bytes) (m : Nat), LagLe cfg v v' m A B → Inv t A →
    A.dec.info = some i → lineSize = outLineSize t i A.flags A.sub.width → k + n = A.sub.height →
    (n = 0 → A.sub.cur = none) → (0 < n → A.sub.cur = some (.null k)) → A.sub.height * lineSize ≤ buf.length →
    ∀ (E : R) (bufE : Bytes) (w : String), frameRows cfg t lineSize n k A buf = (E, bufE, some (.err .eof w)) →
    NotFatalO (frameRows cfg t lineSize n k B buf).2.2 →
    ∃ ne ke, ke + ne = A.sub.height ∧ 0 < ne ∧ E.sub.cur = some (.null ke) ∧ E.sub.height = A.sub.height ∧
      E.sub.width = A.sub.width ∧ E.sub.caf = false ∧ Inv t E ∧ E.dec.info = some i ∧ E.flags = A.flags ∧
      E.visible = A.visible ∧ bufE.length = buf.length ∧
      (frameRows cfg t lineSize ne ke (growTo E v') bufE).2 = (frameRows cfg t lineSize n k B buf).2 ∧
      ∃ m', LagLe cfg v' v' m' (frameRows cfg t lineSize ne ke (growTo E v') bufE).1 (frameRows cfg t lineSize n k B buf).1 := by
  intro n
  induction n with
  | zero => intro k A B buf m _ _ _ _ _ _ _ _ E bufE w h; simp only [frameRows, Prod.mk.injEq, reduceCtorEq, and_false] at h
  | succ n ih =>
    intro k A B buf m hl hInv hi hls hkn h0 hc hbuf E bufE w h hy
    have hcur := hc (Nat.succ_pos n)
    obtain ⟨j, hj, hg⟩ := hInv.info
    rw [hi] at hj; cases hj
    have hsub := hl.fields.2.1
    obtain ⟨hvA, hvv, _⟩ := hl.visible
    have hfit : (k + 1) * lineSize ≤ buf.length := mul_le_of_le (by omega) hbuf
    have hp : A.ub.prevRow = [] ∨ A.ub.prevRow.length + 1 = rowlenOf i.color i.depth A.sub (.null k) := by
      have := hg.prev; unfold PrevOk at this; rw [hcur] at this; exact this
    have hsp := nextRowImpl_spec cfg ht A i (.null k) hInv hi hcur hp
    have e1 : rowlenOf i.color i.depth A.sub (.null k) = A.sub.rowlen := rfl
    have e2 : outLineSize t i A.flags (widthOf A.sub (.null k)) = lineSize := hls.symm
    rw [e1, e2] at hsp
    have hlag := nextRowImpl_lag cfg hI hl i (.null k) hInv hi hcur hp lineSize
    rw [e1] at hlag
    -- one iteration of both loops
    have hA := frameRows_succ cfg t lineSize n k A buf (by omega)
    have hB := frameRows_succ cfg t lineSize n k B buf (by omega)
    rw [hsub] at hB
    rw [hA] at h
    rw [hB] at hy ⊢
    cases hrow : nextRowImpl cfg t A A.sub.rowlen lineSize with
    | mk A1 res =>
      rw [hrow] at h hsp hlag
      cases res with
      | error e =>
        -- the input ran out in this row
        simp only [rowsK, Prod.mk.injEq, Option.some.injEq] at h
        obtain ⟨rfl, rfl, rfl⟩ := h
        obtain ⟨_, a2, a3, a4⟩ := hsp
        obtain ⟨hcaf, _⟩ := nextRowImpl_eof_facts cfg t A A1 _ _ w hrow
        have hcurE : A1.sub.cur = some (.null k) := by rw [a4]; exact hcur
        have hhE : A1.sub.height = A.sub.height := by rw [a4]
        have hwE : A1.sub.width = A.sub.width := by rw [a4]
        have hrlE : A1.sub.rowlen = A.sub.rowlen := by rw [a4]
        refine ⟨n + 1, k, hkn, Nat.succ_pos n, hcurE, hhE, hwE, hcaf, a2, a3.info.trans hi, a3.flags, a3.visible, rfl, ?_⟩
        -- the retried row against the row on the grown input
        have hres := nextRowImpl_resumable cfg hI t A A1 A.sub.rowlen lineSize w v' hInv.base.pos hInv.ub (by omega) hrow
        have hIg : Inv t (growTo A v') := hInv.growTo (by omega)
        obtain ⟨mg, hlg⟩ := hl.grow
        have hlagg := nextRowImpl_lag cfg hI hlg i (.null k) hIg hi hcur hp lineSize
        have e1' : rowlenOf i.color i.depth (growTo A v').sub (.null k) = A.sub.rowlen := rfl
        rw [e1'] at hlagg
        have hE := frameRows_succ cfg t lineSize n k (growTo A1 v') buf (by omega)
        have hrl' : (growTo A1 v').sub.rowlen = A.sub.rowlen := hrlE
        rw [hrl'] at hE
        have hG := frameRows_succ cfg t lineSize n k (growTo A v') buf (by omega)
        have hrl'' : (growTo A v').sub.rowlen = A.sub.rowlen := rfl
        rw [hrl''] at hG
        rcases hres with heq | ⟨ra, rb, e', h1, h2, h3⟩
        · have hEG : frameRows cfg t lineSize (n + 1) k (growTo A1 v') buf = frameRows cfg t lineSize (n + 1) k (growTo A v') buf := by
            rw [hE, hG, heq]
          rw [hEG, ← hB]
          obtain ⟨g1, g2⟩ := frameRows_lag cfg hI ht i hil lineSize (n + 1) k (growTo A v') B buf hlg hIg hi hls hkn
            (fun h => by omega) (fun _ => hcur) hbuf (Or.inl rfl)
          exact ⟨g1, mg, g2⟩
        · exfalso
          have hspg := nextRowImpl_spec cfg ht (growTo A v') i (.null k) hIg hi hcur hp
          rw [e1'] at hspg
          have e2' : outLineSize t i (growTo A v').flags (widthOf (growTo A v').sub (.null k)) = lineSize := hls.symm
          rw [e2', h2] at hspg
          have hfat := isFatal_of_isErr hspg.1 h3
          rw [h2] at hlagg
          obtain ⟨g1, _⟩ := hlagg (Or.inl rfl)
          simp only at g1
          generalize nextRowImpl cfg t B A.sub.rowlen lineSize = ob at hy g1
          obtain ⟨B1, xb⟩ := ob
          simp only at g1
          subst g1
          simp only [rowsK] at hy
          have := hy e' rfl
          rw [hfat] at this; cases this
      | ok out =>
        simp only [rowsK] at h
        obtain ⟨a1, a2, a3, a4⟩ := hsp
        -- the row on the grown input
        have hside : SideE v v' (Except.ok out : Except Res Bytes) (nextRowImpl cfg t B A.sub.rowlen lineSize).2 := by
          refine Or.inr ⟨fun e he => (by cases he), fun e he => ?_⟩
          generalize nextRowImpl cfg t B A.sub.rowlen lineSize = ob at hy he
          obtain ⟨B1, xb⟩ := ob
          simp only at he
          subst he
          simp only [rowsK] at hy
          exact hy e rfl
        obtain ⟨g1, hl1⟩ := hlag hside
        generalize nextRowImpl cfg t B A.sub.rowlen lineSize = ob at hy g1 hl1 ⊢
        obtain ⟨B1, xb⟩ := ob
        simp only at g1 hl1
        subst g1
        simp only [rowsK] at hy ⊢
        obtain ⟨d1, d2, _, _⟩ := advance_dims A.sub
        have hw1 : A1.sub.width = A.sub.width := by rw [a4]; exact d1
        have hh1 : A1.sub.height = A.sub.height := by rw [a4]; exact d2
        have hcur1 : A1.sub.cur = if k + 1 < A.sub.height then some (.null (k + 1)) else none := by
          rw [a4]; exact advance_null (hil ▸ hg.iter) (hil ▸ hg.cur) hcur
        have hlen : (setSlice buf (k * lineSize) out).length = buf.length := by
          apply setSlice_length
          rw [a3]
          have : (k + 1) * lineSize = k * lineSize + lineSize := Nat.succ_mul k lineSize
          omega
        obtain ⟨ne, ke, c1, c2, c3, c4, c5, c6, c7, c8, c9, c10, c11, c12, c13⟩ :=
          ih (k + 1) A1 B1 (setSlice buf (k * lineSize) out) m hl1 a1 (a2.info.trans hi)
            (by rw [a2.flags, hw1]; exact hls) (by rw [hh1]; omega)
            (fun h0 => by rw [hcur1, if_neg (by omega)])
            (fun h0 => by rw [hcur1, if_pos (by omega)])
            (by rw [hh1, hlen]; exact hbuf) E bufE w h hy
        exact ⟨ne, ke, c1.trans hh1, c2, c3, c4.trans hh1, c5.trans hw1, c6, c7, c8, c9.trans a2.flags,
          c10.trans a2.visible, c11.trans hlen, c12, c13⟩

/-- one iteration of the interlaced row loop as a function of the row's outcome -/
def intK (cfg : Cfg) (t : TCfg) (stride bitsPP fuel : Nat) (buf : Bytes) (o : R × Res) : R × Bytes × Option Res :=
  match o with
  | (r', .noRow) => (r', buf, none)
  | (r', .row (.adam7 p l w) data) =>
    match Adam7.expandPass buf stride data { pass := p, line := l, width := w } bitsPP with
    | none => (r', buf, some (.panic "expand_pass: index out of range (adam7.rs:223-231)"))
    | some buf' => frameInterlaced cfg t stride bitsPP fuel r' buf'
  | (r', .row (.null _) _) => (r', buf, some (.panic "get_adam7_info().unwrap() (mod.rs:424)"))
  | (r', e) => (r', buf, some e)

theorem frameInterlaced_succ (cfg : Cfg) (t : TCfg) (stride bitsPP fuel : Nat) (r : R) (buf : Bytes) :
    frameInterlaced cfg t stride bitsPP (fuel + 1) r buf = intK cfg t stride bitsPP fuel buf (nextInterlacedRow cfg t r) := by
  rw [frameInterlaced]
  unfold intK
  cases nextInterlacedRow cfg t r with
  | mk r' res =>
    cases res with
    | row ii data => cases ii <;> rfl
    | _ => rfl

/-- with enough fuel the interlaced row loop does not depend on it -/
theorem frameInterlaced_fuel (cfg : Cfg) {t : TCfg} (ht : t.Ok) (i : Info) (hil : i.interlaced = true) (stride bitsPP : Nat) :
    ∀ (f f' : Nat) (r : R) (buf : Bytes), Inv t r → r.dec.info = some i → rowsLeft r.sub < f → rowsLeft r.sub < f' →
    frameInterlaced cfg t stride bitsPP f r buf = frameInterlaced cfg t stride bitsPP f' r buf := by
  intro f
  induction f with
  | zero => intro f' r buf _ _ h; omega
  | succ f ih =>
    intro f' r buf hI hi h1 h2
    obtain ⟨f'', rfl⟩ : ∃ k, f' = k + 1 := ⟨f' - 1, by omega⟩
    obtain ⟨j, hj, hg⟩ := hI.info
    rw [hi] at hj; cases hj
    rw [frameInterlaced_succ, frameInterlaced_succ]
    have hsp := nextInterlacedRow_spec cfg ht r i hI hi
    generalize nextInterlacedRow cfg t r = out at hsp
    obtain ⟨r1, res⟩ := out
    obtain ⟨a1, a2, _, a4⟩ := hsp
    cases res with
    | row ii data =>
      cases ii with
      | null l => rfl
      | adam7 p l w =>
        simp only [intK]
        cases Adam7.expandPass buf stride data { pass := p, line := l, width := w } bitsPP with
        | none => rfl
        | some buf' =>
          simp only [RowRes] at a4
          obtain ⟨hcur, _, hsub⟩ := a4
          have hrl : rowsLeft r1.sub + 1 = rowsLeft r.sub := by
            have := rowsLeft_advance (hil ▸ hg.iter) (by rw [hcur]; rfl)
            rw [hsub]
            unfold rowsLeft at this ⊢
            exact this
          exact ih f'' r1 buf' a1 (a2.info.trans hi) (by omega) (by omega)
    | _ => rfl

/-- `next_row` runs out of input only while the frame is not flushed -/
theorem nextInterlacedRow_eof_caf (cfg : Cfg) (t : TCfg) (r r1 : R) (w : String)
    (h : nextInterlacedRow cfg t r = (r1, .err .eof w)) : r1.sub.caf = false := by
  unfold nextInterlacedRow at h
  cases hio : infoOf r with
  | none => rw [hio] at h; cases h
  | some i =>
    rw [hio] at h
    simp only at h
    generalize ({ r with scratchLen := outLineSize t i r.flags r.sub.width } : R) = r0 at h
    generalize outLineSize t i r.flags r.sub.width = bl at h
    cases hcur : r0.sub.cur with
    | none =>
      unfold readRow at h
      rw [hcur] at h
      simp only at h
      unfold finishDecoding at h
      rw [hcur] at h
      simp only [Option.isSome_none, Bool.false_eq_true, if_false] at h
      cases hcaf : r0.sub.caf with
      | true => rw [hcaf] at h; simp at h
      | false =>
        rw [hcaf] at h
        simp only [Bool.false_eq_true, if_false] at h
        have hsub : (finishDecodingImageData cfg (fuelOf r0) r0).1.sub = r0.sub := by
          rw [finishDecodingImageData_gloop]
          exact gloop_preserve cfg bodyFinish (fun r => r.sub) (fun _ _ h => by cases h) (fun _ => rfl)
            (fun r => by rw [decodeNext'_withStream]; rfl)
            (fun r ev data => by cases ev <;> rfl) _ _
        generalize finishDecodingImageData cfg (fuelOf r0) r0 = o at h hsub
        obtain ⟨r2, res⟩ := o
        cases res with
        | error e =>
          simp only [Prod.mk.injEq] at h
          obtain ⟨rfl, _⟩ := h
          simp only at hsub
          rw [hsub]; exact hcaf
        | ok u =>
          simp only at h
          cases hm : markFlushed r2 with
          | error e =>
            rw [hm] at h
            simp only [Prod.mk.injEq] at h
            have := markFlushed_err hm
            rw [h.2] at this; cases this
          | ok r3 => rw [hm] at h; cases h
    | some ii =>
      rw [readRow_some cfg t r0 bl ii hcur] at h
      generalize (if ii.line = 0 then { r0 with ub := r0.ub.resetPrev } else r0) = r00 at h
      cases hi0 : infoOf r00 with
      | none => rw [hi0] at h; cases h
      | some i0 =>
        rw [hi0] at h
        simp only at h
        split at h
        · cases h
        · generalize hrow : nextRowImpl cfg t r00 (rowlenOf i0.color i0.depth r00.sub ii) (lineSizeFor t r00 i0 ii) = o at h
          obtain ⟨r2, res⟩ := o
          cases res with
          | error e =>
            simp only [Prod.mk.injEq] at h
            obtain ⟨rfl, rfl⟩ := h
            exact (nextRowImpl_eof_facts cfg t r00 r2 _ _ w hrow).1
          | ok out => cases h

theorem intK_fatal (cfg : Cfg) (t : TCfg) (stride bitsPP fuel : Nat) (buf : Bytes) (r : R) (x : Res)
    (h : x.isFatal = true) : intK cfg t stride bitsPP fuel buf (r, x) = (r, buf, some x) := by
  cases x <;> first | rfl | cases h

/-- **the interlaced row loop, retried** -/
theorem frameInterlaced_retry (cfg : Cfg) (hI : cfg.InflateOk) {t : TCfg} (ht : t.Ok) (i : Info) (hil : i.interlaced = true)
    (stride bitsPP : Nat) {v v' : Nat} : ∀ (fuel : Nat) (A B : R) (buf : Bytes) (m : Nat), LagLe cfg v v' m A B → Inv t A →
    A.dec.info = some i → rowsLeft A.sub < fuel →
    ∀ (E : R) (bufE : Bytes) (w : String), frameInterlaced cfg t stride bitsPP fuel A buf = (E, bufE, some (.err .eof w)) →
    NotFatalO (frameInterlaced cfg t stride bitsPP fuel B buf).2.2 →
    Inv t E ∧ E.dec.info = some i ∧ E.flags = A.flags ∧ E.sub.width = A.sub.width ∧ E.sub.height = A.sub.height ∧
      E.sub.caf = false ∧ E.visible = A.visible ∧ rowsLeft E.sub ≤ rowsLeft A.sub ∧
      ∀ fuel', rowsLeft E.sub < fuel' →
        (frameInterlaced cfg t stride bitsPP fuel' (growTo E v') bufE).2 = (frameInterlaced cfg t stride bitsPP fuel B buf).2 ∧
        ∃ m', LagLe cfg v' v' m' (frameInterlaced cfg t stride bitsPP fuel' (growTo E v') bufE).1
          (frameInterlaced cfg t stride bitsPP fuel B buf).1 := by
  intro fuel
  induction fuel with
  | zero => intro A B buf m _ _ _ h; omega
  | succ fuel ih =>
    intro A B buf m hl hInv hi hfuel E bufE w h hy
    obtain ⟨j, hj, hg⟩ := hInv.info
    rw [hi] at hj; cases hj
    obtain ⟨hvA, hvv, _⟩ := hl.visible
    rw [frameInterlaced_succ] at h hy
    have hsp := nextInterlacedRow_spec cfg ht A i hInv hi
    have hlag := nextInterlacedRow_lag cfg hI hl i hInv hi
    cases hrow : nextInterlacedRow cfg t A with
    | mk A1 res =>
      rw [hrow] at h hsp hlag
      obtain ⟨a1, a2, _, a4⟩ := hsp
      -- the row on the grown input, when this row did not run out of input
      have hB : res.isEof = false → (nextInterlacedRow cfg t B).2 = res ∧ LagLe cfg v v' m A1 (nextInterlacedRow cfg t B).1 := by
        intro hne
        have hside : SideR v v' res (nextInterlacedRow cfg t B).2 := by
          refine Or.inr ⟨hne, ?_⟩
          cases hf : (nextInterlacedRow cfg t B).2.isFatal with
          | false => rfl
          | true =>
            have hk := intK_fatal cfg t stride bitsPP fuel buf (nextInterlacedRow cfg t B).1 (nextInterlacedRow cfg t B).2 hf
            have hpair : ((nextInterlacedRow cfg t B).1, (nextInterlacedRow cfg t B).2) = nextInterlacedRow cfg t B := rfl
            rw [hpair] at hk
            rw [hk] at hy
            have := hy _ rfl
            rw [hf] at this; cases this
        obtain ⟨g1, g2⟩ := hlag hside
        exact ⟨g1.symm, g2⟩
      cases res with
      | err c w' =>
        cases c with
        | eof =>
          -- the input ran out in this row
          simp only [intK, Prod.mk.injEq, Option.some.injEq] at h
          obtain ⟨rfl, rfl, _⟩ := h
          simp only [RowRes] at a4
          have hsubE : A1.sub = { A.sub with caf := A1.sub.caf } := a4
          have hcaf := nextInterlacedRow_eof_caf cfg t A A1 w' hrow
          have hrlE : rowsLeft A1.sub = rowsLeft A.sub := by rw [hsubE]; rfl
          refine ⟨a1, a2.info.trans hi, a2.flags, by rw [hsubE], by rw [hsubE], hcaf, a2.visible, by omega, ?_⟩
          intro fuel' hf'
          obtain ⟨f'', rfl⟩ : ∃ k, fuel' = k + 1 := ⟨fuel' - 1, by omega⟩
          have hres := nextInterlacedRow_resumable cfg hI ht A A1 i w' v' hInv hi (by omega) hrow
          have hIg : Inv t (growTo A v') := hInv.growTo (by omega)
          obtain ⟨mg, hlg⟩ := hl.grow
          rcases hres with heq | ⟨ra, rb, e', h1, h2, h3, h4⟩
          · have hEG : frameInterlaced cfg t stride bitsPP (f'' + 1) (growTo A1 v') buf =
                frameInterlaced cfg t stride bitsPP (fuel + 1) (growTo A v') buf := by
              rw [frameInterlaced_succ, heq, ← frameInterlaced_succ]
              exact frameInterlaced_fuel cfg ht i hil stride bitsPP _ _ _ _ hIg hi
                (by show rowsLeft A.sub < _; omega) hfuel
            rw [hEG]
            obtain ⟨g1, g2⟩ := frameInterlaced_lag cfg hI ht i stride bitsPP (fuel + 1) (growTo A v') B buf hlg hIg hi (Or.inl rfl)
            exact ⟨g1, mg, g2⟩
          · exfalso
            have hfat := isFatal_of_isErr h3 h4
            obtain ⟨g1, _⟩ := nextInterlacedRow_lag cfg hI hlg i hIg hi (Or.inl rfl)
            rw [h2] at g1
            simp only at g1
            have hk := intK_fatal cfg t stride bitsPP fuel buf (nextInterlacedRow cfg t B).1 (nextInterlacedRow cfg t B).2
              (by rw [← g1]; exact hfat)
            have hpair : ((nextInterlacedRow cfg t B).1, (nextInterlacedRow cfg t B).2) = nextInterlacedRow cfg t B := rfl
            rw [hpair] at hk
            rw [hk] at hy
            have := hy _ rfl
            rw [← g1, hfat] at this; cases this
        | _ => simp only [intK, Prod.mk.injEq, Option.some.injEq, Res.err.injEq, reduceCtorEq, false_and, and_false] at h
      | row ii data =>
        obtain ⟨hxb, hl1⟩ := hB rfl
        cases ii with
        | null l => simp only [intK, Prod.mk.injEq, Option.some.injEq, reduceCtorEq, and_false] at h
        | adam7 p l w0 =>
          simp only [RowRes] at a4
          obtain ⟨hcur, _, hsub⟩ := a4
          have hrl : rowsLeft A1.sub + 1 = rowsLeft A.sub := by
            have := rowsLeft_advance (hil ▸ hg.iter) (by rw [hcur]; rfl)
            rw [hsub]
            unfold rowsLeft at this ⊢
            exact this
          obtain ⟨d1, d2, _, _⟩ := advance_dims A.sub
          have hw1 : A1.sub.width = A.sub.width := by rw [hsub]; exact d1
          have hh1 : A1.sub.height = A.sub.height := by rw [hsub]; exact d2
          rw [frameInterlaced_succ cfg t stride bitsPP fuel B buf]
          generalize nextInterlacedRow cfg t B = ob at hy hxb hl1 ⊢
          obtain ⟨B1, xb⟩ := ob
          simp only at hxb hl1
          subst hxb
          simp only [intK] at h hy ⊢
          cases hex : Adam7.expandPass buf stride data { pass := p, line := l, width := w0 } bitsPP with
          | none => rw [hex] at h; simp only [Prod.mk.injEq, Option.some.injEq, reduceCtorEq, and_false] at h
          | some buf' =>
            rw [hex] at h hy
            simp only at h hy ⊢
            obtain ⟨c1, c2, c3, c4, c5, c6, c7, c8, c9⟩ :=
              ih A1 B1 buf' m hl1 a1 (a2.info.trans hi) (by omega) E bufE w h hy
            exact ⟨c1, c2, c3.trans a2.flags, c4.trans hw1, c5.trans hh1, c6, c7.trans a2.visible, by omega, c9⟩
      | noRow => simp only [intK, Prod.mk.injEq, reduceCtorEq, and_false] at h
      | _ => simp only [intK, Prod.mk.injEq, Option.some.injEq, reduceCtorEq, and_false] at h

/-! ## `finish_decoding`, retried -/

theorem finishPost_eof {out : R × Except Res Unit} {r1 : R} {w : String}
    (h : finishPost out = (r1, .error (.err .eof w))) : out = (r1, .error (.err .eof w)) := by
  unfold finishPost at h
  obtain ⟨r', res⟩ := out
  cases res with
  | error e => exact h
  | ok u =>
    exfalso
    simp only at h
    cases hm : markFlushed r' with
    | error e =>
      rw [hm] at h
      simp only [Prod.mk.injEq, Except.error.injEq] at h
      have := markFlushed_err hm
      rw [h.2] at this; cases this
    | ok r3 => rw [hm] at h; cases h

/-- **`finish_decoding`, retried** -/
theorem finishDecoding_retry (cfg : Cfg) (hI : cfg.InflateOk) {t : TCfg} {v v' m : Nat} {A B : R}
    (hl : LagLe cfg v v' m A B) (hInv : Inv t A) (hc : A.sub.cur = none) (E : R) (w : String)
    (h : finishDecoding cfg A = (E, .error (.err .eof w)))
    (hy : ∀ e, (finishDecoding cfg B).2 = .error e → e.isFatal = false) :
    Inv t E ∧ Keep A E ∧ E.sub = A.sub ∧ A.sub.caf = false ∧
      (finishDecoding cfg (growTo E v')).2 = (finishDecoding cfg B).2 ∧
      ∃ m', LagLe cfg v' v' m' (finishDecoding cfg (growTo E v')).1 (finishDecoding cfg B).1 := by
  obtain ⟨hvA, hvv, _⟩ := hl.visible
  have hsp := finishDecoding_spec cfg A hInv hc
  rw [h] at hsp
  obtain ⟨_, a2, a3, a4, _, _⟩ := hsp
  have hcaf : A.sub.caf = false := by
    cases hcaf : A.sub.caf with
    | false => rfl
    | true =>
      unfold finishDecoding at h
      rw [hc, hcaf] at h
      simp at h
  refine ⟨a2, a3, a4, hcaf, ?_⟩
  rw [finishDecoding_post cfg A hc hcaf] at h
  have hloop := finishPost_eof h
  have hres := finishDecodingImageData_resumable cfg hI A E w v' hInv.base.pos (by omega) hloop
  have hIg : Inv t (growTo A v') := hInv.growTo (by omega)
  obtain ⟨mg, hlg⟩ := hl.grow
  have hE : finishDecoding cfg (growTo E v') = finishPost (finishDecodingImageData cfg (fuelOf (growTo E v')) (growTo E v')) :=
    finishDecoding_post cfg (growTo E v') (by show E.sub.cur = none; rw [a4]; exact hc) (by show E.sub.caf = false; rw [a4]; exact hcaf)
  have hG : finishDecoding cfg (growTo A v') = finishPost (finishDecodingImageData cfg (fuelOf (growTo A v')) (growTo A v')) :=
    finishDecoding_post cfg (growTo A v') hc hcaf
  rcases hres with heq | ⟨ra, rb, e', h1, h2, h3⟩
  · have hEG : finishDecoding cfg (growTo E v') = finishDecoding cfg (growTo A v') := by rw [hE, hG, heq]
    rw [hEG]
    obtain ⟨g1, g2⟩ := finishDecoding_lag cfg hI hlg hIg.base.pos hc (Or.inl rfl)
    exact ⟨g1, mg, g2⟩
  · exfalso
    have hGe : finishDecoding cfg (growTo A v') = (rb, .error e') := by rw [hG, h2]; rfl
    have hspg := finishDecoding_spec cfg (growTo A v') hIg hc
    rw [hGe] at hspg
    have hfat := isFatal_of_isErr hspg.1 h3
    obtain ⟨g1, _⟩ := finishDecoding_lag cfg hI hlg hIg.base.pos hc (Or.inl rfl)
    rw [hGe] at g1
    have := hy e' g1.symm
    rw [hfat] at this; cases this

/-! ## `next_frame`, retried -/

/-- **the row loop of `next_frame`, retried** -/
theorem frameBody_retry (cfg : Cfg) (hI : cfg.InflateOk) {t : TCfg} (ht : t.Ok) {v v' m : Nat} {A B : R}
    (hl : LagLe cfg v v' m A B) (hInv : Inv t A) (i : Info) (hi : A.dec.info = some i) (buf : Bytes)
    (hbuf : A.sub.height * outLineSize t i A.flags A.sub.width ≤ buf.length) (E : R) (bufE : Bytes) (w : String)
    (h : frameBody cfg t A i.interlaced (outLineSize t i A.flags A.sub.width)
      (samplesOf (t.outColorDepth i A.flags).1 * (t.outColorDepth i A.flags).2) buf = (E, bufE, some (.err .eof w)))
    (hy : NotFatalO (frameBody cfg t B i.interlaced (outLineSize t i A.flags A.sub.width)
      (samplesOf (t.outColorDepth i A.flags).1 * (t.outColorDepth i A.flags).2) buf).2.2) :
    Inv t E ∧ E.dec.info = some i ∧ E.flags = A.flags ∧ E.sub.width = A.sub.width ∧ E.sub.height = A.sub.height ∧
      E.sub.caf = false ∧ E.visible = A.visible ∧ bufE.length = buf.length ∧
      (frameBody cfg t (growTo E v') i.interlaced (outLineSize t i A.flags A.sub.width)
        (samplesOf (t.outColorDepth i A.flags).1 * (t.outColorDepth i A.flags).2) bufE).2 =
      (frameBody cfg t B i.interlaced (outLineSize t i A.flags A.sub.width)
        (samplesOf (t.outColorDepth i A.flags).1 * (t.outColorDepth i A.flags).2) buf).2 ∧
      ∃ m', LagLe cfg v' v' m' (frameBody cfg t (growTo E v') i.interlaced (outLineSize t i A.flags A.sub.width)
          (samplesOf (t.outColorDepth i A.flags).1 * (t.outColorDepth i A.flags).2) bufE).1
        (frameBody cfg t B i.interlaced (outLineSize t i A.flags A.sub.width)
          (samplesOf (t.outColorDepth i A.flags).1 * (t.outColorDepth i A.flags).2) buf).1 := by
  obtain ⟨j, hj, hg⟩ := hInv.info
  rw [hi] at hj; cases hj
  have hleg := hInv.base.dinv.legal i hi
  have hsub := hl.fields.2.1
  have hlen : bufE.length = buf.length := by
    have := frameBody_spec cfg ht A buf i hInv hi hbuf
    rw [h] at this
    exact this.2.2.2
  generalize hls : outLineSize t i A.flags A.sub.width = ls at h hy hbuf ⊢
  generalize samplesOf (t.outColorDepth i A.flags).1 * (t.outColorDepth i A.flags).2 = bits at h hy ⊢
  unfold frameBody at h hy ⊢
  rw [hsub] at hy ⊢
  cases hil : i.interlaced with
  | true =>
    rw [hil] at h hy
    simp only [if_true] at h hy ⊢
    obtain ⟨c1, c2, c3, c4, c5, c6, c7, c8, c9⟩ := frameInterlaced_retry cfg hI ht i hil ls bits (7 * A.sub.height + 8) A B buf m
      hl hInv hi (by have := rowsLeft_le (hil ▸ hg.iter); omega) E bufE w h hy
    refine ⟨c1, c2, c3, c4, c5, c6, c7, hlen, ?_⟩
    have hh : (growTo E v').sub.height = A.sub.height := c5
    rw [hh]
    exact c9 _ (by have := rowsLeft_le (hil ▸ hg.iter); omega)
  | false =>
    rw [hil] at h hy
    simp only [Bool.false_eq_true, if_false] at h hy ⊢
    have hls0 : ¬ ls = 0 := by have := outLineSize_pos ht hleg A.flags hg.w1; omega
    simp only [hls0, if_false] at h hy ⊢
    cases hcur : A.sub.cur with
    | none =>
      rw [hcur] at h
      simp only [Nat.sub_self, frameRows, Prod.mk.injEq, reduceCtorEq, and_false] at h
    | some ii =>
      rw [hcur] at h hy
      have hc := hg.cur
      unfold CurOk at hc
      rw [hil, hcur] at hc
      cases ii with
      | adam7 _ _ _ => cases hit : A.sub.iter <;> (rw [hit] at hc; exact hc.elim)
      | null l =>
        cases hit : A.sub.iter with
        | adam7 _ => rw [hit] at hc; exact hc.elim
        | none n stop =>
          rw [hit] at hc; simp only at hc
          simp only [IInfo.line] at h hy ⊢
          obtain ⟨ne, ke, c1, c2, c3, c4, c5, c6, c7, c8, c9, c10, _, c12, c13⟩ :=
            frameRows_retry cfg hI ht i hil ls (A.sub.height - l) l A B buf m hl hInv hi hls.symm (by omega)
              (fun h => by omega) (fun _ => hcur) hbuf E bufE w h hy
          refine ⟨c7, c8, c9, c5, c4, c6, c10, hlen, ?_⟩
          have hcE : (growTo E v').sub.cur = some (.null ke) := c3
          have hhE : (growTo E v').sub.height = A.sub.height := c4
          rw [hcE, hhE]
          simp only
          have : A.sub.height - ke = ne := by omega
          rw [this]
          exact ⟨c12, c13⟩

/-- after a successful `finish_decoding` the frame is consumed and flushed -/
theorem finishDecoding_ok_caf (cfg : Cfg) (r r' : R) (h : finishDecoding cfg r = (r', .ok ())) : r'.sub.caf = true := by
  unfold finishDecoding at h
  split at h
  · cases h
  · split at h
    · rename_i hc
      simp only [Prod.mk.injEq, and_true] at h
      rw [← h]; exact hc
    · generalize finishDecodingImageData cfg (fuelOf r) r = o at h
      obtain ⟨r2, res⟩ := o
      cases res with
      | error e => cases h
      | ok u =>
        simp only at h
        cases hm : markFlushed r2 with
        | error e => rw [hm] at h; cases h
        | ok r3 =>
          rw [hm] at h
          simp only [Prod.mk.injEq, and_true] at h
          subst h
          unfold markFlushed at hm
          split at hm
          · cases hm
          · simp only [Except.ok.injEq] at hm; subst hm; rfl

/-- when the interlaced row loop ends without an error the frame is consumed and flushed -/
theorem frameInterlaced_none_caf (cfg : Cfg) {t : TCfg} (ht : t.Ok) (i : Info) (stride bitsPP : Nat) :
    ∀ (fuel : Nat) (r : R) (buf : Bytes) (r' : R) (buf' : Bytes), Inv t r → r.dec.info = some i →
    frameInterlaced cfg t stride bitsPP fuel r buf = (r', buf', none) → r'.sub.caf = true := by
  intro fuel
  induction fuel with
  | zero => intro r buf r' buf' _ _ h; simp only [frameInterlaced, Prod.mk.injEq, reduceCtorEq, and_false] at h
  | succ fuel ih =>
    intro r buf r' buf' hI hi h
    rw [frameInterlaced_succ] at h
    have hsp := nextInterlacedRow_spec cfg ht r i hI hi
    generalize nextInterlacedRow cfg t r = out at hsp h
    obtain ⟨r1, res⟩ := out
    obtain ⟨a1, a2, _, a4⟩ := hsp
    cases res with
    | noRow =>
      simp only [intK, Prod.mk.injEq, and_true] at h
      simp only [RowRes] at a4
      rw [← h.1, a4.2]
    | row ii data =>
      cases ii with
      | null l => simp only [intK, Prod.mk.injEq, reduceCtorEq, and_false] at h
      | adam7 p l w =>
        simp only [intK] at h
        cases hex : Adam7.expandPass buf stride data { pass := p, line := l, width := w } bitsPP with
        | none => rw [hex] at h; simp only [Prod.mk.injEq, reduceCtorEq, and_false] at h
        | some buf2 =>
          rw [hex] at h
          exact ih r1 buf2 r' buf' a1 (a2.info.trans hi) h
    | _ => simp only [intK, Prod.mk.injEq, reduceCtorEq, and_false] at h

/-- `next_frame` after its row loop, as a function of the loop's outcome -/
def intoK (cfg : Cfg) (oi : OutputInfo) (o : R × Bytes × Option Res) : R × Res × Bytes :=
  match o with
  | (r2, buf', some e) => (r2, e, buf')
  | (r2, buf', none) =>
    match finishDecoding cfg r2 with
    | (r3, .error e) => (r3, e, buf')
    | (r3, .ok ()) => (r3, .frame oi buf', buf')

/-- the `OutputInfo` `next_frame` returns -/
def oiOf (t : TCfg) (i : Info) (r : R) : OutputInfo :=
  ⟨r.sub.width, r.sub.height, (t.outColorDepth i r.flags).1, (t.outColorDepth i r.flags).2, outLineSize t i r.flags r.sub.width⟩

theorem frameInto_eq (cfg : Cfg) (t : TCfg) (r : R) (buf : Bytes) (i : Info) (hi : infoOf r = some i)
    (hneed : ¬ buf.length < outLineSize t i r.flags i.width * i.height) :
    frameInto cfg t r buf = intoK cfg (oiOf t i r) (frameBody cfg t r i.interlaced (outLineSize t i r.flags r.sub.width)
      (samplesOf (t.outColorDepth i r.flags).1 * (t.outColorDepth i r.flags).2) buf) := by
  unfold frameInto
  rw [hi]
  simp only
  rw [if_neg hneed]
  unfold intoK
  generalize frameBody cfg t r i.interlaced (outLineSize t i r.flags r.sub.width)
    (samplesOf (t.outColorDepth i r.flags).1 * (t.outColorDepth i r.flags).2) buf = o
  obtain ⟨r2, buf', res⟩ := o
  cases res with
  | some e => rfl
  | none =>
    simp only
    cases finishDecoding cfg r2 with
    | mk r3 res3 => cases res3 <;> rfl

theorem frameInto_short (cfg : Cfg) (t : TCfg) (r : R) (buf : Bytes) (i : Info) (hi : infoOf r = some i)
    (hneed : buf.length < outLineSize t i r.flags i.width * i.height) :
    frameInto cfg t r buf = (r, .err .parameter "ImageBufferSize", buf) := by
  unfold frameInto
  rw [hi]
  simp only
  rw [if_pos hneed]

theorem intoK_none_rel (cfg : Cfg) (oi : OutputInfo) (bufx : Bytes) {X2 B2 : R} {P : R → R → Prop}
    (g1 : (finishDecoding cfg X2).2 = (finishDecoding cfg B2).2) (g2 : P (finishDecoding cfg X2).1 (finishDecoding cfg B2).1) :
    (intoK cfg oi (X2, bufx, none)).2 = (intoK cfg oi (B2, bufx, none)).2 ∧
      P (intoK cfg oi (X2, bufx, none)).1 (intoK cfg oi (B2, bufx, none)).1 := by
  unfold intoK
  simp only
  generalize finishDecoding cfg X2 = oa at g1 g2
  generalize finishDecoding cfg B2 = ob at g1 g2
  obtain ⟨a3, xa⟩ := oa
  obtain ⟨b3, xb⟩ := ob
  simp only at g1 g2
  subst g1
  cases xa with
  | error e => exact ⟨rfl, g2⟩
  | ok u => exact ⟨rfl, g2⟩

/-- the sub-frame's size stays through the non-interlaced row loop -/
theorem frameRows_dims (cfg : Cfg) {t : TCfg} (ht : t.Ok) (i : Info) (hil : i.interlaced = false) (lineSize : Nat) :
    ∀ (n k : Nat) (r : R) (buf : Bytes), Inv t r → r.dec.info = some i →
    lineSize = outLineSize t i r.flags r.sub.width → k + n = r.sub.height →
    (n = 0 → r.sub.cur = none) → (0 < n → r.sub.cur = some (.null k)) → r.sub.height * lineSize ≤ buf.length →
    (frameRows cfg t lineSize n k r buf).1.sub.width = r.sub.width ∧ (frameRows cfg t lineSize n k r buf).1.sub.height = r.sub.height := by
  intro n
  induction n with
  | zero => intro k r buf _ _ _ _ _ _ _; exact ⟨rfl, rfl⟩
  | succ n ih =>
    intro k r buf hI hi hls hkn _ hc hbuf
    have hcur := hc (Nat.succ_pos n)
    obtain ⟨j, hj, hg⟩ := hI.info
    rw [hi] at hj; cases hj
    have hfit : (k + 1) * lineSize ≤ buf.length := mul_le_of_le (by omega) hbuf
    rw [frameRows_succ cfg t lineSize n k r buf (by omega)]
    have hp : r.ub.prevRow = [] ∨ r.ub.prevRow.length + 1 = rowlenOf i.color i.depth r.sub (.null k) := by
      have := hg.prev; unfold PrevOk at this; rw [hcur] at this; exact this
    have hsp := nextRowImpl_spec cfg ht r i (.null k) hI hi hcur hp
    have e1 : rowlenOf i.color i.depth r.sub (.null k) = r.sub.rowlen := rfl
    have e2 : outLineSize t i r.flags (widthOf r.sub (.null k)) = lineSize := hls.symm
    rw [e1, e2] at hsp
    generalize nextRowImpl cfg t r r.sub.rowlen lineSize = out at hsp
    obtain ⟨r1, res⟩ := out
    cases res with
    | error e =>
      simp only [rowsK]
      rw [hsp.2.2.2]; exact ⟨rfl, rfl⟩
    | ok out =>
      obtain ⟨a1, a2, a3, a4⟩ := hsp
      simp only [rowsK]
      obtain ⟨d1, d2, _, _⟩ := advance_dims r.sub
      have hw1 : r1.sub.width = r.sub.width := by rw [a4]; exact d1
      have hh1 : r1.sub.height = r.sub.height := by rw [a4]; exact d2
      have hcur1 : r1.sub.cur = if k + 1 < r.sub.height then some (.null (k + 1)) else none := by
        rw [a4]; exact advance_null (hil ▸ hg.iter) (hil ▸ hg.cur) hcur
      have hlen : (setSlice buf (k * lineSize) out).length = buf.length := by
        apply setSlice_length
        rw [a3]
        have : (k + 1) * lineSize = k * lineSize + lineSize := Nat.succ_mul k lineSize
        omega
      obtain ⟨g1, g2⟩ := ih (k + 1) r1 (setSlice buf (k * lineSize) out) a1 (a2.info.trans hi)
        (by rw [a2.flags, hw1]; exact hls) (by rw [hh1]; omega)
        (fun h0 => by rw [hcur1, if_neg (by omega)])
        (fun h0 => by rw [hcur1, if_pos (by omega)])
        (by rw [hh1, hlen]; exact hbuf)
      exact ⟨g1.trans hw1, g2.trans hh1⟩

/-- the continuation of `next_frame` after the row loop, from lagging readers that see the same -/
theorem intoK_lag (cfg : Cfg) (hI : cfg.InflateOk) {t : TCfg} (oi : OutputInfo) {v' m : Nat} {X2 B2 : R} (bufx : Bytes)
    (res : Option Res) (hl : LagLe cfg v' v' m X2 B2) (hX : res = none → Inv t X2 ∧ X2.sub.cur = none) :
    (intoK cfg oi (X2, bufx, res)).2 = (intoK cfg oi (B2, bufx, res)).2 ∧
      LagLe cfg v' v' m (intoK cfg oi (X2, bufx, res)).1 (intoK cfg oi (B2, bufx, res)).1 := by
  cases res with
  | some e => exact ⟨rfl, hl⟩
  | none =>
    obtain ⟨hIX, hcX⟩ := hX rfl
    obtain ⟨g1, g2⟩ := finishDecoding_lag cfg hI hl hIX.base.pos hcX (Or.inl rfl)
    exact intoK_none_rel cfg oi bufx (P := LagLe cfg v' v' m) g1 g2

/-- **`next_frame` inside the frame's image data, retried** with the buffer the failed call left -/
theorem frameInto_retry (cfg : Cfg) (hI : cfg.InflateOk) {t : TCfg} (ht : t.Ok) {v v' m : Nat} {A B : R}
    (hl : LagLe cfg v v' m A B) (hInv : Inv t A) (buf : Bytes) (E : R) (bufE : Bytes) (w : String)
    (h : frameInto cfg t A buf = (E, .err .eof w, bufE)) (hy : (frameInto cfg t B buf).2.1.isFatal = false) :
    Inv t E ∧ E.sub.caf = false ∧ E.visible = A.visible ∧ E.dec.info = A.dec.info ∧ E.flags = A.flags ∧
      bufE.length = buf.length ∧
      (frameInto cfg t (growTo E v') bufE).2 = (frameInto cfg t B buf).2 ∧
      ∃ m', LagLe cfg v' v' m' (frameInto cfg t (growTo E v') bufE).1 (frameInto cfg t B buf).1 := by
  obtain ⟨i, hi, hg⟩ := hInv.info
  have hleg := hInv.base.dinv.legal i hi
  obtain ⟨hinfoB, _⟩ := hl.info hInv
  have hsub := hl.fields.2.1
  have hfl := hl.fields.2.2.1
  obtain ⟨hvA, hvv, _⟩ := hl.visible
  have hiB : infoOf B = some i := hinfoB.trans hi
  by_cases hneed : buf.length < outLineSize t i A.flags i.width * i.height
  · rw [frameInto_short cfg t A buf i hi hneed] at h
    simp only [Prod.mk.injEq, Res.err.injEq, reduceCtorEq, false_and, and_false] at h
  · have hbuf : A.sub.height * outLineSize t i A.flags A.sub.width ≤ buf.length := by
      have h1 := outLineSize_mono ht hleg A.flags hg.wW
      have h2 : A.sub.height * outLineSize t i A.flags A.sub.width ≤ i.height * outLineSize t i A.flags i.width :=
        Nat.mul_le_mul hg.hH h1
      rw [Nat.mul_comm i.height] at h2
      omega
    have hoiB : oiOf t i B = oiOf t i A := by unfold oiOf; rw [hfl, hsub]
    rw [frameInto_eq cfg t A buf i hi hneed] at h
    rw [frameInto_eq cfg t B buf i hiB (by rw [hfl]; exact hneed), hfl, hsub, hoiB] at hy ⊢
    have hbody := frameBody_spec cfg ht A buf i hInv hi hbuf
    -- the row loop on the grown input does not fail fatally
    have hyB : NotFatalO (frameBody cfg t B i.interlaced (outLineSize t i A.flags A.sub.width)
        (samplesOf (t.outColorDepth i A.flags).1 * (t.outColorDepth i A.flags).2) buf).2.2 := by
      intro e he
      generalize frameBody cfg t B i.interlaced (outLineSize t i A.flags A.sub.width)
        (samplesOf (t.outColorDepth i A.flags).1 * (t.outColorDepth i A.flags).2) buf = ob at hy he
      obtain ⟨B2, bufb, rb⟩ := ob
      simp only at he
      subst he
      exact hy
    -- what the retried call computes from the state the failed call left
    have hretry : ∀ (E : R) (bufE : Bytes), E.dec.info = some i → E.flags = A.flags → E.sub.width = A.sub.width →
        E.sub.height = A.sub.height → bufE.length = buf.length →
        frameInto cfg t (growTo E v') bufE = intoK cfg (oiOf t i A) (frameBody cfg t (growTo E v') i.interlaced
          (outLineSize t i A.flags A.sub.width) (samplesOf (t.outColorDepth i A.flags).1 * (t.outColorDepth i A.flags).2) bufE) := by
      intro E bufE e1 e2 e3 e4 e5
      have hiE : infoOf (growTo E v') = some i := e1
      rw [frameInto_eq cfg t (growTo E v') bufE i hiE (by show ¬ bufE.length < outLineSize t i E.flags i.width * i.height; rw [e5, e2]; exact hneed)]
      have hoiE : oiOf t i (growTo E v') = oiOf t i A := by
        unfold oiOf
        show (⟨E.sub.width, E.sub.height, (t.outColorDepth i E.flags).1, (t.outColorDepth i E.flags).2,
          outLineSize t i E.flags E.sub.width⟩ : OutputInfo) = _
        rw [e2, e3, e4]
      have hf : (growTo E v').flags = A.flags := e2
      have hw : (growTo E v').sub.width = A.sub.width := e3
      rw [hoiE, hf, hw]
    generalize hbA : frameBody cfg t A i.interlaced (outLineSize t i A.flags A.sub.width)
      (samplesOf (t.outColorDepth i A.flags).1 * (t.outColorDepth i A.flags).2) buf = oa at h hbody
    obtain ⟨A2, buf2, res2⟩ := oa
    cases res2 with
    | some e =>
      -- the input ran out in the row loop
      simp only [intoK, Prod.mk.injEq] at h
      obtain ⟨rfl, rfl, rfl⟩ := h
      obtain ⟨c1, c2, c3, c4, c5, c6, c7, c8, c9, m', c10⟩ := frameBody_retry cfg hI ht hl hInv i hi buf hbuf A2 buf2 w hbA hyB
      refine ⟨c1, c6, c7, c2.trans hi.symm, c3, c8, ?_⟩
      rw [hretry A2 buf2 c2 c3 c4 c5 c8]
      have hIE : Inv t (growTo A2 v') := c1.growTo (by omega)
      have hbufE : (growTo A2 v').sub.height * outLineSize t i (growTo A2 v').flags (growTo A2 v').sub.width ≤ buf2.length := by
        show A2.sub.height * outLineSize t i A2.flags A2.sub.width ≤ buf2.length
        rw [c5, c3, c4, c8]; exact hbuf
      have hspE := frameBody_spec cfg ht (growTo A2 v') buf2 i hIE c2 hbufE
      have hf : (growTo A2 v').flags = A.flags := c3
      have hw : (growTo A2 v').sub.width = A.sub.width := c4
      rw [hf, hw] at hspE
      generalize frameBody cfg t (growTo A2 v') i.interlaced (outLineSize t i A.flags A.sub.width)
        (samplesOf (t.outColorDepth i A.flags).1 * (t.outColorDepth i A.flags).2) buf2 = ox at c9 c10 hspE ⊢
      generalize frameBody cfg t B i.interlaced (outLineSize t i A.flags A.sub.width)
        (samplesOf (t.outColorDepth i A.flags).1 * (t.outColorDepth i A.flags).2) buf = ob at c9 c10 ⊢
      obtain ⟨X2, bufx, rx⟩ := ox
      obtain ⟨B2, bufb, rb⟩ := ob
      simp only [Prod.mk.injEq] at c9 c10
      obtain ⟨rfl, rfl⟩ := c9
      obtain ⟨g1, g2⟩ := intoK_lag cfg hI (oiOf t i A) bufx rx c10 (fun hn => by
        subst hn
        exact ⟨hspE.1, hspE.2.2.1⟩)
      exact ⟨g1, m', g2⟩
    | none =>
      -- all rows were delivered; the input ran out in `finish_decoding`
      obtain ⟨b1, b2, b3, b4⟩ := hbody
      simp only [intoK] at h
      generalize hfd : finishDecoding cfg A2 = ofd at h
      obtain ⟨A3, res3⟩ := ofd
      cases res3 with
      | ok u => cases h
      | error e =>
        simp only [Prod.mk.injEq] at h
        obtain ⟨rfl, rfl, rfl⟩ := h
        -- the row loop on the grown input
        obtain ⟨g1, hl2⟩ := frameBody_lag cfg hI ht hl buf i hInv hi
          (samplesOf (t.outColorDepth i A.flags).1 * (t.outColorDepth i A.flags).2) hbuf
          (by rw [hbA]; exact Or.inr ⟨fun e he => (by cases he), hyB⟩)
        rw [hbA] at g1 hl2
        generalize frameBody cfg t B i.interlaced (outLineSize t i A.flags A.sub.width)
          (samplesOf (t.outColorDepth i A.flags).1 * (t.outColorDepth i A.flags).2) buf = ob at hy g1 hl2 ⊢
        obtain ⟨B2, bufb, rb⟩ := ob
        simp only [Prod.mk.injEq] at g1 hl2
        obtain ⟨rfl, rfl⟩ := g1
        have hy2 : ∀ e, (finishDecoding cfg B2).2 = .error e → e.isFatal = false := by
          intro e' he'
          simp only [intoK] at hy
          generalize finishDecoding cfg B2 = o2 at hy he'
          obtain ⟨B3, xb⟩ := o2
          simp only at he'
          subst he'
          exact hy
        obtain ⟨d1, d2, d3, d4, d5, m', d6⟩ := finishDecoding_retry cfg hI hl2 b1 b3 A3 w hfd hy2
        -- not interlaced: that loop ends with the frame flushed
        have hil : i.interlaced = false := by
          cases hil : i.interlaced with
          | false => rfl
          | true =>
            exfalso
            unfold frameBody at hbA
            rw [hil] at hbA
            simp only [if_true] at hbA
            have := frameInterlaced_none_caf cfg ht i _ _ _ A buf A2 buf2 hInv hi hbA
            rw [d4] at this; cases this
        have e1 : A3.dec.info = some i := d2.info.trans (b2.info.trans hi)
        have e2 : A3.flags = A.flags := d2.flags.trans b2.flags
        have hls0 : ¬ outLineSize t i A.flags A.sub.width = 0 := by
          have := outLineSize_pos ht hleg A.flags hg.w1; omega
        have hs2 : A2.sub.width = A.sub.width ∧ A2.sub.height = A.sub.height := by
          unfold frameBody at hbA
          rw [hil] at hbA
          simp only [Bool.false_eq_true, if_false, hls0] at hbA
          cases hcur : A.sub.cur with
          | none =>
            rw [hcur] at hbA
            simp only [Nat.sub_self, frameRows, Prod.mk.injEq] at hbA
            rw [← hbA.1]; exact ⟨rfl, rfl⟩
          | some ii =>
            rw [hcur] at hbA
            have hc := hg.cur
            unfold CurOk at hc
            rw [hil, hcur] at hc
            cases ii with
            | adam7 _ _ _ => cases hit : A.sub.iter <;> (rw [hit] at hc; exact hc.elim)
            | null l =>
              cases hit : A.sub.iter with
              | adam7 _ => rw [hit] at hc; exact hc.elim
              | none n stop =>
                rw [hit] at hc; simp only at hc
                simp only [IInfo.line] at hbA
                have hA2 : A2 = (frameRows cfg t (outLineSize t i A.flags A.sub.width) (A.sub.height - l) l A buf).1 := by
                  rw [hbA]
                rw [hA2]
                exact frameRows_dims cfg ht i hil _ _ _ A buf hInv hi rfl (by omega) (fun h => by omega) (fun _ => hcur) hbuf
        have e3 : A3.sub.width = A.sub.width := by rw [d3]; exact hs2.1
        have e4 : A3.sub.height = A.sub.height := by rw [d3]; exact hs2.2
        refine ⟨d1, by rw [d3]; exact d4, d2.visible.trans b2.visible, e1.trans hi.symm, e2, b4, ?_⟩
        rw [hretry A3 buf2 e1 e2 e3 e4 b4]
        have hfb : frameBody cfg t (growTo A3 v') i.interlaced (outLineSize t i A.flags A.sub.width)
            (samplesOf (t.outColorDepth i A.flags).1 * (t.outColorDepth i A.flags).2) buf2 = (growTo A3 v', buf2, none) := by
          unfold frameBody
          rw [hil]
          simp only [Bool.false_eq_true, if_false, hls0]
          have hc3 : (growTo A3 v').sub.cur = none := by show A3.sub.cur = none; rw [d3]; exact b3
          rw [hc3]
          simp only [Nat.sub_self, frameRows]
        rw [hfb]
        obtain ⟨k1, k2⟩ := intoK_none_rel cfg (oiOf t i A) buf2 (P := LagLe cfg v' v' m') d5 d6
        exact ⟨k1, m', k2⟩

/-- the image header kept its IHDR fields and its `tRNS` -/
def SameHeader (r r' : R) : Prop :=
  ∃ i i', r.dec.info = some i ∧ r'.dec.info = some i' ∧ i'.core = i.core ∧ i'.trns = i.trns

theorem SameHeader.of_eq {t : TCfg} {r r' : R} (hI : Inv t r) (h : r'.dec.info = r.dec.info) : SameHeader r r' := by
  obtain ⟨i, hi, _⟩ := hI.info
  exact ⟨i, i, hi, h.trans hi, rfl, rfl⟩

theorem SameHeader.of_step {t : TCfg} {r r' : R} (hI : Inv t r) (h : InfoStep r.dec r'.dec) : SameHeader r r' := by
  obtain ⟨i, hi, _⟩ := hI.info
  obtain ⟨i', hi', hc, ht, _⟩ := h.evo i hi
  exact ⟨i, i', hi, hi', hc, ht hI.idat⟩

theorem SameHeader.trans_eq {r r' r'' : R} (h : SameHeader r r') (he : r''.dec.info = r'.dec.info) : SameHeader r r'' := by
  obtain ⟨i, i', h1, h2, h3, h4⟩ := h
  exact ⟨i, i', h1, he.trans h2, h3, h4⟩

/-- the advance to the next frame is resumable -/
theorem readUntilImageData_resumable (cfg : Cfg) (hI : cfg.InflateOk) {t : TCfg} (x r1 : R) (w : String) (v : Nat)
    (hInv : Inv t x) (hcaf : x.sub.caf = true) (hrem : x.remaining ≠ 0) (hv : x.visible ≤ v)
    (hru : readUntilImageData cfg t x = (r1, .error (.err .eof w))) :
    (readUntilImageData cfg t (growTo r1 v) = readUntilImageData cfg t (growTo x v) ∨
      ∃ ra rb e, readUntilImageData cfg t (growTo r1 v) = (ra, .error e) ∧ readUntilImageData cfg t (growTo x v) = (rb, .error e) ∧
        e.isErr = true ∧ ∀ w, e ≠ .err .eof w) ∧
    r1.sub = x.sub ∧ r1.remaining = x.remaining ∧ InfoStep x.dec r1.dec ∧ r1.visible = x.visible ∧ r1.flags = x.flags := by
  have hfl := (hInv.flushed hcaf).resolve_left hrem
  have hsp0 := readUntilImageData_spec cfg t x hInv.base hfl.2
  rw [hru] at hsp0
  have hfields : r1.sub = x.sub ∧ r1.remaining = x.remaining ∧ InfoStep x.dec r1.dec ∧ r1.visible = x.visible ∧ r1.flags = x.flags := by
    rcases hsp0.2 with ⟨a2, _⟩ | ⟨_, a3⟩
    · obtain ⟨f1, _, f3, _, _, f6, _, _, _, f10, _⟩ := a2.frame.fields
      exact ⟨f1, f3, a2.step, f10, f6⟩
    · cases a3
  refine ⟨?_, hfields⟩
  have hloop := untilPost_eof (by rw [← readUntilImageData_post]; exact hru)
  rw [readUntilImageData_post, readUntilImageData_post]
  rcases rdReadUntilImageData_resumable cfg hI x r1 w v hInv.base.pos hv hloop with heq | ⟨ra, rb, e, h1, h2, h3⟩
  · rw [heq]; exact Or.inl rfl
  · rw [h1, h2]
    refine Or.inr ⟨ra, rb, e, rfl, rfl, ?_, h3⟩
    have hBg : Base (growTo x v) := hInv.base.congr rfl rfl rfl (by show min x.visible x.input.length ≤ min v x.input.length; omega)
    have hsp := rdReadUntilImageData_spec cfg (fuelOf (growTo x v)) (growTo x v) (fuelOf_ge _) hBg hfl.2
    rw [h2] at hsp
    exact hsp.1

/-- `next_frame` after the advance to the frame's data, as a function of the outcome of the advance -/
def advK (cfg : Cfg) (t : TCfg) (buf : Bytes) (o : R × Except Res Unit) : R × Res × Bytes :=
  match o with
  | (r1, .error e) => (r1, e, buf)
  | (r1, .ok ()) => frameInto cfg t r1 buf

theorem nextFrameBuf_ncaf (cfg : Cfg) (t : TCfg) (r : R) (buf : Bytes) (hrem : r.remaining ≠ 0) (hcaf : r.sub.caf = false) :
    nextFrameBuf cfg t r buf = frameInto cfg t r buf := by
  exact nextFrameBuf_inside cfg t r buf hrem hcaf

theorem nextFrameBuf_caf (cfg : Cfg) (t : TCfg) (r : R) (buf : Bytes) (hcur : r.sub.cur = none) (hrem : r.remaining ≠ 0)
    (hcaf : r.sub.caf = true) :
    nextFrameBuf cfg t r buf = advK cfg t buf (readUntilImageData cfg t r) := by
  rw [nextFrameBuf_none cfg t r buf hcur]
  unfold nextFrameBuf0 advK
  rw [if_neg hrem, hcaf]
  simp only [if_true]
  cases readUntilImageData cfg t r with
  | mk r1 res => cases res <;> rfl

theorem LagLe.behind {cfg : Cfg} {v m : Nat} {X Y : R} (h : LagLe cfg v v m X Y) : ∃ n, BehindN cfg n X Y := by
  obtain ⟨n0, ⟨hv, _, hb⟩, _⟩ := h
  rw [growTo_visible X hv] at hb
  exact ⟨n0, hb⟩

/-- **`next_frame` (into a given buffer), retried** with the buffer the failed call left -/
theorem nextFrameBuf_resumable (cfg : Cfg) (hI : cfg.InflateOk) {t : TCfg} (ht : t.Ok) (A E : R) (buf bufE : Bytes)
    (w : String) (v' : Nat) (hInv : Inv t A) (hv : A.visible ≤ v')
    (h : nextFrameBuf cfg t A buf = (E, .err .eof w, bufE))
    (hy : (nextFrameBuf cfg t (growTo A v') buf).2.1.isFatal = false) :
    Inv t E ∧ E.visible = A.visible ∧ E.flags = A.flags ∧ SameHeader A E ∧ bufE.length = buf.length ∧
      (nextFrameBuf cfg t (growTo E v') bufE).2 = (nextFrameBuf cfg t (growTo A v') buf).2 ∧
      ∃ n, BehindN cfg n (nextFrameBuf cfg t (growTo E v') bufE).1 (nextFrameBuf cfg t (growTo A v') buf).1 := by
  have hl0 : LagLe cfg A.visible v' 0 A (growTo A v') := LagLe.of_sim rfl hv (Sim.refl _)
  rcases inside_cases A with hin | ⟨hcur, hrem⟩ | ⟨hcur, hrem, hcaf⟩
  · have hing : Inside (growTo A v') := hin
    rw [nextFrameBuf_of_inside cfg t A buf hin] at h
    rw [nextFrameBuf_of_inside cfg t (growTo A v') buf hing] at hy ⊢
    obtain ⟨c1, c2, c3, c4, c5, c6, c7, m', c8'⟩ := frameInto_retry cfg hI ht hl0 hInv buf E bufE w h hy
    have c8 := c8'.behind
    have hremE : (growTo E v').remaining ≠ 0 := by
      have := (c1.live c2).1
      show E.remaining ≠ 0
      omega
    rw [nextFrameBuf_ncaf cfg t (growTo E v') bufE hremE c2]
    exact ⟨c1, c3, c5, SameHeader.of_eq hInv c4, c6, c7, c8⟩
  · rw [nextFrameBuf_polled cfg t A buf hcur hrem] at h
    simp only [Prod.mk.injEq, Res.err.injEq, reduceCtorEq, false_and, and_false] at h
  · have hremg : (growTo A v').remaining ≠ 0 := hrem
    have hcurg : (growTo A v').sub.cur = none := hcur
    cases hcaf' : A.sub.caf with
    | false => rw [hcaf] at hcaf'; cases hcaf'
    | true =>
      rw [nextFrameBuf_caf cfg t A buf hcur hrem hcaf] at h
      rw [nextFrameBuf_caf cfg t (growTo A v') buf hcurg hremg hcaf] at hy ⊢
      have hsp := advanceFrame_spec cfg A hInv hcaf hrem
      cases hadv : readUntilImageData cfg t A with
      | mk A1 res1 =>
        rw [hadv] at h hsp
        cases res1 with
        | error e =>
          -- the input ran out on the way to the frame's data
          simp only [advK, Prod.mk.injEq] at h
          obtain ⟨rfl, rfl, rfl⟩ := h
          obtain ⟨hres, f1, f2, f3, f4, f5⟩ := readUntilImageData_resumable cfg hI A A1 w v' hInv hcaf hrem hv hadv
          have hremE : (growTo A1 v').remaining ≠ 0 := by show A1.remaining ≠ 0; rw [f2]; exact hrem
          have hcafE : (growTo A1 v').sub.caf = true := by show A1.sub.caf = true; rw [f1]; exact hcaf
          have hcurE : (growTo A1 v').sub.cur = none := by show A1.sub.cur = none; rw [f1]; exact hcur
          rw [nextFrameBuf_caf cfg t (growTo A1 v') buf hcurE hremE hcafE]
          refine ⟨hsp.2.1, f4, f5, SameHeader.of_step hInv f3, rfl, ?_⟩
          rcases hres with heq | ⟨ra, rb, e', h1, h2, h3, h4⟩
          · rw [heq]
            exact ⟨rfl, 0, Sim.refl _⟩
          · exfalso
            rw [h2] at hy
            simp only [advK] at hy
            rw [isFatal_of_isErr h3 h4] at hy; cases hy
        | ok u =>
          cases u
          simp only [advK] at h
          obtain ⟨a1, a2, a3, a4, _⟩ := hsp
          -- the advance on the grown input
          have hside : SideE A.visible v' (Except.ok () : Except Res Unit) (readUntilImageData cfg t (growTo A v')).2 := by
            refine Or.inr ⟨fun e he => (by cases he), fun e he => ?_⟩
            generalize readUntilImageData cfg t (growTo A v') = ob at hy he
            obtain ⟨B1, xb⟩ := ob
            simp only at he
            subst he
            exact hy
          have hlag := readUntilImageData_lag cfg hI t hl0 hInv.base.pos hcaf
          rw [hadv] at hlag
          obtain ⟨g1, g2⟩ := hlag hside
          generalize readUntilImageData cfg t (growTo A v') = ob at hy g1 g2 ⊢
          obtain ⟨B1, xb⟩ := ob
          simp only at g1 g2
          subst g1
          simp only [advK] at hy ⊢
          obtain ⟨c1, c2, c3, c4, c5, c6, c7, m', c8'⟩ := frameInto_retry cfg hI ht (g2.le 0) a1 buf E bufE w h hy
          have hremE : (growTo E v').remaining ≠ 0 := by
            have := (c1.live c2).1
            show E.remaining ≠ 0
            omega
          rw [nextFrameBuf_ncaf cfg t (growTo E v') bufE hremE c2]
          have hvA1 : A1.visible = A.visible := g2.1
          have hstep : InfoStep A.dec A1.dec := by
            have hfl := (hInv.flushed hcaf).resolve_left hrem
            have hsp0 := readUntilImageData_spec cfg t A hInv.base hfl.2
            rw [hadv] at hsp0
            exact hsp0.step
          exact ⟨c1, c3.trans hvA1, c5.trans a2.flags, (SameHeader.of_step hInv hstep).trans_eq c4, c6, c7, c8'.behind⟩

/-! ## A call that ran out of input consumed everything visible -/

theorem finishDecoding_eof_avail (cfg : Cfg) (r r1 : R) (w : String)
    (h : finishDecoding cfg r = (r1, .error (.err .eof w))) : avail r1 = [] := by
  unfold finishDecoding at h
  split at h
  · simp only [Prod.mk.injEq, Except.error.injEq, reduceCtorEq, and_false] at h
  · split at h
    · cases h
    · generalize hl : finishDecodingImageData cfg (fuelOf r) r = o at h
      obtain ⟨r2, res⟩ := o
      cases res with
      | error e =>
        simp only [Prod.mk.injEq, Except.error.injEq] at h
        obtain ⟨rfl, rfl⟩ := h
        rw [finishDecodingImageData_gloop] at hl
        obtain ⟨_, _, _, hav⟩ := gloop_eof cfg bodyFinish bodyFinish_ok _ r r2 w hl
        exact hav
      | ok u =>
        exfalso
        simp only at h
        cases hm : markFlushed r2 with
        | error e =>
          rw [hm] at h
          simp only [Prod.mk.injEq, Except.error.injEq] at h
          have := markFlushed_err hm
          rw [h.2] at this; cases this
        | ok r3 => rw [hm] at h; cases h

theorem nextInterlacedRow_eof_avail (cfg : Cfg) (t : TCfg) (r r1 : R) (w : String)
    (h : nextInterlacedRow cfg t r = (r1, .err .eof w)) : avail r1 = [] := by
  unfold nextInterlacedRow at h
  cases hio : infoOf r with
  | none => rw [hio] at h; cases h
  | some i =>
    rw [hio] at h
    simp only at h
    generalize ({ r with scratchLen := outLineSize t i r.flags r.sub.width } : R) = r0 at h
    generalize outLineSize t i r.flags r.sub.width = bl at h
    cases hcur : r0.sub.cur with
    | none =>
      unfold readRow at h
      rw [hcur] at h
      simp only at h
      generalize hfd : finishDecoding cfg r0 = o at h
      obtain ⟨r2, res⟩ := o
      cases res with
      | error e =>
        simp only [Prod.mk.injEq] at h
        obtain ⟨rfl, rfl⟩ := h
        exact finishDecoding_eof_avail cfg r0 r2 w hfd
      | ok u => cases h
    | some ii =>
      rw [readRow_some cfg t r0 bl ii hcur] at h
      generalize (if ii.line = 0 then { r0 with ub := r0.ub.resetPrev } else r0) = r00 at h
      cases hi0 : infoOf r00 with
      | none => rw [hi0] at h; cases h
      | some i0 =>
        rw [hi0] at h
        simp only at h
        split at h
        · cases h
        · generalize hrow : nextRowImpl cfg t r00 (rowlenOf i0.color i0.depth r00.sub ii) (lineSizeFor t r00 i0 ii) = o at h
          obtain ⟨r2, res⟩ := o
          cases res with
          | error e =>
            simp only [Prod.mk.injEq] at h
            obtain ⟨rfl, rfl⟩ := h
            exact (nextRowImpl_eof_facts cfg t r00 r2 _ _ w hrow).2
          | ok out => cases h

theorem frameRows_eof_avail (cfg : Cfg) (t : TCfg) (lineSize : Nat) : ∀ (n k : Nat) (r : R) (buf : Bytes) (E : R)
    (bufE : Bytes) (w : String), frameRows cfg t lineSize n k r buf = (E, bufE, some (.err .eof w)) → avail E = [] := by
  intro n
  induction n with
  | zero => intro k r buf E bufE w h; simp only [frameRows, Prod.mk.injEq, reduceCtorEq, and_false] at h
  | succ n ih =>
    intro k r buf E bufE w h
    by_cases hfit : (k + 1) * lineSize > buf.length
    · rw [frameRows, if_pos hfit] at h
      simp only [Prod.mk.injEq, reduceCtorEq, and_false] at h
    · rw [frameRows_succ cfg t lineSize n k r buf hfit] at h
      generalize hrow : nextRowImpl cfg t r r.sub.rowlen lineSize = o at h
      obtain ⟨r1, res⟩ := o
      cases res with
      | error e =>
        simp only [rowsK, Prod.mk.injEq, Option.some.injEq] at h
        obtain ⟨rfl, _, rfl⟩ := h
        exact (nextRowImpl_eof_facts cfg t r r1 _ _ w hrow).2
      | ok out =>
        simp only [rowsK] at h
        exact ih _ _ _ E bufE w h

theorem frameInterlaced_eof_avail (cfg : Cfg) (t : TCfg) (stride bitsPP : Nat) : ∀ (fuel : Nat) (r : R) (buf : Bytes) (E : R)
    (bufE : Bytes) (w : String), frameInterlaced cfg t stride bitsPP fuel r buf = (E, bufE, some (.err .eof w)) →
    avail E = [] := by
  intro fuel
  induction fuel with
  | zero => intro r buf E bufE w h; simp only [frameInterlaced, Prod.mk.injEq, Option.some.injEq, reduceCtorEq, and_false] at h
  | succ fuel ih =>
    intro r buf E bufE w h
    rw [frameInterlaced_succ] at h
    generalize hrow : nextInterlacedRow cfg t r = o at h
    obtain ⟨r1, res⟩ := o
    cases res with
    | err c w' =>
      cases c with
      | eof =>
        simp only [intK, Prod.mk.injEq] at h
        obtain ⟨rfl, _, _⟩ := h
        exact nextInterlacedRow_eof_avail cfg t r r1 w' hrow
      | _ => simp only [intK, Prod.mk.injEq, Option.some.injEq, Res.err.injEq, reduceCtorEq, false_and, and_false] at h
    | row ii data =>
      cases ii with
      | null l => simp only [intK, Prod.mk.injEq, Option.some.injEq, reduceCtorEq, and_false] at h
      | adam7 p l w0 =>
        simp only [intK] at h
        cases hex : Adam7.expandPass buf stride data { pass := p, line := l, width := w0 } bitsPP with
        | none => rw [hex] at h; simp only [Prod.mk.injEq, Option.some.injEq, reduceCtorEq, and_false] at h
        | some buf' =>
          rw [hex] at h
          exact ih r1 buf' E bufE w h
    | noRow => simp only [intK, Prod.mk.injEq, reduceCtorEq, and_false] at h
    | _ => simp only [intK, Prod.mk.injEq, Option.some.injEq, reduceCtorEq, and_false] at h

theorem frameInto_eof_avail (cfg : Cfg) (t : TCfg) (r : R) (buf : Bytes) (E : R) (bufE : Bytes) (w : String)
    (h : frameInto cfg t r buf = (E, .err .eof w, bufE)) : avail E = [] := by
  cases hio : infoOf r with
  | none => unfold frameInto at h; rw [hio] at h; cases h
  | some i =>
    by_cases hneed : buf.length < outLineSize t i r.flags i.width * i.height
    · rw [frameInto_short cfg t r buf i hio hneed] at h
      simp only [Prod.mk.injEq, Res.err.injEq, reduceCtorEq, false_and, and_false] at h
    · rw [frameInto_eq cfg t r buf i hio hneed] at h
      generalize hb : frameBody cfg t r i.interlaced (outLineSize t i r.flags r.sub.width)
        (samplesOf (t.outColorDepth i r.flags).1 * (t.outColorDepth i r.flags).2) buf = o at h
      obtain ⟨r2, buf2, res2⟩ := o
      cases res2 with
      | some e =>
        simp only [intoK, Prod.mk.injEq] at h
        obtain ⟨rfl, rfl, rfl⟩ := h
        unfold frameBody at hb
        cases hil : i.interlaced with
        | true =>
          rw [hil] at hb
          simp only [if_true] at hb
          exact frameInterlaced_eof_avail cfg t _ _ _ r buf r2 buf2 w hb
        | false =>
          rw [hil] at hb
          simp only [Bool.false_eq_true, if_false] at hb
          by_cases hls : outLineSize t i r.flags r.sub.width = 0
          · simp only [hls, if_true, Prod.mk.injEq, Option.some.injEq, reduceCtorEq, and_false] at hb
          · simp only [hls, if_false] at hb
            exact frameRows_eof_avail cfg t _ _ _ r buf r2 buf2 w hb
      | none =>
        simp only [intoK] at h
        generalize hfd : finishDecoding cfg r2 = ofd at h
        obtain ⟨r3, res3⟩ := ofd
        cases res3 with
        | ok u => cases h
        | error e =>
          simp only [Prod.mk.injEq] at h
          obtain ⟨rfl, rfl, _⟩ := h
          exact finishDecoding_eof_avail cfg r2 r3 w hfd

theorem nextFrameBuf_eof_avail (cfg : Cfg) (t : TCfg) (r : R) (buf : Bytes) (E : R) (bufE : Bytes) (w : String)
    (h : nextFrameBuf cfg t r buf = (E, .err .eof w, bufE)) : avail E = [] := by
  rcases inside_cases r with hin | ⟨hcur, hrem⟩ | ⟨hcur, hrem, hcaf⟩
  · rw [nextFrameBuf_of_inside cfg t r buf hin] at h
    exact frameInto_eof_avail cfg t r buf E bufE w h
  · rw [nextFrameBuf_polled cfg t r buf hcur hrem] at h
    simp only [Prod.mk.injEq, Res.err.injEq, reduceCtorEq, false_and, and_false] at h
  · cases hcaf' : r.sub.caf with
    | false => rw [hcaf] at hcaf'; cases hcaf'
    | true =>
      rw [nextFrameBuf_caf cfg t r buf hcur hrem hcaf] at h
      generalize hadv : readUntilImageData cfg t r = o at h
      obtain ⟨r1, res⟩ := o
      cases res with
      | error e =>
        simp only [advK, Prod.mk.injEq] at h
        obtain ⟨rfl, rfl, _⟩ := h
        have hloop := untilPost_eof (by rw [← readUntilImageData_post]; exact hadv)
        rw [rdReadUntilImageData_gloop] at hloop
        obtain ⟨_, _, _, hav⟩ := gloop_eof cfg bodyUntil bodyUntil_ok _ r r1 w hloop
        exact hav
      | ok u =>
        cases u
        simp only [advK] at h
        exact frameInto_eof_avail cfg t r1 buf E bufE w h

/-! ## No function below `next_frame` touches the buffer kept for a retry -/

theorem decodeNext'_pending (cfg : Cfg) (r : R) : (decodeNext' cfg r).1.pendingBuf = r.pendingBuf := by
  rw [decodeNext'_withStream]; rfl

theorem markFlushed_pending {r r3 : R} (h : markFlushed r = .ok r3) : r3.pendingBuf = r.pendingBuf := by
  unfold markFlushed at h
  split at h
  · cases h
  · cases h; rfl

theorem nextRawRow_pending (cfg : Cfg) (rowlen fuel : Nat) (r : R) :
    (nextRawRow cfg rowlen fuel r).1.pendingBuf = r.pendingBuf := by
  rw [nextRawRow_gloop]
  apply gloop_preserve cfg (bodyRaw rowlen) (fun r => r.pendingBuf)
  · intro r x h
    simp only [bodyRaw] at h
    split at h
    · split at h
      · simp only [Option.some.injEq] at h; subst h; rfl
      · cases h
    · simp only [Option.some.injEq] at h; subst h
      cases r.ub.unfilterCurr rowlen r.bpp <;> rfl
  · intro r; rfl
  · exact decodeNext'_pending cfg
  · intro r ev data
    simp only [bodyRaw, rawPost]
    cases ev <;> simp only <;> first
      | rfl
      | (cases hm : markFlushed { r with ub := r.ub.extend data } with
         | error e => rfl
         | ok r3 => exact (markFlushed_pending hm).trans rfl)

theorem finishDecodingImageData_pending (cfg : Cfg) (fuel : Nat) (r : R) :
    (finishDecodingImageData cfg fuel r).1.pendingBuf = r.pendingBuf := by
  rw [finishDecodingImageData_gloop]
  apply gloop_preserve cfg bodyFinish (fun r => r.pendingBuf)
  · intro r x h; cases h
  · intro r; rfl
  · exact decodeNext'_pending cfg
  · intro r ev data
    simp only [bodyFinish]
    cases ev <;> rfl

theorem nextRowImpl_pending (cfg : Cfg) (t : TCfg) (r : R) (rowlen outLen : Nat) :
    (nextRowImpl cfg t r rowlen outLen).1.pendingBuf = r.pendingBuf := by
  rw [nextRowImpl_post]
  have h := nextRawRow_pending cfg rowlen (fuelOf r) r
  generalize nextRawRow cfg rowlen (fuelOf r) r = out at h
  obtain ⟨r', res⟩ := out
  simp only at h
  unfold rowImplPost
  cases res with
  | error e => exact h
  | ok u =>
    simp only
    split
    · exact h
    · cases infoOf r' with
      | none => exact h
      | some i =>
        simp only
        cases hg : getTransform t r' i with
        | error e => exact h
        | ok p =>
          obtain ⟨r2, snap⟩ := p
          obtain ⟨c, hc⟩ := getTransform_cached t r' i r2 snap hg
          subst hc
          simp only
          split <;> exact h

theorem finishDecoding_pending (cfg : Cfg) (r : R) : (finishDecoding cfg r).1.pendingBuf = r.pendingBuf := by
  unfold finishDecoding
  split
  · rfl
  · split
    · rfl
    · have h := finishDecodingImageData_pending cfg (fuelOf r) r
      generalize finishDecodingImageData cfg (fuelOf r) r = out at h
      obtain ⟨r', res⟩ := out
      cases res with
      | error e => exact h
      | ok u =>
        simp only at h ⊢
        cases hm : markFlushed r' with
        | error e => exact h
        | ok r2 => simp only; rw [markFlushed_pending hm]; exact h

theorem readRow_pending (cfg : Cfg) (t : TCfg) (r : R) (bufLen : Nat) :
    (readRow cfg t r bufLen).1.pendingBuf = r.pendingBuf := by
  cases hcur : r.sub.cur with
  | none =>
    unfold readRow
    rw [hcur]
    simp only
    have h := finishDecoding_pending cfg r
    generalize finishDecoding cfg r = out at h
    obtain ⟨r', res⟩ := out
    cases res <;> exact h
  | some ii =>
    rw [readRow_some cfg t r bufLen ii hcur]
    generalize hr0 : (if ii.line = 0 then { r with ub := r.ub.resetPrev } else r) = r0
    have h0 : r0.pendingBuf = r.pendingBuf := by subst hr0; split <;> rfl
    cases infoOf r0 with
    | none => exact h0
    | some i =>
      simp only
      split
      · exact h0
      · have h := nextRowImpl_pending cfg t r0 (rowlenOf i.color i.depth r0.sub ii) (lineSizeFor t r0 i ii)
        generalize nextRowImpl cfg t r0 (rowlenOf i.color i.depth r0.sub ii) (lineSizeFor t r0 i ii) = out at h
        obtain ⟨r', res⟩ := out
        cases res <;> exact h.trans h0

theorem nextInterlacedRow_pending (cfg : Cfg) (t : TCfg) (r : R) :
    (nextInterlacedRow cfg t r).1.pendingBuf = r.pendingBuf := by
  unfold nextInterlacedRow
  cases infoOf r with
  | none => rfl
  | some i =>
    simp only
    exact (readRow_pending cfg t _ _).trans rfl

theorem frameRows_pending (cfg : Cfg) (t : TCfg) (lineSize : Nat) : ∀ (n k : Nat) (r : R) (buf : Bytes),
    (frameRows cfg t lineSize n k r buf).1.pendingBuf = r.pendingBuf := by
  intro n
  induction n with
  | zero => intro k r buf; rfl
  | succ n ih =>
    intro k r buf
    by_cases hfit : (k + 1) * lineSize > buf.length
    · rw [frameRows, if_pos hfit]
    · rw [frameRows_succ cfg t lineSize n k r buf hfit]
      have h := nextRowImpl_pending cfg t r r.sub.rowlen lineSize
      generalize nextRowImpl cfg t r r.sub.rowlen lineSize = o at h
      obtain ⟨r1, res⟩ := o
      cases res with
      | error e => exact h
      | ok out => simp only [rowsK]; exact (ih _ _ _).trans h

theorem frameInterlaced_pending (cfg : Cfg) (t : TCfg) (stride bitsPP : Nat) : ∀ (fuel : Nat) (r : R) (buf : Bytes),
    (frameInterlaced cfg t stride bitsPP fuel r buf).1.pendingBuf = r.pendingBuf := by
  intro fuel
  induction fuel with
  | zero => intro r buf; rfl
  | succ fuel ih =>
    intro r buf
    rw [frameInterlaced_succ]
    have h := nextInterlacedRow_pending cfg t r
    generalize nextInterlacedRow cfg t r = o at h
    obtain ⟨r1, res⟩ := o
    cases res with
    | row ii data =>
      cases ii with
      | null l => exact h
      | adam7 p l w =>
        simp only [intK]
        cases Adam7.expandPass buf stride data { pass := p, line := l, width := w } bitsPP with
        | none => exact h
        | some buf' => exact (ih _ _).trans h
    | _ => exact h

theorem frameInto_pending (cfg : Cfg) (t : TCfg) (r : R) (buf : Bytes) :
    (frameInto cfg t r buf).1.pendingBuf = r.pendingBuf := by
  cases hio : infoOf r with
  | none => unfold frameInto; rw [hio]
  | some i =>
    by_cases hneed : buf.length < outLineSize t i r.flags i.width * i.height
    · rw [frameInto_short cfg t r buf i hio hneed]
    · rw [frameInto_eq cfg t r buf i hio hneed]
      have hb : (frameBody cfg t r i.interlaced (outLineSize t i r.flags r.sub.width)
          (samplesOf (t.outColorDepth i r.flags).1 * (t.outColorDepth i r.flags).2) buf).1.pendingBuf = r.pendingBuf := by
        unfold frameBody
        split
        · exact frameInterlaced_pending cfg t _ _ _ _ _
        · simp only
          split
          · rfl
          · exact frameRows_pending cfg t _ _ _ _ _
      generalize frameBody cfg t r i.interlaced (outLineSize t i r.flags r.sub.width)
        (samplesOf (t.outColorDepth i r.flags).1 * (t.outColorDepth i r.flags).2) buf = o at hb
      obtain ⟨r2, buf2, res2⟩ := o
      cases res2 with
      | some e => exact hb
      | none =>
        simp only [intoK]
        have h2 := finishDecoding_pending cfg r2
        generalize finishDecoding cfg r2 = o2 at h2
        obtain ⟨r3, res3⟩ := o2
        cases res3 <;> exact h2.trans hb

theorem readUntilImageData_pending (cfg : Cfg) (t : TCfg) (r : R) :
    (readUntilImageData cfg t r).1.pendingBuf = r.pendingBuf := by
  rw [readUntilImageData_post]
  have h : (rdReadUntilImageData cfg (fuelOf r) r).1.pendingBuf = r.pendingBuf := by
    rw [rdReadUntilImageData_gloop]
    exact gloop_preserve cfg bodyUntil (fun r => r.pendingBuf) (fun _ _ h => by cases h) (fun _ => rfl)
      (decodeNext'_pending cfg) (fun r ev data => by
        simp only [bodyUntil]
        cases data.isEmpty with
        | false => rfl
        | true =>
          simp only [if_true]
          cases ev with
          | chunkBegin l ty =>
            simp only
            by_cases ht : ty = IDAT ∨ ty = fdAT
            · simp only [ht, if_true]
            · simp only [ht, if_false]
          | _ => rfl) _ _
  generalize rdReadUntilImageData cfg (fuelOf r) r = o at h
  obtain ⟨r1, res⟩ := o
  cases res with
  | error e => exact h
  | ok u =>
    unfold untilPost
    simp only
    cases infoOf r1 with
    | none => exact h
    | some i =>
      simp only
      rcases reserveBytes_cases r1 (outLineSize t i r1.flags (Sub.new i).width) with hr | hr
      · rw [hr]; exact h
      · rw [hr]
        simp only
        cases bppFromUsize (bytesPerPixel i.color i.depth) <;> exact h

theorem nextFrameBuf_pending (cfg : Cfg) (t : TCfg) (r : R) (buf : Bytes) :
    (nextFrameBuf cfg t r buf).1.pendingBuf = r.pendingBuf := by
  rcases inside_cases r with hin | ⟨hcur, hrem⟩ | ⟨hcur, hrem, hcaf⟩
  · rw [nextFrameBuf_of_inside cfg t r buf hin]; exact frameInto_pending cfg t r buf
  · rw [nextFrameBuf_polled cfg t r buf hcur hrem]
  · cases hcaf' : r.sub.caf with
    | false => rw [hcaf] at hcaf'; cases hcaf'
    | true =>
      rw [nextFrameBuf_caf cfg t r buf hcur hrem hcaf]
      have h := readUntilImageData_pending cfg t r
      generalize readUntilImageData cfg t r = o at h
      obtain ⟨r1, res⟩ := o
      cases res with
      | error e => exact h
      | ok u => cases u; simp only [advK]; exact (frameInto_pending cfg t r1 buf).trans h

/-! ## `next_frame` returns an error or the frame, and then the frame is flushed -/

theorem frameInto_res (cfg : Cfg) {t : TCfg} (ht : t.Ok) (r : R) (buf : Bytes) (hI : Inv t r) :
    (frameInto cfg t r buf).2.1.isErr = true ∨
      ∃ oi b, (frameInto cfg t r buf).2.1 = .frame oi b ∧ (frameInto cfg t r buf).1.sub.caf = true := by
  obtain ⟨i, hi, hg⟩ := hI.info
  have hleg := hI.base.dinv.legal i hi
  by_cases hneed : buf.length < outLineSize t i r.flags i.width * i.height
  · rw [frameInto_short cfg t r buf i hi hneed]; exact Or.inl rfl
  · have hbuf : r.sub.height * outLineSize t i r.flags r.sub.width ≤ buf.length := by
      have h1 := outLineSize_mono ht hleg r.flags hg.wW
      have h2 : r.sub.height * outLineSize t i r.flags r.sub.width ≤ i.height * outLineSize t i r.flags i.width :=
        Nat.mul_le_mul hg.hH h1
      rw [Nat.mul_comm i.height] at h2
      omega
    rw [frameInto_eq cfg t r buf i hi hneed]
    have hbody := frameBody_spec cfg ht r buf i hI hi hbuf
    generalize frameBody cfg t r i.interlaced (outLineSize t i r.flags r.sub.width)
      (samplesOf (t.outColorDepth i r.flags).1 * (t.outColorDepth i r.flags).2) buf = o at hbody
    obtain ⟨r2, buf2, res2⟩ := o
    cases res2 with
    | some e => exact Or.inl hbody.1
    | none =>
      obtain ⟨b1, _, b3, _⟩ := hbody
      simp only [intoK]
      have hsp := finishDecoding_spec cfg r2 b1 b3
      generalize hfd : finishDecoding cfg r2 = o2 at hsp
      obtain ⟨r3, res3⟩ := o2
      cases res3 with
      | error e => exact Or.inl hsp.1
      | ok u => cases u; exact Or.inr ⟨_, _, rfl, finishDecoding_ok_caf cfg r2 r3 hfd⟩

theorem nextFrameBuf_res (cfg : Cfg) {t : TCfg} (ht : t.Ok) (r : R) (buf : Bytes) (hI : Inv t r) :
    (nextFrameBuf cfg t r buf).2.1.isErr = true ∨
      ∃ oi b, (nextFrameBuf cfg t r buf).2.1 = .frame oi b ∧ (nextFrameBuf cfg t r buf).1.sub.caf = true := by
  rcases inside_cases r with hin | ⟨hcur, hrem⟩ | ⟨hcur, hrem, hcaf⟩
  · rw [nextFrameBuf_of_inside cfg t r buf hin]; exact frameInto_res cfg ht r buf hI
  · rw [nextFrameBuf_polled cfg t r buf hcur hrem]; exact Or.inl rfl
  · cases hcaf' : r.sub.caf with
    | false => rw [hcaf] at hcaf'; cases hcaf'
    | true =>
      rw [nextFrameBuf_caf cfg t r buf hcur hrem hcaf]
      have hsp := advanceFrame_spec cfg r hI hcaf hrem
      generalize readUntilImageData cfg t r = o at hsp
      obtain ⟨r1, res⟩ := o
      cases res with
      | error e => exact Or.inl hsp.1
      | ok u => cases u; simp only [advK]; exact frameInto_res cfg ht r1 buf hsp.1

/-! ## `next_frame` is resumable -/

/-- **contract of the output type** (hypothesis where the size of the caller's frame buffer is compared across
    calls): `output_color_type` depends on the IHDR fields and on `tRNS` only -/
def TCfg.Stable (t : TCfg) : Prop :=
  ∀ i j f, j.core = i.core → j.trns = i.trns → t.outColorDepth j f = t.outColorDepth i f

theorem callerBuf_length (r : R) (size : Nat) (p : UInt8) : (callerBuf r size p).length = size := by
  unfold callerBuf
  cases r.pendingBuf with
  | none => simp
  | some b =>
    simp only
    split
    · assumption
    · simp

theorem eof_of_isErr {e : Res} (h : e.isErr = true) (hf : e.isFatal = false) : ∃ w, e = .err .eof w := by
  cases e with
  | err c w => cases c <;> first | exact ⟨w, rfl⟩ | cases hf
  | _ => cases h

theorem setPending_id (E : R) (h : E.pendingBuf = none) : ({ E with pendingBuf := none } : R) = E := by
  cases E; simp only at h; subst h; rfl

/-- the model's `next_frame` operation in terms of the outcome of `next_frame` -/
theorem nextFrameOp_of (cfg : Cfg) (t : TCfg) (r : R) (p : UInt8) (i : Info) (hi : infoOf r = some i) (E : R) (x : Res)
    (bufE : Bytes)
    (hout : nextFrameBuf cfg t { r with pendingBuf := none } (callerBuf r (outLineSize t i r.flags i.width * i.height) p) = (E, x, bufE)) :
    nextFrameOp cfg t r p = (if x.isEof = true then { E with pendingBuf := some bufE } else E, x) := by
  rw [nextFrameOp_some cfg t r p i hi]
  simp only
  rw [hout]
  cases x with
  | err c w => cases c <;> rfl
  | _ => rfl

/-- the documented buffer size does not change while the header keeps its IHDR fields and `tRNS` -/
theorem bufSize_stable {t : TCfg} (hst : t.Stable) {i i' : Info} (f : Flags) (hc : i'.core = i.core) (htr : i'.trns = i.trns) :
    outLineSize t i' f i'.width * i'.height = outLineSize t i f i.width * i.height := by
  have h := hst i i' f hc htr
  simp only [Info.core, Prod.mk.injEq] at hc
  obtain ⟨h1, h2, _⟩ := hc
  rw [outLineSize_eq, outLineSize_eq, h, h1, h2]

/-- **`next_frame_resumable`**: a `next_frame` that ran out of input, called again with the same buffer
    after the input grew, returns what `next_frame` returns on the grown input (from the state before the
    failed call) and leaves a `Sim`-related reader — provided that call does not fail fatally -/
theorem nextFrameOp_resumable (cfg : Cfg) (hI : cfg.InflateOk) {t : TCfg} (ht : t.Ok) (hst : t.Stable) (r r1 : R)
    (p : UInt8) (w : String) (v' : Nat) (hInv : Inv t r) (hv : r.visible ≤ v')
    (h : nextFrameOp cfg t r p = (r1, .err .eof w))
    (hy : (nextFrameOp cfg t (growTo r v') p).2.isFatal = false) :
    (nextFrameOp cfg t (growTo r1 v') p).2 = (nextFrameOp cfg t (growTo r v') p).2 ∧
      Sim (nextFrameOp cfg t (growTo r1 v') p).1 (nextFrameOp cfg t (growTo r v') p).1 := by
  obtain ⟨i, hi, _⟩ := hInv.info
  have hIA : Inv t ({ r with pendingBuf := none } : R) := hInv.setPending none
  -- the failed call
  obtain ⟨E, x, bufE, hout⟩ : ∃ E x bufE, nextFrameBuf cfg t { r with pendingBuf := none }
      (callerBuf r (outLineSize t i r.flags i.width * i.height) p) = (E, x, bufE) := ⟨_, _, _, rfl⟩
  rw [nextFrameOp_of cfg t r p i hi E x bufE hout] at h
  simp only [Prod.mk.injEq] at h
  obtain ⟨h1, rfl⟩ := h
  simp only [Res.isEof, if_true] at h1
  subst h1
  -- the call on the grown input
  obtain ⟨Y, yr, yb, hyout⟩ : ∃ Y yr yb, nextFrameBuf cfg t (growTo { r with pendingBuf := none } v')
      (callerBuf r (outLineSize t i r.flags i.width * i.height) p) = (Y, yr, yb) := ⟨_, _, _, rfl⟩
  have hig : infoOf (growTo r v') = some i := hi
  rw [nextFrameOp_of cfg t (growTo r v') p i hig Y yr yb hyout] at hy ⊢
  simp only at hy
  have hy' : (nextFrameBuf cfg t (growTo { r with pendingBuf := none } v')
      (callerBuf r (outLineSize t i r.flags i.width * i.height) p)).2.1.isFatal = false := by rw [hyout]; exact hy
  obtain ⟨c1, c2, c3, c4, c5, c6, n, c7⟩ := nextFrameBuf_resumable cfg hI ht _ E _ bufE w v' hIA hv hout hy'
  -- the retried call
  obtain ⟨i0, i', hi0, hi', hcore, htrns⟩ := c4
  have hi0' : r.dec.info = some i0 := hi0
  rw [hi] at hi0'; cases hi0'
  have hiE : infoOf (growTo ({ E with pendingBuf := some bufE } : R) v') = some i' := hi'
  have hN : outLineSize t i' (growTo ({ E with pendingBuf := some bufE } : R) v').flags i'.width * i'.height =
      outLineSize t i r.flags i.width * i.height := by
    show outLineSize t i' E.flags i'.width * i'.height = _
    rw [c3]
    exact bufSize_stable hst r.flags hcore htrns
  have hcbE : callerBuf (growTo ({ E with pendingBuf := some bufE } : R) v') (outLineSize t i r.flags i.width * i.height) p = bufE := by
    have hpb : (growTo ({ E with pendingBuf := some bufE } : R) v').pendingBuf = some bufE := rfl
    unfold callerBuf
    rw [hpb]
    simp only
    rw [if_pos (by rw [c5, callerBuf_length])]
  have hpE : E.pendingBuf = none := by
    have := nextFrameBuf_pending cfg t { r with pendingBuf := none } (callerBuf r (outLineSize t i r.flags i.width * i.height) p)
    rw [hout] at this
    exact this
  have hstE : ({ growTo ({ E with pendingBuf := some bufE } : R) v' with pendingBuf := none } : R) = growTo E v' := by
    show growTo ({ E with pendingBuf := none } : R) v' = growTo E v'
    rw [setPending_id E hpE]
  obtain ⟨X, xr, xb, hxout⟩ : ∃ X xr xb, nextFrameBuf cfg t (growTo E v') bufE = (X, xr, xb) := ⟨_, _, _, rfl⟩
  have hxout' : nextFrameBuf cfg t { growTo ({ E with pendingBuf := some bufE } : R) v' with pendingBuf := none }
      (callerBuf (growTo ({ E with pendingBuf := some bufE } : R) v')
        (outLineSize t i' (growTo ({ E with pendingBuf := some bufE } : R) v').flags i'.width * i'.height) p) = (X, xr, xb) := by
    rw [hN, hcbE, hstE]; exact hxout
  rw [nextFrameOp_of cfg t _ p i' hiE X xr xb hxout']
  -- the two calls end alike
  have hIE : Inv t (growTo E v') := c1.growTo (by rw [c2]; exact hv)
  have hcls := nextFrameBuf_res cfg ht (growTo E v') bufE hIE
  have hav := nextFrameBuf_eof_avail cfg t (growTo E v') bufE
  rw [hxout] at c6 c7 hcls hav
  rw [hyout] at c6 c7
  simp only [Prod.mk.injEq] at c6 c7 hcls hav
  obtain ⟨rfl, rfl⟩ := c6
  have hsim : Sim X Y := by
    rcases hcls with he | ⟨oi, b, hf, hcaf⟩
    · obtain ⟨w2, rfl⟩ := eof_of_isErr he hy
      exact c7.of_eof (hav X xb w2 ⟨rfl, rfl, rfl⟩)
    · exact c7.of_caf hcaf
  refine ⟨rfl, ?_⟩
  simp only
  cases xr.isEof with
  | true => exact (inert_pending (some xb)).sim hsim (fun hc => hc)
  | false => exact hsim

end Png.Reader
