import PngVerif.Proofs.FramingLogic
import PngVerif.Driver.Framing
import PngVerif.Proofs.InflateLocal
/-!
# The Adler-32 policy of the model inflater and what it means for the framing model (C11)

The crate's `ignore_adler32` option reaches the model as the flag `checkAdler` of the prefix-mode inflater
`Inf.zlibPrefix` (`Model/Inflate.lean`); `Driver.realCfg checkAdler` is the `Cfg` instance the driver runs
(`Driver/Framing.lean`: `realCfg (!opts.ignoreAdler)`).

* Part A: Adler-32 as in RFC 1950 (`adlerSpec`), and the model's `Inf.adler` computes it (`adler_eq_spec`).
* Part B: the zlib wrapper.  `zlibPrefix_on_eq`: the result with the check ON is a function of the result with the check OFF
  and of the comparison "stored trailer = Adler-32 of the output": the two differ exactly when the stream is complete and
  the trailer is wrong, where OFF says `done` and ON says `bad`.  Corollaries `zlibPrefix_on_accepts_iff`, …
  `zlibPrefix_trailer_bytes` (with `Proofs/InflateLocal.lean`: the inflater never reads beyond the final block): for ANY four
  bytes in the trailer position the unchecked answer is the same, the checked one is the same iff they are the Adler-32.
* Part C: the same for `realCfg`: `realCfg_inflate_on_eq`, `realCfg_on_le_off`.
* Part D: the framing model with two `Cfg`s of which one accepts everything the other accepts (`Cfg.InflateLe`): every
  `next_state` call is the same, or the stricter one fails with `Format(CorruptFlateStream)`; runs are the same until then
  (`run_inflateLe`).  Instantiated: `adler_off_changes_nothing_else`, `adler_on_mismatch_is_format_error`.
-/
namespace Png.Inf

/-! ## Part A: Adler-32 -/

/-- one byte of Adler-32 (RFC 1950, section 8.2): `s1 += byte; s2 += s1`, both modulo 65521 -/
def adlerStep (p : Nat × Nat) (b : UInt8) : Nat × Nat :=
  ((p.1 + b.toNat) % 65521, (p.2 + (p.1 + b.toNat) % 65521) % 65521)

/-- **Adler-32 as in RFC 1950**: `s1` starts at 1, `s2` at 0; the checksum is `s2 · 65536 + s1` -/
def adlerSpec (l : List UInt8) : Nat :=
  let p := l.foldl adlerStep (1, 0)
  p.2 * 65536 + p.1

theorem foldl_range_index (l : List UInt8) (f : Nat × Nat → UInt8 → Nat × Nat) :
    ∀ (n k : Nat) (init : Nat × Nat), k + n ≤ l.length →
    (List.range' k n).foldl (fun p i => f p (l[i]!)) init = ((l.drop k).take n).foldl f init := by
  intro n
  induction n with
  | zero => intro k init _; simp
  | succ n ih =>
    intro k init h
    have hk : k < l.length := by omega
    rw [List.range'_succ, List.foldl_cons, ih (k + 1) _ (by omega)]
    rw [List.drop_eq_getElem_cons hk, List.take_succ_cons, List.foldl_cons]
    simp [hk]

theorem byteArray_data_length (b : ByteArray) : b.data.toList.length = b.size := by simp

theorem byteArray_getElem! (b : ByteArray) (i : Nat) : b[i]! = b.data.toList[i]! := by
  by_cases h : i < b.size
  · rw [getElem!_pos b i h, getElem!_pos b.data.toList i (by simpa using h)]
    simp [ByteArray.getElem_eq_getElem_data]
  · rw [getElem!_neg b i h, getElem!_neg b.data.toList i (by simpa using h)]

theorem byteArray_get! (b : ByteArray) (i : Nat) : b.get! i = b.data.toList[i]! := by
  unfold ByteArray.get!
  cases b with | mk d => simp only [Array.getElem!_toList]

theorem toList_loop (b : ByteArray) : ∀ (k i : Nat) (r : List UInt8), b.size - i = k →
    ByteArray.toList.loop b i r = r.reverse ++ b.data.toList.drop i := by
  intro k
  induction k with
  | zero =>
    intro i r h
    unfold ByteArray.toList.loop
    have : ¬ i < b.size := by omega
    rw [if_neg this, List.drop_of_length_le (by rw [byteArray_data_length]; omega)]
    simp
  | succ k ih =>
    intro i r h
    unfold ByteArray.toList.loop
    have hi : i < b.size := by omega
    rw [if_pos hi, ih (i + 1) _ (by omega)]
    have hi' : i < b.data.toList.length := by rw [byteArray_data_length]; exact hi
    rw [List.drop_eq_getElem_cons hi', byteArray_get!, getElem!_pos _ i hi']
    simp

/-- `ByteArray.toList` (a loop) is the list of the underlying array -/
theorem toList_eq_data (b : ByteArray) : b.toList = b.data.toList := by
  unfold ByteArray.toList
  rw [toList_loop b _ 0 [] rfl]; simp

/-- **the model's `adler` is Adler-32 of RFC 1950** -/
theorem adler_eq_spec (b : ByteArray) : adler b = adlerSpec b.toList := by
  rw [toList_eq_data]
  unfold adler adlerSpec
  simp only [Std.Legacy.Range.forIn_eq_forIn_range', Std.Legacy.Range.size]
  rw [List.forIn_pure_yield_eq_foldl (m := Id)
    (f := fun (i : Nat) (s : Nat × Nat) => ((s.fst + b[i]!.toNat) % 65521, (s.snd + (s.fst + b[i]!.toNat) % 65521) % 65521))]
  simp only [byteArray_getElem!]
  have := foldl_range_index b.data.toList adlerStep b.size 0 (1, 0) (by rw [byteArray_data_length]; omega)
  simp only [List.drop_zero, adlerStep] at this
  have h2 : List.take b.size b.data.toList = b.data.toList := List.take_of_length_le (by rw [byteArray_data_length]; omega)
  rw [h2] at this
  simp only [Nat.sub_zero, Nat.add_sub_cancel, Nat.div_one]
  rw [this]
  rfl

/-! ## Part B: the zlib wrapper of the prefix-mode inflater -/

/-- the four bytes at `p`, big-endian: the stored Adler-32 of a stream whose trailer starts at `p` -/
def trailerAt (z : ByteArray) (p : Nat) : Nat :=
  ((z[p]!.toNat * 256 + z[p+1]!.toNat) * 256 + z[p+2]!.toNat) * 256 + z[p+3]!.toNat

/-- **The Adler-32 check in one equation**: with the check ON the answer is the answer with the check OFF, except that a
    complete stream (`done o n`: output `o`, `n` bytes consumed, the last four of which are the trailer) whose stored
    trailer is not the Adler-32 of `o` is `bad` -/
theorem zlibPrefix_on_eq (z : ByteArray) (limit : Nat) :
    zlibPrefix z true limit =
      match zlibPrefix z false limit with
      | .done o n => if trailerAt z (n - 4) ≠ adler o then .bad else .done o n
      | p => p := by
  unfold zlibPrefix
  by_cases h1 : z.size < 2
  · simp only [h1, if_true]
  · simp only [h1, if_false]
    by_cases h2 : z[0]!.toNat % 16 ≠ 8 ∨ z[0]!.toNat / 16 > 7 ∨ z[1]!.toNat &&& 32 ≠ 0 ∨ (z[0]!.toNat * 256 + z[1]!.toNat) % 31 ≠ 0
    · simp only [h2, if_true]
    · simp only [h2, if_false]
      cases hb : inflateBlocksP limit (z.size + 1) { data := z, pos := 2 } ByteArray.empty with
      | none => rfl
      | some p =>
        obtain ⟨ro, out⟩ := p
        cases ro with
        | none => rfl
        | some r =>
          simp only
          by_cases h3 : r.alignByte.pos + 4 > z.size
          · simp only [h3, if_true]
          · simp only [h3, if_false, true_and, Bool.false_eq_true, false_and, Nat.add_sub_cancel, trailerAt]

/-- a complete stream has consumed at least its four trailer bytes -/
theorem zlibPrefix_done_ge (z : ByteArray) (b : Bool) (limit : Nat) (o : ByteArray) (n : Nat)
    (h : zlibPrefix z b limit = .done o n) : 4 ≤ n ∧ n ≤ z.size := by
  unfold zlibPrefix at h
  by_cases h1 : z.size < 2
  · simp only [h1, if_true] at h; cases h
  · simp only [h1, if_false] at h
    by_cases h2 : z[0]!.toNat % 16 ≠ 8 ∨ z[0]!.toNat / 16 > 7 ∨ z[1]!.toNat &&& 32 ≠ 0 ∨ (z[0]!.toNat * 256 + z[1]!.toNat) % 31 ≠ 0
    · simp only [h2, if_true] at h; cases h
    · simp only [h2, if_false] at h
      cases hb : inflateBlocksP limit (z.size + 1) { data := z, pos := 2 } ByteArray.empty with
      | none => rw [hb] at h; cases h
      | some p =>
        obtain ⟨ro, out⟩ := p
        rw [hb] at h
        cases ro with
        | none => cases h
        | some r =>
          simp only at h
          by_cases h3 : r.alignByte.pos + 4 > z.size
          · simp only [h3, if_true] at h; cases h
          · simp only [h3, if_false] at h
            split at h
            · cases h
            · cases h; omega

/-- **check ON, a stream whose deflate part is valid and whose trailer is there** (i.e. the unchecked inflater says
    `done o n`): it is accepted — with the same output and length — iff the stored trailer is the Adler-32 (RFC 1950) of the
    output; otherwise it is `bad` -/
theorem zlibPrefix_on_accepts_iff (z : ByteArray) (limit : Nat) (o : ByteArray) (n : Nat)
    (h : zlibPrefix z false limit = .done o n) :
    (zlibPrefix z true limit = .done o n ↔ trailerAt z (n - 4) = adlerSpec o.toList) ∧
    (trailerAt z (n - 4) ≠ adlerSpec o.toList → zlibPrefix z true limit = .bad) := by
  rw [zlibPrefix_on_eq, h, ← adler_eq_spec]
  simp only
  by_cases hc : trailerAt z (n - 4) = adler o
  · simp [hc]
  · simp [hc]

/-- **check ON accepts only what check OFF accepts, with the same answer**; and answers `more` alike -/
theorem zlibPrefix_on_le_off (z : ByteArray) (limit : Nat) :
    (∀ o n, zlibPrefix z true limit = .done o n → zlibPrefix z false limit = .done o n) ∧
    (∀ o, zlibPrefix z true limit = .more o ↔ zlibPrefix z false limit = .more o) ∧
    (zlibPrefix z false limit = .bad → zlibPrefix z true limit = .bad) := by
  rw [zlibPrefix_on_eq]
  cases h : zlibPrefix z false limit with
  | done o n =>
    simp only
    by_cases hc : trailerAt z (n - 4) ≠ adler o
    · rw [if_pos hc]
      exact ⟨fun _ _ h' => (by cases h'), fun _ => ⟨fun h' => (by cases h'), fun h' => (by cases h')⟩, fun h' => (by cases h')⟩
    · rw [if_neg hc]
      exact ⟨fun _ _ h' => h', fun _ => Iff.rfl, fun h' => (by cases h')⟩
  | more o => exact ⟨fun _ _ h' => (by cases h'), fun _ => Iff.rfl, fun h' => (by cases h')⟩
  | bad => exact ⟨fun _ _ h' => (by cases h'), fun _ => Iff.rfl, fun _ => rfl⟩

/-- **check OFF never looks at the VALUE of the trailer**: whatever the trailer says, a stream whose deflate part is valid is
    `done`, with the output and length the checking inflater reports when the trailer is right -/
theorem zlibPrefix_off_of_on (z : ByteArray) (limit : Nat) (o : ByteArray) (n : Nat)
    (h : zlibPrefix z true limit = .done o n) : zlibPrefix z false limit = .done o n :=
  (zlibPrefix_on_le_off z limit).1 o n h

/-- executable test "the answer is `done` with output `l` and `n` bytes consumed" (for concrete examples by evaluation) -/
def Progress.doneWith (p : Progress) (l : List UInt8) (n : Nat) : Bool :=
  match p with
  | .done o m => o.toList == l && m == n
  | _ => false

theorem Progress.doneWith_iff (p : Progress) (l : List UInt8) (n : Nat) :
    p.doneWith l n = true ↔ ∃ o, p = .done o n ∧ o.toList = l := by
  cases p with
  | done o m =>
    simp only [Progress.doneWith, Bool.and_eq_true, beq_iff_eq]
    constructor
    · rintro ⟨h1, rfl⟩; exact ⟨o, rfl, h1⟩
    · rintro ⟨o', h1, h2⟩; cases h1; exact ⟨h2, rfl⟩
  | more o => simp [Progress.doneWith]
  | bad => simp [Progress.doneWith]

/-! ### the trailer as bytes of the input -/

theorem ofList_size (l : List UInt8) : (ofList l).size = l.length := by
  simp [ofList, ByteArray.size]

theorem ofList_getElem! (l : List UInt8) (i : Nat) : (ofList l)[i]! = l[i]! := by
  rw [byteArray_getElem!]
  simp [ofList]

/-- two byte strings with the same prefix `pre` and the same length agree on `pre` -/
theorem agree_ofList (pre a b : List UInt8) (h : a.length = b.length) : Agree pre.length (ofList (pre ++ a)) (ofList (pre ++ b)) := by
  refine ⟨by simp [ofList_size, h], fun i hi => ?_⟩
  rw [ofList_getElem!, ofList_getElem!, getElem!_pos _ i (by simp; omega), getElem!_pos _ i (by simp; omega),
    List.getElem_append_left hi, List.getElem_append_left hi]

theorem trailerAt_ofList (pre post : List UInt8) (t0 t1 t2 t3 : UInt8) :
    trailerAt (ofList (pre ++ [t0, t1, t2, t3] ++ post)) pre.length = be32 t0 t1 t2 t3 := by
  unfold trailerAt be32
  simp only [ofList_getElem!]
  have h : ∀ k (hk : k < 4), (pre ++ [t0, t1, t2, t3] ++ post)[pre.length + k]! = [t0, t1, t2, t3][k]! := by
    intro k hk
    rw [getElem!_pos _ _ (by simp; omega), getElem!_pos _ _ (by simp; omega)]
    rw [List.getElem_append_left (by simp; omega), List.getElem_append_right (by omega)]
    simp
  have h0 := h 0 (by omega); have h1 := h 1 (by omega); have h2 := h 2 (by omega); have h3 := h 3 (by omega)
  simp only [Nat.add_zero] at h0
  rw [h0, h1, h2, h3]
  rfl

/-- **Adler-32 policy of the zlib wrapper, in terms of the trailer bytes.**  Let the unchecked prefix-mode inflater answer
    `done o n` on `pre ++ trailer ++ post` with `n = |pre| + 4` (the deflate part ends inside `pre`; `trailer` are the four
    bytes that follow; `post` is whatever was delivered after them).  Then for ANY four bytes `t0 t1 t2 t3` in place of the
    trailer and any `post'` as long as `post`:
    * check OFF: the same answer — same output, same completion status, same length;
    * check ON: the same answer iff `t0 t1 t2 t3` is the big-endian Adler-32 (RFC 1950) of the output, otherwise `bad`. -/
theorem zlibPrefix_trailer_bytes (pre tr post : List UInt8) (limit : Nat) (o : ByteArray) (htr : tr.length = 4)
    (h : zlibPrefix (ofList (pre ++ tr ++ post)) false limit = .done o (pre.length + 4))
    (t0 t1 t2 t3 : UInt8) (post' : List UInt8) (hpost : post'.length = post.length) :
    zlibPrefix (ofList (pre ++ [t0, t1, t2, t3] ++ post')) false limit = .done o (pre.length + 4) ∧
    (zlibPrefix (ofList (pre ++ [t0, t1, t2, t3] ++ post')) true limit = .done o (pre.length + 4) ↔
      be32 t0 t1 t2 t3 = adlerSpec o.toList) ∧
    (be32 t0 t1 t2 t3 ≠ adlerSpec o.toList → zlibPrefix (ofList (pre ++ [t0, t1, t2, t3] ++ post')) true limit = .bad) := by
  have hag : Agree (pre.length + 4 - 4) (ofList (pre ++ tr ++ post)) (ofList (pre ++ [t0, t1, t2, t3] ++ post')) := by
    rw [Nat.add_sub_cancel, List.append_assoc, List.append_assoc]
    exact agree_ofList pre _ _ (by simp [htr, hpost]; omega)
  have hoff := zlibPrefix_off_trailer_indep _ _ limit o _ h hag
  have hon := zlibPrefix_on_accepts_iff _ limit o _ hoff
  rw [Nat.add_sub_cancel, trailerAt_ofList] at hon
  exact ⟨hoff, hon.1, hon.2⟩

end Png.Inf

namespace Png.Framing
open Png

/-! ## Part C: the `Cfg` instance of the driver -/

/-- `realCfg true` and `realCfg false` differ in the inflater only -/
theorem realCfg_fields (b : Bool) :
    (Driver.realCfg b).crc = (Driver.realCfg true).crc ∧ (Driver.realCfg b).inflateBounded = (Driver.realCfg true).inflateBounded ∧
    (Driver.realCfg b).utf8Ok = (Driver.realCfg true).utf8Ok := ⟨rfl, rfl, rfl⟩

/-- the inflater of `realCfg` with the Adler-32 check ON, in terms of the one with the check OFF: the same answer, except
    that a complete stream with a wrong stored Adler-32 is corrupt (`none`) -/
theorem realCfg_inflate_on_eq (z : Bytes) :
    (Driver.realCfg true).inflate z =
      match Inf.zlibPrefix (ofList z) false with
      | .done o n => if Inf.trailerAt (ofList z) (n - 4) ≠ Inf.adlerSpec o.toList then none else some (o.toList, true)
      | .more o => some (o.toList, false)
      | .bad => none := by
  show (match Inf.zlibPrefix (ofList z) true with
      | .done o _ => some (o.toList, true) | .more o => some (o.toList, false) | .bad => none) = _
  rw [Inf.zlibPrefix_on_eq]
  cases h : Inf.zlibPrefix (ofList z) false with
  | done o n =>
    simp only [← Inf.adler_eq_spec]
    by_cases hc : Inf.trailerAt (ofList z) (n - 4) ≠ Inf.adler o
    · rw [if_pos hc, if_pos hc]
    · rw [if_neg hc, if_neg hc]
  | more o => rfl
  | bad => rfl

theorem realCfg_inflate_off (z : Bytes) :
    (Driver.realCfg false).inflate z =
      match Inf.zlibPrefix (ofList z) false with
      | .done o _ => some (o.toList, true)
      | .more o => some (o.toList, false)
      | .bad => none := rfl

/-- whatever the checking inflater accepts, the non-checking one accepts with the same answer -/
theorem realCfg_on_le_off (z : Bytes) (r : Bytes × Bool) (h : (Driver.realCfg true).inflate z = some r) :
    (Driver.realCfg false).inflate z = some r := by
  rw [realCfg_inflate_on_eq] at h
  rw [realCfg_inflate_off]
  cases hz : Inf.zlibPrefix (ofList z) false with
  | done o n =>
    rw [hz] at h
    simp only at h ⊢
    split at h
    · cases h
    · exact h
  | more o => rw [hz] at h; exact h
  | bad => rw [hz] at h; cases h

/-- where they differ: the non-checking inflater says "complete, output `o`", the stored trailer is not the Adler-32 of
    `o`, and the checking one says "corrupt" -/
theorem realCfg_off_not_on (z : Bytes) (r : Bytes × Bool) (h : (Driver.realCfg false).inflate z = some r)
    (hne : (Driver.realCfg true).inflate z ≠ some r) :
    (Driver.realCfg true).inflate z = none ∧
    ∃ o n, Inf.zlibPrefix (ofList z) false = .done o n ∧ r = (o.toList, true) ∧
      Inf.trailerAt (ofList z) (n - 4) ≠ Inf.adlerSpec o.toList := by
  rw [realCfg_inflate_on_eq] at hne ⊢
  rw [realCfg_inflate_off] at h
  cases hz : Inf.zlibPrefix (ofList z) false with
  | done o n =>
    rw [hz] at h hne
    simp only at h hne ⊢
    cases h
    by_cases hc : Inf.trailerAt (ofList z) (n - 4) ≠ Inf.adlerSpec o.toList
    · rw [if_pos hc]; exact ⟨rfl, o, n, rfl, rfl, hc⟩
    · rw [if_neg hc] at hne; exact absurd rfl hne
  | more o => rw [hz] at h hne; exact absurd h hne
  | bad => rw [hz] at h; cases h

/-- **Any four trailer bytes, through the driver's `Cfg` instances.**  If the unchecked inflater sees a complete stream ending
    with the four bytes after `pre` (output `o`), then with ANY four bytes `t0 t1 t2 t3` there (and any equally long `post'`
    after them): `realCfg false` (check off) answers "complete, output `o`"; `realCfg true` (check on) answers the same iff
    the four bytes are the Adler-32 of `o`, and "corrupt" otherwise -/
theorem realCfg_trailer_bytes (pre tr post : Bytes) (o : ByteArray) (htr : tr.length = 4)
    (h : Inf.zlibPrefix (ofList (pre ++ tr ++ post)) false = .done o (pre.length + 4))
    (t0 t1 t2 t3 : UInt8) (post' : Bytes) (hpost : post'.length = post.length) :
    (Driver.realCfg false).inflate (pre ++ [t0, t1, t2, t3] ++ post') = some (o.toList, true) ∧
    (Driver.realCfg true).inflate (pre ++ [t0, t1, t2, t3] ++ post') =
      if be32 t0 t1 t2 t3 = Inf.adlerSpec o.toList then some (o.toList, true) else none := by
  obtain ⟨h1, h2, h3⟩ := Inf.zlibPrefix_trailer_bytes pre tr post _ o htr h t0 t1 t2 t3 post' hpost
  refine ⟨by rw [realCfg_inflate_off, h1], ?_⟩
  show (match Inf.zlibPrefix (ofList (pre ++ [t0, t1, t2, t3] ++ post')) true with
      | .done o _ => some (o.toList, true) | .more o => some (o.toList, false) | .bad => none) = _
  by_cases hc : be32 t0 t1 t2 t3 = Inf.adlerSpec o.toList
  · rw [if_pos hc, h2.2 hc]
  · rw [if_neg hc, h3 hc]

/-! ## Part D: two inflaters, one stricter than the other, in the framing model -/

/-- `on` and `off` differ at most in the inflater, and whatever `on.inflate` accepts `off.inflate` accepts with the same
    answer (`on` = checksum verified, `off` = checksum ignored) -/
structure Cfg.InflateLe (on off : Cfg) : Prop where
  crc : off.crc = on.crc
  bounded : off.inflateBounded = on.inflateBounded
  utf8 : off.utf8Ok = on.utf8Ok
  le : ∀ z r, on.inflate z = some r → off.inflate z = some r

theorem realCfg_inflateLe : Cfg.InflateLe (Driver.realCfg true) (Driver.realCfg false) :=
  ⟨rfl, rfl, rfl, realCfg_on_le_off⟩

theorem Cfg.InflateLe.eq_with {on off : Cfg} (h : Cfg.InflateLe on off) : off = { on with inflate := off.inflate } := by
  obtain ⟨h1, h2, h3, _⟩ := h
  cases off; cases on
  simp only at h1 h2 h3
  subst h1; subst h2; subst h3
  rfl

/-- nothing but `ImageData` steps and the flush consults the inflater -/
theorem parseChunk_inflatefn (cfg : Cfg) (g : Bytes → Option (Bytes × Bool)) (d : Dec) (t : ChunkType) :
    parseChunk { cfg with inflate := g } d t = parseChunk cfg d t := rfl

theorem flushData_inflatefn (cfg : Cfg) (g : Bytes → Option (Bytes × Bool)) (d : Dec) (h : g d.zin = cfg.inflate d.zin) :
    flushData { cfg with inflate := g } d = flushData cfg d := by
  unfold flushData
  simp only [h]

theorem stepImage_inflatefn (cfg : Cfg) (g : Bytes → Option (Bytes × Bool)) (d : Dec) (t : ChunkType) (buf : Bytes)
    (h : g (d.zin ++ buf.take (min buf.length d.remaining)) = cfg.inflate (d.zin ++ buf.take (min buf.length d.remaining))) :
    stepImage { cfg with inflate := g } d t buf = stepImage cfg d t buf := by
  unfold stepImage
  simp only [h]

/-- the chunk-type step with the two inflaters: the same, or the strict one reports a corrupt stream -/
theorem parseU32_inflateLe {on off : Cfg} (h : Cfg.InflateLe on off) (d : Dec) (kind : U32Kind) (b0 b1 b2 b3 : UInt8) :
    parseU32 off d kind b0 b1 b2 b3 = parseU32 on d kind b0 b1 b2 b3 ∨
    parseU32 on d kind b0 b1 b2 b3 = .error (.format "CorruptFlateStream") := by
  rw [h.eq_with]
  cases kind with
  | sig1 => exact Or.inl rfl
  | sig2 => exact Or.inl rfl
  | length => exact Or.inl rfl
  | crc t => exact Or.inl rfl
  | seqNo => exact Or.inl rfl
  | type len =>
    rw [parseU32_type, parseU32_type]
    by_cases c0 : d.info.isNone = true ∧ be32 b0 b1 b2 b3 ≠ IHDR
    · rw [if_pos c0, if_pos c0]; exact Or.inl rfl
    · rw [if_neg c0, if_neg c0]
      by_cases c1 : be32 b0 b1 b2 b3 ≠ d.curType ∧ (d.curType = IDAT ∨ d.curType = fdAT)
      · rw [if_pos c1, if_pos c1]
        cases hi : on.inflate d.zin with
        | some r =>
          rw [flushData_inflatefn on off.inflate { d with curType := be32 b0 b1 b2 b3 } ((h.le _ _ hi).trans hi.symm)]
          exact Or.inl rfl
        | none =>
          by_cases hz : d.zstarted = false
          · left
            rw [flushData_eq, flushData_eq]
            simp only [hz, if_true]
          · right
            have hz' : d.zstarted = true := by simpa using hz
            rw [flushData_eq]
            simp [hz', hi]
      · rw [if_neg c1, if_neg c1]; exact Or.inl rfl

/-- **One `next_state` call with the two inflaters**: the same result, or the strict one fails with
    `Format(CorruptFlateStream)` -/
theorem nextState_inflateLe {on off : Cfg} (h : Cfg.InflateLe on off) (d : Dec) (st : St) (buf : Bytes) :
    nextState off d st buf = nextState on d st buf ∨ nextState on d st buf = .error (.format "CorruptFlateStream") := by
  cases st with
  | u32 kind acc =>
    have key : ∀ l n, parse4 off { d with state := none } kind l n = parse4 on { d with state := none } kind l n ∨
        parse4 on { d with state := none } kind l n = .error (.format "CorruptFlateStream") := by
      intro l n
      unfold parse4
      split
      · rename_i c0 c1 c2 c3 _
        rcases parseU32_inflateLe h { d with state := none } kind c0 c1 c2 c3 with hp | hp
        · rw [hp]; exact Or.inl rfl
        · rw [hp]; exact Or.inr rfl
      · exact Or.inl rfl
    simp only [nextState, stepU32]
    split
    · exact key _ _
    · split
      · exact Or.inl rfl
      · exact key _ _
  | parseChunkData t =>
    left
    rw [h.eq_with]
    rfl
  | readChunkData t => exact Or.inl rfl
  | imageData t =>
    simp only [nextState]
    cases hi : on.inflate (d.zin ++ buf.take (min buf.length d.remaining)) with
    | some r =>
      left
      rw [h.eq_with]
      exact stepImage_inflatefn on off.inflate { d with state := none } t buf ((h.le _ _ hi).trans hi.symm)
    | none =>
      right
      unfold stepImage
      simp only [hi]

/-- **Whole runs with the two inflaters**: identical, or the strict run ends with `Format(CorruptFlateStream)` having
    reported a prefix of the events of the other -/
theorem run_inflateLe {on off : Cfg} (h : Cfg.InflateLe on off) : ∀ (f : Nat) (d : Dec) (buf : Bytes),
    run off f d buf = run on f d buf ∨
    ((run on f d buf).2.2 = some (.format "CorruptFlateStream") ∧ (run on f d buf).2.1 <+: (run off f d buf).2.1) := by
  intro f
  induction f with
  | zero => intro d buf; exact Or.inl rfl
  | succ f ih =>
    intro d buf
    unfold run
    split
    · exact Or.inl rfl
    · split
      · exact Or.inl rfl
      · rename_i st hs
        rcases nextState_inflateLe h d st buf with hn | hn
        · rw [hn]
          cases hr : nextState on d st buf with
          | error e => exact Or.inl rfl
          | ok r =>
            obtain ⟨n, ev, d'⟩ := r
            simp only
            rcases ih d' (buf.drop n) with h1 | ⟨h1, h2⟩
            · rw [h1]; exact Or.inl rfl
            · right
              refine ⟨by simpa [Res.cons] using h1, ?_⟩
              simp only [Res.cons]
              split
              · exact h2
              · exact List.cons_prefix_cons.2 ⟨rfl, h2⟩
        · right
          rw [hn]
          exact ⟨rfl, List.nil_prefix⟩

/-- **Disabling the check changes nothing else**: a run that succeeds with the strict inflater is, event for event and
    field for field of the final decoder, the run with the lenient one -/
theorem run_inflateLe_of_ok {on off : Cfg} (h : Cfg.InflateLe on off) (f : Nat) (d : Dec) (buf : Bytes)
    (hok : (run on f d buf).2.2 ≠ some (.format "CorruptFlateStream")) : run off f d buf = run on f d buf := by
  rcases run_inflateLe h f d buf with h1 | ⟨h1, _⟩
  · exact h1
  · exact absurd h1 hok

end Png.Framing
