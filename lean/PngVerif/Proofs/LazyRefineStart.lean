import PngVerif.Proofs.LazyRefineFile
/-!
# `Reader` refines `Lazy`, part 9: the reader `read_info` returns is related to the `Lazy` model's initial state

`sim_of_ready`: a reader that stands at the begin of the image data of the first data sequence (`Ready`,
`Proofs/ComposeDecode.lean` — what `readInfo_wf` establishes) with the frames of an animation behind it (`BetweenD`)
is related (`Sim`) to `Lazy.init` of the file's abstraction, for arrivals that hand out exactly each frame's data.
-/
namespace Png.LazyRefine
open Png Png.Framing Png.WellFormed Png.Reader

theorem hdrOf_scan (i : Info) :
    (hdrOf i).width = (Sub.dims i).1 ∧ (hdrOf i).height = (Sub.dims i).2 ∧ (hdrOf i).interlaced = i.interlaced ∧
    (hdrOf i).color = i.color ∧ (hdrOf i).depth = i.depth := ⟨rfl, rfl, rfl, rfl, rfl⟩

/-- **the start of the simulation** -/
theorem sim_of_ready (cfg : Cfg) (hI : cfg.InflateOk) (hC : cfg.CrcOk) (t : TCfg) (f : Flags) (h : Header) (hv : h.Valid)
    (i0 i : Info) (N : Nat) (r : R) (raw0 : Bytes) (dEnd : Dec) (bEnd : Bytes)
    (hR : Ready cfg f i N r raw0 dEnd bEnd) (hrd : r.isReader = true) (hfin : r.finished = false)
    (hcore : i.core = h.info.core) (hcp : CorePred i0 r.dec)
    (frames : List (FrameControl × List Bytes × Bytes)) (s : Nat) (hB : BetweenD cfg h dEnd bEnd i s frames)
    (hframes : ∀ fr ∈ frames, FrameD cfg h fr) (hseq : s + (frames.map fun x => 1 + x.2.1.length).sum < 2 ^ 32)
    (hz : ZInv cfg r.dec) :
    ∃ (arrs : List Lazy.Arrival) (s0 : Lazy.St),
      (absEnv h (hdrOf i) raw0 frames arrs).Valid ∧ 1 ≤ r.remaining ∧ (∀ a ∈ arrs, a.last = 0) ∧
      Lazy.init (absEnv h (hdrOf i) raw0 frames arrs) r.remaining = some s0 ∧
      Sim cfg (geomOf h (hdrOf i) frames) (absEnv h (hdrOf i) raw0 frames arrs)
        (fun i' => outLineSize t i' f (Sub.new i').width) f i0 r s0 := by
  have hv' := hv
  obtain ⟨hw1, hw2, hh1, hh2, hleg⟩ := hv
  have hd := (legal_pos hleg).2.2
  have hcore' := hcore
  simp only [Info.core, Header.info, Prod.mk.injEq] at hcore'
  obtain ⟨c1, c2, c3, c4, c5⟩ := hcore'
  obtain ⟨pend, hP, hdata⟩ := hR.pend
  obtain ⟨hev, hremN⟩ : DataEvs pend ∧ r.remaining = N := by
    rcases hP.caf with ⟨_, h2, h3⟩ | ⟨h1, _, _⟩
    · exact ⟨h2, h3⟩
    · rw [hR.sub, (subNew_dims i).2.2.2] at h1; cases h1
  obtain ⟨hzE, hflush⟩ := trace_zinv hP.trace hP.out hz
  obtain ⟨arrs, hal, hat, hl0, htl⟩ := tail_between cfg hI hC h hv' (fun i' => outLineSize t i' f (Sub.new i').width)
    frames dEnd bEnd i s hframes hseq hB hzE
  have hto : ToEnd cfg dEnd bEnd := toEnd_between cfg hI hC h hv' frames dEnd bEnd i s hframes hseq hB
  generalize he : absEnv h (hdrOf i) raw0 frames (arrOf pend :: arrs) = e
  have hef : e.frames = absFrame (hdrOf i) raw0 :: frames.map fun fr => absFrame (h.frame fr.1) fr.2.2 := by
    rw [← he]; rfl
  have hea : e.arrs = arrOf pend :: arrs := by rw [← he]; rfl
  have hei : e.interlaced = h.interlaced := by rw [← he]; rfl
  have hN1 : 1 ≤ r.remaining := by rw [hremN]; exact hP.hN
  -- the arrivals hand out exactly each frame's data
  have hvalid : e.Valid := by
    refine ⟨by rw [hef, hea]; simp [hal], ?_⟩
    intro k fr a hk ha
    rw [hef] at hk
    rw [hea] at ha
    cases k with
    | zero =>
      simp only [List.getElem?_cons_zero, Option.some.injEq] at hk ha
      subst hk ha
      rw [arrOf_total hev, hdata]; rfl
    | succ k =>
      simp only [List.getElem?_cons_succ, List.getElem?_map] at hk ha
      cases hfk : frames[k]? with
      | none => rw [hfk] at hk; cases hk
      | some fr0 =>
        rw [hfk] at hk
        simp only [Option.map_some, Option.some.injEq] at hk
        subst hk
        exact hat k fr0 a hfk ha
  obtain ⟨hsw, hsh, hsrl, hscaf⟩ := subNew_dims i
  obtain ⟨hrows, _⟩ := rows_new i
  obtain ⟨hiw, hcu⟩ := subNew_iter i
  have hscan : (if i.interlaced then Adam7.specRows (Sub.dims i).1 (Sub.dims i).2
      else (List.range (Sub.dims i).2).map fun l => (0, l, (Sub.dims i).1)) =
      scan i.interlaced (Sub.dims i).1 (Sub.dims i).2 := rfl
  rw [hscan] at hrows
  have hrl : rowlensOf (hdrOf i) = (scan i.interlaced (Sub.dims i).1 (Sub.dims i).2).map (rlOf i) :=
    rowlensOf_eq (hdrOf i) (by show depthOk i.depth = true; rw [c3]; exact hd) i rfl rfl
  generalize hs0 : (Lazy.St.mk r.remaining 0 (rowlensOf (hdrOf i)) (Lazy.firstRow (rowlensOf (hdrOf i))) false 0 false
    (some (arrOf pend)) false) = s0
  have hinit : Lazy.init e r.remaining = some s0 := by
    unfold Lazy.init
    rw [hef, hea]
    simp only [List.getElem?_cons_zero]
    rw [← hs0]; rfl
  have hgood : Lazy.Good e s0 := (Lazy.init_good e hvalid r.remaining hN1 s0 hinit).1
  refine ⟨arrOf pend :: arrs, s0, by rw [he]; exact hvalid, hN1, ?_, by rw [he]; exact hinit, ?_⟩
  · intro a ha
    simp only [List.mem_cons] at ha
    rcases ha with rfl | ha
    · exact arrOf_last_zero hev hflush
    · exact hl0 a ha
  rw [he]
  refine ⟨⟨i, ?_⟩, hgood, hcp⟩
  subst hs0
  refine ⟨by rw [hei]; exact c5, ?_, ?_, ?_, ?_, hfin.symm, hrd, hR.flags⟩
  · exact ⟨hP.info, rfl, by show false = r.sub.caf; rw [hR.sub, hscaf], by show 0 = r.ub.currLen; rw [hR.ub]; rfl,
      by rw [hR.ub]; exact UB.inv_new, hP.out,
      ⟨(fun h => by cases h), (fun h => by rw [hR.sub, hscaf] at h; cases h)⟩⟩
  · refine ⟨by rw [hR.sub]; exact hiw, by rw [hR.sub]; exact hcu, by rw [hR.sub, hsrl, hsw], ?_, _,
      by rw [hR.sub]; exact hrows, ?_, ?_, ?_⟩
    · show rowlensOf (hdrOf i) = _
      rw [hR.sub, hsw, hsh, hrl]
    · show _ ≤ (rowlensOf (hdrOf i)).length
      rw [hrl]; simp
    · show _ = List.drop ((rowlensOf (hdrOf i)).length - _) _
      rw [hR.sub, hsw, hsh, hrl]; simp
    · show Lazy.firstRow (rowlensOf (hdrOf i)) = _
      rw [hrl]
      unfold Lazy.firstRow
      simp only [List.length_map, Nat.sub_self]
      cases hsc : scan i.interlaced (Sub.dims i).1 (Sub.dims i).2 with
      | nil => simp
      | cons y ys => simp
  · refine .inFrame dEnd bEnd rfl (.inData pend hev hP.trace rfl) hto ?_
    have : tailOf (geomOf h (hdrOf i) frames) e 0 = tl3 h frames arrs := by
      unfold tailOf tl3 geomOf
      rw [hef, hea]
      rfl
    rw [this, hei]; exact htl
  · refine ⟨hdrOf i, rfl, ?_, ?_, rfl⟩
    · rw [hR.sub, hsw]; rfl
    · rw [hR.sub, hsh]; rfl

end Png.LazyRefine
