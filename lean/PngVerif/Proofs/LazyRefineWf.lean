import PngVerif.Proofs.LazyRefineStart
/-!
# `Reader` refines `Lazy`, part 10: well-formed files

`read_info` on a well-formed still image (`wellFormedStill` without chunks behind the image data) and on a
well-formed animation whose first frame is the `IDAT` image (`wellFormedApng`) returns a reader that is related
(`Sim`) to the initial state of the `Lazy` model on the file's abstraction (`absEnv`).  The transformation is the
identity (as in C01 / C09: `readInfo_wf` is proved for it); the inflated data of every frame may have any length.
-/
namespace Png.LazyRefine
open Png Png.Framing Png.WellFormed Png.Reader

/-- the reader `read_info` returns keeps the decoder invariant and the `IHDR` fields of its `Info` -/
theorem corePred_after_readInfo (cfg : Cfg) (t : TCfg) (opts : Options) (limit : Nat) (f : Flags) (file : Bytes)
    (r : R) (i : Info) (h : readInfo cfg t (R.init opts limit f file file.length) = (r, .header))
    (hi : r.dec.info = some i) : CorePred i r.dec := by
  have hd : DInv (R.init opts limit f file file.length).dec := dinv_new opts limit
  have := readInfo_decP (dinv_decPred cfg) t _ hd
  rw [h] at this
  exact ⟨this, i, hi, rfl⟩

/-- `read_info` on a well-formed animation whose first frame is the `IDAT` image: the reader stands at the begin of the
    first frame's data, the frames follow -/
theorem apng_ready (cfg : Cfg) (hI : cfg.InflateOk) (hC : cfg.CrcOk) {t : TCfg} {f : Flags} (ht : t.IsIdentity f)
    (opts : Options) (limit : Nat) (h : Header) (hv : h.Valid) (plays : Nat) (hplays : plays < 2 ^ 32)
    (anc : List (ChunkType × Bytes)) (dAnc : Dec)
    (frames : List (FrameControl × List Bytes × Bytes)) (hnf : frames.length + 1 < 2 ^ 32)
    (hanc : AncChunksG cfg (actlAfter (afterIhdr cfg opts limit h) (frames.length + 1) plays) anc dAnc) (hna : NoActl anc)
    (fc0 : FrameControl) (zs0 : List Bytes) (raw0 : Bytes) (hfc0 : FcOk h fc0)
    (hzs0 : zs0 ≠ []) (hlen0 : ∀ z ∈ zs0, z.length < 2 ^ 32) (hinf0 : cfg.inflate zs0.flatten = some (raw0, true))
    (hsize : h.lineSize * h.height < 2 ^ 64)
    (hlimit : (h.frame fc0).lineSize ≤ dAnc.limit) :
    ∃ (r0 : R) (i : Info) (N : Nat) (dEnd : Dec) (restN : Bytes),
      step cfg t (R.init opts limit f (wellFormedApng cfg h plays anc fc0 zs0 (framesOf frames))
        (wellFormedApng cfg h plays anc fc0 zs0 (framesOf frames)).length) .readInfo = (r0, .header) ∧
      Ready cfg f i N r0 raw0 dEnd restN ∧ i.core = h.info.core ∧ hdrOf i = h.frame fc0 ∧ r0.isReader = true ∧
      r0.finished = false ∧ r0.remaining = N ∧ N = frames.length + 1 ∧ BetweenD cfg h dEnd restN i 1 frames ∧
      CorePred i r0.dec ∧ ZInv cfg r0.dec ∧ dEnd.limit = dAnc.limit - (h.frame fc0).lineSize := by
  obtain ⟨hw1, hw2, hh1, hh2, hleg⟩ := hv
  have hd := (legal_pos hleg).2.2
  have hidle0 := idle_afterIhdr cfg opts limit h
  obtain ⟨hsA, hiA⟩ := ancStep_acTL cfg (afterIhdr cfg opts limit h) h.info (frames.length + 1) plays hnf hplays rfl rfl
    (by show 8 ≤ Params.chunkBufferSize; decide)
  obtain ⟨TA, hidleA, _, _, _, hsqA⟩ := anc_step cfg hC hidle0 hsA
  generalize hdA : actlAfter (afterIhdr cfg opts limit h) (frames.length + 1) plays = dA1 at *
  have hcapA0 : dA1.cap = Params.chunkBufferSize := by rw [← hdA]; rfl
  obtain ⟨TB, hidleB, _, hsqB, hcapB⟩ := anc_chunks_g cfg hC hidleA (by rw [hcapA0]; decide) hanc
  have hactlB := ancChunksG_actl hanc hna
  generalize hfc0' : ({ fc0 with seq := 0 } : FrameControl) = fc0'
  have hframe0 : h.frame fc0' = h.frame fc0 := by rw [← hfc0']; rfl
  have hcapA : dA1.cap = Params.chunkBufferSize := by
    have := hsA; rw [← hdA]; rfl
  have hsq0 : dAnc.seqNo = none := by rw [hsqB, hsqA]; rfl
  obtain ⟨dF, TC, hidleC, hsqC, hlimC, hcapC, _, hactlC⟩ := fctl0_step cfg hC fc0' hidleB
    (by rw [hcapA] at hcapB; have : (26 : Nat) ≤ Params.chunkBufferSize := by decide
        omega)
    (by
      rw [← hfc0']
      refine ⟨by show (0 : Nat) < 2 ^ 32; decide, ?_, ?_, ?_, ?_, hfc0.dn, hfc0.dd, ?_, ?_⟩
      · show fc0.width < 2 ^ 32; have := hfc0.xw; omega
      · show fc0.height < 2 ^ 32; have := hfc0.yh; omega
      · show fc0.x < 2 ^ 32; have := hfc0.xw; omega
      · show fc0.y < 2 ^ 32; have := hfc0.yh; omega
      · show fc0.dispose < 256; have := hfc0.dis; omega
      · show fc0.blend < 256; have := hfc0.bl; omega)
    (by rw [hsq0, ← hfc0']; rfl) (by rw [← hfc0']; exact hfc0.dis) (by rw [← hfc0']; exact hfc0.bl)
    (by
      intro i hi
      obtain ⟨j, hj, hcj, _⟩ := hidleB.info
      rw [hi] at hj; cases hj
      simp only [Info.core, Header.info, Prod.mk.injEq] at hcj
      rw [fctlInBounds_iff, ← hfc0']
      exact ⟨hfc0.w1, hfc0.h1, by rw [hcj.1]; exact hfc0.xw, by rw [hcj.2.1]; exact hfc0.yh⟩)
  have hancAll : AncTrace cfg (afterIhdr cfg opts limit h)
      (chunk cfg acTL (actlBody (frames.length + 1) plays) ++ (chunks cfg anc ++ chunk cfg fcTL (fctlBody fc0'))) dF :=
    TA.append (TB.append TC)
  cases zs0 with
  | nil => exact absurd rfl hzs0
  | cons z0 zs0 =>
    obtain ⟨hl1, hl2, hl3, hl4⟩ := nextHead_facts cfg 1 (framesOf frames)
    have htail := nextHead_eq cfg 1 (framesOf frames)
    have hB0 : ∀ (d : Dec) (i : Info), i.core = h.info.core →
        Flushed d i (nextHead cfg 1 (framesOf frames)).1 (nextHead cfg 1 (framesOf frames)).2.1 → SeqOk d.seqNo 1 →
        26 ≤ d.cap → BetweenD cfg h d (nextHead cfg 1 (framesOf frames)).2.2 i 1 frames :=
      fun d i a b c e => ⟨a, b, rfl, c, e⟩
    generalize hLn : (nextHead cfg 1 (framesOf frames)).1 = lenN at *
    generalize hTn : (nextHead cfg 1 (framesOf frames)).2.1 = tN at *
    generalize hRn : (nextHead cfg 1 (framesOf frames)).2.2 = restN at *
    have hfile : wellFormedApng cfg h plays anc fc0 (z0 :: zs0) (framesOf frames) =
        signature ++ (chunk cfg IHDR h.body ++ ((chunk cfg acTL (actlBody (frames.length + 1) plays) ++
          (chunks cfg anc ++ chunk cfg fcTL (fctlBody fc0'))) ++ (idats cfg (z0 :: zs0) ++
            (be32Bytes lenN ++ typeBytes tN ++ restN)))) := by
      unfold wellFormedApng
      rw [← htail, hfc0']
      have : (framesOf frames).length = frames.length := by simp [framesOf]
      rw [this]
      simp only [List.append_assoc]
    rw [hfile]
    have hLS0 : (h.frame fc0).lineSize ≤ dF.limit := by rw [hlimC]; exact hlimit
    obtain ⟨r, i, N, dEnd, hri, hR, hcore, hfctl, hflu, hrd, hpb, _, hfin, hiF, hremN, hN, hseqE, hcapE, _, hlimE⟩ :=
      readInfo_wf cfg hI hC ht opts limit h ⟨hw1, hw2, hh1, hh2, hleg⟩ _ dF (some fc0') hancAll hidleC z0 zs0 raw0
        (hlen0 z0 (by simp)) (fun z' hz' => hlen0 z' (by simp [hz'])) hinf0 lenN tN restN hl1 hl2 hl3 hsize
        (fun j hc hf => by
          have : hdrOf j = h.frame fc0' := by
            have := hdrOf_frame (i := j) fc0' hc
            have hj : ({ j with fctl := some fc0' } : Info) = j := by cases j; simp only at hf; subst hf; rfl
            rw [hj] at this; exact this
          rw [this, hframe0]; exact hLS0)
    have hij : ({ i with fctl := some fc0' } : Info) = i := by cases i; simp only at hfctl; subst hfctl; rfl
    have hhdr : hdrOf i = h.frame fc0 := by
      have := hdrOf_frame (i := i) fc0' hcore
      rw [hij] at this; rw [this, hframe0]
    have hactl : i.actl = some (frames.length + 1, plays) := by
      have h1 : dF.info.map (·.actl) = some (some (frames.length + 1, plays)) := by
        rw [hactlC, hactlB, hiA]; rfl
      rw [hiF] at h1
      simpa using h1
    have hNv : N = frames.length + 1 := by
      rw [hN, hactl, hfctl]; simp
    have hinfo : r.dec.info = some i := by
      obtain ⟨pend, hP, _⟩ := hR.pend; exact hP.info
    have hB : BetweenD cfg h dEnd restN i 1 frames := by
      refine hB0 dEnd i hcore hflu ?_ ?_
      · rw [hseqE, hsqC, ← hfc0']; exact ⟨rfl, by show (0 : Nat) + 1 < 2 ^ 32; decide⟩
      · rw [hcapE, hcapC]; rw [hcapA] at hcapB; have : (26 : Nat) ≤ Params.chunkBufferSize := by decide
        omega
    generalize hfl : (signature ++ (chunk cfg IHDR h.body ++ ((chunk cfg acTL (actlBody (frames.length + 1) plays) ++
          (chunks cfg anc ++ chunk cfg fcTL (fctlBody fc0'))) ++ (idats cfg (z0 :: zs0) ++
            (be32Bytes lenN ++ typeBytes tN ++ restN))))) = file at hri ⊢
    have hcp := corePred_after_readInfo cfg t opts limit f file r i hri hinfo
    have hzr : ZInv cfg r.dec := by
      have := readInfo_decP (zinv_decPred cfg) t _ (zinv_init cfg opts limit f file file.length)
      rw [hri] at this; exact this
    refine ⟨r, i, N, dEnd, restN, ?_, hR, hcore, hhdr, hrd, hfin, hremN, hNv, hB, hcp, hzr, by rw [hlimE, hhdr, hlimC]⟩
    have hdead : (R.init opts limit f file file.length).dead = false := rfl
    show (if (R.init opts limit f file file.length).dead then
        ((R.init opts limit f file file.length), Res.err .parameter "model: Decoder consumed by a failed read_info")
      else readInfo cfg t (R.init opts limit f file file.length)) = _
    rw [hdead]; exact hri

/-- **a well-formed animation whose first frame is the `IDAT` image** -/
theorem apng_start (cfg : Cfg) (hI : cfg.InflateOk) (hC : cfg.CrcOk) {t : TCfg} {f : Flags} (ht : t.IsIdentity f)
    (opts : Options) (limit : Nat) (h : Header) (hv : h.Valid) (plays : Nat) (hplays : plays < 2 ^ 32)
    (anc : List (ChunkType × Bytes)) (dAnc : Dec)
    (frames : List (FrameControl × List Bytes × Bytes)) (hnf : frames.length + 1 < 2 ^ 32)
    (hanc : AncChunksG cfg (actlAfter (afterIhdr cfg opts limit h) (frames.length + 1) plays) anc dAnc) (hna : NoActl anc)
    (fc0 : FrameControl) (zs0 : List Bytes) (raw0 : Bytes) (hfc0 : FcOk h fc0)
    (hzs0 : zs0 ≠ []) (hlen0 : ∀ z ∈ zs0, z.length < 2 ^ 32) (hinf0 : cfg.inflate zs0.flatten = some (raw0, true))
    (hframes : ∀ fr ∈ frames, FrameD cfg h fr)
    (hseq : 1 + (frames.map fun x => 1 + x.2.1.length).sum < 2 ^ 32)
    (hsize : h.lineSize * h.height < 2 ^ 64)
    (hlimit : (h.frame fc0).lineSize ≤ dAnc.limit) :
    ∃ (r0 : R) (i0 : Info) (arrs : List Lazy.Arrival) (s0 : Lazy.St),
      step cfg t (R.init opts limit f (wellFormedApng cfg h plays anc fc0 zs0 (framesOf frames))
        (wellFormedApng cfg h plays anc fc0 zs0 (framesOf frames)).length) .readInfo = (r0, .header) ∧
      r0.remaining = frames.length + 1 ∧
      (absEnv h (h.frame fc0) raw0 frames arrs).Valid ∧ (∀ a ∈ arrs, a.last = 0) ∧
      Lazy.init (absEnv h (h.frame fc0) raw0 frames arrs) r0.remaining = some s0 ∧
      Sim cfg (geomOf h (h.frame fc0) frames) (absEnv h (h.frame fc0) raw0 frames arrs)
        (fun i' => outLineSize t i' f (Sub.new i').width) f i0 r0 s0 := by
  obtain ⟨r, i, N, dEnd, restN, hri, hR, hcore, hhdr, hrd, hfin, hremN, hNv, hB, hcp, hzr, _⟩ :=
    apng_ready cfg hI hC ht opts limit h hv plays hplays anc dAnc frames hnf hanc hna fc0 zs0 raw0 hfc0 hzs0 hlen0 hinf0
      hsize hlimit
  obtain ⟨arrs, s0, hvalid, _, hl0, hinit, hsim⟩ :=
    sim_of_ready cfg hI hC t f h hv i i N r raw0 dEnd _ hR hrd hfin hcore hcp frames 1 hB hframes hseq hzr
  rw [hhdr] at hvalid hinit hsim
  exact ⟨r, i, arrs, s0, hri, hremN.trans hNv, hvalid, hl0, hinit, hsim⟩

/-- `read_info` on a well-formed still image (no `acTL`, no chunks behind the image data) -/
theorem still_ready (cfg : Cfg) (hI : cfg.InflateOk) (hC : cfg.CrcOk) {t : TCfg} {f : Flags} (ht : t.IsIdentity f)
    (opts : Options) (limit : Nat) (h : Header) (hv : h.Valid) (cs : List (ChunkType × Bytes)) (dA : Dec)
    (hcs : AncChunksG cfg (afterIhdr cfg opts limit h) cs dA) (hna : NoActl cs)
    (zs : List Bytes) (raw : Bytes) (hzs : zs ≠ []) (hlen : ∀ z ∈ zs, z.length < 2 ^ 32)
    (hinf : cfg.inflate zs.flatten = some (raw, true))
    (hsize : h.lineSize * h.height < 2 ^ 64) (hlimit : h.lineSize ≤ dA.limit) :
    ∃ (r0 : R) (i : Info) (N : Nat) (dEnd : Dec) (restN : Bytes),
      step cfg t (R.init opts limit f (wellFormedStill cfg h cs zs []) (wellFormedStill cfg h cs zs []).length) .readInfo =
        (r0, .header) ∧
      Ready cfg f i N r0 raw dEnd restN ∧ i.core = h.info.core ∧ hdrOf i = h ∧ r0.isReader = true ∧
      r0.finished = false ∧ r0.remaining = N ∧ N = 1 ∧ BetweenD cfg h dEnd restN i 0 [] ∧
      CorePred i r0.dec ∧ ZInv cfg r0.dec := by
  obtain ⟨a1, a2, _, hsqA, hcapA⟩ :=
    anc_chunks_g cfg hC (idle_afterIhdr cfg opts limit h) (by show 0 < Params.chunkBufferSize; decide) hcs
  have hactlA := ancChunksG_actl hcs hna
  cases zs with
  | nil => exact absurd rfl hzs
  | cons z zs =>
    obtain ⟨hl1, hl2, hl3, hl4⟩ := nextHead_facts cfg 0 (framesOf [])
    have htail := nextHead_eq cfg 0 (framesOf [])
    have hB0 : ∀ (d : Dec) (i : Info), i.core = h.info.core →
        Flushed d i (nextHead cfg 0 (framesOf [])).1 (nextHead cfg 0 (framesOf [])).2.1 → SeqOk d.seqNo 0 →
        26 ≤ d.cap → BetweenD cfg h d (nextHead cfg 0 (framesOf [])).2.2 i 0 [] :=
      fun d i a b c e => ⟨a, b, rfl, c, e⟩
    generalize hLn : (nextHead cfg 0 (framesOf [])).1 = lenN at *
    generalize hTn : (nextHead cfg 0 (framesOf [])).2.1 = tN at *
    generalize hRn : (nextHead cfg 0 (framesOf [])).2.2 = restN at *
    have hfile : wellFormedStill cfg h cs (z :: zs) [] =
        signature ++ (chunk cfg IHDR h.body ++ (chunks cfg cs ++ (idats cfg (z :: zs) ++
          (be32Bytes lenN ++ typeBytes tN ++ restN)))) := by
      unfold wellFormedStill
      rw [← htail]
      simp only [chunks, List.map_nil, List.flatten_nil, List.append_nil, List.append_assoc, framesOf, apngFrames,
        List.nil_append]
    rw [hfile]
    obtain ⟨r, i, N, dEnd, hri, hR, hcore, hfctl, hflu, hrd, hpb, _, hfin, hiF, hremN, hN, hseqE, hcapE, _, hlimE⟩ :=
      readInfo_wf cfg hI hC ht opts limit h hv _ dA none a1 a2 z zs raw
        (hlen z (by simp)) (fun z' hz' => hlen z' (by simp [hz'])) hinf lenN tN restN hl1 hl2 hl3 hsize
        (fun j hc hf => by rw [hdrOf_eq hc hf]; exact hlimit)
    have hhdr : hdrOf i = h := hdrOf_eq hcore hfctl
    have hactl : i.actl = none := by
      rw [hiF] at hactlA
      have : (afterIhdr cfg opts limit h).info.map (·.actl) = some none := rfl
      rw [this] at hactlA
      simpa using hactlA
    have hNv : N = 1 := by rw [hN, hactl]
    have hinfo : r.dec.info = some i := by
      obtain ⟨pend, hP, _⟩ := hR.pend; exact hP.info
    have hB : BetweenD cfg h dEnd restN i 0 [] := by
      refine hB0 dEnd i hcore hflu ?_ ?_
      · rw [hseqE, hsqA]; rfl
      · rw [hcapE]
        have : (26 : Nat) ≤ Params.chunkBufferSize := by decide
        have h0 : (afterIhdr cfg opts limit h).cap = Params.chunkBufferSize := rfl
        omega
    generalize hfl : (signature ++ (chunk cfg IHDR h.body ++ (chunks cfg cs ++ (idats cfg (z :: zs) ++
          (be32Bytes lenN ++ typeBytes tN ++ restN))))) = file at hri ⊢
    have hcp := corePred_after_readInfo cfg t opts limit f file r i hri hinfo
    have hzr : ZInv cfg r.dec := by
      have := readInfo_decP (zinv_decPred cfg) t _ (zinv_init cfg opts limit f file file.length)
      rw [hri] at this; exact this
    refine ⟨r, i, N, dEnd, restN, ?_, hR, hcore, hhdr, hrd, hfin, hremN, hNv, hB, hcp, hzr⟩
    have hdead : (R.init opts limit f file file.length).dead = false := rfl
    show (if (R.init opts limit f file file.length).dead then
        ((R.init opts limit f file file.length), Res.err .parameter "model: Decoder consumed by a failed read_info")
      else readInfo cfg t (R.init opts limit f file file.length)) = _
    rw [hdead]; exact hri

/-- **a well-formed still image** (no `acTL`, no chunks behind the image data) -/
theorem still_start (cfg : Cfg) (hI : cfg.InflateOk) (hC : cfg.CrcOk) {t : TCfg} {f : Flags} (ht : t.IsIdentity f)
    (opts : Options) (limit : Nat) (h : Header) (hv : h.Valid) (cs : List (ChunkType × Bytes)) (dA : Dec)
    (hcs : AncChunksG cfg (afterIhdr cfg opts limit h) cs dA) (hna : NoActl cs)
    (zs : List Bytes) (raw : Bytes) (hzs : zs ≠ []) (hlen : ∀ z ∈ zs, z.length < 2 ^ 32)
    (hinf : cfg.inflate zs.flatten = some (raw, true))
    (hsize : h.lineSize * h.height < 2 ^ 64) (hlimit : h.lineSize ≤ dA.limit) :
    ∃ (r0 : R) (i0 : Info) (arrs : List Lazy.Arrival) (s0 : Lazy.St),
      step cfg t (R.init opts limit f (wellFormedStill cfg h cs zs []) (wellFormedStill cfg h cs zs []).length) .readInfo =
        (r0, .header) ∧
      r0.remaining = 1 ∧
      (absEnv h h raw [] arrs).Valid ∧ (∀ a ∈ arrs, a.last = 0) ∧
      Lazy.init (absEnv h h raw [] arrs) r0.remaining = some s0 ∧
      Sim cfg (geomOf h h []) (absEnv h h raw [] arrs) (fun i' => outLineSize t i' f (Sub.new i').width) f i0 r0 s0 := by
  obtain ⟨r, i, N, dEnd, restN, hri, hR, hcore, hhdr, hrd, hfin, hremN, hNv, hB, hcp, hzr⟩ :=
    still_ready cfg hI hC ht opts limit h hv cs dA hcs hna zs raw hzs hlen hinf hsize hlimit
  obtain ⟨arrs, s0, hvalid, _, hl0, hinit, hsim⟩ :=
    sim_of_ready cfg hI hC t f h hv i i N r raw dEnd _ hR hrd hfin hcore hcp [] 0 hB
      (fun fr hfr => by cases hfr) (by simp) hzr
  rw [hhdr] at hvalid hinit hsim
  exact ⟨r, i, arrs, s0, hri, hremN.trans hNv, hvalid, hl0, hinit, hsim⟩

end Png.LazyRefine
