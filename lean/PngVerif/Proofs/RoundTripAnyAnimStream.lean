import PngVerif.Proofs.RoundTripAny
import PngVerif.Proofs.RoundTripAnyGen
import PngVerif.Proofs.RoundTripAnimStreamDefault
/-!
# C03 ∘ C13, animations written through ONE owned `StreamWriter`: any call path

`Proofs/RoundTripAnyAnim.lean` for the file `anim_stream_log` / `anim_default_stream_log` describe: whatever the chunk writer's
cuts `gs` of the compressed streams, the file is `Reader.apngFile` / `apngDefaultFile` (`sAnimBytes_eq`,
`sAnimDefaultBytes_eq`), `C09_any_path_gen_of` / `C09_default_any_path_gen_of` apply, and the `k`-th frame behind the first as
the decoder side describes it (`gDec`) is the `k`-th frame written (`gs_spec`).
-/
namespace Png.RoundTrip
open Png Png.Val Png.Enc Png.Framing Png.Reader Png.WellFormed Png.AnyPath

/-- **the frames behind the first, index by index**, for any cuts `gs`: frame `k` of `gDec … gs` is frame `k` of the frames
    written; `specFrame` of it in a buffer of `B` bytes pre-filled with `p` is the bytes written for it, then the pre-fill -/
theorem gs_spec (compress : Bytes → Bytes) (chooseZ : Bytes → Bytes → FilterType) (c : Enc.Cfg)
    (hd : depthOk c.depth = true) (capx : Nat) (B : Nat) (p : UInt8) :
    ∀ (frs : List SFrame) (gs : List (FC × List Bytes × Bytes)) (g : FC) (q : Nat),
      SLaterOk c g frs → GsOk compress chooseZ c capx g q frs gs →
      ∀ (k : Nat) (x : FrameControl × List Bytes × Bytes), (gDec (chooseFirst chooseZ) c gs)[k]? = some x →
        ∃ fr, frs[k]? = some fr ∧
          specFrame ((headerOf c).frame x.1) x.2.2 (List.replicate B p) =
            some (fr.pieces.flatten ++ List.replicate (B - fr.pieces.flatten.length) p) := by
  intro frs
  induction frs with
  | nil =>
    intro gs g q _ hg k x hx
    cases gs with
    | cons _ _ => exact hg.elim
    | nil => simp [gDec] at hx
  | cons fr rest ih =>
    intro gs g q hok hg k x hx
    cases gs with
    | nil => exact hg.elim
    | cons y gs =>
      obtain ⟨_, hlen, hrest⟩ := hok
      obtain ⟨h1, h2, _, _, _, h6⟩ := hg
      have hsub : c.sub y.1 = c.sub (fcOfS c.width c.height g fr.pre) := by rw [h1]; rfl
      cases k with
      | zero =>
        simp only [gDec, List.map_cons, List.getElem?_cons_zero, Option.some.injEq] at hx
        subst hx
        have hlen' : y.2.2.length = (c.sub y.1).rowLen * y.1.h := by rw [h2, hsub, h1]; exact hlen
        refine ⟨fr, rfl, ?_⟩
        have := specFrame_encode (chooseFirst chooseZ) c hd y.1 y.2.2 hlen' B p
        rw [h2] at this
        simp only
        rw [h2]
        exact this
      | succ k =>
        simp only [gDec, List.map_cons, List.getElem?_cons_succ] at hx ⊢
        exact ih gs _ _ hrest h6 k x (by simp only [gDec]; exact hx)

/-- the results the stream-writer theorems promise for the frames behind the first are successful results -/
theorem sFrameResults_good (c : Enc.Cfg) : ∀ (frs : List SFrame) (g : FC) (ps : List UInt8),
    ∀ x ∈ sFrameResults c g frs ps, x.isGood = true := by
  intro frs
  induction frs with
  | nil => intro g ps x hx; cases ps <;> simp [sFrameResults] at hx
  | cons fr rest ih =>
    intro g ps x hx
    cases ps with
    | nil => simp [sFrameResults] at hx
    | cons p ps =>
      simp only [sFrameResults, List.mem_cons] at hx
      rcases hx with rfl | hx
      · rfl
      · exact ih _ ps x hx

/-- **any call path on an animation written through one owned stream writer** (first frame = `IDAT` image, any metadata) -/
theorem anyPath_anim_stream_of (cfg : Framing.Cfg) (t : TCfg) (hap : AnyPathOk cfg t) (f : Flags) (opts : Options)
    (limit P : Nat) (E : Codec)
    (compress : Bytes → Bytes) (chooseZ : Bytes → Bytes → FilterType) (c : Enc.Cfg) (n plays : Nat) (f0 : FC) (size : Nat)
    (fr0 : SFrame) (frs : List SFrame) (p : UInt8)
    (hI : cfg.InflateOk) (hcrc : ∀ b, cfg.crc b = crcOfList b) (ht : t.IsIdentity f)
    (hc : c.Anim n plays f0) (hsep : c.sepDefImg = false) (hm : MetaOk cfg opts.ignoreText P c)
    (hcov : f0.x = 0 ∧ f0.y = 0 ∧ f0.w = c.width ∧ f0.h = c.height)
    (hn : n = frs.length + 1) (hpre0 : ∀ o ∈ fr0.pre, o.inRange)
    (hlen0 : fr0.pieces.flatten.length = c.rowLen * c.height)
    (hl : SLaterOk c (fcOfS c.width c.height f0 fr0.pre) frs) (hsz : c.rowLen * c.height < 2 ^ 64)
    (hbud : 1 + sBudget compress chooseZ c (fcOfS c.width c.height f0 fr0.pre) frs < 2 ^ 32)
    (hnil : ∀ o, cfg.inflate [] ≠ some (o, true))
    (hinf0 : cfg.inflate (compress (rawOf (chooseFirst chooseZ) c fr0.pieces.flatten)) =
      some (rawOf (chooseFirst chooseZ) c fr0.pieces.flatten, true))
    (hinf : ∀ raw ∈ sRaws chooseZ c (fcOfS c.width c.height f0 fr0.pre) frs, cfg.inflate (compress raw) = some (raw, true))
    (hlimit : c.rowLen + sLineSum c (fcOfS c.width c.height f0 fr0.pre) frs + metaCost P c ≤ limit)
    (h32 : (encodedAnimStream E compress chooseZ c size (fr0 :: frs)).length < 2 ^ 32) (ops : List PathOp) :
    (asmRun cfg t (List.replicate (c.rowLen * c.height) p)
      (readerOf cfg t opts limit f (encodedAnimStream E compress chooseZ c size (fr0 :: frs)),
       Asm.init (List.replicate (c.rowLen * c.height) p)) ops).2.problem = false ∧
    ∀ k px, (k, px) ∈ (asmRun cfg t (List.replicate (c.rowLen * c.height) p)
      (readerOf cfg t opts limit f (encodedAnimStream E compress chooseZ c size (fr0 :: frs)),
       Asm.init (List.replicate (c.rowLen * c.height) p)) ops).2.frames →
      ∃ fr, (fr0 :: frs)[k]? = some fr ∧
        px = fr.pieces.flatten ++ List.replicate (c.rowLen * c.height - fr.pieces.flatten.length) p := by
  have hC := crcOk_of_eq cfg hcrc
  obtain ⟨_, _, ds0, gs, hlog, hne0, hlens0, hflat0, hgs⟩ :=
    anim_stream_log E compress chooseZ c n plays f0 hc hsep hcov size fr0 frs hn hlen0 hl hsz hbud
  generalize hcapx : max (min chunkCap size) streamMinBuffer = capx at hlens0 hgs
  have hcapLe : capx ≤ chunkCap := by
    rw [← hcapx]
    have : streamMinBuffer ≤ chunkCap := by decide
    omega
  have hfile : encodedAnimStream E compress chooseZ c size (fr0 :: frs) = _ :=
    ((bytes_of_fullLog _ _ hlog).1).trans
      (sAnimBytes_eq cfg hcrc compress chooseZ c n plays hc.actl capx f0 hc.seq0 ds0 _ frs gs hgs)
  rw [hfile] at h32 ⊢
  obtain ⟨hin', hfine', _⟩ := fcOf_facts (W := c.width) (H := c.height) (fr0.pre.map SetOp.toOp) f0 hc.rect hc.fine
    (fun o ho => by
      obtain ⟨so, hso, rfl⟩ := List.mem_map.mp ho
      exact SetOp.toOp_inRange so (hpre0 so hso))
  have hg' : fcOf c.width c.height f0 (fr0.pre.map SetOp.toOp) = fcOfS c.width c.height f0 fr0.pre := rfl
  rw [hg'] at hin' hfine'
  generalize hgg : fcOfS c.width c.height f0 fr0.pre = g' at *
  have hsub : c.sub f0 = c := sub_cover c f0 hcov.2.2.1 hcov.2.2.2
  have hlen0' : fr0.pieces.flatten.length = (c.sub f0).rowLen * f0.h := by rw [hsub, hcov.2.2.2]; exact hlen0
  have hzne : compress (rawOf (chooseFirst chooseZ) c fr0.pieces.flatten) ≠ [] := by
    intro z0; rw [z0] at hinf0; exact hnil _ hinf0
  have hds0 : ds0 ≠ [] := by
    intro h0; rw [h0] at hflat0; exact hzne hflat0.symm
  have hdl : (gDec (chooseFirst chooseZ) c gs).length = frs.length := by
    rw [gDec_length, gsOk_length compress chooseZ c capx frs gs _ _ hgs]
  obtain ⟨dB, b1, b2, b3, b4, b5, hlim⟩ := meta_accepted_anim cfg hC opts limit P c n plays hc.nlt hc.plt
    (c.rowLen + sLineSum c g' frs) hm hlimit
  have hframe0 : (headerOf c).frame (fcDec f0) = headerOf c := by rw [frame_dec, hsub]
  have hls := headerOf_lineSize (c := c) hc.depth
  have hB := bufferSize_headerOf (c := c) hc.depth
  have hseqs := seq_sum_gs compress chooseZ c capx frs gs g' 1 hgs
  have key := C09_any_path_gen_of cfg t hap f opts limit (headerOf c) plays (ancBytes cfg c n plays) dB
      (gDec (chooseFirst chooseZ) c gs) (fcDec f0) ds0 (rawOf (chooseFirst chooseZ) c fr0.pieces.flatten) p
      hI hC ht (valid_of_anim hc) b1 b2 b3 b4 (by rw [hdl, ← hn]; exact b5)
      (fcOk_dec hc.rect hc.fine) hds0
      (fun z hz => by
        have := hlens0 z hz
        have : chunkCap < 2 ^ 32 := by decide
        omega)
      (by rw [hflat0]; exact hinf0)
      (by rw [hframe0]; exact rawOk_encode (chooseFirst chooseZ) c hc.depth fr0.pieces.flatten hlen0)
      (frameOk_gs cfg compress chooseZ c hc.depth hnil capx hcapLe frs gs g' 1 hin' hfine' hl hgs hinf)
      (by omega)
      (by rw [hls]; exact hsz)
      (by
        rw [hframe0, hls, lineSum_gs compress chooseZ c hc.depth capx frs gs g' 1 hgs]
        exact hlim)
      h32 ops
  rw [hB] at key
  refine ⟨key.1, fun k px hk => ?_⟩
  obtain ⟨x, hx, hspec⟩ := key.2 k px hk
  cases k with
  | zero =>
    simp only [List.getElem?_cons_zero, Option.some.injEq] at hx
    subst hx
    have hspec' := specFrame_encode (chooseFirst chooseZ) c hc.depth f0 fr0.pieces.flatten hlen0' (c.rowLen * c.height) p
    rw [hsub] at hspec'
    rw [hspec'] at hspec
    cases hspec
    exact ⟨fr0, rfl, rfl⟩
  | succ k =>
    simp only [List.getElem?_cons_succ] at hx ⊢
    obtain ⟨fr, hfr, hs⟩ := gs_spec compress chooseZ c hc.depth capx (c.rowLen * c.height) p frs gs g' 1 hl hgs k x hx
    rw [hs] at hspec
    cases hspec
    exact ⟨fr, hfr, rfl⟩

/-- **any call path on an animation with a separate default image written through one owned stream writer** -/
theorem anyPath_anim_default_stream_of (cfg : Framing.Cfg) (t : TCfg) (hap : AnyPathOk cfg t) (f : Flags) (opts : Options)
    (limit P : Nat) (E : Codec)
    (compress : Bytes → Bytes) (chooseZ : Bytes → Bytes → FilterType) (c : Enc.Cfg) (n plays : Nat) (f0 : FC) (size : Nat)
    (fr0 : SFrame) (frs : List SFrame) (p : UInt8)
    (hI : cfg.InflateOk) (hcrc : ∀ b, cfg.crc b = crcOfList b) (ht : t.IsIdentity f)
    (hc : c.Anim n plays f0) (hsep : c.sepDefImg = true) (hm : MetaOk cfg opts.ignoreText P c)
    (hcov : f0.x = 0 ∧ f0.y = 0 ∧ f0.w = c.width ∧ f0.h = c.height)
    (hn : n = frs.length) (hpre0 : ∀ o ∈ fr0.pre, o.inRange)
    (hlen0 : fr0.pieces.flatten.length = c.rowLen * c.height)
    (hl : SLaterOk c (fcOfS c.width c.height f0 fr0.pre) frs) (hsz : c.rowLen * c.height < 2 ^ 64)
    (hbud : sBudget compress chooseZ c (fcOfS c.width c.height f0 fr0.pre) frs < 2 ^ 32)
    (hnil : ∀ o, cfg.inflate [] ≠ some (o, true))
    (hinf0 : cfg.inflate (compress (rawOf (chooseFirst chooseZ) c fr0.pieces.flatten)) =
      some (rawOf (chooseFirst chooseZ) c fr0.pieces.flatten, true))
    (hinf : ∀ raw ∈ sRaws chooseZ c (fcOfS c.width c.height f0 fr0.pre) frs, cfg.inflate (compress raw) = some (raw, true))
    (hlimit : c.rowLen + sLineSum c (fcOfS c.width c.height f0 fr0.pre) frs + metaCost P c ≤ limit)
    (h32 : (encodedAnimStream E compress chooseZ c size (fr0 :: frs)).length < 2 ^ 32) (ops : List PathOp) :
    (asmRun cfg t (List.replicate (c.rowLen * c.height) p)
      (readerOf cfg t opts limit f (encodedAnimStream E compress chooseZ c size (fr0 :: frs)),
       Asm.init (List.replicate (c.rowLen * c.height) p)) ops).2.problem = false ∧
    ∀ k px, (k, px) ∈ (asmRun cfg t (List.replicate (c.rowLen * c.height) p)
      (readerOf cfg t opts limit f (encodedAnimStream E compress chooseZ c size (fr0 :: frs)),
       Asm.init (List.replicate (c.rowLen * c.height) p)) ops).2.frames →
      ∃ fr, (fr0 :: frs)[k]? = some fr ∧
        px = fr.pieces.flatten ++ List.replicate (c.rowLen * c.height - fr.pieces.flatten.length) p := by
  have hC := crcOk_of_eq cfg hcrc
  obtain ⟨_, _, ds0, gs, hlog, hne0, hlens0, hflat0, hgs⟩ :=
    anim_default_stream_log E compress chooseZ c n plays f0 hc hsep hcov size fr0 frs hn hlen0 hl hsz hbud
  generalize hcapx : max (min chunkCap size) streamMinBuffer = capx at hlens0 hgs
  have hcapLe : capx ≤ chunkCap := by
    rw [← hcapx]
    have : streamMinBuffer ≤ chunkCap := by decide
    omega
  have hfile : encodedAnimStream E compress chooseZ c size (fr0 :: frs) = _ :=
    ((bytes_of_fullLog _ _ hlog).1).trans
      (sAnimDefaultBytes_eq cfg hcrc compress chooseZ c n plays hc.actl capx ds0 _ frs gs hgs)
  rw [hfile] at h32 ⊢
  obtain ⟨hin', hfine', _⟩ := fcOf_facts (W := c.width) (H := c.height) (fr0.pre.map SetOp.toOp) f0 hc.rect hc.fine
    (fun o ho => by
      obtain ⟨so, hso, rfl⟩ := List.mem_map.mp ho
      exact SetOp.toOp_inRange so (hpre0 so hso))
  have hg' : fcOf c.width c.height f0 (fr0.pre.map SetOp.toOp) = fcOfS c.width c.height f0 fr0.pre := rfl
  rw [hg'] at hin' hfine'
  generalize hgg : fcOfS c.width c.height f0 fr0.pre = g' at *
  have hzne : compress (rawOf (chooseFirst chooseZ) c fr0.pieces.flatten) ≠ [] := by
    intro z0; rw [z0] at hinf0; exact hnil _ hinf0
  have hds0 : ds0 ≠ [] := by
    intro h0; rw [h0] at hflat0; exact hzne hflat0.symm
  have hdl : (gDec (chooseFirst chooseZ) c gs).length = frs.length := by
    rw [gDec_length, gsOk_length compress chooseZ c capx frs gs _ _ hgs]
  obtain ⟨dB, b1, b2, b3, b4, b5, hlim⟩ := meta_accepted_anim cfg hC opts limit P c n plays hc.nlt hc.plt
    (c.rowLen + sLineSum c g' frs) hm hlimit
  have hls := headerOf_lineSize (c := c) hc.depth
  have hB := bufferSize_headerOf (c := c) hc.depth
  have hseqs := seq_sum_gs compress chooseZ c capx frs gs g' 0 hgs
  have key := C09_default_any_path_gen_of cfg t hap f opts limit (headerOf c) plays (ancBytes cfg c n plays) dB
      (gDec (chooseFirst chooseZ) c gs) ds0 (rawOf (chooseFirst chooseZ) c fr0.pieces.flatten) p
      hI hC ht (valid_of_anim hc) b1 b2 b3 b4 (by rw [hdl, ← hn]; exact b5) hds0
      (fun z hz => by
        have := hlens0 z hz
        have : chunkCap < 2 ^ 32 := by decide
        omega)
      (by rw [hflat0]; exact hinf0)
      (rawOk_encode (chooseFirst chooseZ) c hc.depth fr0.pieces.flatten hlen0)
      (frameOk_gs cfg compress chooseZ c hc.depth hnil capx hcapLe frs gs g' 0 hin' hfine' hl hgs hinf)
      (by omega)
      (by rw [hls]; exact hsz)
      (by
        rw [hls, lineSum_gs compress chooseZ c hc.depth capx frs gs g' 0 hgs]
        exact hlim)
      h32 ops
  rw [hB] at key
  refine ⟨key.1, fun k px hk => ?_⟩
  obtain ⟨k0, kS⟩ := key.2 k px hk
  cases k with
  | zero =>
    have hspec := k0 rfl
    rw [specPixels_encode (chooseFirst chooseZ) c hc.depth fr0.pieces.flatten hlen0] at hspec
    cases hspec
    refine ⟨fr0, rfl, ?_⟩
    rw [hlen0, Nat.sub_self]; simp
  | succ k =>
    obtain ⟨x, hx, hspec⟩ := kS k rfl
    simp only [List.getElem?_cons_succ]
    obtain ⟨fr, hfr, hs⟩ := gs_spec compress chooseZ c hc.depth capx (c.rowLen * c.height) p frs gs g' 0 hl hgs k x hx
    rw [hs] at hspec
    cases hspec
    exact ⟨fr, hfr, rfl⟩

end Png.RoundTrip
