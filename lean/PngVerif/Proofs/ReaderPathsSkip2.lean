import PngVerif.Proofs.ReaderPathsSkip
/-!
# Decoding paths, part 8: `next_frame_info` from anywhere inside a frame (C13)

`frameInto_skip`: skipping the rest of a frame ends where `next_frame` ends.  `skip_agrees`:
`next_frame_info` called anywhere inside a frame returns what it returns after the frame was decoded
by `next_frame`, and leaves the same reader up to the scratch length and the cached transformation
(`PSim True`) — so by `run_psim` every later call returns the same result.
-/
namespace Png.Reader
open Png Png.Framing

/-- a successful `next_interlaced_row_impl` after `next_raw_interlaced_row`: the transformation may have
    been created, the row iterator advanced -/
theorem rowImplPost_ok {t : TCfg} {rl ol : Nat} {a1 a' : R} {x : Except Res Unit} {out : Bytes}
    (h : rowImplPost t rl ol (a1, x) = (a', .ok out)) :
    x = .ok () ∧ ∃ c, a' = { a1 with cached := c, sub := a1.sub.advance } := by
  unfold rowImplPost at h
  cases x with
  | error e => simp only [Prod.mk.injEq] at h; cases h.2
  | ok u =>
    refine ⟨rfl, ?_⟩
    simp only at h
    split at h
    · simp only [Prod.mk.injEq] at h; cases h.2
    · cases hi : infoOf a1 with
      | none => rw [hi] at h; simp only [Prod.mk.injEq] at h; cases h.2
      | some i =>
        rw [hi] at h; simp only at h
        cases hg : getTransform t a1 i with
        | error e => rw [hg] at h; simp only [Prod.mk.injEq] at h; cases h.2
        | ok p =>
          obtain ⟨r2, snap⟩ := p
          rw [hg] at h; simp only at h
          cases ha : t.apply snap r2.flags i a1.ub.prevRow ol with
          | none => rw [ha] at h; simp only [Prod.mk.injEq] at h; cases h.2
          | some o =>
            rw [ha] at h; simp only [Prod.mk.injEq] at h
            obtain ⟨rfl, _⟩ := h
            unfold getTransform at hg
            cases hc : a1.cached with
            | some s =>
              rw [hc] at hg; simp only [Except.ok.injEq, Prod.mk.injEq] at hg
              obtain ⟨rfl, _⟩ := hg
              exact ⟨a1.cached, rfl⟩
            | none =>
              rw [hc] at hg; simp only at hg
              cases hcr : t.create i a1.flags with
              | error w => rw [hcr] at hg; simp only at hg; split at hg <;> cases hg
              | ok u =>
                rw [hcr] at hg; simp only [Except.ok.injEq, Prod.mk.injEq] at hg
                obtain ⟨rfl, _⟩ := hg
                exact ⟨some i, rfl⟩

/-- **a decoded row does not change where skipping ends** -/
theorem nextRowImpl_skip (cfg : Cfg) (t : TCfg) {a a' : R} {rl ol : Nat} {out : Bytes}
    (h : nextRowImpl cfg t a rl ol = (a', .ok out)) : SkipSame (skipRest cfg a) (skipRest cfg a') := by
  rw [nextRowImpl_post] at h
  cases hx : nextRawRow cfg rl (fuelOf a) a with
  | mk a1 x =>
    rw [hx] at h
    obtain ⟨rfl, c, rfl⟩ := rowImplPost_ok h
    have h1 := nextRawRow_skip cfg rl (fuelOf a) a a1 (by rw [← nextRawRow_gloop]; exact hx)
    refine h1.trans (skipSame_of_clear cfg (clearCur { a1 with cached := c, sub := a1.sub.advance }) ?_)
    rcases advance_cases a1.sub with ⟨_, ha⟩ | ⟨c', it, _, ha⟩ <;> rw [ha] <;> rfl

theorem clearCur_of_none {r : R} (h : r.sub.cur = none) : clearCur r = r := by
  cases r with
  | mk dec input pos visible flags isReader bpp sub remaining ub cached scratchLen finished dead pendingBuf =>
    cases sub
    simp only at h
    subst h
    rfl

/-- a delivered row does not change where skipping ends -/
theorem nextRow_skip (cfg : Cfg) {t : TCfg} (ht : t.Ok) {r r1 : R} {i : Info} {ii : IInfo} {data : Bytes} (hI : Inv t r)
    (hi : r.dec.info = some i) (hx : nextInterlacedRow cfg t r = (r1, .row ii data)) :
    SkipSame (skipRest cfg r) (skipRest cfg r1) := by
  obtain ⟨_, _, _, hcur, _, _, _⟩ := nextRow_keeps cfg ht hI hi hx
  have h1 : nextInterlacedRow cfg t r =
      readRow cfg t { r with scratchLen := outLineSize t i r.flags r.sub.width } (outLineSize t i r.flags r.sub.width) := by
    unfold nextInterlacedRow; simp only [infoOf, hi]
  have hIs := hI.setScratch (outLineSize t i r.flags r.sub.width)
  rw [h1, readRow_row cfg ht _ hIs hi hcur (Nat.le_refl _)] at hx
  have hP := rowStart_pre hIs hi hcur
  have hsp := nextRowImpl_spec cfg ht _ i ii hP.inv hP.info hP.cur hP.prev
  rw [rowStart_sub, (rowStart_keep _ ii).flags] at hsp
  cases hn : nextRowImpl cfg t (rowStart { r with scratchLen := outLineSize t i r.flags r.sub.width } ii)
      (rowlenOf i.color i.depth r.sub ii) (outLineSize t i r.flags (widthOf r.sub ii)) with
  | mk a' res =>
    have hx' := hx
    rw [show ({ r with scratchLen := outLineSize t i r.flags r.sub.width } : R).sub = r.sub from rfl,
      show ({ r with scratchLen := outLineSize t i r.flags r.sub.width } : R).flags = r.flags from rfl, hn] at hx'
    rw [show ({ r with scratchLen := outLineSize t i r.flags r.sub.width } : R).sub = r.sub from rfl,
      show ({ r with scratchLen := outLineSize t i r.flags r.sub.width } : R).flags = r.flags from rfl, hn] at hsp
    cases res with
    | error e =>
      simp only [Prod.mk.injEq] at hx'
      obtain ⟨_, rfl⟩ := hx'
      exact absurd hsp.1 (by simp [Res.isErr])
    | ok out =>
      simp only [Prod.mk.injEq] at hx'
      obtain ⟨rfl, _⟩ := hx'
      refine SkipSame.trans ?_ (nextRowImpl_skip cfg t hn)
      apply skipSame_of_clear cfg (clearCur (rowStart { r with scratchLen := outLineSize t i r.flags r.sub.width } ii))
      unfold rowStart
      split <;> rfl

/-- the last row-level call of a frame (`None`) does not change where skipping ends -/
theorem noRow_skip (cfg : Cfg) {t : TCfg} (ht : t.Ok) {r r1 : R} {i : Info} (hI : Inv t r)
    (hi : r.dec.info = some i) (hx : nextInterlacedRow cfg t r = (r1, .noRow)) :
    SkipSame (skipRest cfg r) (r1, .ok ()) ∧ skipRest cfg r1 = (r1, .ok ()) := by
  have hsp := nextInterlacedRow_spec cfg ht r i hI hi
  rw [hx] at hsp
  obtain ⟨hI1, _, _, a4⟩ := hsp
  simp only [RowRes] at a4
  obtain ⟨hcur, hsub⟩ := a4
  have h1 : nextInterlacedRow cfg t r =
      readRow cfg t { r with scratchLen := outLineSize t i r.flags r.sub.width } (outLineSize t i r.flags r.sub.width) := by
    unfold nextInterlacedRow; simp only [infoOf, hi]
  rw [h1, readRow_none cfg t { r with scratchLen := outLineSize t i r.flags r.sub.width } _ hcur] at hx
  have hfs : finishDecoding cfg { r with scratchLen := outLineSize t i r.flags r.sub.width } =
      mapFst (fun x => x.setSC (outLineSize t i r.flags r.sub.width) r.cached) (finishDecoding cfg r) :=
    finishDecoding_setSC cfg r _ r.cached
  have hfd := finishDecoding_spec cfg r hI hcur
  rw [hfs] at hx
  have hcur1 : r1.sub.cur = none := by rw [hsub]; exact hcur
  have hcaf1 : r1.sub.caf = true := by rw [hsub]
  refine ⟨?_, ?_⟩
  · unfold skipRest
    rw [clearCur_of_none hcur]
    cases hy : finishDecoding cfg r with
    | mk r' res =>
      rw [hy] at hx hfd
      cases res with
      | error e =>
        simp only [mapFst_mk, endRes, Prod.mk.injEq] at hx
        obtain ⟨_, rfl⟩ := hx
        exact absurd hfd.1 (by simp [Res.isErr])
      | ok u =>
        simp only [mapFst_mk, endRes, Prod.mk.injEq] at hx
        obtain ⟨rfl, _⟩ := hx
        exact ⟨r'.setSC (outLineSize t i r.flags r.sub.width) r.cached, rfl⟩
  · unfold skipRest
    rw [clearCur_of_none hcur1]
    have := finishDecoding_spec cfg r1 hI1 hcur1
    cases hy : finishDecoding cfg r1 with
    | mk r' res =>
      rw [hy] at this
      cases res with
      | error e =>
        exfalso
        unfold finishDecoding at hy
        rw [hcur1, hcaf1] at hy
        simp only [Option.isSome_none, Bool.false_eq_true, if_false, if_true, Prod.mk.injEq] at hy
        cases hy.2
      | ok u => rw [this.2.2.2.2.1 hcaf1]

/-! ## the loops -/

theorem frameRows_skip (cfg : Cfg) {t : TCfg} (ht : t.Ok) {i : Info} {ls : Nat} :
    ∀ (n k : Nat) (a a2 : R) (buf B : Bytes), FRPre t i ls n k a buf → frameRows cfg t ls n k a buf = (a2, B, none) →
    SkipSame (skipRest cfg a) (skipRest cfg a2) := by
  intro n
  induction n with
  | zero =>
    intro k a a2 buf B _ h
    simp only [frameRows, Prod.mk.injEq] at h
    obtain ⟨rfl, _⟩ := h
    exact SkipSame.refl _
  | succ n ih =>
    intro k a a2 buf B hP h
    rw [hP.unfold cfg] at h
    cases hx : nextRowImpl cfg t a a.sub.rowlen ls with
    | mk a1 res =>
      rw [hx] at h
      cases res with
      | error e => simp only [Prod.mk.injEq] at h; cases h.2.2
      | ok out =>
        simp only at h
        exact (nextRowImpl_skip cfg t hx).trans (ih _ _ _ _ _ (hP.next cfg ht hx).1 h)

theorem frameInterlaced_skip (cfg : Cfg) {t : TCfg} (ht : t.Ok) {i : Info} {stride : Nat} (bits : Nat) :
    ∀ (fuel : Nat) (a a2 : R) (buf B : Bytes), FIPre t i stride fuel a buf → bits = outBits t i a.flags →
    frameInterlaced cfg t stride bits fuel a buf = (a2, B, none) →
    SkipSame (skipRest cfg a) (a2, .ok ()) ∧ skipRest cfg a2 = (a2, .ok ()) := by
  intro fuel
  induction fuel with
  | zero => intro a _ _ _ hP _ _; have := hP.fuel; omega
  | succ fuel ih =>
    intro a a2 buf B hP hbits h
    have hr := hP.row cfg ht
    rw [frameInterlaced] at h
    cases hx : nextInterlacedRow cfg t a with
    | mk r1 res =>
      rw [hx] at hr h
      cases res with
      | row ii data =>
        simp only at hr
        obtain ⟨_, hk, _, p, l, w, buf', rfl, hex, _, hn⟩ := hr
        simp only at h
        rw [hbits, hex] at h
        simp only at h
        rw [← hbits] at h
        obtain ⟨k1, k2⟩ := ih r1 a2 buf' B hn (by rw [hk.flags]; exact hbits) h
        exact ⟨(nextRow_skip cfg ht hP.inv hP.info hx).trans k1, k2⟩
      | noRow =>
        simp only [Prod.mk.injEq] at h
        obtain ⟨rfl, _⟩ := h
        exact noRow_skip cfg ht hP.inv hP.info hx
      | err c w => simp only [Prod.mk.injEq] at h; cases h.2.2
      | panic s => exact hr.elim
      | header => exact hr.elim
      | frame _ _ => exact hr.elim
      | frameInfo _ => exact hr.elim
      | done => exact hr.elim

/-- **skipping the rest of a frame ends where `next_frame` ends** (up to the frame-local fields) -/
theorem frameInto_skip (cfg : Cfg) {t : TCfg} (ht : t.Ok) {r rE : R} {i : Info} {buf B : Bytes} {oi : OutputInfo}
    (hI : Inv t r) (hi : r.dec.info = some i) (hW : frameInto cfg t r buf = (rE, .frame oi B, B)) :
    SkipSame (skipRest cfg r) (rE, .ok ()) := by
  obtain ⟨r2, hb, hf, _, _, hI2, _, hcur2, _⟩ := frameInto_ok_body cfg ht hI hi hW
  have hneed := frameInto_ok_need cfg t hi hW
  have hend : skipRest cfg r2 = (rE, .ok ()) := by unfold skipRest; rw [clearCur_of_none hcur2]; exact hf
  cases hil : i.interlaced with
  | false =>
    rw [hil] at hb
    obtain ⟨f1, f2⟩ := frameBody_null cfg ht hI hi hil hneed
    rw [f1] at hb
    have := frameRows_skip cfg ht _ _ _ _ _ _ f2 hb
    rw [hend] at this
    exact this
  | true =>
    rw [hil] at hb
    obtain ⟨f1, f2⟩ := frameBody_adam7 cfg ht hI hi hil hneed
    rw [f1] at hb
    obtain ⟨k1, k2⟩ := frameInterlaced_skip cfg ht _ _ _ _ _ _ f2 rfl hb
    rw [hend] at k2
    simp only [Prod.mk.injEq] at k2
    rw [k2.1]
    exact k1

/-! ## `next_frame_info` -/

/-- `read_until_image_data` overwrites the frame-local fields: the same outcome, and on success the same
    reader up to the scratch length and the cached transformation -/
theorem readUntilImageData_setLocal (cfg : Cfg) (t : TCfg) (r x : R) :
    (readUntilImageData cfg t (r.setLocal x)).2 = (readUntilImageData cfg t r).2 ∧
    ((readUntilImageData cfg t r).2 = .ok () →
      (readUntilImageData cfg t (r.setLocal x)).1 = (readUntilImageData cfg t r).1.setSC x.scratchLen x.cached) := by
  unfold readUntilImageData
  rw [(setLocal_neutral x).fuelOf r, rdReadUntilImageData_map cfg (setLocal_neutral x)]
  cases rdReadUntilImageData cfg (fuelOf r) r with
  | mk r' res =>
    cases res with
    | error e => exact ⟨rfl, fun h => by cases h⟩
    | ok u =>
      simp only [mapFst_mk, infoOf, R.setLocal]
      cases r'.dec.info with
      | none => exact ⟨rfl, fun h => by cases h⟩
      | some i =>
        simp only [reserveBytes]
        by_cases hl : r'.dec.limit ≥ outLineSize t i r'.flags (Sub.new i).width
        · rw [if_pos hl, if_pos hl]
          simp only
          cases bppFromUsize (bytesPerPixel i.color i.depth) with
          | none => exact ⟨rfl, fun h => by cases h⟩
          | some bpp => exact ⟨rfl, fun _ => rfl⟩
        · rw [if_neg hl, if_neg hl]; exact ⟨rfl, fun h => by cases h⟩

/-- `next_frame_info` once the previous frame's data has been passed -/
def afterSkip (cfg : Cfg) (t : TCfg) (r1 : R) : R × Res :=
  match readUntilImageData cfg t r1 with
  | (r2, .error e) => (r2, e)
  | (r2, .ok ()) =>
    match infoOf r2 >>= (·.fctl) with
    | some fc => (r2, .frameInfo fc)
    | none => (r2, .panic "frame_control.as_ref().unwrap() (mod.rs:352)")

/-- the continuation of `next_frame_info` after `finish_decoding` -/
def skipThen (cfg : Cfg) (t : TCfg) (y : R × Except Res Unit) : R × Res :=
  match y with
  | (r1, .error e) => (r1, e)
  | (r1, .ok ()) => afterSkip cfg t r1

theorem nextFrameInfo_open (cfg : Cfg) (t : TCfg) (r : R) (n : Nat) (hcaf : r.sub.caf = false)
    (hrem : r.remaining - 1 = n + 1) : nextFrameInfo cfg t r = skipThen cfg t (skipRest cfg r) := by
  unfold nextFrameInfo skipThen afterSkip skipRest clearCur
  rw [hcaf]
  simp only [Bool.false_eq_true, if_false, Bool.not_false, if_true, hrem]
  cases finishDecoding cfg { r with sub := { r.sub with cur := none } } with
  | mk r1 res =>
    cases res with
    | error e => rfl
    | ok u =>
      simp only
      cases readUntilImageData cfg t r1 with
      | mk r2 res2 =>
        cases res2 with
        | error e => rfl
        | ok u => simp only; cases infoOf r2 >>= (·.fctl) <;> rfl

theorem nextFrameInfo_closed (cfg : Cfg) (t : TCfg) (r : R) (n : Nat) (hcaf : r.sub.caf = true)
    (hrem : r.remaining = n + 1) : nextFrameInfo cfg t r = afterSkip cfg t r := by
  unfold nextFrameInfo afterSkip
  rw [hcaf]
  simp only [if_true, Bool.not_true, Bool.false_eq_true, if_false, hrem]
  cases readUntilImageData cfg t r with
  | mk r2 res2 =>
    cases res2 with
    | error e => rfl
    | ok u => simp only; cases infoOf r2 >>= (·.fctl) <;> rfl

theorem nextFrameInfo_pend (cfg : Cfg) (t : TCfg) (r : R) (h : (if r.sub.caf then r.remaining else r.remaining - 1) = 0) :
    nextFrameInfo cfg t r = (r, .err .parameter "PolledAfterEndOfImage") := by
  unfold nextFrameInfo
  cases hcaf : r.sub.caf with
  | true => rw [hcaf] at h; simp only [if_true] at h; simp only [if_true, h]
  | false => rw [hcaf] at h; simp only [Bool.false_eq_true, if_false] at h; simp only [Bool.false_eq_true, if_false, h]

theorem afterSkip_setLocal (cfg : Cfg) (t : TCfg) (r x : R) :
    (afterSkip cfg t (r.setLocal x)).2 = (afterSkip cfg t r).2 ∧
    ((readUntilImageData cfg t r).2 = .ok () →
      (afterSkip cfg t (r.setLocal x)).1 = (afterSkip cfg t r).1.setSC x.scratchLen x.cached) := by
  obtain ⟨h1, h2⟩ := readUntilImageData_setLocal cfg t r x
  unfold afterSkip
  cases hy : readUntilImageData cfg t r with
  | mk r2 res =>
    cases hy' : readUntilImageData cfg t (r.setLocal x) with
    | mk r2' res' =>
      rw [hy, hy'] at h1 h2
      simp only at h1 h2
      subst h1
      cases res' with
      | error e => exact ⟨rfl, fun h => by cases h⟩
      | ok u =>
        have := h2 rfl
        subst this
        simp only
        have e : infoOf (r2.setSC x.scratchLen x.cached) = infoOf r2 := rfl
        rw [e]
        cases infoOf r2 >>= (·.fctl) with
        | some fc => exact ⟨rfl, fun _ => rfl⟩
        | none => exact ⟨rfl, fun _ => rfl⟩

/-- **`next_frame_info` from anywhere inside a frame** returns what it returns after `next_frame` decoded
    the frame; when it returns a frame control, the two readers differ at most in the scratch length
    and the `Info` the transformation was created from -/
theorem skip_agrees (cfg : Cfg) {t : TCfg} (ht : t.Ok) {r rE : R} {i : Info} {buf B : Bytes} {oi : OutputInfo}
    (hI : Inv t r) (hi : r.dec.info = some i) (hcaf : r.sub.caf = false)
    (hW : frameInto cfg t r buf = (rE, .frame oi B, B)) :
    (nextFrameInfo cfg t r).2 = (nextFrameInfo cfg t rE).2 ∧
    (∀ fc, (nextFrameInfo cfg t rE).2 = .frameInfo fc →
      PSim True (nextFrameInfo cfg t rE).1 (nextFrameInfo cfg t r).1) := by
  obtain ⟨x, hx⟩ := frameInto_skip cfg ht hI hi hW
  have hsp := finishDecoding_spec cfg (clearCur r) hI.clearCur rfl
  cases hs : skipRest cfg r with
  | mk rs res =>
    rw [hs] at hx
    simp only [mapFst_mk, Prod.mk.injEq] at hx
    obtain ⟨rfl, rfl⟩ := hx
    have hs' : finishDecoding cfg (clearCur r) = (rs, .ok ()) := hs
    rw [hs'] at hsp
    obtain ⟨hIs, _, hsub, _, _, hrem⟩ := hsp
    have hrem' : rs.remaining + 1 = r.remaining := hrem hcaf
    have hcafE : (rs.setLocal x).sub.caf = true := by show rs.sub.caf = true; rw [hsub]
    have hremE : (rs.setLocal x).remaining = rs.remaining := rfl
    cases hn : rs.remaining with
    | zero =>
      -- no frame left: both calls report the end of the image and change nothing
      rw [nextFrameInfo_pend cfg t r (by rw [hcaf]; simp only [Bool.false_eq_true, if_false]; omega),
        nextFrameInfo_pend cfg t (rs.setLocal x) (by rw [hcafE]; simp only [if_true]; rw [hremE, hn])]
      exact ⟨rfl, fun fc h => by cases h⟩
    | succ n =>
      rw [nextFrameInfo_open cfg t r n hcaf (by omega), hs, nextFrameInfo_closed cfg t (rs.setLocal x) n hcafE (by rw [hremE, hn])]
      obtain ⟨k1, k2⟩ := afterSkip_setLocal cfg t rs x
      refine ⟨k1.symm, ?_⟩
      intro fc hfc
      -- a frame control was returned: `read_until_image_data` succeeded
      have hok : (readUntilImageData cfg t rs).2 = .ok () := by
        have hadv := advanceFrame_spec cfg rs hIs (by rw [hsub]) (by omega)
        rw [k1] at hfc
        unfold afterSkip at hfc
        cases hy : readUntilImageData cfg t rs with
        | mk r2 res2 =>
          rw [hy] at hfc hadv
          cases res2 with
          | ok u => rfl
          | error e =>
            simp only at hfc
            subst hfc
            exact absurd hadv.1 (by simp [Res.isErr])
      show PSim True (afterSkip cfg t (rs.setLocal x)).1 (skipThen cfg t (rs, .ok ())).1
      rw [k2 hok]
      exact (PSim.symm ⟨x.scratchLen, x.cached, rfl, Or.inr trivial⟩)

end Png.Reader
