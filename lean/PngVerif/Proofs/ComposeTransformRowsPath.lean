import PngVerif.Proofs.ComposeTransformDecode
import PngVerif.Proofs.ComposeRows
/-!
# C08 end to end, row by row: `next_row` / `next_interlaced_row` with an arbitrary row transformation

The generalisation of `Proofs/ComposeRows.lean` from the identity transformation to any `t : TCfg` satisfying
`TCfg.Converts`: a caller that pulls the image row by row gets the specification's reconstructed scanlines, each
converted by the transformation (`t.conv f i width row`), in transmission order, each with its `InterlaceInfo`; then
`None`.
-/
namespace Png.Reader
open Png Png.Framing Png.WellFormed

/-- **pulling a (sub)frame row by row with a row transformation**: `ls.length + 1` calls of `next_row` return the
    converted scanlines of `S` in order, then `None` -/
theorem rowsT_run (cfg : Cfg) {t : TCfg} {f : Flags} (i : Info) (W : Nat) (hcv : t.Converts f i W)
    (hleg : (i.color, i.depth) ∈ legalPairs) (N : Nat) (dEnd : Dec) (bEnd : Bytes) (hW : 1 ≤ W) :
    ∀ (ls : List (Nat × Nat × Nat)) (r : R) (S : Bytes) (pend : List (Ev × Bytes)),
      Pending cfg i N r pend dEnd bEnd → r.ub.abs.pending ++ dataOf pend = S → r.ub.Inv →
      r.bpp = bytesPerPixel i.color i.depth → r.flags = f → CachedIs i r → r.isReader = true → r.pendingBuf = none →
      r.sub.width = W → r.sub.rowlen = rawRowLengthFromWidth i.color i.depth W →
      IterWf i.interlaced r.sub → CurOk i.interlaced r.sub → PrevOk i.color i.depth r.sub r.ub.prevRow → Rows r.sub ls →
      ScanlinesOk (fun w => rawRowLengthFromWidth i.color i.depth w - 1) ls S →
      (run cfg t r (List.replicate (ls.length + 1) .nextRow)).2 =
        ((ls.zip (unfilterScanlines (bytesPerPixel i.color i.depth)
          (fun w => rawRowLengthFromWidth i.color i.depth w - 1) ls r.ub.prevRow S)).map
            fun x => Res.row (iinfoOf i.interlaced x.1) (t.conv f i x.1.2.2 x.2)) ++ [.noRow] := by
  intro ls
  induction ls with
  | nil =>
    intro r S pend hP _ _ _ _ _ hrd hpb _ _ _ _ _ hrows _
    obtain ⟨r', hrun, _⟩ := nextInterlacedRow_none (t := t) hP hrows.cur_none
    simp only [List.length_nil, Nat.zero_add, List.replicate_one, List.zip_nil_left, List.map_nil, List.nil_append]
    rw [run_cons_res]
    simp only [run, List.foldl_nil]
    rw [step_nextRow_eq cfg t r hrd hpb, hrun]
  | cons x rest ih =>
    intro r S pend hP hS hinv hbpp hfl hca hrd hpb hw hrl hiw hcu hpo hrows hok
    obtain ⟨p, l, w⟩ := x
    obtain ⟨hlen, hhead, hrest⟩ := hok
    simp only at hlen hrest
    obtain ⟨ft, hft⟩ := ofNat?_of_le hhead
    have hcurE : ∃ c, r.sub.cur = some c ∧ (p, l, w) = c.desc r.sub.width := by
      rcases hrows with ⟨c, h1, h2⟩ | ⟨_, h2⟩
      · exact ⟨c, h1, (List.cons.inj h2).1⟩
      · cases h2
    obtain ⟨c, hcur, hdesc⟩ := hcurE
    -- the row's `InterlaceInfo`, its width
    have hc : c = iinfoOf i.interlaced (p, l, w) ∧ c.line = l ∧ widthOf r.sub c = w ∧ 1 ≤ w ∧ w ≤ r.sub.width ∧
        rowlenOf i.color i.depth r.sub c = rawRowLengthFromWidth i.color i.depth w := by
      cases hil : i.interlaced with
      | true =>
        rw [hil] at hiw hcu
        obtain ⟨pc, lc, wc, rfl, hp1, hp7, hwp, hw1, _⟩ := curOk_adam7 hiw hcu hcur
        simp only [IInfo.desc, Prod.mk.injEq] at hdesc
        obtain ⟨rfl, rfl, rfl⟩ := hdesc
        exact ⟨rfl, rfl, rfl, hw1, by rw [hwp]; exact passW_le _ _ ⟨hp1, hp7⟩, rfl⟩
      | false =>
        rw [hil] at hiw hcu
        obtain ⟨lc, rfl, _⟩ := curOk_null hiw hcu hcur
        simp only [IInfo.desc, Prod.mk.injEq] at hdesc
        obtain ⟨rfl, rfl, rfl⟩ := hdesc
        refine ⟨rfl, rfl, rfl, by rw [hw]; exact hW, Nat.le_refl _, ?_⟩
        show r.sub.rowlen = _
        rw [hrl, hw]
    obtain ⟨hci, hcl, hcw, hw1, hwle, hrlc⟩ := hc
    have hrl2 := rowlen_ge2 hleg hw1
    have hprev : l ≠ 0 → r.ub.prevRow = [] ∨ r.ub.prevRow.length + 1 = rawRowLengthFromWidth i.color i.depth w := by
      intro hl0
      unfold PrevOk at hpo
      rw [hcur] at hpo
      cases c with
      | null lc => simp only at hpo; rw [← hrlc]; exact hpo
      | adam7 pc lc wc =>
        simp only at hpo
        have : lc = l := hcl
        have : wc = w := hcw
        subst_vars
        exact hpo hl0
    obtain ⟨r1, pend1, hrun, hP1, hinv1, hrow1, hpend1, hsub1, hbpp1, hfl1, hca1, hse1⟩ :=
      nextInterlacedRowT_row cfg i hcv hleg N dEnd bEnd pend r S c l w ft hcl hcw hrlc hfl hbpp hca hP hS hinv hcur hw1 hwle
        (by rw [hw]; exact Nat.le_refl _) hprev (by omega) hft
    generalize hrowv : reconRow ft (bytesPerPixel i.color i.depth) (if l = 0 then [] else r.ub.prevRow)
      ((S.drop 1).take (rawRowLengthFromWidth i.color i.depth w - 1)) = row at hrun hrow1
    have hrowlen : row.length = rawRowLengthFromWidth i.color i.depth w - 1 := by
      rw [← hrowv]; unfold reconRow; rw [recon_length]
      simp only [List.length_take, List.length_drop]; omega
    have hadv := advance_ok hiw
    have hpo1 : PrevOk i.color i.depth r.sub.advance row :=
      advance_prev (color := i.color) (depth := i.depth) (prev := row) hiw hcu hcur (by rw [hrlc, hrowlen]; omega)
    have hone : 1 + (rawRowLengthFromWidth i.color i.depth w - 1) = rawRowLengthFromWidth i.color i.depth w := by omega
    have hrec := ih r1 (S.drop (rawRowLengthFromWidth i.color i.depth w)) pend1 hP1 hpend1 hinv1 (hbpp1.trans hbpp)
      (hfl1.trans hfl) (cachedIs_after hca hca1) (hse1.isReader.trans hrd) (hse1.pendingBuf.trans hpb)
      (by rw [hsub1]; exact (advance_width _).trans hw) (by rw [hsub1]; exact (advance_rowlen _).trans hrl)
      (by rw [hsub1]; exact hadv.1) (by rw [hsub1]; exact hadv.2) (by rw [hsub1, hrow1]; exact hpo1)
      (by rw [hsub1]; exact (hrows.advance hiw.subWf').caf _) (by rw [hone] at hrest; exact hrest)
    have hstep : step cfg t r .nextRow = (r1, .row c (t.conv f i w row)) := by
      rw [step_nextRow_eq cfg t r hrd hpb, hrun]
    have hrep : List.replicate ((p, l, w) :: rest).length.succ Op.nextRow = .nextRow :: List.replicate (rest.length + 1) .nextRow := by
      simp [List.replicate_succ]
    rw [hrep, run_cons_res, hstep]
    simp only
    rw [hrec, hrow1]
    simp only [unfilterScanlines, hft, hrowv, hone, List.zip_cons_cons, List.map_cons, List.cons_append, hci]

/-- **`read_info`, then the image row by row** on a well-formed still image with a row transformation: the
    specification's scanlines, converted, in transmission order, each with its `InterlaceInfo`; then `None` -/
theorem decodeT_rows_wf (cfg : Cfg) (hI : cfg.InflateOk) (hC : cfg.CrcOk) (t : TCfg) (f : Flags)
    (opts : Options) (limit : Nat) (h : Header) (hv : h.Valid) (anc : Bytes) (dA : Dec) (i : Info)
    (hanc : AncTrace cfg (afterIhdr cfg opts limit h) anc dA) (hidle : Idle dA h.info.core) (hiA : dA.info = some i)
    (hcv : t.Converts f i h.width)
    (z : Bytes) (zs : List Bytes) (raw : Bytes) (hz : z.length < 2 ^ 32) (hzs : ∀ z' ∈ zs, z'.length < 2 ^ 32)
    (hinf : cfg.inflate (z :: zs).flatten = some (raw, true)) (hraw : RawOk h raw)
    (len' t' : Nat) (rest' : Bytes) (hlen' : len' < 2 ^ 32) (ht' : t' < 2 ^ 32) (hne' : t' ≠ IDAT)
    (hod0 : depthOk (t.outColorDepth h.info f).2 = true)
    (hsize : outLineSize t h.info f h.width * h.height < 2 ^ 64)
    (hsize2 : outLineSize t i f h.width * h.height < 2 ^ 64)
    (hlimit : outLineSize t i f h.width ≤ dA.limit) :
    (run cfg t (R.init opts limit f
      (signature ++ (chunk cfg IHDR h.body ++ (anc ++ (idats cfg (z :: zs) ++ (be32Bytes len' ++ typeBytes t' ++ rest')))))
      (signature ++ (chunk cfg IHDR h.body ++ (anc ++ (idats cfg (z :: zs) ++ (be32Bytes len' ++ typeBytes t' ++ rest'))))).length)
      (.readInfo :: List.replicate (h.scanlines.length + 1) .nextRow)).2 =
      .header :: (((h.scanlines.zip (specScanlines h raw)).map fun x =>
        Res.row (iinfoOf h.interlaced x.1) (t.conv f i x.1.2.2 x.2)) ++ [.noRow]) := by
  obtain ⟨j, hj, hcj, hfj⟩ := hidle.info
  have hji : j = i := by rw [hiA] at hj; cases hj; rfl
  subst hji
  have hdimsj : Sub.dims j = (h.width, h.height) := by
    have hc := hcj
    simp only [Info.core, Header.info, Prod.mk.injEq] at hc
    simp [Sub.dims, hfj, hc.1, hc.2.1]
  obtain ⟨r, i, N, dEnd, hri, hR, hcore, hfctl, _, hrd, hpb, _, _, hiA', _⟩ :=
    readInfoT_wf cfg hI hC t f opts limit h hv anc dA none hanc hidle z zs raw hz hzs hinf len' t' rest' hlen' ht' hne' hod0 hsize
      (fun i' hi' => by
        have : i' = j := by rw [hiA] at hi'; cases hi'; rfl
        subst this; exact ⟨(legal_pos hcv.outLegal).2.2, hsize2⟩)
      (fun i' hi' => by
        have : i' = j := by rw [hiA] at hi'; cases hi'; rfl
        subst this; rw [hdimsj]; exact hlimit)
  have hij : i = j := by rw [hiA] at hiA'; cases hiA'; rfl
  subst hij
  have hhdr : hdrOf i = h := hdrOf_eq hcore hfctl
  have hcore' := hcore
  simp only [Info.core, Header.info, Prod.mk.injEq] at hcore'
  obtain ⟨c1, c2, c3, c4, c5⟩ := hcore'
  obtain ⟨hw1, hw2, hh1, hh2, hleg⟩ := hv
  have hlegi : (i.color, i.depth) ∈ legalPairs := by rw [c3, c4]; exact hleg
  have hd := (legal_pos hlegi).2.2
  have hdims : Sub.dims i = (h.width, h.height) := hdimsj
  obtain ⟨pend, hP, hdata⟩ := hR.pend
  obtain ⟨hsw, hsh, hsrl, _⟩ := subNew_dims i
  obtain ⟨hrows, _⟩ := rows_new i
  obtain ⟨hiw, hcu⟩ := subNew_iter i
  have hrb : h.rowBytes = fun w => rawRowLengthFromWidth i.color i.depth w - 1 := by
    rw [c3, c4]; exact rowBytes_fun h ((legal_pos hleg).2.2)
  have hscan : h.scanlines = (if i.interlaced then Adam7.specRows (Sub.dims i).1 (Sub.dims i).2
      else (List.range (Sub.dims i).2).map fun l => (0, l, (Sub.dims i).1)) := by
    rw [hdims, c5]; rfl
  have hub : r.ub.abs.pending ++ dataOf pend = raw := by rw [hR.ub, UB.abs_new]; simpa using hdata
  have hrun := rowsT_run cfg i h.width hcv hlegi N dEnd rest' hw1 h.scanlines r raw pend hP hub
    (by rw [hR.ub]; exact UB.inv_new) hR.bpp hR.flags hR.cached hrd hpb
    (by rw [hR.sub, hsw, hdims]) (by rw [hR.sub, hsrl, hdims])
    (by rw [hR.sub]; exact hiw) (by rw [hR.sub]; exact hcu)
    (by rw [hR.ub, prevRow_new]; exact prevOk_nil _ _ _)
    (by rw [hR.sub, hscan]; exact hrows)
    (by have := hraw; unfold RawOk at this; rw [hrb] at this; exact this)
  generalize (signature ++ (chunk cfg IHDR h.body ++ (anc ++ (idats cfg (z :: zs) ++
    (be32Bytes len' ++ typeBytes t' ++ rest'))))) = file at hri ⊢
  have hdead : (R.init opts limit f file file.length).dead = false := rfl
  generalize R.init opts limit f file file.length = r0 at hri hdead ⊢
  have hs1 : step cfg t r0 .readInfo = (r, .header) := by
    show (if r0.dead then _ else readInfo cfg t r0) = _
    rw [hdead]; exact hri
  rw [run_cons_res, hs1]
  simp only
  rw [hrun, c5]
  have : specScanlines h raw = unfilterScanlines (bytesPerPixel i.color i.depth)
      (fun w => rawRowLengthFromWidth i.color i.depth w - 1) h.scanlines r.ub.prevRow raw := by
    unfold specScanlines
    rw [hrb, hR.ub, prevRow_new, c3, c4]; rfl
  rw [this]

end Png.Reader
