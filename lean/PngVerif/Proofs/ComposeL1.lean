import PngVerif.Proofs.ComposeAnc
/-!
# Layer L1 of the C01 composition, assembled: the whole well-formed still image

`wellFormed_trace`: calling `update` on what is left of the file until `ImageEnd` (the image data taken away after
every call, as `ReadDecoder::decode_next` does) reports: `ChunkBegin IHDR`, the header event, `ChunkComplete`; the
events of the chunks before the image data; `ChunkBegin IDAT`; the events of the data-chunk sequence, whose image
data concatenates to the inflated stream `raw`, the last one `ImageDataFlushed`; `ChunkBegin IEND`, `PartialChunk`,
`ImageEnd`.  No call fails; at the end the decoder is finished and `info` holds the header's fields.
-/
namespace Png.Framing
open Png Png.WellFormed

theorem wellFormed_trace (cfg : Cfg) (hI : cfg.InflateOk) (hC : cfg.CrcOk) (opts : Options) (limit : Nat) (h : Header)
    (hv : h.Valid) (anc : Bytes) (dA : Dec) (hanc : AncTrace cfg (afterIhdr cfg opts limit h) anc dA)
    (hidle : Idle dA h.info.core) (z : Bytes) (zs : List Bytes) (raw : Bytes) (hz : z.length < 2 ^ 32)
    (hzs : ∀ z' ∈ zs, z'.length < 2 ^ 32) (hinf : cfg.inflate (z :: zs).flatten = some (raw, true)) :
    ∃ evA evD i dEnd,
      Trace cfg (fun _ => True) (dec0 opts limit)
        (signature ++ (chunk cfg IHDR h.body ++ (anc ++ (idats cfg (z :: zs) ++ chunk cfg IEND []))))
        ((([(.chunkBegin 13 IHDR, []), (.header h.width h.height h.depth h.color h.interlaced, []),
            (.chunkComplete (cfg.crc (typeBytes IHDR ++ h.body)) IHDR, [])] ++ evA ++ [(.chunkBegin z.length IDAT, [])]) ++ evD) ++
          [(.chunkBegin 0 IEND, []), (.partialChunk IEND, []), (.imageEnd, [])]) dEnd [] ∧
      (∀ e ∈ evA, PreEv e) ∧ DataEvs evD ∧ dataOf evD = raw ∧
      dEnd.state = none ∧ dEnd.info = some i ∧ i.core = h.info.core ∧ i.fctl = none := by
  have hiend : chunk cfg IEND [] = be32Bytes 0 ++ typeBytes IEND ++ (be32Bytes (cfg.crc (typeBytes IEND ++ [])) ++ []) := by
    have := chunk_append cfg IEND [] []
    simpa using this
  generalize htbZ : z ++ (be32Bytes (cfg.crc (typeBytes IDAT ++ z)) ++ (idats cfg zs ++ chunk cfg IEND [])) = restZ
  have htb : anc ++ (idats cfg (z :: zs) ++ chunk cfg IEND []) = anc ++ (be32Bytes z.length ++ typeBytes IDAT ++ restZ) := by
    rw [idats_cons, List.append_assoc, chunk_append, htbZ]
  obtain ⟨d1, d2, T1, _, T2, _, T3⟩ := ihdr_trace cfg hC opts limit h hv (anc ++ (idats cfg (z :: zs) ++ chunk cfg IEND []))
  obtain ⟨evA, TA, hpA⟩ := hanc (be32Bytes z.length ++ typeBytes IDAT ++ restZ) (head8_ne_nil _ _ _)
  rw [← htb] at TA
  obtain ⟨dM, i, TB, hmid, hcore, hfctl, _, _, _, _⟩ := first_idat_begin cfg (rest := restZ) hidle hz
  obtain ⟨evD, dF, TD, hev, hdata, hflu, _, _⟩ := idat_sequence_trace cfg hI hC i raw
    (be32Bytes (cfg.crc (typeBytes IEND ++ [])) ++ []) 0 IEND (by decide) IEND_lt (fun h => IDAT_ne_IEND' h.symm) z zs dM hmid hzs hinf
  rw [← hiend, htbZ] at TD
  obtain ⟨dEnd, TE, hs, hi, _⟩ := iend_trace cfg hC hflu []
  refine ⟨evA, evD, i, dEnd, ?_, hpA, hev, hdata, hs, hi, hcore, hfctl⟩
  have m := fun (P : Dec → Prop) (d d' : Dec) (b b' : Bytes) (e : List (Ev × Bytes)) (t : Trace cfg P d b e d' b') =>
    Trace.mono (Q := fun _ => True) (fun _ _ => trivial) t
  have T12 := ((m _ _ _ _ _ _ T1).append (m _ _ _ _ _ _ T2)).append T3
  have := (((T12.append TA).append TB).append (m _ _ _ _ _ _ TD)).append (m _ _ _ _ _ _ TE)
  simpa [List.append_assoc] using this

end Png.Framing
