import PngVerif.Proofs.StreamSinkOps
/-!
# The stream writer under EVERY sink behaviour, part 5: `new`, the drop, `finish`, one whole session

`streamSession_ok`: one stream-writer session — `new`, any operations with any arguments, `finish()` or drop — on an
open `Writer`, under any sink: no call panics (given room in the `u32` frame counter for one frame header per
session plus one per byte supplied); a borrowed `Writer` comes back open (`Live`), an owned one comes back dropped
(IEND flag set, by exactly one IEND attempt, the last entry of the log); if the session ended with `finish()` and every
call returned `Ok`, every chunk handed to the sink during the session got through completely.
-/
namespace Png.Enc
open Png Png.Val

/-! ## `StreamWriter::new` -/

theorem SW.new_ok {w : WState} (h : Live w) (owned : Bool) (size : Nat) (hb : Room w 1) :
    ∀ x r, SW.new w owned size = (x, r) → r.isPanic = false ∧
      (∀ s, x = .inl s → r = .ok ∧ ∃ w', SWInv owned s w' ∧ Tr 1 True w w') ∧
      (∀ w', x = .inr w' → r ≠ .ok ∧ Tr 1 False w w' ∧ Rel owned w') := by
  intro x r hf
  unfold SW.new at hf
  cases hsc : streamChecks w with
  | some e =>
    rw [hsc] at hf
    simp only [Prod.mk.injEq] at hf; obtain ⟨rfl, rfl⟩ := hf
    refine ⟨rfl, (fun s hs => by cases hs), fun w' hw' => ?_⟩
    simp only [Sum.inr.injEq] at hw'; subst hw'
    refine ⟨by simp, ?_, ?_⟩
    · cases owned with
      | true => simp only [if_true]; exact (Tr.dropW w).1.weaken (by omega) (fun f => f)
      | false => simp only [Bool.false_eq_true, if_false]; exact Tr.refl' _
    · cases owned with
      | true => simp only [if_true]; exact Rel.owned (Tr.dropW w).2
      | false => simp only [Bool.false_eq_true, if_false]; exact Rel.borrowed h
  | none =>
    rw [hsc] at hf
    simp only at hf
    obtain ⟨n1, n2, n3⟩ := CWOk.new h size
    obtain ⟨i1, fh, i2, i3⟩ := n1.frameInfo
    cases hwh : (CW.new w size).writeHeader with
    | mk c1 r1 =>
      obtain ⟨a1, a2, a3, a4⟩ := n1.writeHeader n3 (by rw [n2]; exact hb) c1 r1 hwh
      rw [n2] at a3
      rw [hwh] at hf
      have hdrop : ∀ (hne : r1 ≠ .ok), ((Sum.inr (c1.drop owned).1 : Sum SW WState), r1) = (x, r) → r.isPanic = false ∧
          (∀ s, x = .inl s → r = .ok ∧ ∃ w', SWInv owned s w' ∧ Tr 1 True w w') ∧
          (∀ w', x = .inr w' → r ≠ .ok ∧ Tr 1 False w w' ∧ Rel owned w') := by
        intro hne hf
        simp only [Prod.mk.injEq] at hf; obtain ⟨rfl, rfl⟩ := hf
        cases hd : c1.drop owned with
        | mk w2 r2 =>
          obtain ⟨b1, b2, b3⟩ := a2.drop owned w2 r2 hd
          refine ⟨a1, (fun s hs => by cases hs), fun w' hw' => ?_⟩
          simp only [Sum.inr.injEq] at hw'; subst hw'
          exact ⟨hne, a3.comp b2 (Nat.le_refl _) (fun f => f.elim), b3⟩
      cases r1 with
      | panic p => cases a1
      | err e => exact hdrop (by simp) hf
      | ok =>
        simp only [Prod.mk.injEq] at hf; obtain ⟨rfl, rfl⟩ := hf
        refine ⟨rfl, fun s hs => ?_, fun w' hw' => by cases hw'⟩
        simp only [Sum.inl.injEq] at hs; subst hs
        refine ⟨rfl, c1.w, ?_, a3.weaken (Nat.le_refl _) (fun _ => rfl)⟩
        have hpos : 0 < (CW.new w size).nextFrameInfo.2 := by rw [i3]; exact Nat.mul_pos i1 i2
        exact {
          owned := rfl
          geo := ⟨i1, Nat.zero_le _, by simp, by simp, ⟨fh, by simp only [Nat.add_zero]; rw [i3, Nat.mul_comm]⟩⟩
          copy := ⟨a3.static.1.symm, a3.static.2.1.symm, fun f hf => by
            have := h.safe.rect f hf
            simpa [RectOk, a3.static.1, a3.static.2.1] using this⟩
          wr := WrOk.zlib (z := { cw := c1 }) a2
          chunkTw := fun c hh => by cases hh
          zlibTw := fun _ _ h0 => by
            have : (CW.new w size).nextFrameInfo.2 = 0 := h0
            omega }

/-! ## The drop -/

/-- `Drop for StreamWriter` and the drop of its fields, from any state of the invariant: no panic; the `Writer`
    is released — dropped with it if owned; errors are lost -/
theorem SWInv.drop (Z : ZCodec) {o : Bool} {s : SW} {w : WState} (h : SWInv o s w) : ∀ s' r, s.drop Z = (s', r) →
    r.isPanic = false ∧ ∃ w', s'.released = some w' ∧ Rel o w' ∧ Tr 0 False w w' := by
  intro s' r hf
  unfold SW.drop at hf
  cases hfl : s.flush Z with
  | mk s1 r1 =>
    obtain ⟨a1, w1, a2, a3, _⟩ := h.flush Z s1 r1 hfl
    rw [hfl] at hf
    have hd : (let (w, r) := s1.wr.drop Z s1.owned; (({ s1 with wr := .none } : SW).release w, r)) = (s', r) := by
      cases r1 with
      | panic p => cases a1
      | ok => exact hf
      | err e => exact hf
    have hwr := a2.wr
    have ho := a2.owned
    cases hw : s1.wr with
    | none => rw [hw] at hwr; exact hwr.none_inv.elim
    | unrecoverable =>
      rw [hw] at hwr hd
      obtain ⟨hrel, hR⟩ := hwr.unrec_inv
      simp only [Wrap.drop, SW.release, Prod.mk.injEq] at hd; obtain ⟨rfl, rfl⟩ := hd
      exact ⟨rfl, w1, hrel, hR, a3.weaken (Nat.le_refl _) (fun f => f.elim)⟩
    | chunk c =>
      rw [hw] at hwr hd
      obtain ⟨_, rfl, hc⟩ := hwr.chunk_inv
      cases hcd : c.drop s1.owned with
      | mk w2 r2 =>
        obtain ⟨b1, b2, b3⟩ := hc.drop s1.owned w2 r2 hcd
        simp only [Wrap.drop, hcd, SW.release, Prod.mk.injEq] at hd; obtain ⟨rfl, rfl⟩ := hd
        exact ⟨b1, w2, rfl, by rw [← ho]; exact b3, a3.comp b2 (Nat.le_refl _) (fun f => f.elim)⟩
    | zlib z =>
      rw [hw] at hwr hd
      obtain ⟨_, rfl, hc⟩ := hwr.zlib_inv
      cases hcd : z.drop Z s1.owned with
      | mk w2 r2 =>
        obtain ⟨b1, b2, b3⟩ := ZEnc.drop_ok Z hc s1.owned w2 r2 hcd
        simp only [Wrap.drop, hcd, SW.release, Prod.mk.injEq] at hd; obtain ⟨rfl, rfl⟩ := hd
        exact ⟨b1, w2, rfl, by rw [← ho]; exact b3, a3.comp b2 (Nat.le_refl _) (fun f => f.elim)⟩

/-! ## `finish` -/

/-- the `Chunk` arm of `finish` with an empty chunk buffer: sequence check, IEND and the sink's flush for an owned
    `Writer` — all reported -/
theorem finishChunk_ok {o : Bool} {s : SW} {c : CW} (ho : s.owned = o) (hc : CWOk c) (hbuf : c.buf = []) :
    ∀ s' r, s.finishChunk c = (s', r) → r.isPanic = false ∧ ∃ w', s'.released = some w' ∧ Rel o w' ∧
      Tr 0 (r = .ok) c.w w' := by
  intro s' r hf
  have hdrop : ∀ w0 : WState, (({ c with w := w0 } : CW).drop s.owned).1 = if s.owned then dropW w0 else w0 := by
    intro w0
    rw [CW.drop_empty { c with w := w0 } hbuf]
  simp only [SW.finishChunk, hdrop] at hf
  cases hv : validateSequenceDone c.w with
  | some e =>
    rw [hv] at hf
    simp only [Prod.mk.injEq] at hf; obtain ⟨rfl, rfl⟩ := hf
    refine ⟨rfl, _, rfl, ?_, ?_⟩
    · cases hso : s.owned with
      | true => rw [← ho, hso]; simp only [if_true]; exact Rel.owned (Tr.dropW c.w).2
      | false => rw [← ho, hso]; simp only [Bool.false_eq_true, if_false]; exact Rel.borrowed hc.live
    · cases hso : s.owned with
      | true => simp only [if_true]; exact (Tr.dropW c.w).1.weaken (Nat.le_refl _) (fun hh => by cases hh)
      | false => simp only [Bool.false_eq_true, if_false]; exact Tr.refl' _
  | none =>
    rw [hv] at hf
    simp only at hf
    cases hso : s.owned with
    | false =>
      rw [hso] at hf
      simp only [Bool.false_eq_true, if_false, Prod.mk.injEq] at hf; obtain ⟨rfl, rfl⟩ := hf
      exact ⟨rfl, c.w, rfl, by rw [← ho, hso]; exact Rel.borrowed hc.live, Tr.refl' _⟩
    | true =>
      rw [hso] at hf
      simp only [if_true] at hf
      obtain ⟨t1, f1⟩ := Tr.writeIend c.w hc.live.iend
      cases hwi : writeIend c.w with
      | mk w1 ok1 =>
        rw [hwi] at hf t1 f1
        simp only at t1 f1
        cases ok1 with
        | false =>
          simp only [Prod.mk.injEq] at hf; obtain ⟨rfl, rfl⟩ := hf
          refine ⟨rfl, _, rfl, by rw [← ho, hso]; exact Rel.owned (Tr.dropW w1).2, ?_⟩
          rw [dropW_of_iend f1]
          exact t1.weaken (Nat.le_refl _) (fun hh => by cases hh)
        | true =>
          simp only at hf
          have t2 := t1.comp (Tr.sinkFlush w1) (Nat.le_refl _) (fun _ : True => ⟨rfl, trivial⟩)
          have hd2 : dropW { w1 with sink := (w1.sink.flush).1 } = { w1 with sink := (w1.sink.flush).1 } :=
            dropW_of_iend f1
          cases hfl : w1.sink.flush with
          | mk k okf =>
            rw [hfl] at hf hd2 t2
            simp only at hd2 t2
            cases okf with
            | false =>
              simp only [Prod.mk.injEq] at hf; obtain ⟨rfl, rfl⟩ := hf
              refine ⟨rfl, _, rfl, by rw [← ho, hso]; exact Rel.owned (Tr.dropW _).2, ?_⟩
              rw [hd2]
              exact t2.weaken (Nat.le_refl _) (fun _ => trivial)
            | true =>
              simp only [Prod.mk.injEq] at hf; obtain ⟨rfl, rfl⟩ := hf
              refine ⟨rfl, _, rfl, by rw [← ho, hso]; exact Rel.owned (Tr.dropW _).2, ?_⟩
              rw [hd2]
              exact t2.weaken (Nat.le_refl _) (fun _ => trivial)

/-- `StreamWriter::finish` from any state of the invariant, any sink: no panic; the `Writer` is released (dropped,
    if owned); `Ok` only if everything handed to the sink during the call — the rest of the data, the IEND of an
    owned `Writer` — got through completely -/
theorem SWInv.finish (Z : ZCodec) {o : Bool} {s : SW} {w : WState} (h : SWInv o s w) : ∀ s' r, s.finish Z = (s', r) →
    r.isPanic = false ∧ ∃ w', s'.released = some w' ∧ Rel o w' ∧ Tr 0 (r = .ok) w w' := by
  intro s' r hf
  unfold SW.finish at hf
  by_cases htw : s.toWrite > 0
  · rw [if_pos htw] at hf
    cases hd : s.drop Z with
    | mk s1 r1 =>
      obtain ⟨a1, w1, a2, a3, a4⟩ := h.drop Z s1 r1 hd
      rw [hd] at hf
      have : (s1, Res.err Err.missingData) = (s', r) := by
        cases r1 with
        | panic p => cases a1
        | ok => exact hf
        | err e => exact hf
      simp only [Prod.mk.injEq] at this; obtain ⟨rfl, rfl⟩ := this
      exact ⟨rfl, w1, a2, a3, a4.weaken (Nat.le_refl _) (fun hh => by cases hh)⟩
  · rw [if_neg htw] at hf
    cases hfl : s.flush Z with
    | mk s1 r1 =>
      obtain ⟨a1, w1, a2, a3, a4, a5⟩ := h.flush Z s1 r1 hfl
      rw [hfl] at hf
      cases r1 with
      | panic p => cases a1
      | err e =>
        simp only at hf
        cases hd : s1.drop Z with
        | mk s2 r2 =>
          obtain ⟨b1, w2, b2, b3, b4⟩ := a2.drop Z s2 r2 hd
          rw [hd] at hf
          have : (s2, Res.err e) = (s', r) := by
            cases r2 with
            | panic p => cases b1
            | ok => exact hf
            | err e => exact hf
          simp only [Prod.mk.injEq] at this; obtain ⟨rfl, rfl⟩ := this
          exact ⟨rfl, w2, b2, b3, a3.comp b4 (Nat.le_refl _) (fun hh => by cases hh)⟩
      | ok =>
        simp only at hf
        obtain ⟨hidx, hbuf⟩ := a5 rfl
        have hwr := a2.wr
        cases hw : s1.wr with
        | none => rw [hw] at hwr; exact hwr.none_inv.elim
        | chunk c =>
          rw [hw] at hwr hf
          obtain ⟨_, rfl, hc⟩ := hwr.chunk_inv
          simp only at hf
          obtain ⟨c1, w2, c2, c3, c4⟩ := finishChunk_ok a2.owned hc (hbuf c hw) s' r hf
          exact ⟨c1, w2, c2, c3, a3.comp c4 (Nat.le_refl _) (fun hh => ⟨rfl, hh⟩)⟩
        | zlib z =>
          -- unreachable: a `Zlib` wrapper with `to_write = 0` has `index = line_len > 0`
          have := a2.zlibTw z hw (by omega)
          have := a2.geo.pos
          omega
        | unrecoverable =>
          rw [hw] at hwr hf
          obtain ⟨hrel, hR⟩ := hwr.unrec_inv
          simp only [Wrap.drop, SW.release, Prod.mk.injEq] at hf; obtain ⟨rfl, rfl⟩ := hf
          exact ⟨rfl, w1, hrel, hR, a3⟩

/-- `finish` on a stream writer whose wrapper is `Unrecoverable` reports an error -/
theorem finish_unrec (Z : ZCodec) {s : SW} (hw : s.wr = .unrecoverable) : (s.finish Z).2 ≠ .ok := by
  unfold SW.finish
  split
  · cases hd : s.drop Z with
    | mk s1 r1 => cases r1 <;> simp
  · have hfl : s.flush Z = (s, .err .unrecoverable) := by simp [SW.flush, hw]
    rw [hfl]
    simp only
    cases hd : s.drop Z with
    | mk s1 r1 => cases r1 <;> simp

/-! ## One session -/

theorem anyPanic_cons (r : Res) (rs : List Res) : anyPanic (r :: rs) = (r.isPanic || anyPanic rs) := by
  simp [anyPanic]

theorem anyPanic_append (a b : List Res) : anyPanic (a ++ b) = (anyPanic a || anyPanic b) := by
  simp [anyPanic]

/-- **one stream-writer session under any sink**: `new`, any operations with any arguments, `finish()` or drop -/
theorem streamSession_ok (Z : ZCodec) {w : WState} (h : Live w) (owned : Bool) (size : Nat) (ops : List SOp) (fin : Final)
    (hb : Room w (1 + sopsCost ops)) : ∀ w' rs, streamSession Z w owned size ops fin = (w', rs) →
    anyPanic rs = false ∧ Rel owned w' ∧ Tr (1 + sopsCost ops) (fin = .finish ∧ ∀ r ∈ rs, r = .ok) w w' ∧
    (owned = true → fin = .finish → rs.getLast? = some .ok → ∃ pre, w'.sink.log = pre ++ [⟨.chunk iendChunk, 12⟩]) := by
  intro w' rs hf
  unfold streamSession at hf
  cases hn : SW.new w owned size with
  | mk x r0 =>
    obtain ⟨a1, a2, a3⟩ := SW.new_ok h owned size (hb.mono (by omega)) x r0 hn
    rw [hn] at hf
    cases x with
    | inr w1 =>
      obtain ⟨b1, b2, b3⟩ := a3 w1 rfl
      simp only [Prod.mk.injEq] at hf; obtain ⟨rfl, rfl⟩ := hf
      refine ⟨by simp [anyPanic, a1], b3, b2.weaken (by omega) (fun hh => b1 (hh.2 r0 (by simp))), ?_⟩
      intro _ _ hl
      simp only [List.getLast?_singleton, Option.some.injEq] at hl
      exact absurd hl b1
    | inl s =>
      obtain ⟨rfl, w1, b2, b3⟩ := a2 s rfl
      simp only at hf
      cases hr : runSOps Z s ops with
      | mk s1 rs1 =>
        obtain ⟨c1, w2, c2, c3⟩ := b2.runSOps Z ops (hb.tr b3 (Nat.le_refl _)) s1 rs1 hr
        rw [hr] at hf
        simp only [c1, Bool.false_eq_true, if_false] at hf
        have t2 : Tr (1 + sopsCost ops) (∀ r ∈ rs1, r = .ok) w w2 := b3.comp c3 (Nat.le_refl _) (fun hh => ⟨trivial, hh⟩)
        cases fin with
        | finish =>
          simp only at hf
          cases hfi : s1.finish Z with
          | mk s2 r2 =>
            obtain ⟨d1, w3, d2, d3, d4⟩ := c2.finish Z s2 r2 hfi
            rw [hfi] at hf
            simp only [Prod.mk.injEq] at hf; obtain ⟨rfl, rfl⟩ := hf
            have hws : s2.writerState w = w3 := by simp [SW.writerState, d2]
            rw [hws]
            refine ⟨?_, d3, t2.comp d4 (Nat.le_refl _) (fun hh => ⟨fun r hr => hh.2 r (by simp [hr]), hh.2 r2 (by simp)⟩), ?_⟩
            · rw [anyPanic_append, anyPanic_cons, c1, anyPanic_cons, d1]; rfl
            · intro ho _ hl
              have hl2 : r2 = .ok := by
                have e : (Res.ok :: rs1 ++ [r2]) = Res.ok :: (rs1 ++ [r2]) := rfl
                rw [e, last_snoc] at hl
                simpa using hl
              subst hl2
              -- the `Writer` was still open when `finish` was called
              have hnu : s1.wr ≠ .unrecoverable := by
                intro hu
                have := finish_unrec Z hu
                rw [hfi] at this; exact this rfl
              have hlive : Live w2 := by
                have hwr := c2.wr
                cases hw : s1.wr with
                | unrecoverable => exact absurd hw hnu
                | none => rw [hw] at hwr; exact hwr.none_inv.elim
                | chunk c => rw [hw] at hwr; obtain ⟨_, rfl, hc⟩ := hwr.chunk_inv; exact hc.live
                | zlib z => rw [hw] at hwr; obtain ⟨_, rfl, hc⟩ := hwr.zlib_inv; exact hc.live
              have hflag : w3.iendWritten = true := by rw [ho] at d3; simpa [Rel] using d3
              exact Tr.closing_complete d4 rfl hlive.iend hflag
        | drop =>
          simp only at hf
          cases hfi : s1.drop Z with
          | mk s2 r2 =>
            obtain ⟨d1, w3, d2, d3, d4⟩ := c2.drop Z s2 r2 hfi
            rw [hfi] at hf
            simp only [Prod.mk.injEq] at hf; obtain ⟨rfl, rfl⟩ := hf
            have hws : s2.writerState w = w3 := by simp [SW.writerState, d2]
            rw [hws]
            refine ⟨?_, d3, t2.comp d4 (Nat.le_refl _) (fun hh => by cases hh.1), fun _ hh => by cases hh⟩
            rw [anyPanic_append, anyPanic_cons, c1, anyPanic_cons, d1]; rfl

/-! ## The call that hits the failure reports it -/

/-- every state a session can reach satisfies the invariant (`new` succeeded, any operations) -/
theorem session_reach (Z : ZCodec) {w : WState} (h : Live w) (owned : Bool) (size : Nat) (ops : List SOp)
    (hb : Room w (1 + sopsCost ops)) {s0 : SW} {r0 : Res} (hnew : SW.new w owned size = (.inl s0, r0)) :
    ∃ w', SWInv owned (runSOps Z s0 ops).1 w' ∧ w'.animWritten ≤ w.animWritten + 1 + sopsCost ops := by
  obtain ⟨_, a2, _⟩ := SW.new_ok h owned size (hb.mono (by omega)) _ _ hnew
  obtain ⟨_, w1, b2, b3⟩ := a2 s0 rfl
  cases hr : runSOps Z s0 ops with
  | mk s1 rs1 =>
    obtain ⟨_, w2, c2, c3⟩ := b2.runSOps Z ops (hb.tr b3 (Nat.le_refl _)) s1 rs1 hr
    exact ⟨w2, c2, by have := b3.animHi; have := c3.animHi; omega⟩

/-- **the operation during which the sink refuses a byte returns an error**: from any state of the invariant, an
    operation that returns `Ok` extended the sink's log only by completely accepted chunks -/
theorem SWInv.step_reports (Z : ZCodec) {o : Bool} {s : SW} {w : WState} (h : SWInv o s w) (op : SOp)
    (hb : Room w op.cost) (fb : WState) :
    ∃ ext, ((streamStep Z s op).1.writerState fb).sink.log = (s.writerState fb).sink.log ++ ext ∧
      ((streamStep Z s op).2 = .ok → ∀ e ∈ ext, e.complete = true) := by
  cases hs : streamStep Z s op with
  | mk s' r =>
    obtain ⟨_, w', a2, a3⟩ := h.step Z op hb s' r hs
    rw [h.writerState fb, a2.writerState fb]
    exact a3.log

/-- the same for `finish` (the rest of the data and, for an owned `Writer`, the IEND chunk) -/
theorem SWInv.finish_reports (Z : ZCodec) {o : Bool} {s : SW} {w : WState} (h : SWInv o s w) (fb : WState) :
    ∃ ext, ((s.finish Z).1.writerState fb).sink.log = (s.writerState fb).sink.log ++ ext ∧
      ((s.finish Z).2 = .ok → ∀ e ∈ ext, e.complete = true) := by
  cases hs : s.finish Z with
  | mk s' r =>
    obtain ⟨_, w', a2, _, a4⟩ := h.finish Z s' r hs
    have : s'.writerState fb = w' := by simp [SW.writerState, a2]
    rw [h.writerState fb, this]
    exact a4.log

/-- the same for `StreamWriter::new` (the frame header) -/
theorem new_reports {w : WState} (h : Live w) (owned : Bool) (size : Nat) (hb : Room w 1) {s0 : SW} {r0 : Res}
    (hnew : SW.new w owned size = (.inl s0, r0)) (fb : WState) :
    ∃ ext, (s0.writerState fb).sink.log = w.sink.log ++ ext ∧ ∀ e ∈ ext, e.complete = true := by
  obtain ⟨_, a2, _⟩ := SW.new_ok h owned size hb _ _ hnew
  obtain ⟨_, w1, b2, b3⟩ := a2 s0 rfl
  rw [b2.writerState fb]
  obtain ⟨ext, l1, l2⟩ := b3.log
  exact ⟨ext, l1, l2 trivial⟩

end Png.Enc
