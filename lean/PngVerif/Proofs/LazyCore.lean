import PngVerif.Model.LazyReader
/-!
# Lazy reader: the model refines its specification (`Png.Lazy.step` vs `Png.Lazy.Spec.step`)

For every arrival: under the invariant `Good`, each call of the model answers what the source-free
specification answers (with the oracle bit = the new `consumed_and_flushed`), and keeps the invariant.
No call panics.
-/
namespace Png.Lazy

/-- the protocol invariant -/
structure Inv (s : St) : Prop where
  /-- `consumed_and_flushed = false` means the current frame is still counted in `remaining_frames`
      (so `assert!(self.remaining_frames > 0)`, mod.rs:482, holds when its data ends) -/
  rem_pos : s.caf = false → 1 ≤ s.rem
  /-- ... and that the input stands inside its data sequence (`decode_image_data` is legal) -/
  src_some : s.caf = false → s.src.isSome = true
  /-- `consumed_and_flushed = true` means the data sequence was read to its end (`read_until_image_data` is legal) -/
  src_none : s.caf = true → s.src = none
  /-- the row cursor points into the subframe -/
  cur_lt : ∀ i, s.cur = some i → i < s.sub.length
  /-- once `IEND` is consumed no frame is open -/
  end_caf : s.atEnd = true → s.caf = true

/-- byte accounting: the rows delivered so far, the buffered bytes and the bytes still to arrive add up to the
    frame's data -/
def Acc (e : Env) (s : St) : Prop :=
  ∀ i, s.cur = some i → upto s.sub i + s.buf + srcTotal s.src = Spec.availOf e.frames s.fi

theorem close_of_caf {a : Spec.A} (h : a.caf = true) : Spec.close a = a := by
  simp [Spec.close, h]

theorem nextRaw_spec (rl : Nat) : ∀ (fuel : Nat) (s : St), srcLen s.src + 1 ≤ fuel → Inv s →
    Inv (nextRaw rl fuel s).1 ∧
    (nextRaw rl fuel s).1.abs = (if (nextRaw rl fuel s).1.caf then Spec.close s.abs else s.abs) ∧
    (rl ≤ s.buf + srcTotal s.src → (nextRaw rl fuel s).2 = none ∧
      (nextRaw rl fuel s).1.buf + srcTotal (nextRaw rl fuel s).1.src + rl = s.buf + srcTotal s.src) ∧
    (s.buf + srcTotal s.src < rl → (nextRaw rl fuel s).2 = some (.err .noMoreImageData) ∧
      (nextRaw rl fuel s).1.caf = true ∧
      (nextRaw rl fuel s).1.buf + srcTotal (nextRaw rl fuel s).1.src = s.buf + srcTotal s.src) := by
  intro fuel
  induction fuel with
  | zero => intro s hf; omega
  | succ fuel ih =>
    intro s hf hi
    unfold nextRaw
    by_cases hb : s.buf < rl
    · simp only [hb, if_true]
      by_cases hc : s.caf = true
      · have hs := hi.src_none hc
        simp only [hc, if_true]
        refine ⟨hi, ?_, ?_, ?_⟩
        · simp [St.abs, hc, Spec.close]
        · intro h; simp [hs, srcTotal] at h; omega
        · intro _; simp
      · have hc' : s.caf = false := by simpa using hc
        have hs := hi.src_some hc'
        simp only [hc', Bool.false_eq_true, if_false]
        match hsrc : s.src with
        | none => simp [hsrc] at hs
        | some ⟨[], m⟩ =>
          have hr := hi.rem_pos hc'
          have hr0 : ¬ s.rem = 0 := by omega
          simp only [pull, hsrc, mark, hr0, if_false]
          have := ih { s with src := none, buf := s.buf + m, rem := s.rem - 1, caf := true }
            (by simp [srcLen]; simp [hsrc, srcLen] at hf; omega)
            ⟨by simp, by simp, by simp, hi.cur_lt, by simp⟩
          obtain ⟨h1, h2, h3, h4⟩ := this
          refine ⟨h1, ?_, ?_, ?_⟩
          · generalize nextRaw rl fuel _ = res at h1 h2 h3 h4 ⊢
            by_cases hrc : res.1.caf = true
            · simp only [hrc, if_true] at h2 ⊢
              rw [h2]; simp [Spec.close, St.abs, hc']
            · simp only [hrc] at h2
              have : res.1.caf = true := by
                have := congrArg Spec.A.caf h2
                simpa [St.abs] using this
              exact absurd this hrc
          · simpa [srcTotal, Arrival.total] using h3
          · simpa [srcTotal, Arrival.total] using h4
        | some ⟨n :: ns, m⟩ =>
          simp only [pull, hsrc]
          generalize hs1 : ({ s with src := some ⟨ns, m⟩, buf := s.buf + n } : St) = s1
          have e1 : s1.buf + srcTotal s1.src = s.buf + srcTotal s.src := by
            subst hs1; simp [hsrc, srcTotal, Arrival.total]; omega
          have e2 : s1.abs = s.abs := by subst hs1; rfl
          have e3 : srcLen s1.src + 1 ≤ fuel := by
            subst hs1; simp [hsrc, srcLen] at hf ⊢; omega
          have e4 : Inv s1 := by
            subst hs1; exact ⟨by simpa using hi.rem_pos, by simp, by simp [hc'], hi.cur_lt, hi.end_caf⟩
          have := ih s1 e3 e4
          rw [e1, e2, hsrc] at this; exact this
    · simp only [hb, if_false]
      refine ⟨⟨hi.rem_pos, hi.src_some, hi.src_none, hi.cur_lt, hi.end_caf⟩, ?_, ?_, ?_⟩
      · by_cases hc : s.caf = true
        · simp [St.abs, hc, Spec.close]
        · simp [St.abs, hc]
      · intro _; simp; omega
      · intro h; omega


theorem close_caf (a : Spec.A) : (Spec.close a).caf = true := by
  unfold Spec.close; split <;> simp_all

theorem abs_same {s s' : St} {c : Bool} (h : s'.abs = (if c then Spec.close s.abs else s.abs)) :
    s'.fi = s.fi ∧ s'.sub = s.sub ∧ s'.cur = s.cur ∧ s'.finished = s.finished ∧ s'.atEnd = s.atEnd := by
  have h1 := congrArg Spec.A.fi h
  have h2 := congrArg Spec.A.sub h
  have h3 := congrArg Spec.A.cur h
  have h4 := congrArg Spec.A.finished h
  have h5 := congrArg Spec.A.atEnd h
  cases c <;> by_cases hc : s.caf = true <;> simp_all [St.abs, Spec.close]

theorem discard_spec : ∀ (fuel : Nat) (s : St), srcLen s.src ≤ fuel → s.src.isSome = true →
    discard fuel s = ({ s with src := none }, none) := by
  intro fuel
  induction fuel with
  | zero => intro s hf hs; cases h : s.src <;> simp_all [srcLen]
  | succ fuel ih =>
    intro s hf hs
    unfold discard
    match hsrc : s.src with
    | none => simp [hsrc] at hs
    | some ⟨[], m⟩ => simp [pull, hsrc]
    | some ⟨n :: ns, m⟩ =>
      simp only [pull, hsrc]
      rw [ih _ (by simp [hsrc, srcLen] at hf ⊢; omega) (by simp)]

theorem finishDecoding_spec (s : St) (hi : Inv s) (hc : s.cur = none) :
    (finishDecoding s).2 = none ∧ (finishDecoding s).1.abs = Spec.close s.abs ∧ Inv (finishDecoding s).1 := by
  unfold finishDecoding
  simp only [hc, Option.isSome_none, Bool.false_eq_true, if_false]
  by_cases hcaf : s.caf = true
  · simp [hcaf, Spec.close, St.abs, hi]
  · have hcaf' : s.caf = false := by simpa using hcaf
    have hr := hi.rem_pos hcaf'
    have hr0 : ¬ s.rem = 0 := by omega
    simp only [hcaf', Bool.false_eq_true, if_false]
    rw [discard_spec _ s (by simp [fuelOf]) (hi.src_some hcaf')]
    simp only [mark, hr0, if_false]
    refine ⟨by simp, ?_, ?_⟩
    · simp [Spec.close, St.abs, hcaf']
    · exact ⟨by simp, by simp, by simp, by simpa using hi.cur_lt, by simp⟩

theorem upto_succ (sub : List Nat) (i : Nat) : upto sub (i + 1) = upto sub i + sub.getD i 0 := by
  unfold upto
  rw [List.take_add_one, List.sum_append]
  cases h : sub[i]? <;> simp [List.getD, h]

/-- `Inv` and `Acc` together -/
structure Good (e : Env) (s : St) : Prop where
  inv : Inv s
  acc : Acc e s

theorem rowImpl_spec (e : Env) (s : St) (i : Nat) (hg : Good e s) (hc : s.cur = some i) :
    Good e (rowImpl s i).1 ∧
    (covers s.sub (Spec.availOf e.frames s.fi) i = true → (rowImpl s i).2 = none ∧
      (rowImpl s i).1.abs = { (if (rowImpl s i).1.caf then Spec.close s.abs else s.abs) with cur := Spec.advance s.abs }) ∧
    (covers s.sub (Spec.availOf e.frames s.fi) i = false → (rowImpl s i).2 = some (.err .noMoreImageData) ∧
      (rowImpl s i).1.abs = Spec.close s.abs) := by
  have hacc := hg.acc i hc
  have hup := upto_succ s.sub i
  obtain ⟨h1, h2, h3, h4⟩ := nextRaw_spec (s.sub.getD i 0) (fuelOf s) s (by simp [fuelOf]) hg.inv
  unfold rowImpl
  generalize nextRaw (s.sub.getD i 0) (fuelOf s) s = res at h1 h2 h3 h4 ⊢
  obtain ⟨s', r⟩ := res
  obtain ⟨e1, e2, e3, e4, e5⟩ := abs_same h2
  simp only at h1 h2 h3 h4 e1 e2 e3 e4 e5
  by_cases hcov : covers s.sub (Spec.availOf e.frames s.fi) i = true
  · have hle : s.sub.getD i 0 ≤ s.buf + srcTotal s.src := by
      simp [covers] at hcov; omega
    obtain ⟨hr, hb⟩ := h3 hle
    subst hr
    simp only [hcov, true_implies, Bool.true_eq_false, false_implies, and_true]
    refine ⟨⟨⟨h1.rem_pos, h1.src_some, h1.src_none, ?_, h1.end_caf⟩, ?_⟩, ?_⟩
    · intro j hj
      simp only [advance, e3, hc, e2] at hj
      split at hj <;> simp_all <;> omega
    · intro j hj
      simp only [advance, e3, hc, e2] at hj
      split at hj
      · simp only [Option.some.injEq] at hj
        subst hj
        simp only [e1, e2]; omega
      · simp at hj
    · simp only [St.abs, advance, Spec.advance, e3, hc, e2] at h2 ⊢
      by_cases hc' : s'.caf = true <;> by_cases hs : s.caf = true <;> simp_all [Spec.close]
  · have hcov' : covers s.sub (Spec.availOf e.frames s.fi) i = false := by simpa using hcov
    have hlt : s.buf + srcTotal s.src < s.sub.getD i 0 := by
      simp [covers] at hcov'; omega
    obtain ⟨hr, hcaf, hb⟩ := h4 hlt
    subst hr
    simp only [hcov', Bool.false_eq_true, false_implies, true_implies, true_and]
    simp only [hcaf, if_true] at h2
    refine ⟨⟨h1, ?_⟩, h2⟩
    intro j hj
    rw [e3, hc] at hj
    simp only [Option.some.injEq] at hj
    subst hj
    rw [e1, e2]; omega


theorem upto_cons (l : Nat) (ls : List Nat) (i : Nat) : upto (l :: ls) (i + 1) = l + upto ls i := by
  simp [upto]

theorem covers_iff_lt_nDeliv : ∀ (sub : List Nat) (a i : Nat), i < sub.length →
    (covers sub a i = true ↔ i < nDeliv sub a) := by
  intro sub
  induction sub with
  | nil => intro a i h; simp at h
  | cons l ls ih =>
    intro a i h
    simp only [covers, decide_eq_true_eq, nDeliv]
    rw [upto_cons]
    by_cases hl : l ≤ a
    · simp only [hl, if_true]
      cases i with
      | zero => simp [upto]; omega
      | succ i =>
        have := ih (a - l) i (by simpa using h)
        simp only [covers, decide_eq_true_eq] at this
        omega
    · simp only [hl, if_false]; omega

theorem nextRow_none {s : St} (h : s.cur = none) :
    nextRow s = ((finishDecoding s).1, match (finishDecoding s).2 with | some e => e | none => .none) := by
  unfold nextRow; rw [h]; simp only []
  rcases finishDecoding s with ⟨s', _ | r⟩ <;> rfl

theorem nextRow_some {s : St} {i : Nat} (h : s.cur = some i) :
    nextRow s = ((rowImpl s i).1, match (rowImpl s i).2 with | some e => e | none => .row s.fi i) := by
  unfold nextRow; rw [h]; simp only []
  rcases rowImpl s i with ⟨s', _ | r⟩ <;> rfl

theorem Spec.nextRow_none {fr : List Frame} {a : Spec.A} {b : Bool} (h : a.cur = none) :
    Spec.nextRow fr a b = (Spec.close a, .none) := by
  unfold Spec.nextRow; rw [h]

theorem Spec.nextRow_some {fr : List Frame} {a : Spec.A} {b : Bool} {i : Nat} (h : a.cur = some i) :
    Spec.nextRow fr a b =
      if covers a.sub (Spec.availOf fr a.fi) i then
        ({ (if b then Spec.close a else a) with cur := Spec.advance a }, .row a.fi i)
      else (Spec.close a, .err .noMoreImageData) := by
  unfold Spec.nextRow; rw [h]

theorem nextRow_refines (e : Env) (s : St) (hg : Good e s) :
    Good e (nextRow s).1 ∧
    ((nextRow s).1.abs, (nextRow s).2) = Spec.nextRow e.frames s.abs (nextRow s).1.caf := by
  cases hc : s.cur with
  | none =>
    rw [nextRow_none hc, Spec.nextRow_none (by simpa [St.abs] using hc)]
    obtain ⟨h1, h2, h3⟩ := finishDecoding_spec s hg.inv hc
    rw [h1, h2]
    refine ⟨⟨h3, fun i hi => ?_⟩, rfl⟩
    have := congrArg Spec.A.cur h2
    by_cases hs : s.caf = true <;> simp_all [St.abs, Spec.close]
  | some i =>
    rw [nextRow_some hc, Spec.nextRow_some (i := i) (by simpa [St.abs] using hc)]
    obtain ⟨h1, h2, h3⟩ := rowImpl_spec e s i hg hc
    refine ⟨h1, ?_⟩
    have e2 : s.abs.sub = s.sub := rfl
    have e3 : s.abs.fi = s.fi := rfl
    rw [e2, e3]
    by_cases hcov : covers s.sub (Spec.availOf e.frames s.fi) i = true
    · obtain ⟨hr, ha⟩ := h2 hcov
      simp only [hcov, if_true, hr, ha]
    · have hcov' : covers s.sub (Spec.availOf e.frames s.fi) i = false := by simpa using hcov
      obtain ⟨hr, ha⟩ := h3 hcov'
      simp [hcov', hr, ha]


theorem A_eq_iff (a b : Spec.A) : a = b ↔ a.rem = b.rem ∧ a.fi = b.fi ∧ a.sub = b.sub ∧ a.cur = b.cur ∧
    a.caf = b.caf ∧ a.finished = b.finished ∧ a.atEnd = b.atEnd := by
  cases a; cases b; simp

/-- what the row loop of `next_frame` (either branch) has done when it returns, starting at row `lo` -/
def BodyPost (e : Env) (s : St) (lo : Nat) (w : List Nat) (out : St × List Nat × Option Res) : Prop :=
  Good e out.1 ∧
  if max lo (nDeliv s.sub (Spec.availOf e.frames s.fi)) < s.sub.length then
    out.2.2 = some (.err .noMoreImageData) ∧
    out.1.abs = { Spec.close s.abs with cur := some (max lo (nDeliv s.sub (Spec.availOf e.frames s.fi))) }
  else
    out.2.2 = none ∧ out.2.1 = w ++ List.range' lo (s.sub.length - lo) ∧ out.1.cur = none ∧
    Spec.close out.1.abs = { Spec.close s.abs with cur := none }

theorem bodyPost_step {e : Env} {s s1 : St} {j : Nat} {w : List Nat} {out : St × List Nat × Option Res}
    (hj : j < s.sub.length) (hnd : j < nDeliv s.sub (Spec.availOf e.frames s.fi))
    (habs : s1.abs = { (if s1.caf then Spec.close s.abs else s.abs) with cur := Spec.advance s.abs })
    (h : BodyPost e s1 (j + 1) (w ++ [j]) out) : BodyPost e s j w out := by
  have hf : s1.fi = s.fi := by
    have := congrArg Spec.A.fi habs
    by_cases h1 : s1.caf = true <;> by_cases h2 : s.caf = true <;> simp_all [St.abs, Spec.close]
  have hs : s1.sub = s.sub := by
    have := congrArg Spec.A.sub habs
    by_cases h1 : s1.caf = true <;> by_cases h2 : s.caf = true <;> simp_all [St.abs, Spec.close]
  have hcl : ∀ x, { Spec.close s1.abs with cur := x } = { Spec.close s.abs with cur := x } := by
    intro x
    rw [habs]
    by_cases h1 : s1.caf = true <;> by_cases h2 : s.caf = true <;> simp [h1, h2, Spec.close, St.abs]
  unfold BodyPost at h ⊢
  rw [hf, hs] at h
  have hm : max (j + 1) (nDeliv s.sub (Spec.availOf e.frames s.fi)) = max j (nDeliv s.sub (Spec.availOf e.frames s.fi)) := by
    omega
  rw [hm, hcl, hcl] at h
  refine ⟨h.1, ?_⟩
  have h2 := h.2
  split
  · rename_i hlt; rw [if_pos hlt] at h2; exact h2
  · rename_i hlt; rw [if_neg hlt] at h2
    refine ⟨h2.1, ?_, h2.2.2⟩
    rw [h2.2.1, List.append_assoc]
    congr 1
    have : s.sub.length - j = (s.sub.length - (j + 1)) + 1 := by omega
    rw [this, List.range'_succ]
    rfl

theorem frameRows_spec (e : Env) : ∀ (n j : Nat) (s : St) (w : List Nat), Good e s → j + n = s.sub.length →
    s.cur = (if n = 0 then none else some j) → BodyPost e s j w (frameRows n j s w) := by
  intro n
  induction n with
  | zero =>
    intro j s w hg hlen hcur
    simp only [if_true] at hcur
    unfold frameRows BodyPost
    refine ⟨hg, ?_⟩
    have : ¬ max j (nDeliv s.sub (Spec.availOf e.frames s.fi)) < s.sub.length := by omega
    rw [if_neg this]
    refine ⟨rfl, ?_, hcur, ?_⟩
    · have : s.sub.length - j = 0 := by omega
      simp [this]
    · rw [A_eq_iff]; simp [Spec.close, St.abs, hcur]; split <;> simp
  | succ n ih =>
    intro j s w hg hlen hcur
    have hcur' : s.cur = some j := by simpa using hcur
    have hj : j < s.sub.length := by omega
    obtain ⟨h1, h2, h3⟩ := rowImpl_spec e s j hg hcur'
    unfold frameRows
    by_cases hcov : covers s.sub (Spec.availOf e.frames s.fi) j = true
    · obtain ⟨hr, ha⟩ := h2 hcov
      have hnd := (covers_iff_lt_nDeliv s.sub _ j hj).1 hcov
      rcases hres : rowImpl s j with ⟨s1, r⟩
      rw [hres] at h1 hr ha
      simp only at h1 hr ha
      subst hr
      simp only []
      have hs : s1.sub = s.sub := by
        have := congrArg Spec.A.sub ha
        by_cases h1 : s1.caf = true <;> by_cases h2 : s.caf = true <;> simp_all [St.abs, Spec.close]
      have hc1 : s1.cur = (if n = 0 then none else some (j + 1)) := by
        have := congrArg Spec.A.cur ha
        simp only [St.abs, Spec.advance, hcur'] at this
        rw [this]
        by_cases hn : n = 0
        · have : ¬ j + 1 < s.sub.length := by omega
          simp [hn, this]
        · have : j + 1 < s.sub.length := by omega
          simp [hn, this]
      exact bodyPost_step hj hnd ha (ih (j + 1) s1 (w ++ [j]) h1 (by rw [hs]; omega) hc1)
    · have hcov' : covers s.sub (Spec.availOf e.frames s.fi) j = false := by simpa using hcov
      obtain ⟨hr, ha⟩ := h3 hcov'
      have hnd : ¬ j < nDeliv s.sub (Spec.availOf e.frames s.fi) :=
        fun h => hcov ((covers_iff_lt_nDeliv s.sub _ j hj).2 h)
      rcases hres : rowImpl s j with ⟨s1, r⟩
      rw [hres] at h1 hr ha
      simp only at h1 hr ha
      subst hr
      simp only []
      unfold BodyPost
      refine ⟨h1, ?_⟩
      have hm : max j (nDeliv s.sub (Spec.availOf e.frames s.fi)) = j := by omega
      rw [hm, if_pos hj]
      refine ⟨rfl, ?_⟩
      rw [ha, A_eq_iff]
      simp [Spec.close, St.abs, hcur']
      split <;> simp


theorem frameInterlaced_spec (e : Env) : ∀ (fuel : Nat) (s : St) (w : List Nat), Good e s →
    s.sub.length - s.cur.getD s.sub.length + 1 ≤ fuel →
    BodyPost e s (s.cur.getD s.sub.length) w (frameInterlaced fuel s w) := by
  intro fuel
  induction fuel with
  | zero => intro s w _ h; omega
  | succ fuel ih =>
    intro s w hg hf
    unfold frameInterlaced
    cases hc : s.cur with
    | none =>
      obtain ⟨h1, h2, h3⟩ := finishDecoding_spec s hg.inv hc
      rw [nextRow_none hc, h1]
      simp only [Option.getD_none]
      unfold BodyPost
      have hcur : (finishDecoding s).1.cur = none := by
        have := congrArg Spec.A.cur h2
        by_cases hs : s.caf = true <;> simp_all [St.abs, Spec.close]
      refine ⟨⟨h3, fun i hi => by simp [hcur] at hi⟩, ?_⟩
      have : ¬ max s.sub.length (nDeliv s.sub (Spec.availOf e.frames s.fi)) < s.sub.length := by omega
      rw [if_neg this]
      refine ⟨rfl, by simp, hcur, ?_⟩
      rw [h2, A_eq_iff]
      simp [Spec.close, St.abs, hc]
      split <;> simp
    | some i =>
      have hi : i < s.sub.length := hg.inv.cur_lt i hc
      obtain ⟨h1, h2, h3⟩ := rowImpl_spec e s i hg hc
      rw [nextRow_some hc]
      simp only [Option.getD_some]
      by_cases hcov : covers s.sub (Spec.availOf e.frames s.fi) i = true
      · obtain ⟨hr, ha⟩ := h2 hcov
        have hnd := (covers_iff_lt_nDeliv s.sub _ i hi).1 hcov
        rw [hr]
        simp only []
        have hs : (rowImpl s i).1.sub = s.sub := by
          have := congrArg Spec.A.sub ha
          by_cases h1 : (rowImpl s i).1.caf = true <;> by_cases h2 : s.caf = true <;> simp_all [St.abs, Spec.close]
        have hc1 : (rowImpl s i).1.cur.getD s.sub.length = i + 1 := by
          have := congrArg Spec.A.cur ha
          simp only [St.abs, Spec.advance, hc] at this
          rw [this]
          by_cases hn : i + 1 < s.sub.length
          · simp [hn]
          · simp [hn]; omega
        have := ih (rowImpl s i).1 (w ++ [i]) h1 (by rw [hs, hc1]; simp only [hc, Option.getD_some] at hf; omega)
        rw [hs, hc1] at this
        exact bodyPost_step hi hnd ha this
      · have hcov' : covers s.sub (Spec.availOf e.frames s.fi) i = false := by simpa using hcov
        obtain ⟨hr, ha⟩ := h3 hcov'
        have hnd : ¬ i < nDeliv s.sub (Spec.availOf e.frames s.fi) :=
          fun h => hcov ((covers_iff_lt_nDeliv s.sub _ i hi).2 h)
        rw [hr]
        simp only []
        unfold BodyPost
        refine ⟨h1, ?_⟩
        have hm : max i (nDeliv s.sub (Spec.availOf e.frames s.fi)) = i := by omega
        rw [hm, if_pos hi]
        refine ⟨rfl, ?_⟩
        rw [ha, A_eq_iff]
        simp [Spec.close, St.abs, hc]
        split <;> simp

theorem body_post (e : Env) (s1 : St) (hg : Good e s1) :
    BodyPost e s1 (s1.cur.getD s1.sub.length) []
      (if e.interlaced then frameInterlaced (s1.sub.length + 2) s1 []
       else frameRows (s1.sub.length - s1.cur.getD s1.sub.length) (s1.cur.getD s1.sub.length) s1 []) := by
  by_cases hil : e.interlaced = true
  · rw [if_pos hil]
    exact frameInterlaced_spec e _ s1 [] hg (by omega)
  · rw [if_neg hil]
    cases hc : s1.cur with
    | none =>
      simp only [Option.getD_none, Nat.sub_self]
      exact frameRows_spec e 0 _ s1 [] hg (by simp) (by simp [hc])
    | some i =>
      have hi := hg.inv.cur_lt i hc
      simp only [Option.getD_some]
      refine frameRows_spec e _ i s1 [] hg (by omega) ?_
      have : ¬ s1.sub.length - i = 0 := by omega
      simp [this, hc]

theorem frameInto_refines (e : Env) (s1 : St) (hg : Good e s1) :
    Good e (frameInto e s1).1 ∧
    ((frameInto e s1).1.abs, (frameInto e s1).2) = Spec.frameInto e.frames s1.abs := by
  have hb := body_post e s1 hg
  unfold frameInto Spec.frameInto
  simp only []
  generalize (if e.interlaced then frameInterlaced (s1.sub.length + 2) s1 []
       else frameRows (s1.sub.length - s1.cur.getD s1.sub.length) (s1.cur.getD s1.sub.length) s1 []) = body at hb ⊢
  obtain ⟨s2, w, r⟩ := body
  unfold BodyPost at hb
  obtain ⟨hg2, hb⟩ := hb
  have e1 : s1.abs.cur = s1.cur := rfl
  have e2 : s1.abs.sub = s1.sub := rfl
  have e3 : s1.abs.fi = s1.fi := rfl
  rw [e1, e2, e3]
  by_cases hlt : max (s1.cur.getD s1.sub.length) (nDeliv s1.sub (Spec.availOf e.frames s1.fi)) < s1.sub.length
  · rw [if_pos hlt] at hb ⊢
    simp only at hb hg2
    obtain ⟨hr, ha⟩ := hb
    subst hr
    simp only []
    exact ⟨hg2, by rw [ha]⟩
  · rw [if_neg hlt] at hb ⊢
    simp only at hb hg2
    obtain ⟨hr, hw, hcur, ha⟩ := hb
    subst hr
    simp only []
    obtain ⟨h1, h2, h3⟩ := finishDecoding_spec s2 hg2.inv hcur
    rcases hres : finishDecoding s2 with ⟨s3, r3⟩
    rw [hres] at h1 h2 h3
    simp only at h1 h2 h3
    subst h1
    simp only []
    have hc3 : s3.cur = none := by
      have := congrArg Spec.A.cur h2
      by_cases hs : s2.caf = true <;> simp_all [St.abs, Spec.close]
    refine ⟨⟨h3, fun i hi => by simp [hc3] at hi⟩, ?_⟩
    rw [h2, ha, hw]
    simp


theorem firstRow_lt {sub : List Nat} {i : Nat} (h : firstRow sub = some i) : i = 0 ∧ 0 < sub.length := by
  unfold firstRow at h; split at h <;> simp_all

theorem readUntil_refines (e : Env) (hv : e.Valid) (s : St) (hg : Good e s) (hcaf : s.caf = true)
    (hrem : 1 ≤ s.rem) :
    Good e (readUntilImageData e s).1 ∧
    ((readUntilImageData e s).1.abs, (readUntilImageData e s).2) = Spec.readUntilImageData e.frames s.abs := by
  unfold readUntilImageData Spec.readUntilImageData
  simp only [St.abs]
  by_cases hend : s.atEnd = true
  · simp only [hend, if_true]; exact ⟨hg, trivial⟩
  · simp only [hend, Bool.false_eq_true, if_false]
    have hsrc := hg.inv.src_none hcaf
    simp only [hsrc, Option.isSome_none, Bool.false_eq_true, if_false]
    cases hf : e.frames[s.fi + 1]? with
    | none =>
      have : e.arrs[s.fi + 1]? = none := by
        rw [List.getElem?_eq_none_iff] at hf ⊢; rw [hv.1]; exact hf
      simp only []
      refine ⟨⟨⟨hg.inv.rem_pos, fun h => by simp [hcaf] at h, fun _ => by simp, hg.inv.cur_lt, fun _ => hcaf⟩, fun i hi => by have := hg.acc i hi; simpa [hsrc] using this⟩, trivial⟩
    | some f =>
      cases ha : e.arrs[s.fi + 1]? with
      | none =>
        rw [List.getElem?_eq_none_iff] at ha
        have := (List.getElem?_eq_some_iff.1 hf).1
        rw [hv.1] at ha; omega
      | some a =>
        simp only []
        refine ⟨⟨⟨fun _ => hrem, by simp, by simp, ?_, by simp⟩, ?_⟩, trivial⟩
        · intro i hi; obtain ⟨h0, h1⟩ := firstRow_lt hi; subst h0; exact h1
        · intro i hi
          have h0 := firstRow_lt hi
          have := hv.2 _ f a hf ha
          simp only [Arrival.total] at this
          simp only [h0.1, upto, Arrival.total, List.take_zero, List.sum_nil, srcTotal, Spec.availOf, hf, Option.map_some,
            Option.getD_some]
          omega

theorem nextFrame_refines (e : Env) (hv : e.Valid) (s : St) (hg : Good e s) :
    Good e (nextFrame e s).1 ∧
    ((nextFrame e s).1.abs, (nextFrame e s).2) = Spec.nextFrame e.frames s.abs := by
  unfold nextFrame Spec.nextFrame
  have e1 : s.abs.cur = s.cur := rfl
  have e2 : s.abs.rem = s.rem := rfl
  have e3 : s.abs.caf = s.caf := rfl
  rw [e1, e2, e3]
  by_cases hc : s.cur.isSome = true
  · simp only [hc, if_true]; exact frameInto_refines e s hg
  · simp only [hc, Bool.false_eq_true, if_false]
    by_cases hr : s.rem = 0
    · simp only [hr, if_true]; exact ⟨hg, by first | trivial | rfl⟩
    · simp only [hr, if_false]
      by_cases hcaf : s.caf = true
      · simp only [hcaf, if_true]
        obtain ⟨h1, h2⟩ := readUntil_refines e hv s hg hcaf (by omega)
        rcases hres : readUntilImageData e s with ⟨s1, r⟩
        rw [hres] at h1 h2
        simp only at h1 h2
        rw [← h2]
        cases r with
        | some r => exact ⟨h1, rfl⟩
        | none => exact frameInto_refines e s1 h1
      · simp only [hcaf, Bool.false_eq_true, if_false]; exact frameInto_refines e s hg

theorem Spec.nextFrameInfo_polled {fr : List Frame} {a : Spec.A}
    (h : (if a.caf = true then a.rem else a.rem - 1) = 0) : Spec.nextFrameInfo fr a = (a, .err .polled) := by
  unfold Spec.nextFrameInfo; simp only [h, if_true]

theorem Spec.nextFrameInfo_caf {fr : List Frame} {a : Spec.A}
    (h : ¬ (if a.caf = true then a.rem else a.rem - 1) = 0) (hc : a.caf = true) :
    Spec.nextFrameInfo fr a = match Spec.readUntilImageData fr a with
      | (a2, some r) => (a2, r)
      | (a2, none) => (a2, .fctl a2.fi) := by
  unfold Spec.nextFrameInfo; simp only [h, if_false]
  have : Spec.close { a with cur := if a.caf = true then a.cur else none } = a := by
    cases a; simp_all [Spec.close]
  rw [this]; rfl

theorem Spec.nextFrameInfo_open {fr : List Frame} {a : Spec.A}
    (h : ¬ (if a.caf = true then a.rem else a.rem - 1) = 0) (hc : a.caf = false) :
    Spec.nextFrameInfo fr a = match Spec.readUntilImageData fr (Spec.close { a with cur := none }) with
      | (a2, some r) => (a2, r)
      | (a2, none) => (a2, .fctl a2.fi) := by
  unfold Spec.nextFrameInfo; simp only [h, if_false]
  have : Spec.close { a with cur := if a.caf = true then a.cur else none } = Spec.close { a with cur := none } := by
    simp [hc]
  rw [this]; rfl

theorem nextFrameInfo_refines (e : Env) (hv : e.Valid) (s : St) (hg : Good e s) :
    Good e (nextFrameInfo e s).1 ∧
    ((nextFrameInfo e s).1.abs, (nextFrameInfo e s).2) = Spec.nextFrameInfo e.frames s.abs := by
  by_cases hr : (if s.caf = true then s.rem else s.rem - 1) = 0
  · rw [Spec.nextFrameInfo_polled (a := s.abs) hr]
    unfold nextFrameInfo
    simp only [hr, if_true]; exact ⟨hg, by first | trivial | rfl⟩
  · by_cases hcaf : s.caf = true
    · rw [Spec.nextFrameInfo_caf (a := s.abs) hr hcaf]
      unfold nextFrameInfo
      simp only [hcaf, if_true] at hr
      simp only [hcaf, if_true, Bool.not_true, Bool.false_eq_true, if_false, hr]
      obtain ⟨h1, h2⟩ := readUntil_refines e hv s hg hcaf (by omega)
      rw [← h2]
      rcases hres : readUntilImageData e s with ⟨s1, r⟩
      rw [hres] at h1
      simp only at h1 ⊢
      cases r with
      | some r => exact ⟨h1, rfl⟩
      | none => exact ⟨h1, rfl⟩
    · have hcaf' : s.caf = false := by simpa using hcaf
      rw [Spec.nextFrameInfo_open (a := s.abs) hr hcaf']
      unfold nextFrameInfo
      have hn : (!s.caf) = true := by simp [hcaf']
      simp only [hr, if_false, hn, if_true]
      simp only [hcaf', Bool.false_eq_true, if_false] at hr
      have hi0 : Inv { s with cur := none } :=
        ⟨hg.inv.rem_pos, hg.inv.src_some, hg.inv.src_none, fun i hi => by simp at hi, hg.inv.end_caf⟩
      obtain ⟨f1, f2, f3⟩ := finishDecoding_spec { s with cur := none } hi0 rfl
      rcases hres : finishDecoding { s with cur := none } with ⟨s1, r1⟩
      rw [hres] at f1 f2 f3
      simp only at f1 f2 f3
      subst f1
      simp only []
      have hcur1 : s1.cur = none := by
        have := congrArg Spec.A.cur f2
        simp_all [St.abs, Spec.close]
      have hcaf1 : s1.caf = true := by
        have := congrArg Spec.A.caf f2
        simp_all [St.abs, Spec.close]
      have hrem1 : s1.rem = s.rem - 1 := by
        have := congrArg Spec.A.rem f2
        simp_all [St.abs, Spec.close]
      have hg1 : Good e s1 := ⟨f3, fun i hi => by simp [hcur1] at hi⟩
      obtain ⟨h1, h2⟩ := readUntil_refines e hv s1 hg1 hcaf1 (by omega)
      have : Spec.close { s.abs with cur := none } = s1.abs := by rw [f2]; rfl
      rw [this, ← h2]
      rcases hres2 : readUntilImageData e s1 with ⟨s2, r⟩
      rw [hres2] at h1
      simp only at h1 ⊢
      cases r with
      | some r => exact ⟨h1, rfl⟩
      | none => exact ⟨h1, rfl⟩

theorem finish_refines (e : Env) (s : St) (hg : Good e s) :
    Good e (finish s).1 ∧ ((finish s).1.abs, (finish s).2) = Spec.finish s.abs := by
  unfold finish Spec.finish
  simp only [St.abs]
  by_cases hf : s.finished = true
  · simp only [hf, if_true]; exact ⟨hg, trivial⟩
  · simp only [hf, Bool.false_eq_true, if_false]
    by_cases hend : s.atEnd = true
    · simp only [hend, if_true]
      have := hg.inv.src_none (hg.inv.end_caf hend)
      exact ⟨⟨⟨by simp, by simp, fun _ => this, by simp, by simp⟩, fun i hi => by simp at hi⟩, trivial⟩
    · simp only [hend, Bool.false_eq_true, if_false]
      exact ⟨⟨⟨by simp, by simp, by simp, by simp, by simp⟩, fun i hi => by simp at hi⟩, trivial⟩


theorem step_refines (e : Env) (hv : e.Valid) (s : St) (hg : Good e s) (op : Op) :
    Good e (step e s op).1 ∧
    ((step e s op).1.abs, (step e s op).2) = Spec.step e.frames s.abs op (step e s op).1.caf := by
  cases op with
  | nextFrame => exact nextFrame_refines e hv s hg
  | nextRow => exact nextRow_refines e s hg
  | nextFrameInfo => exact nextFrameInfo_refines e hv s hg
  | finish => exact finish_refines e s hg

/-- the oracle bits of a run: `consumed_and_flushed` after each call -/
def cafs (e : Env) : St → List Op → List Bool
  | _, [] => []
  | s, op :: ops => (step e s op).1.caf :: cafs e (step e s op).1 ops

theorem cafs_length (e : Env) : ∀ (ops : List Op) (s : St), (cafs e s ops).length = ops.length := by
  intro ops
  induction ops with
  | nil => intro s; rfl
  | cons op ops ih => intro s; simp [cafs, ih]

theorem run_refines (e : Env) (hv : e.Valid) : ∀ (ops : List Op) (s : St), Good e s →
    Good e (run e s ops).1 ∧
    Spec.run e.frames s.abs ops (cafs e s ops) = ((run e s ops).1.abs, (run e s ops).2) := by
  intro ops
  induction ops with
  | nil => intro s hg; exact ⟨hg, rfl⟩
  | cons op ops ih =>
    intro s hg
    obtain ⟨h1, h2⟩ := step_refines e hv s hg op
    obtain ⟨h3, h4⟩ := ih (step e s op).1 h1
    simp only [run, Spec.run, cafs, List.headD_cons, List.tail_cons]
    rw [← h2]
    simp only []
    rw [h4]
    exact ⟨h3, rfl⟩

theorem init_good (e : Env) (hv : e.Valid) (rem0 : Nat) (hr : 1 ≤ rem0) (s : St) (h : init e rem0 = some s) :
    Good e s ∧ Spec.init e.frames rem0 = some s.abs := by
  unfold init at h
  unfold Spec.init
  cases hf : e.frames[0]? with
  | none => simp [hf] at h
  | some f =>
    cases ha : e.arrs[0]? with
    | none => simp [hf, ha] at h
    | some a =>
      simp only [hf, ha, Option.some.injEq] at h
      subst h
      refine ⟨⟨⟨fun _ => hr, by simp, by simp, ?_, by simp⟩, ?_⟩, rfl⟩
      · intro i hi; obtain ⟨h0, h1⟩ := firstRow_lt hi; subst h0; exact h1
      · intro i hi
        have h0 := firstRow_lt hi
        have := hv.2 _ f a hf ha
        simp only [Arrival.total] at this
        simp only [h0.1, upto, Arrival.total, List.take_zero, List.sum_nil, srcTotal, Spec.availOf, hf,
          Option.map_some, Option.getD_some]
        omega

/-! ### the specification never panics -/

theorem Spec.readUntil_no_panic (fr : List Frame) (a : Spec.A) (site : Site) :
    (Spec.readUntilImageData fr a).2 ≠ some (.panic site) := by
  unfold Spec.readUntilImageData
  split
  · simp
  · split <;> simp

theorem Spec.frameInto_no_panic (fr : List Frame) (a : Spec.A) (site : Site) :
    (Spec.frameInto fr a).2 ≠ .panic site := by
  unfold Spec.frameInto
  simp only []
  split <;> simp

theorem Spec.step_no_panic (fr : List Frame) (a : Spec.A) (op : Op) (b : Bool) (site : Site) :
    (Spec.step fr a op b).2 ≠ .panic site := by
  cases op with
  | nextFrame =>
    simp only [Spec.step, Spec.nextFrame]
    split
    · rename_i a1 r heq
      split at heq
      · simp at heq
      · split at heq
        · simp only [Prod.mk.injEq, Option.some.injEq] at heq; rw [← heq.2]; simp
        · split at heq
          · have := Spec.readUntil_no_panic fr a site
            rw [heq] at this
            simpa using this
          · simp at heq
    · exact Spec.frameInto_no_panic fr _ site
  | nextRow =>
    simp only [Spec.step, Spec.nextRow]
    split
    · simp
    · split <;> simp
  | nextFrameInfo =>
    simp only [Spec.step]
    have tail : ∀ a' : Spec.A, (match Spec.readUntilImageData fr a' with
        | (a2, some r) => (a2, r)
        | (a2, none) => (a2, Res.fctl a2.fi)).2 ≠ .panic site := by
      intro a'
      have := Spec.readUntil_no_panic fr a' site
      rcases hres : Spec.readUntilImageData fr a' with ⟨a2, _ | r⟩ <;> rw [hres] at this <;> simp_all
    by_cases hr : (if a.caf = true then a.rem else a.rem - 1) = 0
    · rw [Spec.nextFrameInfo_polled hr]; simp
    · cases hc : a.caf with
      | false => rw [Spec.nextFrameInfo_open hr hc]; exact tail _
      | true => rw [Spec.nextFrameInfo_caf hr hc]; exact tail _
  | finish =>
    simp only [Spec.step, Spec.finish]
    split
    · simp
    · split <;> simp

/-- no call of the model panics, under the invariant -/
theorem step_no_panic (e : Env) (hv : e.Valid) (s : St) (hg : Good e s) (op : Op) (site : Site) :
    (step e s op).2 ≠ .panic site := by
  have := (step_refines e hv s hg op).2
  have h2 := congrArg Prod.snd this
  simp only at h2
  rw [h2]
  exact Spec.step_no_panic _ _ _ _ _

end Png.Lazy
