import PngVerif.Proofs.RoundTripAnimStreamRun
import PngVerif.Proofs.RoundTripAnimMeta
/-!
# C03 end to end for animations through ONE owned `StreamWriter`: the composition with the decoder model

`anim_stream_log` (`Proofs/RoundTripAnimStreamRun.lean`) describes the file up to the cuts of the compressed streams into data
chunks (`GsOk`).  Here, for ANY such cuts: the file is `Reader.apngFile` (`sAnimBytes_eq`), its frames satisfy `FrameOk`
(`frameOk_gs`), their sequence numbers stay below `2^32` under the budget `sBudget`, and what `FramesOk` promises is the data
given for each frame (`framesOk_gs`); `Reader.apng_wf_gen` and `meta_accepted_anim` (all metadata) do the rest:
`anim_stream_encode_decode_core`.
-/
namespace Png.RoundTrip
open Png Png.Val Png.Enc Png.Framing Png.Reader Png.WellFormed

/-- the frames after the first as the decoder side describes them, for the cuts `gs` -/
def gDec (choose : Bytes → Bytes → FilterType) (c : Enc.Cfg) (gs : List (FC × List Bytes × Bytes)) :
    List (FrameControl × List Bytes × Bytes) :=
  gs.map fun x => (fcDec x.1, x.2.1, rawOf choose (c.sub x.1) x.2.2)

theorem gDec_length (choose : Bytes → Bytes → FilterType) (c : Enc.Cfg) (gs : List (FC × List Bytes × Bytes)) :
    (gDec choose c gs).length = gs.length := by simp [gDec]

theorem gsOk_length (compress : Bytes → Bytes) (chooseZ : Bytes → Bytes → FilterType) (c : Enc.Cfg) (capx : Nat) :
    ∀ (frs : List SFrame) (gs : List (FC × List Bytes × Bytes)) (g : FC) (q : Nat),
      GsOk compress chooseZ c capx g q frs gs → gs.length = frs.length := by
  intro frs
  induction frs with
  | nil => intro gs g q h; cases gs with | nil => rfl | cons _ _ => exact h.elim
  | cons fr rest ih =>
    intro gs g q h
    cases gs with
    | nil => exact h.elim
    | cons x gs => simp only [List.length_cons]; rw [ih gs _ _ h.2.2.2.2.2]

/-- **the chunks of the later frames are `apngFrames`**, whatever the cuts -/
theorem gChunks_bytes (cfg : Framing.Cfg) (hcrc : ∀ b, cfg.crc b = crcOfList b) (compress : Bytes → Bytes)
    (chooseZ : Bytes → Bytes → FilterType) (c : Enc.Cfg) (capx : Nat) :
    ∀ (frs : List SFrame) (gs : List (FC × List Bytes × Bytes)) (g : FC) (q : Nat),
      GsOk compress chooseZ c capx g q frs gs →
      ((gChunks gs).map chunkBytes).flatten = apngFrames cfg q (framesOf (gDec (chooseFirst chooseZ) c gs)) := by
  intro frs
  induction frs with
  | nil => intro gs g q h; cases gs with | nil => rfl | cons _ _ => exact h.elim
  | cons fr rest ih =>
    intro gs g q h
    cases gs with
    | nil => exact h.elim
    | cons x gs =>
      obtain ⟨h1, _, _, _, _, h6⟩ := h
      have hq : x.1.seq = q := by rw [h1]
      have hfc : ({ fcDec x.1 with seq := q } : FrameControl) = fcDec x.1 := by rw [← hq]; rfl
      simp only [gChunks, gDec, framesOf, List.map_cons, apngFrames, List.map_append, List.flatten_cons, List.flatten_append, hfc]
      rw [hq, fdatList_bytes cfg hcrc, ih gs _ _ h6, chunkBytes_eq cfg hcrc, mkFctl_eq]
      simp only [ty_eqs_anim.2.1, gDec, framesOf, List.append_assoc]

/-- **the file of a stream-writer animation, as the specification lays it out** -/
theorem sAnimBytes_eq (cfg : Framing.Cfg) (hcrc : ∀ b, cfg.crc b = crcOfList b) (compress : Bytes → Bytes)
    (chooseZ : Bytes → Bytes → FilterType) (c : Enc.Cfg) (n plays : Nat) (ha : c.actl = some (n, plays)) (capx : Nat)
    (f0 : FC) (hseq0 : f0.seq = 0) (ds0 : List Bytes) (g : FC) (frs : List SFrame) (gs : List (FC × List Bytes × Bytes))
    (hgs : GsOk compress chooseZ c capx g 1 frs gs) :
    fileBytes (sAnimChunks c f0 ds0 gs) =
      apngFile cfg (headerOf c) (ancBytes cfg c n plays) (fcDec f0) ds0 (framesOf (gDec (chooseFirst chooseZ) c gs)) := by
  have hfc : ({ fcDec f0 with seq := 0 } : FrameControl) = fcDec f0 := by rw [← hseq0]; rfl
  simp only [fileBytes, sAnimChunks, apngFile, ancBytes, headerChunks_animMeta ha, List.map_append, List.map_cons, List.map_nil,
    List.flatten_append, List.flatten_cons, List.flatten_nil, List.append_nil, hfc,
    gChunks_bytes cfg hcrc compress chooseZ c capx frs gs g 1 hgs, chunks_eq cfg hcrc, idats_eq, chunkBytes_eq cfg hcrc,
    signature_eq, mkFctl_eq, mkActl_eq, ty_eqs_anim.1, ty_eqs_anim.2.1, List.append_assoc, List.cons_append]
  rfl

/-- the scanline streams of the frames after the first -/
def sRaws (chooseZ : Bytes → Bytes → FilterType) (c : Enc.Cfg) : FC → List SFrame → List Bytes
  | _, [] => []
  | g, fr :: rest =>
    rawOf (chooseFirst chooseZ) (c.sub (fcOfS c.width c.height g fr.pre)) fr.pieces.flatten ::
      sRaws chooseZ c (fcOfS c.width c.height g fr.pre) rest

/-- **every later frame is a frame the decoder side accepts**, whatever the cut -/
theorem frameOk_gs (cfg : Framing.Cfg) (compress : Bytes → Bytes) (chooseZ : Bytes → Bytes → FilterType) (c : Enc.Cfg)
    (hd : depthOk c.depth = true) (hnil : ∀ o, cfg.inflate [] ≠ some (o, true)) (capx : Nat) (hcapx : capx ≤ chunkCap) :
    ∀ (frs : List SFrame) (gs : List (FC × List Bytes × Bytes)) (g : FC) (q : Nat), FcIn c.width c.height g → FcFine g →
      SLaterOk c g frs → GsOk compress chooseZ c capx g q frs gs →
      (∀ raw ∈ sRaws chooseZ c g frs, cfg.inflate (compress raw) = some (raw, true)) →
      ∀ x ∈ gDec (chooseFirst chooseZ) c gs, FrameOk cfg (headerOf c) x := by
  intro frs
  induction frs with
  | nil => intro gs g q _ _ _ h _ x hx; cases gs with | nil => cases hx | cons _ _ => exact h.elim
  | cons fr rest ih =>
    intro gs g q hin hfine hok h hinf x hx
    cases gs with
    | nil => exact h.elim
    | cons y gs =>
      obtain ⟨hpre, hlen, hrest⟩ := hok
      obtain ⟨h1, h2, h3, h4, h5, h6⟩ := h
      obtain ⟨hin', hfine', _⟩ := fcOf_facts (W := c.width) (H := c.height) (fr.pre.map SetOp.toOp) g hin hfine
        (fun o ho => by
          obtain ⟨so, hso, rfl⟩ := List.mem_map.mp ho
          exact SetOp.toOp_inRange so (hpre so hso))
      have hg' : fcOf c.width c.height g (fr.pre.map SetOp.toOp) = fcOfS c.width c.height g fr.pre := rfl
      rw [hg'] at hin' hfine'
      generalize hgg : fcOfS c.width c.height g fr.pre = g' at *
      simp only [gDec, List.map_cons, List.mem_cons] at hx
      rcases hx with rfl | hx
      · have hsub : c.sub y.1 = c.sub g' := by rw [h1]; rfl
        have hi := hinf (rawOf (chooseFirst chooseZ) (c.sub g') fr.pieces.flatten) (by simp [sRaws, hgg])
        have hzne : compress (rawOf (chooseFirst chooseZ) (c.sub g') fr.pieces.flatten) ≠ [] := by
          intro h0; rw [h0] at hi; exact hnil _ hi
        refine ⟨?_, ?_, ?_, ?_, ?_⟩
        · show FcOk (headerOf c) (fcDec y.1)
          rw [h1]; exact fcOk_dec (c := c) (f := { g' with seq := q }) hin' hfine'
        · show y.2.1 ≠ []
          intro h0; rw [h0] at h5; exact hzne h5.symm
        · intro z hz
          have := h4 z hz
          have : chunkCap < 2 ^ 32 := by decide
          omega
        · show cfg.inflate y.2.1.flatten = some (rawOf (chooseFirst chooseZ) (c.sub y.1) y.2.2, true)
          rw [h5, hsub, h2]; exact hi
        · show RawOk ((headerOf c).frame (fcDec y.1)) (rawOf (chooseFirst chooseZ) (c.sub y.1) y.2.2)
          rw [frame_dec, hsub, h2]
          exact rawOk_encode (chooseFirst chooseZ) (c.sub g') hd fr.pieces.flatten hlen
      · exact ih gs g' _ hin' hfine' hrest h6 (fun raw hr => hinf raw (by simp [sRaws, hgg, hr])) x
          (by simp only [gDec]; exact hx)

/-- the sequence numbers stay within the budget -/
theorem seq_sum_gs (compress : Bytes → Bytes) (chooseZ : Bytes → Bytes → FilterType) (c : Enc.Cfg) (capx : Nat) :
    ∀ (frs : List SFrame) (gs : List (FC × List Bytes × Bytes)) (g : FC) (q : Nat),
      GsOk compress chooseZ c capx g q frs gs →
      ((gDec (chooseFirst chooseZ) c gs).map fun x => 1 + x.2.1.length).sum ≤ sBudget compress chooseZ c g frs := by
  intro frs
  induction frs with
  | nil => intro gs g q h; cases gs with | nil => simp [gDec, sBudget] | cons _ _ => exact h.elim
  | cons fr rest ih =>
    intro gs g q h
    cases gs with
    | nil => exact h.elim
    | cons y gs =>
      obtain ⟨_, _, h3, _, h5, h6⟩ := h
      have := ih gs _ _ h6
      have hl : y.2.1.length ≤ (compress (rawOf (chooseFirst chooseZ) (c.sub (fcOfS c.width c.height g fr.pre)) fr.pieces.flatten)).length := by
        rw [← h5]; exact length_le_flatten_of_ne _ h3
      simp only [gDec, List.map_cons, List.sum_cons, sBudget] at this ⊢
      omega

/-- the line sizes of the frames after the first -/
def sLineSum (c : Enc.Cfg) : FC → List SFrame → Nat
  | _, [] => 0
  | g, fr :: rest => (c.sub (fcOfS c.width c.height g fr.pre)).rowLen + sLineSum c (fcOfS c.width c.height g fr.pre) rest

theorem lineSum_gs (compress : Bytes → Bytes) (chooseZ : Bytes → Bytes → FilterType) (c : Enc.Cfg) (hd : depthOk c.depth = true)
    (capx : Nat) :
    ∀ (frs : List SFrame) (gs : List (FC × List Bytes × Bytes)) (g : FC) (q : Nat),
      GsOk compress chooseZ c capx g q frs gs →
      ((gDec (chooseFirst chooseZ) c gs).map fun x => ((headerOf c).frame x.1).lineSize).sum = sLineSum c g frs := by
  intro frs
  induction frs with
  | nil => intro gs g q h; cases gs with | nil => rfl | cons _ _ => exact h.elim
  | cons fr rest ih =>
    intro gs g q h
    cases gs with
    | nil => exact h.elim
    | cons y gs =>
      obtain ⟨h1, _, _, _, _, h6⟩ := h
      have hsub : c.sub y.1 = c.sub (fcOfS c.width c.height g fr.pre) := by rw [h1]; rfl
      simp only [gDec, List.map_cons, List.sum_cons, sLineSum, frame_dec, hsub]
      have := ih gs _ _ h6
      simp only [gDec] at this
      rw [this, headerOf_lineSize (c := c.sub (fcOfS c.width c.height g fr.pre)) hd]

theorem sLineSum_le (c : Enc.Cfg) (hd : depthOk c.depth = true) :
    ∀ (frs : List SFrame) (g : FC), FcIn c.width c.height g → sLineSum c g frs ≤ frs.length * c.rowLen := by
  intro frs
  induction frs with
  | nil => intro g _; simp [sLineSum]
  | cons fr rest ih =>
    intro g hin
    have hin' : FcIn c.width c.height (fcOfS c.width c.height g fr.pre) := fcOf_in _ g hin
    have h1 := rowLen_sub_le (c := c) hd (f := fcOfS c.width c.height g fr.pre) (by have := hin'.2.2.1; omega)
    have h2 := ih _ hin'
    simp only [sLineSum, List.length_cons, Nat.succ_mul]
    omega

/-- what `next_frame` returns for the frames after the first -/
def sFrameResults (c : Enc.Cfg) : FC → List SFrame → List UInt8 → List Reader.Res
  | g, fr :: rest, p :: ps =>
    .frame { width := (fcOfS c.width c.height g fr.pre).w, height := (fcOfS c.width c.height g fr.pre).h, color := c.color,
             depth := c.depth, lineSize := (c.sub (fcOfS c.width c.height g fr.pre)).rowLen }
      (fr.pieces.flatten ++ List.replicate (c.rowLen * c.height - fr.pieces.flatten.length) p) ::
    sFrameResults c (fcOfS c.width c.height g fr.pre) rest ps
  | _, _, _ => []

/-- `FramesOk` of the decoder side, made explicit -/
theorem framesOk_gs (compress : Bytes → Bytes) (chooseZ : Bytes → Bytes → FilterType) (c : Enc.Cfg)
    (hd : depthOk c.depth = true) (capx : Nat) :
    ∀ (frs : List SFrame) (gs : List (FC × List Bytes × Bytes)) (g : FC) (q : Nat) (ps : List UInt8) (rs : List Reader.Res),
      SLaterOk c g frs → GsOk compress chooseZ c capx g q frs gs →
      FramesOk (headerOf c) (gDec (chooseFirst chooseZ) c gs) ps rs → rs = sFrameResults c g frs ps := by
  intro frs
  induction frs with
  | nil =>
    intro gs g q ps rs _ hg h
    cases gs with
    | cons _ _ => exact hg.elim
    | nil => cases ps <;> cases rs <;> simp only [gDec, List.map_nil, FramesOk] at h <;> first | rfl | exact h.elim
  | cons fr rest ih =>
    intro gs g q ps rs hok hg h
    cases gs with
    | nil => exact hg.elim
    | cons y gs =>
      obtain ⟨_, hlen, hrest⟩ := hok
      obtain ⟨h1, h2, _, _, _, h6⟩ := hg
      have hsub : c.sub y.1 = c.sub (fcOfS c.width c.height g fr.pre) := by rw [h1]; rfl
      cases ps with
      | nil => cases rs <;> (simp [gDec, FramesOk] at h)
      | cons p ps =>
        cases rs with
        | nil => simp [gDec, FramesOk] at h
        | cons r rs =>
          simp only [gDec, List.map_cons, FramesOk] at h
          obtain ⟨⟨buf, hr, hspec, _⟩, hfo⟩ := h
          have hlen' : y.2.2.length = (c.sub y.1).rowLen * y.1.h := by rw [h2, hsub, h1]; exact hlen
          rw [specFrame_encode (chooseFirst chooseZ) c hd y.1 y.2.2 hlen'] at hspec
          cases hspec
          have := ih gs _ _ ps rs hrest h6 (by simp only [gDec]; exact hfo)
          have hB : (headerOf c).bufferSize = c.rowLen * c.height := by
            show (headerOf c).lineSize * c.height = _
            rw [headerOf_lineSize hd]
          rw [hr, this]
          simp only [sFrameResults, frame_dec, hsub, headerOf_lineSize (c := c.sub (fcOfS c.width c.height g fr.pre)) hd, hB, h2]
          rw [h1]
          rfl

/-- the file an owned stream writer leaves in a sink that never fails -/
def encodedAnimStream (E : Codec) (compress : Bytes → Bytes) (chooseZ : Bytes → Bytes → FilterType) (c : Enc.Cfg) (size : Nat)
    (frames : List SFrame) : Bytes :=
  (runProg E (scanZ compress chooseZ) c {} [] (.intoStream size (sOps frames) .finish)).state.sink.bytes

/-- **the composition for an animation written through one owned stream writer** (any metadata) -/
theorem anim_stream_encode_decode_core (cfg : Framing.Cfg) (t : TCfg) (f : Flags) (opts : Options) (limit P : Nat) (E : Codec)
    (compress : Bytes → Bytes) (chooseZ : Bytes → Bytes → FilterType) (c : Enc.Cfg) (n plays : Nat) (f0 : FC) (size : Nat)
    (fr0 : SFrame) (frs : List SFrame) (p0 : UInt8) (ps : List UInt8) (q : UInt8)
    (hI : cfg.InflateOk) (hcrc : ∀ b, cfg.crc b = crcOfList b) (ht : t.IsIdentity f)
    (hc : c.Anim n plays f0) (hsep : c.sepDefImg = false) (hm : MetaOk cfg opts.ignoreText P c)
    (hcov : f0.x = 0 ∧ f0.y = 0 ∧ f0.w = c.width ∧ f0.h = c.height)
    (hn : n = frs.length + 1) (hpre0 : ∀ o ∈ fr0.pre, o.inRange)
    (hlen0 : fr0.pieces.flatten.length = c.rowLen * c.height)
    (hl : SLaterOk c (fcOfS c.width c.height f0 fr0.pre) frs) (hsz : c.rowLen * c.height < 2 ^ 64)
    (hbud : 1 + sBudget compress chooseZ c (fcOfS c.width c.height f0 fr0.pre) frs < 2 ^ 32)
    (hnil : ∀ o, cfg.inflate [] ≠ some (o, true))
    (hinf0 : cfg.inflate (compress (rawOf (chooseFirst chooseZ) c fr0.pieces.flatten)) =
      some (rawOf (chooseFirst chooseZ) c fr0.pieces.flatten, true))
    (hinf : ∀ raw ∈ sRaws chooseZ c (fcOfS c.width c.height f0 fr0.pre) frs, cfg.inflate (compress raw) = some (raw, true))
    (hlimit : c.rowLen + sLineSum c (fcOfS c.width c.height f0 fr0.pre) frs + metaCost P c ≤ limit)
    (hps : ps.length = frs.length) :
    (Reader.run cfg t
      (R.init opts limit f (encodedAnimStream E compress chooseZ c size (fr0 :: frs))
        (encodedAnimStream E compress chooseZ c size (fr0 :: frs)).length)
      (.readInfo :: .nextFrame p0 :: (ps.map Op.nextFrame ++ [.nextFrame q]))).2 =
      .header :: .frame { width := c.width, height := c.height, color := c.color, depth := c.depth,
                          lineSize := c.rowLen } fr0.pieces.flatten ::
        (sFrameResults c (fcOfS c.width c.height f0 fr0.pre) frs ps ++ [.err .parameter "PolledAfterEndOfImage"]) := by
  have hC := crcOk_of_eq cfg hcrc
  obtain ⟨_, _, ds0, gs, hlog, hne0, hlens0, hflat0, hgs⟩ :=
    anim_stream_log E compress chooseZ c n plays f0 hc hsep hcov size fr0 frs hn hlen0 hl hsz hbud
  generalize hcapx : max (min chunkCap size) streamMinBuffer = capx at hlens0 hgs
  have hcapLe : capx ≤ chunkCap := by
    rw [← hcapx]
    have : streamMinBuffer ≤ chunkCap := by decide
    omega
  have hfile : encodedAnimStream E compress chooseZ c size (fr0 :: frs) = _ :=
    ((bytes_of_fullLog _ _ hlog).1).trans
      (sAnimBytes_eq cfg hcrc compress chooseZ c n plays hc.actl capx f0 hc.seq0 ds0 _ frs gs hgs)
  rw [hfile]
  obtain ⟨hin', hfine', _⟩ := fcOf_facts (W := c.width) (H := c.height) (fr0.pre.map SetOp.toOp) f0 hc.rect hc.fine
    (fun o ho => by
      obtain ⟨so, hso, rfl⟩ := List.mem_map.mp ho
      exact SetOp.toOp_inRange so (hpre0 so hso))
  have hg' : fcOf c.width c.height f0 (fr0.pre.map SetOp.toOp) = fcOfS c.width c.height f0 fr0.pre := rfl
  rw [hg'] at hin' hfine'
  generalize hgg : fcOfS c.width c.height f0 fr0.pre = g' at *
  have hsub : c.sub f0 = c := sub_cover c f0 hcov.2.2.1 hcov.2.2.2
  have hlen0' : fr0.pieces.flatten.length = (c.sub f0).rowLen * f0.h := by rw [hsub, hcov.2.2.2]; exact hlen0
  have hzne : compress (rawOf (chooseFirst chooseZ) c fr0.pieces.flatten) ≠ [] := by
    intro z0; rw [z0] at hinf0; exact hnil _ hinf0
  have hds0 : ds0 ≠ [] := by
    intro h0; rw [h0] at hflat0; exact hzne hflat0.symm
  have hdl : (gDec (chooseFirst chooseZ) c gs).length = frs.length := by
    rw [gDec_length, gsOk_length compress chooseZ c capx frs gs _ _ hgs]
  obtain ⟨dB, b1, b2, b3, b4, b5, hlim⟩ := meta_accepted_anim cfg hC opts limit P c n plays hc.nlt hc.plt
    (c.rowLen + sLineSum c g' frs) hm hlimit
  have hframe0 : (headerOf c).frame (fcDec f0) = headerOf c := by rw [frame_dec, hsub]
  have hls := headerOf_lineSize (c := c) hc.depth
  have hseqs := seq_sum_gs compress chooseZ c capx frs gs g' 1 hgs
  obtain ⟨buf0, rs', hrun, hspec, _, hfo⟩ :=
    apng_wf_gen cfg hI hC ht opts limit (headerOf c) (valid_of_anim hc) plays (ancBytes cfg c n plays) dB
      (gDec (chooseFirst chooseZ) c gs) b1 b2 b3 b4 (by rw [hdl, ← hn]; exact b5) (fcDec f0)
      ds0 (rawOf (chooseFirst chooseZ) c fr0.pieces.flatten)
      (fcOk_dec hc.rect hc.fine) hds0
      (fun z hz => by
        have := hlens0 z hz
        have : chunkCap < 2 ^ 32 := by decide
        omega)
      (by rw [hflat0]; exact hinf0)
      (by rw [hframe0]; exact rawOk_encode (chooseFirst chooseZ) c hc.depth fr0.pieces.flatten hlen0)
      (frameOk_gs cfg compress chooseZ c hc.depth hnil capx hcapLe frs gs g' 1 hin' hfine' hl hgs hinf)
      (by omega)
      (by rw [hls]; exact hsz)
      (by
        rw [hframe0, hls, lineSum_gs compress chooseZ c hc.depth capx frs gs g' 1 hgs]
        exact hlim)
      p0 ps (by rw [hdl]; exact hps) q
  have hrs := framesOk_gs compress chooseZ c hc.depth capx frs gs g' 1 ps rs' hl hgs hfo
  have hspec' := specFrame_encode (chooseFirst chooseZ) c hc.depth f0 fr0.pieces.flatten hlen0' (headerOf c).bufferSize p0
  rw [hsub] at hspec'
  rw [hspec'] at hspec
  have hB : (headerOf c).bufferSize = c.rowLen * c.height := by
    show (headerOf c).lineSize * c.height = _
    rw [hls]
  cases hspec
  rw [hrun, hrs, hframe0, hls, hB, hlen0, Nat.sub_self]
  simp only [List.replicate_zero, List.append_nil]
  rw [show (fcDec f0).width = c.width from hcov.2.2.1, show (fcDec f0).height = c.height from hcov.2.2.2]
  rfl

end Png.RoundTrip
