import PngVerif.Proofs.ReaderPathsRun2
import PngVerif.Proofs.ReaderToy
/-!
# Decoding paths, part 14: the run-level theorem, the reader `read_info` returns, toy streams (C13)
-/
namespace Png.Reader
open Png Png.Framing

/-- **all decoding paths agree, whole runs**: from a reader inside a frame whose remaining frames all
    decode by whole-frame calls (`ref`), any interleaving of the four calls completes only frames that
    are the reference frame of their index, and no call fails -/
theorem asmRun_agrees (cfg : Cfg) {t : TCfg} (ht : t.Ok) (hs : t.SnapIndep) {fresh : Bytes} {ref : List Bytes} {r0 : R}
    (hI : Inv t r0) (hz : ZInv cfg r0.dec) (hcaf : r0.sub.caf = false) (hF : Line0Fresh r0)
    (href : refFrames cfg t fresh r0.remaining r0 = some ref) (ops : List PathOp) :
    (asmRun cfg t fresh (r0, Asm.init fresh) ops).2.problem = false ∧
    ∀ k px, (k, px) ∈ (asmRun cfg t fresh (r0, Asm.init fresh) ops).2.frames → ref[k]? = some px := by
  have hJ : J cfg t fresh ref r0 (Asm.init fresh) :=
    ⟨hI, hz, rfl, (fun k px h => by cases h), Open.start ht hI hcaf hF href⟩
  have := asmRun_J ht hs ops hJ
  exact ⟨this.noProblem, this.frames⟩

/-- decoding a frame by row-level calls alone and placing every row gives the frame of one `next_frame` call -/
theorem rows_only_agree (cfg : Cfg) {t : TCfg} (ht : t.Ok) {i : Info} {stride bits : Nat} {r rk rE : R}
    {buf bufk B : Bytes} {oi : OutputInfo} (hc : RowCalls cfg t stride bits r buf rk bufk) (hI : Inv t r)
    (hF : Line0Fresh r) (hi : r.dec.info = some i) (hst : stride = outLineSize t i r.flags r.sub.width)
    (hbits : bits = outBits t i r.flags) (hW : frameInto cfg t r buf = (rE, .frame oi B, B))
    (hend : rk.sub.cur = none) : bufk = B := by
  obtain ⟨rEk, k1, _, k3, _, k5⟩ := path_agreement cfg ht hc hI hF hi hst hbits hW
  exact (frameInto_end cfg ht k3 (k5.info.trans hi) hend k1).1.symm

/-- successful row-level calls leave the frame's data unconsumed (`consumed_and_flushed` clear) and keep `ZInv` -/
theorem rowCalls_caf (cfg : Cfg) {t : TCfg} (ht : t.Ok) {i : Info} {stride bits : Nat} {r rk : R} {buf bufk : Bytes}
    (hc : RowCalls cfg t stride bits r buf rk bufk) :
    Inv t r → r.dec.info = some i → stride = outLineSize t i r.flags r.sub.width → ZInv cfg r.dec → r.sub.caf = false →
    rk.sub.caf = false ∧ ZInv cfg rk.dec := by
  induction hc with
  | done r buf => intro _ _ _ hz hcaf; exact ⟨hcaf, hz⟩
  | @nextRow r r1 r2 buf buf1 buf2 ii data hx hp _ ih =>
    intro hI hi hst hz hcaf
    obtain ⟨b1, b2, _, _, b5, _, _⟩ := nextRow_keeps cfg ht hI hi hx
    have hz1 := nextInterlacedRow_decP (zinv_decPred cfg) t r hz
    rw [hx] at hz1
    exact ih b1 (b2.info.trans hi) (by rw [b2.flags, b5]; exact hst) hz1 (nextRow_caf cfg ht hI hi hz hcaf hx)
  | @readRow r r1 r2 buf buf1 buf2 ii data n hn hx hp _ ih =>
    intro hI hi hst hz hcaf
    have hbuf : outLineSize t i r.flags r.sub.width ≤ n := by rw [← hst]; exact hn
    have hsr := readRow_eq_nextRow cfg ht n hI hi hbuf
    rw [hx] at hsr
    cases hxn : nextInterlacedRow cfg t r with
    | mk r1n res =>
      rw [hxn] at hsr
      obtain ⟨m1, m2⟩ := hsr
      simp only at m1 m2
      subst m2
      obtain ⟨_, _, _, _, b5, _, _⟩ := nextRow_keeps cfg ht hI hi hxn
      have hsp := readRow_spec cfg ht r n i hI hi hbuf
      rw [hx] at hsp
      have hz1 := readRow_decP (zinv_decPred cfg) t r n hz
      rw [hx] at hz1
      exact ih hsp.1 (hsp.2.1.info.trans hi) (by rw [hsp.2.1.flags, m1.sub, b5]; exact hst) hz1
        (by rw [m1.sub]; exact nextRow_caf cfg ht hI hi hz hcaf hxn)

/-- **switching to `next_frame` in the middle of a frame** (the public call): after any number of
    row-level calls it returns the frame it returns at once -/
theorem mid_frame_switch (cfg : Cfg) {t : TCfg} (ht : t.Ok) {i : Info} {stride bits : Nat} {r rk rE : R}
    {buf bufk B : Bytes} {oi : OutputInfo} (hc : RowCalls cfg t stride bits r buf rk bufk) (hI : Inv t r)
    (hz : ZInv cfg r.dec) (hF : Line0Fresh r) (hcaf : r.sub.caf = false) (hi : r.dec.info = some i)
    (hst : stride = outLineSize t i r.flags r.sub.width) (hbits : bits = outBits t i r.flags)
    (hW : nextFrameBuf cfg t r buf = (rE, .frame oi B, B)) :
    ∃ rEk, nextFrameBuf cfg t rk bufk = (rEk, .frame oi B, B) ∧ PSim False rE rEk := by
  rw [nextFrameBuf_open cfg buf hI hcaf] at hW
  obtain ⟨rEk, k1, k2, k3, _, _⟩ := path_agreement cfg ht hc hI hF hi hst hbits hW
  obtain ⟨hcafk, _⟩ := rowCalls_caf cfg ht hc hI hi hst hz hcaf
  exact ⟨rEk, by rw [nextFrameBuf_open cfg bufk k3 hcafk]; exact k1, k2⟩

/-- **skipping does not change any later call**: after `next_frame_info` returned a frame control —
    called anywhere inside the frame, or after `next_frame` decoded the frame — every sequence of
    `Reader` calls returns the same results -/
theorem skip_later_calls (cfg : Cfg) {t : TCfg} (ht : t.Ok) (hs : t.SnapIndep) {r rE : R} {buf B : Bytes}
    {oi : OutputInfo} {fc : FrameControl} (hL : Live t r) (hcaf : r.sub.caf = false)
    (hW : frameInto cfg t r buf = (rE, .frame oi B, B)) (hfc : (nextFrameInfo cfg t rE).2 = .frameInfo fc)
    (ops : List Op) (hops : ∀ op ∈ ops, op.onReader = true) :
    (nextFrameInfo cfg t r).2 = .frameInfo fc ∧
    (run cfg t (nextFrameInfo cfg t r).1 ops).2 = (run cfg t (nextFrameInfo cfg t rE).1 ops).2 := by
  obtain ⟨i, hi, _⟩ := hL.inv.info
  obtain ⟨k1, k2⟩ := skip_agrees cfg ht hL.inv hi hcaf hW
  have hIE := (frameInto_leaves cfg ht hL.inv hcaf hW).1
  have hSE := (frameInto_spec cfg ht r buf hL.inv)
  rw [hW] at hSE
  have h1 := nextFrameInfo_spec cfg r hL.inv
  have h2 := nextFrameInfo_spec cfg rE hIE
  have hL1 : Live t (nextFrameInfo cfg t r).1 := ⟨h1.2.1.dead.trans hL.dead, h1.2.1.isReader.trans hL.isReader, h1.1⟩
  have hL2 : Live t (nextFrameInfo cfg t rE).1 :=
    ⟨h2.2.1.dead.trans (hSE.2.1.dead.trans hL.dead), h2.2.1.isReader.trans (hSE.2.1.isReader.trans hL.isReader), h2.1⟩
  exact ⟨k1.trans hfc, (run_psim cfg ht (b := True) (fun _ => hs) ops _ _ hops (k2 fc hfc) hL2 hL1).2⟩

/-- **the interlace information of a delivered row is the row iterator's**: it is the reader's current
    row; in a non-interlaced frame that is the row counter (so `next_row`, which drops it, loses nothing) -/
theorem row_info (cfg : Cfg) {t : TCfg} (ht : t.Ok) {r r1 : R} {i : Info} {ii : IInfo} {data : Bytes} (hI : Inv t r)
    (hi : r.dec.info = some i) (hx : nextInterlacedRow cfg t r = (r1, .row ii data)) :
    r.sub.cur = some ii ∧
    (i.interlaced = false → ∃ k, ii = .null k ∧ k < r.sub.height ∧
      r1.sub.cur = if k + 1 < r.sub.height then some (.null (k + 1)) else none) := by
  obtain ⟨j, hj, hg⟩ := hI.info
  rw [hi] at hj; cases hj
  have hsp := nextInterlacedRow_spec cfg ht r i hI hi
  rw [hx] at hsp
  obtain ⟨_, _, _, a4⟩ := hsp
  simp only [RowRes] at a4
  obtain ⟨hcur, _, hsub⟩ := a4
  refine ⟨hcur, fun hil => ?_⟩
  have hc := hg.cur
  unfold CurOk at hc
  rw [hil, hcur] at hc
  cases ii with
  | adam7 _ _ _ => cases hit : r.sub.iter <;> (rw [hit] at hc; exact hc.elim)
  | null k =>
    cases hit : r.sub.iter with
    | adam7 _ => rw [hit] at hc; exact hc.elim
    | none n stop =>
      rw [hit] at hc; simp only at hc
      refine ⟨k, rfl, hc.2, ?_⟩
      rw [hsub]
      exact advance_null (hil ▸ hg.iter) (hil ▸ hg.cur) hcur

theorem clearPending_eq {r : R} (h : r.pendingBuf = none) : ({ r with pendingBuf := none } : R) = r := by
  cases r; simp only at h; subst h; rfl

/-- **`Reader.step` calls the functions the path theorems are about**: on a reader without a pending
    `next_frame` buffer (none is pending unless the previous `next_frame` ran out of input) the four
    operations of the model are `nextInterlacedRow`, `readRow` with the documented buffer size,
    `nextFrameInfo`, and `nextFrameBuf` on a buffer of the documented size filled with `p` -/
theorem step_is_path_op (cfg : Cfg) (t : TCfg) (r : R) (i : Info) (p : UInt8) (hr : r.isReader = true)
    (hp : r.pendingBuf = none) (hi : r.dec.info = some i) :
    step cfg t r .nextRow = nextInterlacedRow cfg t r ∧
    step cfg t r .readRow = readRow cfg t r (canvasLine t r + 0) ∧
    step cfg t r .nextFrameInfo = nextFrameInfo cfg t r ∧
    step cfg t r (.nextFrame p) = opPost (nextFrameBuf cfg t r (List.replicate (needOf t r i) p)) := by
  refine ⟨?_, ?_, ?_, ?_⟩
  · rw [step_nextRow cfg t r hr, clearPending_eq hp]
  · rw [step_readRow cfg t r i hr hi, clearPending_eq hp, canvasLine_eq t hi]; rfl
  · rw [step_nextFrameInfo cfg t r hr, clearPending_eq hp]
  · rw [step_nextFrame cfg t r p hr, nextFrameOp_eq cfg t p hi, clearPending_eq hp]
    unfold callerBuf; rw [hp]

/-! ## the reader `read_info` returns -/

theorem readUntilImageData_caf {cfg : Cfg} {t : TCfg} {r s : R} (h : readUntilImageData cfg t r = (s, .ok ())) :
    s.sub.caf = false := by
  unfold readUntilImageData at h
  cases hx : rdReadUntilImageData cfg (fuelOf r) r with
  | mk r' res =>
    rw [hx] at h
    cases res with
    | error e => cases h
    | ok u =>
      simp only at h
      cases hi : infoOf r' with
      | none => rw [hi] at h; cases h
      | some i =>
        rw [hi] at h; simp only [reserveBytes] at h
        by_cases hl : r'.dec.limit ≥ outLineSize t i r'.flags (Sub.new i).width
        · rw [if_pos hl] at h; simp only at h
          cases hb : bppFromUsize (bytesPerPixel i.color i.depth) with
          | none => rw [hb] at h; cases h
          | some bpp =>
            rw [hb] at h; simp only [Prod.mk.injEq] at h; obtain ⟨rfl, _⟩ := h; exact subNew_caf i
        · rw [if_neg hl] at h; cases h

/-- `read_info` leaves the reader at the start of the first frame with a fresh unfiltering buffer -/
theorem readInfo_start {cfg : Cfg} {t : TCfg} {r r0 : R} (hP : PreInv r) (hnr : r.isReader = false)
    (h : readInfo cfg t r = (r0, .header)) : r0.ub = UB.new ∧ r0.sub.caf = false ∧ r0.isReader = true := by
  unfold readInfo at h
  cases hx : readInfo' cfg t r with
  | mk r1 res =>
    rw [hx] at h
    cases res with
    | header =>
      simp only [Prod.mk.injEq] at h
      obtain ⟨rfl, _⟩ := h
      unfold readInfo' at hx
      rw [hnr] at hx
      simp only [Bool.false_eq_true, if_false] at hx
      have hsp := readHeaderInfo_spec cfg (fuelOf r) r (fuelOf_ge r) hP.base hP.mode
      cases hh : readHeaderInfo cfg (fuelOf r) r with
      | mk r' res' =>
        rw [hh] at hx hsp
        cases res' with
        | error e =>
          simp only [Prod.mk.injEq] at hx
          obtain ⟨_, rfl⟩ := hx
          exact absurd hsp.1 (by simp [Res.isErr])
        | ok u =>
          obtain ⟨a1, a2, a3⟩ := hsp
          simp only at hx
          cases hi : infoOf r' with
          | none => rw [hi] at hx; cases hx
          | some i =>
            rw [hi] at hx; simp only at hx
            split at hx
            · split at hx
              · cases hx
              · have hB1 : Base { r' with isReader := true } := (hP.dn a1 a2).base.congr rfl rfl rfl
                have hsp2 := readUntilImageData_spec cfg t { r' with isReader := true } hB1 a2
                cases hy : readUntilImageData cfg t { r' with isReader := true } with
                | mk r2 res2 =>
                  rw [hy] at hx hsp2
                  cases res2 with
                  | error e =>
                    simp only [Prod.mk.injEq] at hx
                    obtain ⟨_, rfl⟩ := hx
                    exact absurd hsp2.1 (by simp [Res.isErr])
                  | ok u =>
                    simp only at hx
                    cases hi2 : infoOf r2 with
                    | none => rw [hi2] at hx; cases hx
                    | some i2 =>
                      rw [hi2] at hx
                      simp only at hx
                      split at hx
                      · simp only [Prod.mk.injEq] at hx
                        obtain ⟨rfl, _⟩ := hx
                        have e1 : r2.ub = UB.new := readUntilImageData_ub hy
                        have e2 : r2.sub.caf = false := readUntilImageData_caf hy
                        have e3 : r2.isReader = true := hsp2.isReader
                        exact ⟨e1, e2, e3⟩
                      · simp only [Prod.mk.injEq] at hx
                        cases hx.2
            · cases hx
    | _ => simp only [Prod.mk.injEq] at h; cases h.2

/-- **the hypotheses of `asmRun_agrees` hold for the reader `read_info` returns** on any input shorter
    than 4 GiB -/
theorem start_good (cfg : Cfg) {t : TCfg} (ht : t.Ok) (opts : Options) (limit : Nat) (flags : Flags) (input : Bytes)
    (visible : Nat) (hlen : input.length < 2 ^ 32) {r0 : R}
    (h : step cfg t (R.init opts limit flags input visible) .readInfo = (r0, .header)) :
    Inv t r0 ∧ ZInv cfg r0.dec ∧ r0.sub.caf = false ∧ Line0Fresh r0 := by
  have hR0 := rinv_init t opts limit flags input visible hlen
  have hR := (step_spec cfg ht (R.init opts limit flags input visible) .readInfo hR0 (fun _ => rfl)).1
  have hz := step_decP (zinv_decPred cfg) t (R.init opts limit flags input visible) .readInfo
    (zinv_init cfg opts limit flags input visible)
  rw [h] at hR hz
  have h' : readInfo cfg t (R.init opts limit flags input visible) = (r0, .header) := by
    simp only [step] at h
    exact h
  have hP : PreInv (R.init opts limit flags input visible) := by
    rcases hR0 with ⟨k, _⟩ | ⟨_, k, _⟩ | ⟨_, _, k⟩
    · cases k
    · cases k
    · exact k
  obtain ⟨hub, hcaf, hrd⟩ := readInfo_start hP rfl h'
  refine ⟨?_, hz, hcaf, fun _ => by rw [hub]; exact prevRow_new⟩
  rcases hR with ⟨_, k⟩ | ⟨_, _, k⟩ | ⟨_, k, _⟩
  · rw [hrd] at k; cases k
  · exact k
  · rw [hrd] at k; cases k

end Png.Reader
