import PngVerif.Proofs.LazySpec
/-!
# Lazy reader: a file that has all the frames it declares never fails in `read_until_image_data`
-/
namespace Png.Lazy.Spec

/-- the frames still expected exist in the file; `IEND` is only consumed by `finish` -/
structure Compl (fr : List Frame) (a : A) : Prop where
  room : a.fi + lrem a < fr.length
  ended : a.atEnd = true → a.finished = true ∧ a.rem = 0 ∧ a.caf = true

theorem compl_close {fr : List Frame} {a : A} (h : Compl fr a) : Compl fr (close a) := by
  obtain ⟨e1, e2, e3, e4, e5, e6⟩ := close_fields a
  refine ⟨by rw [e1, lrem_close]; exact h.room, ?_⟩
  intro he
  rw [e5] at he
  obtain ⟨h1, h2, h3⟩ := h.ended he
  rw [close_of_caf h3]
  exact ⟨h1, h2, h3⟩

theorem compl_cur {fr : List Frame} {a : A} (c : Option Nat) (h : Compl fr a) : Compl fr { a with cur := c } :=
  ⟨h.room, h.ended⟩

theorem fatal_row (k i : Nat) : fatal (.row k i) = false := by simp [fatal]
theorem fatal_frame (k : Nat) (w : List Nat) : fatal (.frame k w) = false := by simp [fatal]
theorem fatal_fctl (k : Nat) : fatal (.fctl k) = false := by simp [fatal]

theorem compl_readUntil {fr : List Frame} {a : A} (h : Compl fr a) (hc : a.caf = true) (hr : 1 ≤ a.rem) :
    ∃ f, fr[a.fi + 1]? = some f ∧ readUntilImageData fr a =
      ({ a with fi := a.fi + 1, sub := f.rowlens, cur := firstRow f.rowlens, caf := false }, none) ∧
      Compl fr { a with fi := a.fi + 1, sub := f.rowlens, cur := firstRow f.rowlens, caf := false } := by
  have he : a.atEnd = false := by
    cases he : a.atEnd with
    | false => rfl
    | true => have := (h.ended he).2.1; omega
  have hroom := h.room
  simp only [lrem, hc, if_true] at hroom
  have hlt : a.fi + 1 < fr.length := by omega
  refine ⟨fr[a.fi + 1], List.getElem?_eq_getElem hlt, readUntil_some he (List.getElem?_eq_getElem hlt), ?_, ?_⟩
  · simp only [lrem, Bool.false_eq_true, if_false]; omega
  · intro h'; simp [he] at h'

theorem compl_frameInto {fr : List Frame} {a : A} (h : Compl fr a) :
    Compl fr (frameInto fr a).1 ∧ fatal (frameInto fr a).2 = false := by
  unfold frameInto
  simp only []
  split
  · exact ⟨compl_cur _ (compl_close h), rfl⟩
  · exact ⟨compl_cur _ (compl_close h), fatal_frame _ _⟩

theorem compl_nextRow {fr : List Frame} {a : A} (b : Bool) (h : Compl fr a) :
    Compl fr (nextRow fr a b).1 ∧ fatal (nextRow fr a b).2 = false := by
  cases hc : a.cur with
  | none => rw [nextRow_none hc]; exact ⟨compl_close h, rfl⟩
  | some i =>
    rw [nextRow_some hc]
    split
    · refine ⟨?_, fatal_row _ _⟩
      cases b
      · exact compl_cur _ h
      · exact compl_cur _ (compl_close h)
    · exact ⟨compl_close h, rfl⟩

theorem compl_nextFrame {fr : List Frame} {a : A} (h : Compl fr a) :
    Compl fr (nextFrame fr a).1 ∧ fatal (nextFrame fr a).2 = false := by
  cases hc : a.cur with
  | some i => rw [nextFrame_cur hc]; exact compl_frameInto h
  | none =>
    by_cases hr : a.rem = 0
    · rw [nextFrame_polled hc hr]; exact ⟨h, rfl⟩
    · cases hcaf : a.caf with
      | false => rw [nextFrame_open hc hr hcaf]; exact compl_frameInto h
      | true =>
        rw [nextFrame_next hc hr hcaf]
        obtain ⟨f, _, h1, h2⟩ := compl_readUntil h hcaf (by omega)
        rw [h1]
        exact compl_frameInto h2

theorem compl_nextFrameInfo {fr : List Frame} {a : A} (h : Compl fr a) :
    Compl fr (nextFrameInfo fr a).1 ∧ fatal (nextFrameInfo fr a).2 = false := by
  by_cases hr : (if a.caf = true then a.rem else a.rem - 1) = 0
  · rw [Spec.nextFrameInfo_polled hr]; exact ⟨h, rfl⟩
  · have tail : ∀ c : A, Compl fr c → c.caf = true → 1 ≤ c.rem →
        Compl fr (match readUntilImageData fr c with
          | (a2, some r) => (a2, r)
          | (a2, none) => (a2, Res.fctl a2.fi)).1 ∧
        fatal (match readUntilImageData fr c with
          | (a2, some r) => (a2, r)
          | (a2, none) => (a2, Res.fctl a2.fi)).2 = false := by
      intro c hc hcaf hrem
      obtain ⟨f, _, h1, h2⟩ := compl_readUntil hc hcaf hrem
      rw [h1]
      exact ⟨h2, fatal_fctl _⟩
    cases hc : a.caf with
    | true =>
      rw [Spec.nextFrameInfo_caf hr hc]
      simp only [hc, if_true] at hr
      exact tail a h hc (by omega)
    | false =>
      rw [Spec.nextFrameInfo_open hr hc]
      simp only [hc, Bool.false_eq_true, if_false] at hr
      refine tail _ (compl_close (compl_cur none h)) (close_fields _).2.2.2.2.2 ?_
      simp [close, hc]; omega

theorem compl_finish {fr : List Frame} {a : A} (h : Compl fr a) :
    Compl fr (finish a).1 ∧ fatal (finish a).2 = false := by
  unfold finish
  split
  · exact ⟨h, rfl⟩
  · rename_i hf
    simp only []
    have he : a.atEnd = false := by
      cases he : a.atEnd with
      | false => rfl
      | true => exact absurd (h.ended he).1 hf
    simp only [he, Bool.false_eq_true, if_false]
    refine ⟨⟨?_, fun _ => ⟨rfl, rfl, rfl⟩⟩, rfl⟩
    have := h.room
    simp only [lrem, if_true]
    omega

theorem compl_step {fr : List Frame} {a : A} (op : Op) (b : Bool) (h : Compl fr a) :
    Compl fr (step fr a op b).1 ∧ fatal (step fr a op b).2 = false := by
  cases op with
  | nextFrame => exact compl_nextFrame h
  | nextRow => exact compl_nextRow b h
  | nextFrameInfo => exact compl_nextFrameInfo h
  | finish => exact compl_finish h

theorem compl_run (fr : List Frame) : ∀ (ops : List Op) (a : A) (bs : List Bool), Compl fr a →
    ∀ r ∈ (run fr a ops bs).2, fatal r = false := by
  intro ops
  induction ops with
  | nil => intro a bs _ r hr; simp [run] at hr
  | cons op ops ih =>
    intro a bs h r hr
    simp only [run, List.mem_cons] at hr
    obtain ⟨h1, h2⟩ := compl_step op (bs.headD false) h
    rcases hr with hr | hr
    · rw [hr]; exact h2
    · exact ih _ _ h1 r hr

theorem compl_init {fr : List Frame} {rem0 : Nat} {a : A} (h : Spec.init fr rem0 = some a) (hr : 1 ≤ rem0)
    (hc : rem0 ≤ fr.length) : Compl fr a := by
  unfold Spec.init at h
  cases hf : fr[0]? with
  | none => simp [hf] at h
  | some f =>
    simp only [hf, Option.some.injEq] at h
    subst h
    refine ⟨?_, fun h => by simp at h⟩
    simp only [lrem, Bool.false_eq_true, if_false]; omega

end Png.Lazy.Spec
