import PngVerif.Proofs.ComposeReader
/-!
# Layer L2 of the C01 composition, part 2: the row loops of `next_frame`

* `Rows s ls`: the (sub)frame iterator `s` stands before the scanlines `ls` (current row first).
* `finishDecoding_trace`: `finish_decoding` reads the rest of the image data up to `ImageDataFlushed`.
* `frameRows_trace`: the non-interlaced loop writes the specification's reconstructed scanlines one after the other.
* `frameInterlaced_trace`: the interlaced loop is the specification's `Adam7.deinterlace` of them.
-/
namespace Png.Reader
open Png Png.Framing Png.WellFormed

/-! ## the scanlines an iterator still has to produce -/

/-- `(pass, line, width)` of an `InterlaceInfo`; pass 0 = not interlaced -/
def IInfo.desc (W : Nat) : IInfo → Nat × Nat × Nat
  | .null l => (0, l, W)
  | .adam7 p l w => (p, l, w)

/-- what `interlace_info_iter` will still yield -/
def iterPart (s : Sub) : List (Nat × Nat × Nat) :=
  match s.iter with
  | .none n stop => (List.range' n (stop - n)).map fun l => (0, l, s.width)
  | .adam7 it => it.rest s.width s.height

/-- the Adam7 iterator (if any) is the one for the (sub)frame's size -/
def SubWf (s : Sub) : Prop := ∀ a, s.iter = .adam7 a → a.wf s.width s.height

/-- the (sub)frame stands before the scanlines `ls`: the current row, then what the iterator yields -/
def Rows (s : Sub) (ls : List (Nat × Nat × Nat)) : Prop :=
  (∃ c, s.cur = some c ∧ ls = c.desc s.width :: iterPart s) ∨ (s.cur = none ∧ ls = [])

theorem iterPart_caf (s : Sub) (c : Bool) : iterPart { s with caf := c } = iterPart s := rfl

theorem Rows.caf {s : Sub} {ls : List (Nat × Nat × Nat)} (h : Rows s ls) (c : Bool) : Rows { s with caf := c } ls := h

theorem SubWf.advance {s : Sub} (h : SubWf s) : SubWf s.advance := by
  rcases advance_cases s with ⟨_, ha⟩ | ⟨c, it, hn, ha⟩
  · rw [ha]; exact h
  · rw [ha]
    intro a ha'
    simp only at ha'
    cases hi : s.iter with
    | none n stop =>
      rw [hi] at hn
      obtain ⟨_, h2, _⟩ := next_null hn
      rw [h2] at ha'; cases ha'
    | adam7 a0 =>
      rw [hi] at hn
      obtain ⟨i, a', hn', _, h3⟩ := next_adam7 hn
      rw [h3] at ha'; cases ha'
      have hwf := h a0 hi
      have := Adam7.next_spec s.width s.height Adam7.nextFuel a0 hwf (by have := hwf.2.2.1; simp [Adam7.nextFuel]; omega)
      rw [hn'] at this
      exact this.2

/-- after `advance` the (sub)frame stands before what the iterator had left -/
theorem rows_advance {s : Sub} (h : SubWf s) : Rows s.advance (iterPart s) := by
  rcases advance_cases s with ⟨hn, ha⟩ | ⟨c, it, hn, ha⟩
  · rw [ha]
    refine Or.inr ⟨rfl, ?_⟩
    unfold iterPart
    cases hi : s.iter with
    | none n stop =>
      rw [hi] at hn
      simp only [IIter.next] at hn
      split at hn
      · cases hn
      · rename_i hlt
        have : stop - n = 0 := by omega
        simp [this]
    | adam7 a0 =>
      rw [hi] at hn
      have hwf := h a0 hi
      have := Adam7.next_spec s.width s.height Adam7.nextFuel a0 hwf (by have := hwf.2.2.1; simp [Adam7.nextFuel]; omega)
      simp only [IIter.next] at hn
      split at hn
      · cases hn
      · rename_i hnone
        rw [hnone] at this
        exact this
  · rw [ha]
    refine Or.inl ⟨c, rfl, ?_⟩
    show iterPart s = c.desc s.width :: iterPart { s with cur := some c, iter := it }
    cases hi : s.iter with
    | none n stop =>
      rw [hi] at hn
      obtain ⟨h1, h2, h3⟩ := next_null hn
      subst h1 h2
      simp only [iterPart, hi, IInfo.desc]
      have : stop - n = (stop - (n + 1)) + 1 := by omega
      rw [this, List.range'_succ]
      simp
    | adam7 a0 =>
      rw [hi] at hn
      obtain ⟨i, a', hn', h2, h3⟩ := next_adam7 hn
      subst h2 h3
      have hwf := h a0 hi
      have := Adam7.next_spec s.width s.height Adam7.nextFuel a0 hwf (by have := hwf.2.2.1; simp [Adam7.nextFuel]; omega)
      rw [hn'] at this
      simp only [iterPart, hi, IInfo.desc]
      exact this.1

theorem Rows.advance {s : Sub} {x : Nat × Nat × Nat} {ls : List (Nat × Nat × Nat)} (hw : SubWf s) (h : Rows s (x :: ls)) :
    Rows s.advance ls := by
  rcases h with ⟨c, _, he⟩ | ⟨_, he⟩
  · cases he; exact rows_advance hw
  · cases he

theorem advance_width (s : Sub) : s.advance.width = s.width := (advance_dims s).1
theorem advance_height (s : Sub) : s.advance.height = s.height := (advance_dims s).2.1
theorem advance_rowlen (s : Sub) : s.advance.rowlen = s.rowlen := (advance_dims s).2.2.1

/-- the state `SubframeInfo::new` advances from -/
def Sub.start (i : Info) : Sub :=
  { width := (Sub.dims i).1, height := (Sub.dims i).2, rowlen := rawRowLengthFromWidth i.color i.depth (Sub.dims i).1,
    cur := none, iter := IIter.new (Sub.dims i).1 (Sub.dims i).2 i.interlaced, caf := false }

theorem subNew_eq (i : Info) : Sub.new i = (Sub.start i).advance := rfl

theorem subStart_wf (i : Info) : SubWf (Sub.start i) := by
  intro a ha
  simp only [Sub.start, IIter.new] at ha
  split at ha
  · cases ha; exact Adam7.new_wf _ _
  · cases ha

/-- `SubframeInfo::new` stands before all scanlines of the (sub)frame -/
theorem rows_new (i : Info) :
    Rows (Sub.new i) (if i.interlaced then Adam7.specRows (Sub.dims i).1 (Sub.dims i).2
      else (List.range (Sub.dims i).2).map fun l => (0, l, (Sub.dims i).1)) ∧ SubWf (Sub.new i) := by
  rw [subNew_eq]
  refine ⟨?_, (subStart_wf i).advance⟩
  have := rows_advance (subStart_wf i)
  have hw : (Sub.start i).advance.width = (Sub.dims i).1 := advance_width _
  have hip : iterPart (Sub.start i) = (if i.interlaced then Adam7.specRows (Sub.dims i).1 (Sub.dims i).2
      else (List.range (Sub.dims i).2).map fun l => (0, l, (Sub.dims i).1)) := by
    cases hil : i.interlaced with
    | true => simp [iterPart, Sub.start, IIter.new, hil, Adam7.new_rest]
    | false => simp [iterPart, Sub.start, IIter.new, hil, List.range_eq_range']
  rw [← hip]; exact this

theorem subNew_dims (i : Info) : (Sub.new i).width = (Sub.dims i).1 ∧ (Sub.new i).height = (Sub.dims i).2 ∧
    (Sub.new i).rowlen = rawRowLengthFromWidth i.color i.depth (Sub.dims i).1 ∧ (Sub.new i).caf = false := by
  rw [subNew_eq]
  exact ⟨advance_width _, advance_height _, advance_rowlen _, (advance_dims _).2.2.2⟩

/-! ## `finish_decoding` -/

theorem finishDecodingImageData_trace {cfg : Cfg} {P : Dec → Prop} {d' : Dec} {b' : Bytes} :
    ∀ (pend : List (Ev × Bytes)) (r : R) (fuel : Nat), pend.length < fuel → r.dec.out = [] → DataEvs pend →
      Trace cfg P r.dec (avail r) pend d' b' →
      ∃ r', finishDecodingImageData cfg fuel r = (r', .ok ()) ∧ After r d' b' r' ∧ r'.dec.out = [] ∧
        (pend ≠ [] → P r'.dec) := by
  intro pend
  induction pend with
  | nil => intro r fuel _ _ hev; cases hev
  | cons x rest ih =>
    intro r fuel hf ho hev ht
    obtain ⟨ev, data⟩ := x
    cases fuel with
    | zero => omega
    | succ fuel =>
      cases hev with
      | last dl =>
        obtain ⟨r1, hrun, hr1, ho1, hp1, htr1⟩ := decodeImageData_done false rfl rfl ho ht
        obtain ⟨hd1, hb1⟩ := trace_nil htr1
        refine ⟨r1, ?_, ⟨?_, hd1.symm, hb1.symm⟩, ho1, fun _ => hp1⟩
        · rw [finishDecodingImageData, hrun]
        · unfold Frame; rw [hr1]; rfl
      | more ev' data' rest' hmore hrest =>
        obtain ⟨r1, hrun, hr1, ho1, hp1, htr1⟩ := decodeImageData_more false rfl rfl ho ht hmore
        obtain ⟨r', hrun', ha', ho', hp'⟩ := ih r1 fuel (by simp at hf; omega) ho1 hrest htr1
        have hne : rest ≠ [] := by intro h; subst h; cases hrest
        refine ⟨r', ?_, ⟨?_, ha'.dec, ha'.avail⟩, ho', fun _ => hp' hne⟩
        · rw [finishDecodingImageData, hrun]; exact hrun'
        · refine Frame.trans ?_ ha'.frame
          unfold Frame; rw [hr1]; rfl

/-- the parts of a reader no decoding call changes -/
structure SameEnv (r r' : R) : Prop where
  input : r'.input = r.input
  visible : r'.visible = r.visible
  flags : r'.flags = r.flags
  isReader : r'.isReader = r.isReader
  finished : r'.finished = r.finished
  dead : r'.dead = r.dead
  pendingBuf : r'.pendingBuf = r.pendingBuf

theorem SameEnv.refl (r : R) : SameEnv r r := ⟨rfl, rfl, rfl, rfl, rfl, rfl, rfl⟩
theorem SameEnv.trans {a b c : R} (h1 : SameEnv a b) (h2 : SameEnv b c) : SameEnv a c :=
  ⟨h2.input.trans h1.input, h2.visible.trans h1.visible, h2.flags.trans h1.flags, h2.isReader.trans h1.isReader,
   h2.finished.trans h1.finished, h2.dead.trans h1.dead, h2.pendingBuf.trans h1.pendingBuf⟩

theorem Frame.sameEnv {r r' : R} (h : Frame r r') : SameEnv r r' := by
  unfold Frame at h; rw [h]; exact ⟨rfl, rfl, rfl, rfl, rfl, rfl, rfl⟩
theorem RowImplFrame.sameEnv {i : Info} {r r' : R} (h : RowImplFrame i r r') : SameEnv r r' := by
  unfold RowImplFrame at h; rw [h]; exact ⟨rfl, rfl, rfl, rfl, rfl, rfl, rfl⟩

/-- **`finish_decoding`** once all rows were read: the rest of the image data is read and discarded up to
    `ImageDataFlushed`; the frame is consumed and flushed, the decoder stands where the trace ends -/
theorem finishDecoding_trace {cfg : Cfg} {i : Info} {N : Nat} {r : R} {pend : List (Ev × Bytes)} {dEnd : Dec} {bEnd : Bytes}
    (hP : Pending cfg i N r pend dEnd bEnd) (hcur : r.sub.cur = none) :
    ∃ r', finishDecoding cfg r = (r', .ok ()) ∧ Pending cfg i N r' [] dEnd bEnd ∧
      r'.sub = { r.sub with caf := true } ∧ r'.dec = dEnd ∧ avail r' = bEnd ∧ r'.remaining + 1 = N ∧
      SameEnv r r' ∧ r'.ub = r.ub ∧ r'.cached = r.cached ∧ r'.scratchLen = r.scratchLen := by
  have hfd : finishDecoding cfg r = (if r.sub.caf then (r, .ok ()) else
      match finishDecodingImageData cfg (fuelOf r) r with
      | (r', .error e) => (r', .error e)
      | (r', .ok ()) =>
        match markFlushed r' with
        | .error e => (r', .error e)
        | .ok r2 => (r2, .ok ())) := by
    unfold finishDecoding
    simp only [hcur, Option.isSome_none, Bool.false_eq_true, if_false]
    rfl
  rw [hfd]
  rcases hP.caf with ⟨hcaf, hev, hrem⟩ | ⟨hcaf, hnil, hrem⟩
  · simp only [hcaf, Bool.false_eq_true, if_false]
    obtain ⟨r1, hrun, ha, ho1, hp1⟩ := finishDecodingImageData_trace pend r (fuelOf r) hP.length_lt hP.out hev hP.trace
    have hne : pend ≠ [] := by intro h; subst h; cases hev
    have hfr := ha.frame
    have hse := hfr.sameEnv
    unfold Frame at hfr
    have hrem1 : r1.remaining = N := by rw [hfr]; exact hrem
    have hsub1 : r1.sub = r.sub := by rw [hfr]
    have hub1 : r1.ub = r.ub := by rw [hfr]
    have hca1 : r1.cached = r.cached := by rw [hfr]
    have hsl1 : r1.scratchLen = r.scratchLen := by rw [hfr]
    have hN := hP.hN
    rw [hrun]
    simp only
    have hmf : markFlushed r1 = .ok { r1 with remaining := r1.remaining - 1, sub := { r1.sub with caf := true } } := by
      unfold markFlushed; rw [if_neg (by omega)]
    rw [hmf]
    refine ⟨_, rfl, ⟨ho1, hp1 hne, ?_, Or.inr ⟨rfl, rfl, by show r1.remaining - 1 + 1 = N; omega⟩, hN⟩, ?_, ha.dec,
      ha.avail, by show r1.remaining - 1 + 1 = N; omega, ⟨hse.input, hse.visible, hse.flags, hse.isReader,
        hse.finished, hse.dead, hse.pendingBuf⟩, hub1, hca1, hsl1⟩
    · show Trace cfg _ r1.dec (avail r1) [] dEnd bEnd
      rw [ha.dec, ha.avail]; exact .nil _ _
    · show ({ r1.sub with caf := true } : Sub) = _
      rw [hsub1]
  · simp only [hcaf, if_true]
    subst hnil
    obtain ⟨hd, hb⟩ := trace_nil hP.trace
    refine ⟨r, rfl, hP, ?_, hd.symm, hb.symm, hrem, SameEnv.refl r, rfl, rfl, rfl⟩
    cases hs : r.sub with
    | mk w h rl cur iter caf => rw [hs] at hcaf; simp only at hcaf; subst hcaf; rfl


/-! ## the non-interlaced row loop -/

theorem ofNat?_of_le {n : Nat} (h : n ≤ 4) : ∃ ft, FilterType.ofNat? n = some ft := by
  have : n = 0 ∨ n = 1 ∨ n = 2 ∨ n = 3 ∨ n = 4 := by omega
  rcases this with rfl | rfl | rfl | rfl | rfl <;> exact ⟨_, rfl⟩

theorem Rows.cur_none {s : Sub} (h : Rows s []) : s.cur = none := by
  rcases h with ⟨c, _, he⟩ | ⟨h, _⟩
  · cases he
  · exact h

theorem setSlice_take (buf row : Bytes) (a : Nat) (ha : a ≤ buf.length) :
    (setSlice buf a row).take (a + row.length) = buf.take a ++ row := by
  unfold setSlice
  have h1 : (buf.take a ++ row).length = a + row.length := by simp; omega
  rw [List.take_left' h1]

/-- the reconstructed scanlines of a non-interlaced image fill `n` rows of `rb W` bytes -/
theorem unfilterScanlines_uniform_length (unit : Nat) (rb : Nat → Nat) (W : Nat) :
    ∀ (n k : Nat) (prev S : Bytes), ScanlinesOk rb ((List.range' k n).map fun l => (0, l, W)) S →
      (unfilterScanlines unit rb ((List.range' k n).map fun l => (0, l, W)) prev S).flatten.length = n * rb W := by
  intro n
  induction n with
  | zero => intro k prev S _; simp [unfilterScanlines]
  | succ n ih =>
    intro k prev S hok
    rw [List.range'_succ, List.map_cons] at hok ⊢
    obtain ⟨hlen, hhead, hrest⟩ := hok
    obtain ⟨ft, hft⟩ := ofNat?_of_le hhead
    simp only [unfilterScanlines, hft, List.flatten_cons, List.length_append]
    rw [ih (k + 1) _ _ hrest]
    unfold reconRow
    rw [recon_length]
    simp only [List.length_take, List.length_drop]
    rw [Nat.succ_mul]
    omega

/-- facts about the reader after one row -/
theorem RowImplFrame.facts {i : Info} {r r' : R} (h : RowImplFrame i r r') :
    r'.sub = { r.sub.advance with caf := r'.sub.caf } ∧ r'.bpp = r.bpp ∧ r'.flags = r.flags ∧
    r'.cached = some (r.cached.getD i) ∧ r'.scratchLen = r.scratchLen := by
  unfold RowImplFrame at h
  refine ⟨?_, ?_, ?_, ?_, ?_⟩ <;> rw [h]

/-- **the non-interlaced loop of `next_frame`**: rows `k..H` are written one after the other behind the first
    `k` rows of the buffer; they are the specification's reconstruction of the scanlines of `S` -/
theorem frameRows_trace (cfg : Cfg) {t : TCfg} {f : Flags} (ht : t.IsIdentity f) (i : Info)
    (hleg : (i.color, i.depth) ∈ legalPairs) (N : Nat) (dEnd : Dec) (bEnd : Bytes) (rb : Nat → Nat) (unit W H LS : Nat)
    (hLS : 1 ≤ LS) (hrb : rb W = LS) (hunit : 1 ≤ unit) (hdvd : unit ∣ LS) :
    ∀ (n k : Nat) (r : R) (buf S : Bytes) (pend : List (Ev × Bytes)), k + n = H →
      Pending cfg i N r pend dEnd bEnd → r.ub.abs.pending ++ dataOf pend = S → r.ub.Inv → r.bpp = unit → r.flags = f →
      CachedLegal r → r.sub.rowlen = LS + 1 → r.sub.width = W → SubWf r.sub →
      Rows r.sub ((List.range' k n).map fun l => (0, l, W)) →
      ScanlinesOk rb ((List.range' k n).map fun l => (0, l, W)) S →
      (k = 0 → r.ub.prevRow = []) → (k ≠ 0 → r.ub.prevRow.length = LS) → H * LS ≤ buf.length →
      ∃ r' pend', frameRows cfg t LS n k r buf =
          (r', buf.take (k * LS) ++
            ((unfilterScanlines unit rb ((List.range' k n).map fun l => (0, l, W)) r.ub.prevRow S).flatten ++
              buf.drop (H * LS)), none) ∧
        Pending cfg i N r' pend' dEnd bEnd ∧ r'.sub.cur = none ∧ SameEnv r r' ∧
        r'.sub.width = r.sub.width ∧ r'.sub.height = r.sub.height ∧ CachedLegal r' := by
  intro n
  induction n with
  | zero =>
    intro k r buf S pend hk hP _ _ _ _ hca _ _ _ hrows _ _ _ hbuf
    refine ⟨r, pend, ?_, hP, hrows.cur_none, SameEnv.refl r, rfl, rfl, hca⟩
    simp only [frameRows, List.range'_zero, List.map_nil, unfilterScanlines, List.flatten_nil, List.nil_append]
    simp only [Nat.add_zero] at hk
    subst hk
    rw [List.take_append_drop]
  | succ n ih =>
    intro k r buf S pend hk hP hS hinv hbpp hfl hca hrl hw hwf hrows hok hp0 hp1 hbuf
    rw [List.range'_succ, List.map_cons] at hrows hok ⊢
    obtain ⟨hlen, hhead, hrest⟩ := hok
    obtain ⟨ft, hft⟩ := ofNat?_of_le hhead
    rw [hrb] at hlen hrest
    have hprev : r.ub.prevRow = [] ∨ r.ub.prevRow.length = (LS + 1) - 1 := by
      by_cases hk0 : k = 0
      · exact Or.inl (hp0 hk0)
      · exact Or.inr (by rw [hp1 hk0]; omega)
    obtain ⟨r1, pend1, hrun, hP1, hinv1, hrow1, hpend1, hfr1⟩ :=
      nextRowImpl_trace cfg ht i hleg N (LS + 1) ft dEnd bEnd (by omega) pend r hfl hca hP hinv hprev
        (by rw [hS]; omega) (by rw [hS]; exact hft)
    obtain ⟨hsub1, hbpp1, hfl1, hca1, _⟩ := hfr1.facts
    rw [hS] at hrun hrow1 hpend1
    have hsub : (LS + 1) - 1 = LS := by omega
    rw [hsub] at hrun hrow1
    -- the row is the specification's
    have hdl : ((S.drop 1).take LS).length = LS := by simp only [List.length_take, List.length_drop]; omega
    have hspec : unfilterImpl ft r.bpp r.ub.prevRow ((S.drop 1).take LS) =
        reconRow ft unit (if k = 0 then [] else r.ub.prevRow) ((S.drop 1).take LS) := by
      rw [hbpp, unfilterImpl_eq_spec ft unit hunit _ _ (by rw [hdl]; exact hdvd) (by rw [hdl]; simpa using hprev)]
      by_cases hk0 : k = 0
      · rw [if_pos hk0, hp0 hk0]
      · rw [if_neg hk0]
    generalize hrowv : unfilterImpl ft r.bpp r.ub.prevRow ((S.drop 1).take LS) = row at hrun hrow1 hspec
    have hrowlen : row.length = LS := by rw [← hrowv, unfilterImpl_length]; exact hdl
    have hkH : k + 1 ≤ H := by omega
    have hkLS : (k + 1) * LS ≤ buf.length := Nat.le_trans (Nat.mul_le_mul_right _ hkH) hbuf
    have hkLS' : k * LS + LS = (k + 1) * LS := by rw [Nat.succ_mul]
    have hbuf1 : H * LS ≤ (setSlice buf (k * LS) row).length := by
      rw [setSlice_length _ _ _ (by rw [hrowlen]; omega)]; exact hbuf
    have hdrop1 : (setSlice buf (k * LS) row).drop (H * LS) = buf.drop (H * LS) := by
      have hle : (k + 1) * LS ≤ H * LS := Nat.mul_le_mul_right _ hkH
      unfold setSlice
      have hl : (buf.take (k * LS) ++ row).length = (k + 1) * LS := by
        simp only [List.length_append, List.length_take, hrowlen]; omega
      rw [List.drop_append, List.drop_of_length_le (by rw [hl]; exact hle), List.nil_append, hl, List.drop_drop, hrowlen]
      congr 1; omega
    obtain ⟨r2, pend2, hrun2, hP2, hcur2, hse2, hw2, hh2, hca2⟩ := ih (k + 1) r1 (setSlice buf (k * LS) row) (S.drop (LS + 1)) pend1
      (by omega) hP1 hpend1 hinv1 (by rw [hbpp1]; exact hbpp) (by rw [hfl1]; exact hfl) (cachedLegal_after hleg hca hca1)
      (by rw [hsub1]; exact (advance_rowlen _).trans hrl) (by rw [hsub1]; exact (advance_width _).trans hw)
      (by rw [hsub1]; exact hwf.advance) (by rw [hsub1]; exact (hrows.advance hwf).caf _)
      (by rw [Nat.add_comm LS 1]; exact hrest) (by omega) (fun _ => by rw [hrow1]; exact hrowlen) hbuf1
    refine ⟨r2, pend2, ?_, hP2, hcur2, hfr1.sameEnv.trans hse2, ?_, ?_, hca2⟩
    · rw [frameRows, if_neg (by omega), hrl, hrun]
      simp only
      rw [hrun2]
      congr 1
      congr 1
      have e1 : (setSlice buf (k * LS) row).take ((k + 1) * LS) = buf.take (k * LS) ++ row := by
        have := setSlice_take buf row (k * LS) (by omega)
        rw [hrowlen, hkLS'] at this; exact this
      have e2 : unfilterScanlines unit rb ((0, k, W) :: (List.range' (k + 1) n).map fun l => (0, l, W)) r.ub.prevRow S =
          row :: unfilterScanlines unit rb ((List.range' (k + 1) n).map fun l => (0, l, W)) row (S.drop (LS + 1)) := by
        simp only [unfilterScanlines, hft, hrb]
        rw [← hspec, Nat.add_comm 1 LS]
      rw [e1, e2, hrow1, hdrop1, List.flatten_cons, List.append_assoc, List.append_assoc]
    · rw [hw2, hsub1]; exact advance_width _
    · rw [hh2, hsub1]; exact advance_height _


/-! ## the interlaced row loop -/

theorem outLineSize_id {t : TCfg} {f : Flags} (ht : t.IsIdentity f) (i : Info) (w : Nat) :
    outLineSize t i f w = rawRowLengthFromWidth i.color i.depth w - 1 := by
  rw [outLineSize_eq, ht.out]

/-- `next_interlaced_row` when all rows were read: `finish_decoding`, then `None` -/
theorem nextInterlacedRow_none {cfg : Cfg} {t : TCfg} {i : Info} {N : Nat} {r : R} {pend : List (Ev × Bytes)} {dEnd : Dec}
    {bEnd : Bytes} (hP : Pending cfg i N r pend dEnd bEnd) (hcur : r.sub.cur = none) :
    ∃ r', nextInterlacedRow cfg t r = (r', .noRow) ∧ Pending cfg i N r' [] dEnd bEnd ∧
      r'.sub = { r.sub with caf := true } ∧ r'.dec = dEnd ∧ avail r' = bEnd ∧ r'.remaining + 1 = N ∧
      SameEnv r r' ∧ r'.ub = r.ub ∧ r'.cached = r.cached := by
  have hP' : Pending cfg i N { r with scratchLen := outLineSize t i r.flags r.sub.width } pend dEnd bEnd :=
    ⟨hP.out, hP.info, hP.trace, hP.caf, hP.hN⟩
  obtain ⟨r', hrun, h1, h2, h3, h4, h5, h6, h7, h8, _⟩ := finishDecoding_trace hP' hcur
  refine ⟨r', ?_, h1, h2, h3, h4, h5, ⟨h6.input, h6.visible, h6.flags, h6.isReader, h6.finished, h6.dead, h6.pendingBuf⟩, h7, h8⟩
  unfold nextInterlacedRow
  have : infoOf r = some i := hP.info
  simp only [this]
  unfold readRow
  simp only [hcur, hrun]

/-- `next_interlaced_row` on a row `c` (line `c.line` of width `w`): the row the specification reconstructs from the
    next scanline of `S` -/
theorem nextInterlacedRow_row (cfg : Cfg) {t : TCfg} {f : Flags} (ht : t.IsIdentity f) (i : Info)
    (hleg : (i.color, i.depth) ∈ legalPairs) (N : Nat) (dEnd : Dec) (bEnd : Bytes) (pend : List (Ev × Bytes)) (r : R)
    (S : Bytes) (c : IInfo) (l w : Nat) (ft : FilterType) (hcl : c.line = l) (hcw : widthOf r.sub c = w)
    (hrlc : rowlenOf i.color i.depth r.sub c = rawRowLengthFromWidth i.color i.depth w)
    (hfl : r.flags = f) (hbpp : r.bpp = bytesPerPixel i.color i.depth)
    (hca : CachedLegal r) (hP : Pending cfg i N r pend dEnd bEnd)
    (hS : r.ub.abs.pending ++ dataOf pend = S) (hinv : r.ub.Inv) (hcur : r.sub.cur = some c)
    (hw1 : 1 ≤ w) (hwW : w ≤ r.sub.width)
    (hprev : l ≠ 0 → r.ub.prevRow = [] ∨ r.ub.prevRow.length + 1 = rawRowLengthFromWidth i.color i.depth w)
    (hlen : rawRowLengthFromWidth i.color i.depth w ≤ S.length)
    (hft : FilterType.ofNat? (S.headD 0).toNat = some ft) :
    ∃ r' pend', nextInterlacedRow cfg t r =
        (r', .row c (reconRow ft (bytesPerPixel i.color i.depth) (if l = 0 then [] else r.ub.prevRow)
          ((S.drop 1).take (rawRowLengthFromWidth i.color i.depth w - 1)))) ∧
      Pending cfg i N r' pend' dEnd bEnd ∧ r'.ub.Inv ∧
      r'.ub.prevRow = reconRow ft (bytesPerPixel i.color i.depth) (if l = 0 then [] else r.ub.prevRow)
          ((S.drop 1).take (rawRowLengthFromWidth i.color i.depth w - 1)) ∧
      r'.ub.abs.pending ++ dataOf pend' = S.drop (rawRowLengthFromWidth i.color i.depth w) ∧
      r'.sub = { r.sub.advance with caf := r'.sub.caf } ∧ r'.bpp = r.bpp ∧ r'.flags = r.flags ∧
      r'.cached = some (r.cached.getD i) ∧ SameEnv r r' := by
  have hd := (legal_pos hleg).2.2
  have hrl2 := rowlen_ge2 hleg hw1
  generalize hRL : rawRowLengthFromWidth i.color i.depth w = RL at *
  -- the reader `read_row` works on
  have hinfo : infoOf r = some i := hP.info
  obtain ⟨rS, hrS⟩ : ∃ x : R, x = { r with scratchLen := outLineSize t i r.flags r.sub.width } := ⟨_, rfl⟩
  have hni : nextInterlacedRow cfg t r = readRow cfg t rS (outLineSize t i r.flags r.sub.width) := by
    subst hrS; unfold nextInterlacedRow; simp only [hinfo]
  have hcurS : rS.sub.cur = some c := by rw [hrS]; exact hcur
  have hrr := readRow_some cfg t rS (outLineSize t i r.flags r.sub.width) c hcurS
  generalize hr0 : (if c.line = 0 then ({ rS with ub := rS.ub.resetPrev } : R) else rS) = r0 at hrr
  have hr0' : r0 = { r with scratchLen := outLineSize t i r.flags r.sub.width, ub := if l = 0 then r.ub.resetPrev else r.ub } := by
    subst hr0 hrS hcl; by_cases hl : c.line = 0 <;> simp [hl]
  have hub0 : r0.ub = if l = 0 then r.ub.resetPrev else r.ub := by rw [hr0']
  have hpend0 : r0.ub.abs.pending = r.ub.abs.pending := by
    rw [hub0]; by_cases hl : l = 0
    · rw [if_pos hl, UB.abs_resetPrev]; rfl
    · rw [if_neg hl]
  have hprev0 : r0.ub.prevRow = if l = 0 then [] else r.ub.prevRow := by
    rw [hub0]; by_cases hl : l = 0
    · rw [if_pos hl, if_pos hl, prevRow_resetPrev]
    · rw [if_neg hl, if_neg hl]
  have hinv0 : r0.ub.Inv := by
    rw [hub0]; by_cases hl : l = 0
    · rw [if_pos hl]; exact UB.inv_resetPrev _ hinv
    · rw [if_neg hl]; exact hinv
  have hP0 : Pending cfg i N r0 pend dEnd bEnd := by
    rw [hr0']; exact ⟨hP.out, hP.info, hP.trace, hP.caf, hP.hN⟩
  have hprev0' : r0.ub.prevRow = [] ∨ r0.ub.prevRow.length = RL - 1 := by
    rw [hprev0]; by_cases hl : l = 0
    · rw [if_pos hl]; exact Or.inl rfl
    · rw [if_neg hl]
      rcases hprev hl with h | h
      · exact Or.inl h
      · exact Or.inr (by omega)
  obtain ⟨r1, pend1, hrun, hP1, hinv1, hrow1, hpend1, hfr1⟩ :=
    nextRowImpl_trace cfg ht i hleg N RL ft dEnd bEnd hrl2 pend r0 (by rw [hr0']; exact hfl) (by intro s0 hs0; rw [hr0'] at hs0; exact hca s0 hs0)
      hP0 hinv0 hprev0' (by rw [hpend0, hS]; exact hlen) (by rw [hpend0, hS]; exact hft)
  rw [hpend0, hS] at hrun hrow1 hpend1
  obtain ⟨hsub1, hbpp1, hfl1, hca1, _⟩ := hfr1.facts
  have hdl : ((S.drop 1).take (RL - 1)).length = RL - 1 := by simp only [List.length_take, List.length_drop]; omega
  have hbpp0 : r0.bpp = r.bpp := by rw [hr0']
  have hspec : unfilterImpl ft r0.bpp r0.ub.prevRow ((S.drop 1).take (RL - 1)) =
      reconRow ft (bytesPerPixel i.color i.depth) (if l = 0 then [] else r.ub.prevRow) ((S.drop 1).take (RL - 1)) := by
    rw [hbpp0, hbpp, unfilterImpl_eq_spec ft _ (bpp_total _ _ hleg).2 _ _
      (by rw [hdl, ← hRL]; exact rowlen_multiple _ _ _ hleg) (by rw [hdl]; exact hprev0'), hprev0]
  rw [hspec] at hrun hrow1
  have hse : SameEnv r r1 := by
    refine SameEnv.trans (b := r0) ?_ hfr1.sameEnv
    rw [hr0']; exact ⟨rfl, rfl, rfl, rfl, rfl, rfl, rfl⟩
  have hsub0 : r0.sub = r.sub := by rw [hr0']
  refine ⟨r1, pend1, ?_, hP1, hinv1, hrow1, hpend1, by rw [← hsub0]; exact hsub1, hbpp1.trans hbpp0,
    by rw [hfl1, hr0'], by rw [hca1, hr0'], hse⟩
  rw [hni, hrr]
  have hinfo0 : infoOf r0 = some i := hP0.info
  simp only [hinfo0]
  have hfl0 : r0.flags = f := by rw [hr0']; exact hfl
  have hols : lineSizeFor t r0 i c = RL - 1 := by
    rw [lineSizeFor_eq, hsub0, hcw, hfl0, outLineSize_id ht, hRL]
  have hbl : ¬ outLineSize t i r.flags r.sub.width < lineSizeFor t r0 i c := by
    rw [hols, hfl, outLineSize_id ht]
    have := rowlen_mono (c := i.color) hd hwW
    omega
  have hrlo : rowlenOf i.color i.depth r0.sub c = RL := by rw [hsub0]; exact hrlc
  rw [if_neg hbl, hols, hrlo, hrun]

theorem deinterlace_cons {img img' : Bytes} {stride bits : Nat} {x : Adam7.Adam7Info × Bytes}
    (xs : List (Adam7.Adam7Info × Bytes)) (h : Adam7.expandPass img stride x.2 x.1 bits = some img') :
    Adam7.deinterlace img stride bits (x :: xs) = Adam7.deinterlace img' stride bits xs := by
  unfold Adam7.deinterlace Adam7.deinterlaceWith
  unfold Adam7.expandPass at h
  simp only [Adam7.foldOpt, h]

/-- the rows with their contents, as `Adam7.deinterlace` takes them -/
def passRows (ls : List (Nat × Nat × Nat)) (rows : List Bytes) : List (Adam7.Adam7Info × Bytes) :=
  (ls.zip rows).map fun x => ({ pass := x.1.1, line := x.1.2.1, width := x.1.2.2 }, x.2)

theorem curOk_adam7 {s : Sub} {c : IInfo} (hw : IterWf true s) (hc : CurOk true s) (hcur : s.cur = some c) :
    ∃ p l w, c = .adam7 p l w ∧ 1 ≤ p ∧ p ≤ 7 ∧ w = Adam7.passW s.width p ∧ 1 ≤ w ∧ l < Adam7.passH s.height p := by
  unfold IterWf at hw
  unfold CurOk at hc
  rw [hcur] at hc
  cases hi : s.iter with
  | none n stop => rw [hi] at hw; exact hw.elim
  | adam7 it =>
    rw [hi] at hc
    cases c with
    | null l => exact hc.elim
    | adam7 p l w =>
      simp only at hc
      obtain ⟨h1, h2, _, _, _, h6, h7, h8⟩ := hc
      exact ⟨p, l, w, rfl, h1, h2, h6, h7, h8⟩

theorem IterWf.subWf {s : Sub} (h : IterWf true s) : SubWf s := by
  intro a ha
  unfold IterWf at h
  rw [ha] at h
  exact h

theorem passW_le (W p : Nat) (hp : 1 ≤ p ∧ p ≤ 7) : Adam7.passW W p ≤ W :=
  Adam7.dim_le _ _ _ (Adam7.step_pos hp).1

/-- **the interlaced loop of `next_frame`**: `next_interlaced_row` + `expand_pass` until `None` is the
    specification's `Adam7.deinterlace` of the specification's reconstructed scanlines of `S`; when the loop ends
    the frame is consumed and flushed -/
theorem frameInterlaced_trace (cfg : Cfg) {t : TCfg} {f : Flags} (ht : t.IsIdentity f) (i : Info)
    (hleg : (i.color, i.depth) ∈ legalPairs) (N : Nat) (dEnd : Dec) (bEnd : Bytes) (W H : Nat) (hH : 1 ≤ H) :
    ∀ (ls : List (Nat × Nat × Nat)) (r : R) (buf S : Bytes) (pend : List (Ev × Bytes)) (fuel : Nat), ls.length < fuel →
      Pending cfg i N r pend dEnd bEnd → r.ub.abs.pending ++ dataOf pend = S → r.ub.Inv →
      r.bpp = bytesPerPixel i.color i.depth → r.flags = f → CachedLegal r →
      r.sub.width = W → r.sub.height = H → IterWf true r.sub → CurOk true r.sub →
      PrevOk i.color i.depth r.sub r.ub.prevRow → Rows r.sub ls →
      ScanlinesOk (fun w => rawRowLengthFromWidth i.color i.depth w - 1) ls S →
      H * (rawRowLengthFromWidth i.color i.depth W - 1) ≤ buf.length →
      ∃ r' buf', frameInterlaced cfg t (rawRowLengthFromWidth i.color i.depth W - 1) (samplesOf i.color * i.depth) fuel r buf =
          (r', buf', none) ∧
        Adam7.deinterlace buf (rawRowLengthFromWidth i.color i.depth W - 1) (samplesOf i.color * i.depth)
          (passRows ls (unfilterScanlines (bytesPerPixel i.color i.depth)
            (fun w => rawRowLengthFromWidth i.color i.depth w - 1) ls r.ub.prevRow S)) = some buf' ∧
        buf'.length = buf.length ∧
        Pending cfg i N r' [] dEnd bEnd ∧ r'.sub.cur = none ∧ r'.sub.caf = true ∧ r'.dec = dEnd ∧ avail r' = bEnd ∧
        r'.remaining + 1 = N ∧ SameEnv r r' ∧ r'.sub.width = r.sub.width ∧ r'.sub.height = r.sub.height ∧
        CachedLegal r' := by
  intro ls
  induction ls with
  | nil =>
    intro r buf S pend fuel hf hP _ _ _ _ hca _ _ _ _ _ hrows _ _
    obtain ⟨r', hrun, h1, h2, h3, h4, h5, h6, _, h8⟩ := nextInterlacedRow_none (t := t) hP hrows.cur_none
    cases fuel with
    | zero => omega
    | succ fuel =>
      refine ⟨r', buf, ?_, ?_, rfl, h1, by rw [h2]; exact hrows.cur_none, by rw [h2], h3, h4, h5, h6, by rw [h2], by rw [h2],
        fun s0 hs0 => hca s0 (h8 ▸ hs0)⟩
      · rw [frameInterlaced, hrun]
      · simp [passRows, unfilterScanlines, Adam7.deinterlace, Adam7.deinterlaceWith, Adam7.foldOpt]
  | cons x rest ih =>
    intro r buf S pend fuel hf hP hS hinv hbpp hfl hca hw hh hiw hcu hpo hrows hok hbuf
    obtain ⟨p, l, w⟩ := x
    obtain ⟨hlen, hhead, hrest⟩ := hok
    simp only at hlen hrest
    obtain ⟨ft, hft⟩ := ofNat?_of_le hhead
    -- the current row
    have hcurE : ∃ c, r.sub.cur = some c ∧ (p, l, w) = c.desc r.sub.width := by
      rcases hrows with ⟨c, h1, h2⟩ | ⟨_, h2⟩
      · exact ⟨c, h1, (List.cons.inj h2).1⟩
      · cases h2
    obtain ⟨c, hcur, hdesc⟩ := hcurE
    obtain ⟨pc, lc, wc, hc, hp1, hp7, hwp, hw1, hlp⟩ := curOk_adam7 hiw hcu hcur
    subst hc
    simp only [IInfo.desc, Prod.mk.injEq] at hdesc
    obtain ⟨h1, h2, h3⟩ := hdesc
    subst h1 h2 h3
    have hwle : w ≤ r.sub.width := by rw [hwp]; exact passW_le _ _ ⟨hp1, hp7⟩
    have hrl2 := rowlen_ge2 hleg hw1
    have hprev : l ≠ 0 → r.ub.prevRow = [] ∨ r.ub.prevRow.length + 1 = rawRowLengthFromWidth i.color i.depth w := by
      unfold PrevOk at hpo; rw [hcur] at hpo; exact hpo
    obtain ⟨r1, pend1, hrun, hP1, hinv1, hrow1, hpend1, hsub1, hbpp1, hfl1, hca1, hse1⟩ :=
      nextInterlacedRow_row cfg ht i hleg N dEnd bEnd pend r S (.adam7 p l w) l w ft rfl rfl rfl hfl hbpp hca hP hS hinv hcur hw1 hwle hprev
        (by omega) hft
    generalize hrowv : reconRow ft (bytesPerPixel i.color i.depth) (if l = 0 then [] else r.ub.prevRow)
      ((S.drop 1).take (rawRowLengthFromWidth i.color i.depth w - 1)) = row at hrun hrow1
    have hrowlen : row.length = rawRowLengthFromWidth i.color i.depth w - 1 := by
      rw [← hrowv]; unfold reconRow; rw [recon_length]
      simp only [List.length_take, List.length_drop]; omega
    obtain ⟨buf1, hex, hbl⟩ := expandPass_fits (c := i.color) (d := i.depth) (W := W) (H := H) (w := w) (p := p) (l := l)
      (stride := rawRowLengthFromWidth i.color i.depth W - 1) (buf := buf) (data := row) hleg ⟨hp1, hp7⟩
      (by rw [hwp, hw]) (by rw [← hh]; exact hlp) hH rfl hrowlen hbuf
    cases fuel with
    | zero => omega
    | succ fuel =>
      have hadv := advance_ok hiw
      have hpo1 : PrevOk i.color i.depth r.sub.advance row :=
        advance_prev (color := i.color) (depth := i.depth) (prev := row) hiw hcu hcur (by
          simp only [rowlenOf]; rw [hrowlen]; omega)
      obtain ⟨r2, buf2, hrun2, hde2, hbl2, hP2, hcur2, hcaf2, hdec2, hav2, hrem2, hse2, hw2, hh2, hca2⟩ :=
        ih r1 buf1 (S.drop (rawRowLengthFromWidth i.color i.depth w)) pend1 fuel (by simp at hf; omega) hP1 hpend1 hinv1
          (hbpp1.trans hbpp) (hfl1.trans hfl) (cachedLegal_after hleg hca hca1)
          (by rw [hsub1]; exact (advance_width _).trans hw) (by rw [hsub1]; exact (advance_height _).trans hh)
          (by rw [hsub1]; exact hadv.1) (by rw [hsub1]; exact hadv.2)
          (by rw [hsub1, hrow1]; exact hpo1) (by rw [hsub1]; exact (hrows.advance hiw.subWf).caf _)
          (by
            have : 1 + (rawRowLengthFromWidth i.color i.depth w - 1) = rawRowLengthFromWidth i.color i.depth w := by omega
            rw [this] at hrest; exact hrest)
          (by rw [hbl]; exact hbuf)
      refine ⟨r2, buf2, ?_, ?_, hbl2.trans hbl, hP2, hcur2, hcaf2, hdec2, hav2, hrem2, hse1.trans hse2, ?_, ?_, hca2⟩
      · rw [frameInterlaced, hrun]
        simp only [hex]
        exact hrun2
      · have e2 : unfilterScanlines (bytesPerPixel i.color i.depth) (fun w => rawRowLengthFromWidth i.color i.depth w - 1)
            ((p, l, w) :: rest) r.ub.prevRow S =
            row :: unfilterScanlines (bytesPerPixel i.color i.depth) (fun w => rawRowLengthFromWidth i.color i.depth w - 1)
              rest row (S.drop (rawRowLengthFromWidth i.color i.depth w)) := by
          simp only [unfilterScanlines, hft, hrowv]
          have : 1 + (rawRowLengthFromWidth i.color i.depth w - 1) = rawRowLengthFromWidth i.color i.depth w := by omega
          rw [this]
        rw [e2]
        simp only [passRows, List.zip_cons_cons, List.map_cons]
        rw [deinterlace_cons _ hex]
        rw [hrow1] at hde2
        exact hde2
      · rw [hw2, hsub1]; exact advance_width _
      · rw [hh2, hsub1]; exact advance_height _

end Png.Reader
