import PngVerif.Generated.KernelsParsers
import PngVerif.Model.Framing
import PngVerif.Proofs.KernelTactic
/-!
# The chunk body as the translated parsers see it (`Props/KernelsParsers*.lean`)

The translator (`tools/rs2lean.py`, group `Parsers`) gives a chunk parser the chunk body as `body : List Int` and reads it at
constant offsets (`Gen.beU8/16/32 body k` after the length test `k + w ≤ body.length`); the framing model reads `Bytes` with
`rdU8/16/32`, which consume a prefix.  This file relates the two: `bInt raw` is the body of the model as a `List Int`, a read of the
model at `raw.drop k` is the length test and the big-endian value at offset `k`.
-/
namespace Png.Kernels
open Png Png.Framing

/-- the chunk body of the model (`Dec.raw`) as the translated parsers take it -/
def bInt (raw : Bytes) : List Int := raw.map (fun b => (b.toNat : Int))

@[simp] theorem bInt_length (raw : Bytes) : (bInt raw).length = raw.length := by simp [bInt]

theorem bInt_getD (raw : Bytes) (i : Nat) : (bInt raw).getD i 0 = ((raw.getD i 0).toNat : Int) := by
  simp [bInt, List.getD_eq_getElem?_getD, List.getElem?_map]
  cases raw[i]? <;> simp

/-- big-endian 16-bit value of the model's `rdU16` -/
def be16 (a b : UInt8) : Nat := a.toNat * 256 + b.toNat

@[simp] theorem beU8_bInt (raw : Bytes) (k : Nat) : Gen.beU8 (bInt raw) k = (((raw.getD k 0).toNat : Nat) : Int) := by
  simp only [Gen.beU8, bInt_getD]

@[simp] theorem beU16_bInt (raw : Bytes) (k : Nat) :
    Gen.beU16 (bInt raw) k = ((be16 (raw.getD k 0) (raw.getD (k + 1) 0) : Nat) : Int) := by
  simp only [Gen.beU16, bInt_getD, be16]; omega

@[simp] theorem beU32_bInt (raw : Bytes) (k : Nat) :
    Gen.beU32 (bInt raw) k = ((be32 (raw.getD k 0) (raw.getD (k + 1) 0) (raw.getD (k + 2) 0) (raw.getD (k + 3) 0) : Nat) : Int) := by
  simp only [Gen.beU32, bInt_getD, be32]; omega

/-- a stored byte vector of the translated parser, back in the model's bytes -/
def unInt (l : List Int) : Bytes := l.map (fun x => x.toNat.toUInt8)

@[simp] theorem unInt_bInt (raw : Bytes) : unInt (bInt raw) = raw := by
  induction raw with
  | nil => rfl
  | cons a t ih =>
    simp only [bInt, unInt, List.map_cons, List.map_map] at ih ⊢
    rw [ih]
    simp

@[simp] theorem map_unInt_bInt (o : Option Bytes) : Option.map (unInt ∘ bInt) o = o := by
  cases o <;> simp

theorem bInt_any (raw : Bytes) (p : Int → Bool) : (bInt raw).any p = raw.any (fun b => p (b.toNat : Int)) := by
  simp [bInt, List.any_map, Function.comp_def]

theorem exists_cons2 {α} (l : List α) (h : 2 ≤ l.length) : ∃ a b r, l = a :: b :: r := by
  match l, h with
  | a :: b :: r, _ => exact ⟨a, b, r, rfl⟩
theorem exists_cons6 {α} (l : List α) (h : 6 ≤ l.length) : ∃ a b c d e f r, l = a :: b :: c :: d :: e :: f :: r := by
  match l, h with
  | a :: b :: c :: d :: e :: f :: r, _ => exact ⟨a, b, c, d, e, f, r, rfl⟩

theorem be16_lt (a b : UInt8) : be16 a b < 65536 := by
  have := a.toNat_lt; have := b.toNat_lt; unfold be16; omega

theorem be32_lt (a b c d : UInt8) : be32 a b c d < 4294967296 := by
  have := a.toNat_lt; have := b.toNat_lt; have := c.toNat_lt; have := d.toNat_lt; unfold be32; omega

/-! ## the model's readers at an offset -/

theorem rdU8_drop (raw : Bytes) (k : Nat) :
    rdU8 (raw.drop k) = if k + 1 ≤ raw.length then some ((raw.getD k 0).toNat, raw.drop (k + 1)) else none := by
  induction raw generalizing k with
  | nil => simp [rdU8]
  | cons a t ih =>
    cases k with
    | zero => simp [rdU8]
    | succ k => simp [ih k]

theorem rdU16_drop (raw : Bytes) (k : Nat) :
    rdU16 (raw.drop k) = if k + 2 ≤ raw.length then some (be16 (raw.getD k 0) (raw.getD (k + 1) 0), raw.drop (k + 2)) else none := by
  induction raw generalizing k with
  | nil => simp [rdU16]
  | cons a t ih =>
    cases k with
    | zero =>
      match t with
      | [] => simp [rdU16]
      | b :: r => simp [rdU16, be16]
    | succ k => simp [ih k]

theorem rdU32_drop (raw : Bytes) (k : Nat) :
    rdU32 (raw.drop k) = if k + 4 ≤ raw.length then
      some (be32 (raw.getD k 0) (raw.getD (k + 1) 0) (raw.getD (k + 2) 0) (raw.getD (k + 3) 0), raw.drop (k + 4)) else none := by
  induction raw generalizing k with
  | nil => simp [rdU32]
  | cons a t ih =>
    cases k with
    | zero =>
      match t with
      | [] => simp [rdU32]
      | [b] => simp [rdU32]
      | [b, c] => simp [rdU32]
      | b :: c :: d :: r => simp [rdU32]
    | succ k => simp [ih k]

theorem rdU8_zero (raw : Bytes) : rdU8 raw = if 1 ≤ raw.length then some ((raw.getD 0 0).toNat, raw.drop 1) else none := by
  simpa using rdU8_drop raw 0
theorem rdU16_zero (raw : Bytes) : rdU16 raw = if 2 ≤ raw.length then some (be16 (raw.getD 0 0) (raw.getD 1 0), raw.drop 2) else none := by
  simpa using rdU16_drop raw 0
theorem rdU32_zero (raw : Bytes) :
    rdU32 raw = if 4 ≤ raw.length then some (be32 (raw.getD 0 0) (raw.getD 1 0) (raw.getD 2 0) (raw.getD 3 0), raw.drop 4) else none := by
  simpa using rdU32_drop raw 0

/-! conditional forms: as `simp` lemmas they fire only where the length test can be decided from the hypotheses, i.e. not under the binders
of the parser's later steps (the unconditional forms above make `simp` normalise the whole rest of the parser at every step) -/
theorem rdU8_of_le {raw : Bytes} (h : 1 ≤ raw.length) : rdU8 raw = some ((raw.getD 0 0).toNat, raw.drop 1) := by
  rw [rdU8_zero, if_pos h]
theorem rdU8_of_not_le {raw : Bytes} (h : ¬ 1 ≤ raw.length) : rdU8 raw = none := by
  rw [rdU8_zero, if_neg h]
theorem rdU16_of_le {raw : Bytes} (h : 2 ≤ raw.length) : rdU16 raw = some (be16 (raw.getD 0 0) (raw.getD 1 0), raw.drop 2) := by
  rw [rdU16_zero, if_pos h]
theorem rdU16_of_not_le {raw : Bytes} (h : ¬ 2 ≤ raw.length) : rdU16 raw = none := by
  rw [rdU16_zero, if_neg h]
theorem rdU32_of_le {raw : Bytes} (h : 4 ≤ raw.length) :
    rdU32 raw = some (be32 (raw.getD 0 0) (raw.getD 1 0) (raw.getD 2 0) (raw.getD 3 0), raw.drop 4) := by
  rw [rdU32_zero, if_pos h]
theorem rdU32_of_not_le {raw : Bytes} (h : ¬ 4 ≤ raw.length) : rdU32 raw = none := by
  rw [rdU32_zero, if_neg h]

/-! ## `rdU32s n` / `rdU16s n` (cHRM, mDCV): `n` values at the offsets `k, k + w, ..` -/

/-- the big-endian 32-bit value at offset `k` -/
def be32At (raw : Bytes) (k : Nat) : Nat := be32 (raw.getD k 0) (raw.getD (k + 1) 0) (raw.getD (k + 2) 0) (raw.getD (k + 3) 0)
/-- the big-endian 16-bit value at offset `k` -/
def be16At (raw : Bytes) (k : Nat) : Nat := be16 (raw.getD k 0) (raw.getD (k + 1) 0)

theorem rdU32s_drop (n : Nat) (raw : Bytes) (k : Nat) (hk : k ≤ raw.length) :
    rdU32s n (raw.drop k) = if k + 4 * n ≤ raw.length then
      some ((List.range' k n 4).map (be32At raw), raw.drop (k + 4 * n)) else none := by
  induction n generalizing k with
  | zero => simp [rdU32s, hk]
  | succ n ih =>
    simp only [rdU32s, rdU32_drop]
    by_cases h : k + 4 ≤ raw.length
    · rw [if_pos h]
      simp only [Option.bind_eq_bind, Option.bind_some, ih (k + 4) h]
      by_cases h2 : k + 4 * (n + 1) ≤ raw.length
      · have h3 : k + 4 + 4 * n ≤ raw.length := by omega
        simp [h2, h3, List.range'_succ, be32At]; omega
      · have h3 : ¬ k + 4 + 4 * n ≤ raw.length := by omega
        simp [h2, h3]
    · have h2 : ¬ k + 4 * (n + 1) ≤ raw.length := by omega
      simp [h, h2]

theorem rdU16s_drop (n : Nat) (raw : Bytes) (k : Nat) (hk : k ≤ raw.length) :
    rdU16s n (raw.drop k) = if k + 2 * n ≤ raw.length then
      some ((List.range' k n 2).map (be16At raw), raw.drop (k + 2 * n)) else none := by
  induction n generalizing k with
  | zero => simp [rdU16s, hk]
  | succ n ih =>
    simp only [rdU16s, rdU16_drop]
    by_cases h : k + 2 ≤ raw.length
    · rw [if_pos h]
      simp only [Option.bind_eq_bind, Option.bind_some, ih (k + 2) h]
      by_cases h2 : k + 2 * (n + 1) ≤ raw.length
      · have h3 : k + 2 + 2 * n ≤ raw.length := by omega
        simp [h2, h3, List.range'_succ, be16At]; omega
      · have h3 : ¬ k + 2 + 2 * n ≤ raw.length := by omega
        simp [h2, h3]
    · have h2 : ¬ k + 2 * (n + 1) ≤ raw.length := by omega
      simp [h, h2]

theorem rdU32s_zero (n : Nat) (raw : Bytes) :
    rdU32s n raw = if 4 * n ≤ raw.length then some ((List.range' 0 n 4).map (be32At raw), raw.drop (4 * n)) else none := by
  simpa using rdU32s_drop n raw 0 (Nat.zero_le _)
theorem rdU16s_zero (n : Nat) (raw : Bytes) :
    rdU16s n raw = if 2 * n ≤ raw.length then some ((List.range' 0 n 2).map (be16At raw), raw.drop (2 * n)) else none := by
  simpa using rdU16s_drop n raw 0 (Nat.zero_le _)

/-! ## the `Except` monad of the model's parsers -/
@[simp] theorem ok_bind {ε α β} (x : α) (f : α → Except ε β) : (Except.ok x >>= f) = f x := rfl
@[simp] theorem err_bind {ε α β} (e : ε) (f : α → Except ε β) : ((Except.error e : Except ε α) >>= f) = .error e := rfl
@[simp] theorem eofOr_some {α} (x : α) : eofOr (some x) = .ok x := rfl
@[simp] theorem eofOr_none {α} : eofOr (none : Option α) = .error .eof := rfl
@[simp] theorem throw_bind {ε α β} (e : ε) (f : α → Except ε β) : ((throw e : Except ε α) >>= f) = .error e := rfl
@[simp] theorem throw_eq {ε α} (e : ε) : (throw e : Except ε α) = .error e := rfl
@[simp] theorem pure_bind' {ε α β} (x : α) (f : α → Except ε β) : ((pure x : Except ε α) >>= f) = f x := rfl
@[simp] theorem pure_eq {ε α} (x : α) : (pure x : Except ε α) = .ok x := rfl

/-! ## length tests after a `drop`, in the form `k ≤ length` -/
@[simp] theorem one_le_sub (n k : Nat) : 1 ≤ n - k ↔ k + 1 ≤ n := by omega
@[simp] theorem two_le_sub (n k : Nat) : 2 ≤ n - k ↔ k + 2 ≤ n := by omega
@[simp] theorem four_le_sub (n k : Nat) : 4 ≤ n - k ↔ k + 4 ≤ n := by omega

/-- case analysis on the outermost `if` of the right-hand side only (the `split` tactic simplifies the whole goal, which is too slow
    on the translated parsers) -/
theorem eq_ite_of {α} {m : α} {c : Prop} [Decidable c] {a b : α} (h1 : c → m = a) (h2 : ¬ c → m = b) : m = if c then a else b := by
  by_cases h : c
  · rw [if_pos h]; exact h1 h
  · rw [if_neg h]; exact h2 h

/-- storing what is there already changes nothing -/
theorem setInfo_same {d : Dec} {i : Info} (hi : d.info = some i) (f : Info → Info) (h : f i = i) : setInfo d f = d := by
  cases d; simp_all [setInfo]

/-- case analysis on an `if` inside a statement about its value -/
theorem ite_prop_of {α} {c : Prop} [Decidable c] {a b : α} {P : α → Prop} (h1 : c → P a) (h2 : ¬ c → P b) : P (if c then a else b) := by
  by_cases h : c
  · rw [if_pos h]; exact h1 h
  · rw [if_neg h]; exact h2 h

theorem ite_eq_true_of {c : Prop} [Decidable c] {a b : Bool} (h1 : c → a = true) (h2 : ¬ c → b = true) : (if c then a else b) = true := by
  by_cases h : c
  · rw [if_pos h]; exact h1 h
  · rw [if_neg h]; exact h2 h
theorem and_eq_true_of {a b : Bool} (h1 : a = true) (h2 : b = true) : (a && b) = true := by rw [h1, h2]; rfl

theorem eofOr_ite {α} (c : Prop) [Decidable c] (x : α) : eofOr (if c then some x else none) = if c then .ok x else .error .eof := by
  split <;> rfl

end Png.Kernels
