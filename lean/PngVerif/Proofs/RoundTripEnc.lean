import PngVerif.Proofs.Encoder
/-!
# C03 end to end, encoder side: what the sink holds after `write_header`, one `write_image_data`, `finish`

For a still configuration the writer accepts (`Cfg.Still`) and a sink that never fails, the run
`runWriter E c {} [.image data] .finish` is computed explicitly (`runWriter_still`):

* every call returns `Ok`;
* the sink's log is the signature followed by complete chunks: `headerChunks c` (IHDR first), the zlib stream
  `E.encode …` cut into `IDAT` chunks of at most `2^31 − 1` bytes, `IEND`;
* hence `Sink.bytes = signatureBytes ++ (chunks.map chunkBytes).flatten` (`bytes_of_fullLog`).

Nothing here depends on the back-end `E`; `scanCodec` enters in `Proofs/RoundTripSpec.lean`.  `still_of_accepted`: the converse — `Cfg.Still`
is exactly what `write_header` + `write_image_data` accept of a configuration without animation.
-/
namespace Png.Enc
open Png Png.Val

/-! ## the log of a sink that never fails -/

/-- a chunk the sink accepted completely -/
def fullEmit (c : RChunk) : Emit := ⟨.chunk c, (Piece.chunk c).size⟩

/-- the signature, accepted completely -/
def sigEmit : Emit := ⟨.sig, Piece.sig.size⟩

theorem Sink.emitChunks_good_log (cs : List RChunk) :
    ∀ {k : Sink}, k.good → (k.emitChunks cs).1.log = k.log ++ cs.map fullEmit ∧ (k.emitChunks cs).1.good := by
  induction cs with
  | nil => intro k h; simp [Sink.emitChunks, h]
  | cons c cs ih =>
    intro k h
    simp only [Sink.emitChunks, Sink.emit_good h]
    have hg : ({ k with log := k.log ++ [⟨.chunk c, (Piece.chunk c).size⟩], count := k.count + (Piece.chunk c).size } : Sink).good := h
    obtain ⟨h1, h2⟩ := ih hg
    exact ⟨by rw [h1]; simp [fullEmit], h2⟩

theorem chunkBytes_length (c : RChunk) : (chunkBytes c).length = (Piece.chunk c).size := by
  simp only [chunkBytes, tyBytes, List.length_append, be32Bytes_length, Piece.size]; omega

theorem fullEmit_bytes (c : RChunk) : (fullEmit c).bytes = chunkBytes c := by
  simp only [fullEmit, Emit.bytes, ← chunkBytes_length, List.take_length]

theorem sigEmit_bytes : sigEmit.bytes = signatureBytes := by decide

theorem filterMap_fullEmit (cs : List RChunk) :
    (cs.map fullEmit).filterMap (fun e => match e.piece with
      | .chunk c => if e.complete then some c else none
      | .sig => none) = cs := by
  induction cs with
  | nil => rfl
  | cons c cs ih =>
    simp only [List.map_cons, List.filterMap_cons, fullEmit, Emit.complete, beq_self_eq_true, if_true]
    exact congrArg _ ih

theorem Sink.emit_sig_good {k : Sink} (h : k.good) :
    ∃ k1, k.emit .sig = (k1, true) ∧ k1.good ∧ k1.log = k.log ++ [sigEmit] :=
  ⟨_, Sink.emit_good h _, h, rfl⟩

/-- the bytes of a log of completely accepted pieces: the signature, then the chunks one after the other -/
theorem bytes_of_fullLog (k : Sink) (cs : List RChunk) (h : k.log = sigEmit :: cs.map fullEmit) :
    k.bytes = fileBytes cs ∧ k.chunks = cs := by
  constructor
  · simp only [Sink.bytes, h, List.map_cons, List.flatten_cons, sigEmit_bytes, fileBytes, List.map_map]
    congr 2
    apply List.map_congr_left
    intro c _
    exact fullEmit_bytes c
  · simp only [Sink.chunks, h, List.filterMap_cons, sigEmit]
    exact filterMap_fullEmit cs

/-! ## still configurations the writer accepts -/

/-- bytes of one packed row of the image (`in_len`, encoder.rs:783) -/
def Cfg.rowLen (c : Cfg) : Nat := rawRowLengthFromWidth c.color c.depth c.width - 1

/-- a still image that `write_header` / `write_image_data` / `finish` accept: no animation, non-zero `u32` size, one
    of the fifteen colour type / bit depth pairs, a palette if the colour type is indexed, text chunks whose
    `encode` succeeds.  (Everything else — metadata, palette on other colour types, `validate_sequence` — is free.) -/
structure Cfg.Still (c : Cfg) : Prop where
  actl : c.actl = none
  fctl : c.fctl = none
  wpos : c.width ≠ 0
  hpos : c.height ≠ 0
  wlt : c.width < 2 ^ 32
  hlt : c.height < 2 ^ 32
  color : colorOk c.color = true
  depth : depthOk c.depth = true
  comb : combinationInvalid c.color c.depth = false
  pal : c.color = 3 → c.palette.isSome = true
  texts : (textPrefix c.texts).2 = true

instance (c : Cfg) : Decidable c.Still :=
  decidable_of_iff (c.actl = none ∧ c.fctl = none ∧ c.width ≠ 0 ∧ c.height ≠ 0 ∧ c.width < 2 ^ 32 ∧ c.height < 2 ^ 32 ∧
      colorOk c.color = true ∧ depthOk c.depth = true ∧ combinationInvalid c.color c.depth = false ∧
      (c.color = 3 → c.palette.isSome = true) ∧ (textPrefix c.texts).2 = true)
    ⟨fun ⟨a, b, c, d, e, f, g, h, i, j, k⟩ => ⟨a, b, c, d, e, f, g, h, i, j, k⟩,
     fun ⟨a, b, c, d, e, f, g, h, i, j, k⟩ => ⟨a, b, c, d, e, f, g, h, i, j, k⟩⟩

theorem Cfg.Still.rowLen_pos {c : Cfg} (hs : c.Still) : 0 < c.rowLen :=
  inLen_pos hs.color hs.depth (Nat.pos_of_ne_zero hs.wpos)

/-- the zlib stream `write_image_data` hands to the `IDAT` writer -/
def Cfg.zstream (E : Codec) (c : Cfg) (data : Bytes) : Bytes :=
  E.encode (bytesPerPixel c.color c.depth) c.rowLen c.height data

/-- the chunks of the file: header chunks, `IDAT` chunks, `IEND` -/
def Cfg.fileChunks (E : Codec) (c : Cfg) (data : Bytes) : List RChunk :=
  headerChunks c ++ (chunksOf maxIdatChunkLen (c.zstream E data)).map mkIdat ++ [iendChunk]

/-! ## the run -/

/-- `write_header` on a sink that never fails -/
theorem writeHeader_still (c : Cfg) (hs : c.Still) :
    ∃ s, writeHeader c {} = (s, .ok) ∧ StaticEq (initState c {}) s ∧ s.sink.good ∧
      s.sink.log = sigEmit :: (headerChunks c).map fullEmit ∧
      s.imagesWritten = 0 ∧ s.animWritten = 0 ∧ s.iendWritten = false ∧ s.fctl = none ∧ s.actl = none := by
  unfold writeHeader
  simp only [hs.wpos, hs.hpos, hs.comb, if_false, Bool.false_eq_true]
  obtain ⟨k1, hk, hg1, hl1⟩ := Sink.emit_sig_good (initState_good c)
  rw [hk]
  simp only
  obtain ⟨e1, _⟩ := WState.emit_good_eq (s := { initState c {} with sink := k1 }) hg1 (headerChunks c)
  obtain ⟨l2, g2⟩ := Sink.emitChunks_good_log (headerChunks c) hg1
  rw [e1]
  simp only [hs.texts, if_true]
  refine ⟨_, rfl, ⟨rfl, rfl, rfl, rfl, rfl, rfl, rfl, rfl⟩, g2, ?_, rfl, rfl, rfl, ?_, ?_⟩
  · show (k1.emitChunks (headerChunks c)).1.log = _
    rw [l2, hl1]; rfl
  · exact hs.fctl
  · exact hs.actl

/-- the checks of `write_image_data` pass on the state after `write_header` -/
theorem imageChecks_still (c : Cfg) (hs : c.Still) (s : WState) (hst : StaticEq (initState c {}) s)
    (hi : s.imagesWritten = 0) (hf : s.fctl = none) (ha : s.actl = none) (data : Bytes)
    (hlen : data.length = c.rowLen * c.height) (hsz : c.rowLen * c.height < 2 ^ 64) :
    imageChecks s data = .ok (c.rowLen, c.height) := by
  obtain ⟨e1, e2, e3, e4, _, e6, _, _⟩ := hst
  simp only [initState] at e1 e2 e3 e4 e6
  have hpal : ¬ (s.color = 3 ∧ s.hasPalette = false) := by
    intro ⟨h1, h2⟩
    have := hs.pal (by rw [← e3]; exact h1)
    rw [← e6, h2] at this; cases this
  have hv : validateNewImage s = none := by
    unfold validateNewImage
    cases s.validate <;> simp [ha, hi]
  have hr : validateFirstImageRect s = none := by simp [validateFirstImageRect, hf]
  have hd : nextDims s = (c.width, c.height) := by simp [nextDims, hf, e1, e2]
  have hil : inLenOf s c.width = c.rowLen := by simp [inLenOf, Cfg.rowLen, e3, e4]
  unfold imageChecks
  rw [if_neg hpal, hv, hr]
  simp only [hd, hil]
  rw [if_pos hsz, if_neg (by omega), if_neg (by have := hs.rowLen_pos; omega)]

/-- **the whole run** `write_header`, `write_image_data(data)`, `finish` on a sink that never fails: every call
    returns `Ok`; the sink holds the signature and, completely, the chunks `fileChunks` -/
theorem runWriter_still (E : Codec) (c : Cfg) (hs : c.Still) (data : Bytes)
    (hlen : data.length = c.rowLen * c.height) (hsz : c.rowLen * c.height < 2 ^ 64) :
    (runWriter E c {} [.image data] .finish).header = .ok ∧
    (runWriter E c {} [.image data] .finish).results = [.ok] ∧
    (runWriter E c {} [.image data] .finish).final = some .ok ∧
    (runWriter E c {} [.image data] .finish).state.sink.log = sigEmit :: (c.fileChunks E data).map fullEmit := by
  obtain ⟨s, hh, hst, hg, hl, hi, _, hie, hf, ha⟩ := writeHeader_still c hs
  have hck := imageChecks_still c hs s hst hi hf ha data hlen hsz
  obtain ⟨e1, e2, e3, e4, _, _, _, e8⟩ := hst
  simp only [initState] at e3 e4
  -- the image
  have hz : E.encode (bytesPerPixel s.color s.depth) c.rowLen c.height data = c.zstream E data := by
    rw [e3, e4]; rfl
  generalize hparts : chunksOf maxIdatChunkLen (c.zstream E data) = parts
  have himg : writeImageData E s data =
      (incrementImagesWritten { s with sink := (s.sink.emitChunks (parts.map mkIdat)).1 }, .ok) := by
    have he : ∀ pf, emitImage s parts pf = emitIdatImage s parts := by
      intro pf; simp only [emitImage, hf]
    unfold writeImageData
    rw [hck]
    simp only [hz, hparts]
    rw [he]
    exact emitIdatImage_good_eq hg _
  obtain ⟨l2, g2⟩ := Sink.emitChunks_good_log (parts.map mkIdat) hg
  generalize hs2 : incrementImagesWritten { s with sink := (s.sink.emitChunks (parts.map mkIdat)).1 } = s2 at himg
  have hs2v : s2 = { s with sink := (s.sink.emitChunks (parts.map mkIdat)).1, imagesWritten := 1 } := by
    rw [← hs2]; simp only [incrementImagesWritten, ha, hi]; rfl
  have hg2 : s2.sink.good := by rw [hs2v]; exact g2
  have hie2 : s2.iendWritten = false := by rw [hs2v]; exact hie
  have hv2 : validateSequenceDone s2 = none := by
    rw [hs2v]; unfold validateSequenceDone
    cases s.validate <;> simp [ha]
  have hfin : finishW s2 = (flushedW (dropW s2), .ok) := by
    rw [finishW_good hg2 hie2, hv2]
  obtain ⟨wi, wg⟩ := writeIend_good hg2
  have hdrop : dropW s2 = { s2 with iendWritten := true, sink := (s2.sink.emitChunks [iendChunk]).1 } := by
    simp [dropW, hie2, wi]
  obtain ⟨l3, _⟩ := Sink.emitChunks_good_log [iendChunk] hg2
  have hrun : runWriter E c {} [.image data] .finish =
      { state := flushedW (dropW s2), header := .ok, results := [.ok], final := some .ok } := by
    simp only [runWriter, hh, runOps, writerStep, himg, anyPanic, List.any_cons, List.any_nil, Res.isPanic,
      Bool.or_false, Bool.false_eq_true, if_false, finalStep, hfin]
  rw [hrun]
  refine ⟨rfl, rfl, rfl, ?_⟩
  show (flushedW (dropW s2)).sink.log = _
  rw [(flushedW_chunks _).2.1, hdrop]
  show (s2.sink.emitChunks [iendChunk]).1.log = _
  rw [l3, hs2v]
  show (s.sink.emitChunks (parts.map mkIdat)).1.log ++ _ = _
  rw [l2, hl, Cfg.fileChunks, hparts]
  simp

/-- **what the sink holds, as bytes and as chunks** -/
theorem still_file (E : Codec) (c : Cfg) (hs : c.Still) (data : Bytes)
    (hlen : data.length = c.rowLen * c.height) (hsz : c.rowLen * c.height < 2 ^ 64) :
    (runWriter E c {} [.image data] .finish).state.sink.bytes = fileBytes (c.fileChunks E data) ∧
    (runWriter E c {} [.image data] .finish).state.sink.chunks = c.fileChunks E data :=
  bytes_of_fullLog _ _ (runWriter_still E c hs data hlen hsz).2.2.2

/-! ## `Still` is exactly what the writer accepts -/

/-- `write_header` returns `Ok` only for a non-empty canvas, a legal colour type / bit depth pair and text chunks that encode -/
theorem header_ok_facts (c : Cfg) (s : WState) (h : writeHeader c {} = (s, .ok)) :
    c.width ≠ 0 ∧ c.height ≠ 0 ∧ combinationInvalid c.color c.depth = false ∧ (textPrefix c.texts).2 = true := by
  unfold writeHeader at h
  by_cases hw0 : c.width = 0
  · simp [hw0] at h
  · by_cases hh0 : c.height = 0
    · simp [hw0, hh0] at h
    · cases hci : combinationInvalid c.color c.depth with
      | true => simp [hw0, hh0, hci] at h
      | false =>
        simp only [hw0, hh0, hci, if_false, Bool.false_eq_true] at h
        obtain ⟨k1, hk, hg1, _⟩ := Sink.emit_sig_good (initState_good c)
        rw [hk] at h
        simp only at h
        obtain ⟨e1, _⟩ := WState.emit_good_eq (s := { initState c {} with sink := k1 }) hg1 (headerChunks c)
        rw [e1] at h
        simp only at h
        cases htp : (textPrefix c.texts).2 with
        | false => simp [htp] at h
        | true => exact ⟨hw0, hh0, rfl, rfl⟩

/-- **the converse of `runWriter_still`**: a configuration without animation whose fields are in their types' ranges and for
    which `write_header` and `write_image_data(data)` return `Ok` is `Still`, and `data` has the length of the image — the
    hypotheses of the round trip theorem exclude nothing the writer accepts -/
theorem still_of_accepted (E : Codec) (c : Cfg) (hr : c.inRange) (ha : c.actl = none) (hf : c.fctl = none) (data : Bytes)
    (h1 : (runWriter E c {} [.image data] .finish).header = .ok)
    (h2 : (runWriter E c {} [.image data] .finish).results = [.ok]) :
    c.Still ∧ (c.rowLen * c.height < 2 ^ 64 → data.length = c.rowLen * c.height) := by
  obtain ⟨r1, r2, r3, r4, _, _⟩ := hr
  cases hh : writeHeader c {} with
  | mk s r =>
    have hrok : r = .ok := by
      cases r with
      | ok => rfl
      | err e => simp [runWriter, hh] at h1
      | panic p => simp [runWriter, hh] at h1
    subst hrok
    obtain ⟨f1, f2, f3, f4⟩ := header_ok_facts c s hh
    -- everything but the palette
    have hpart : ∀ hp : (c.color = 3 → c.palette.isSome = true), c.Still :=
      fun hp => ⟨ha, hf, f1, f2, r1, r2, r3, r4, f3, hp, f4⟩
    -- the state after the header
    have hhdr : ∃ s', writeHeader c {} = (s', .ok) ∧ StaticEq (initState c {}) s' ∧ s'.imagesWritten = 0 ∧
        s'.fctl = none ∧ s'.actl = none := by
      unfold writeHeader
      simp only [f1, f2, f3, if_false, Bool.false_eq_true]
      obtain ⟨k1, hk, hg1, _⟩ := Sink.emit_sig_good (initState_good c)
      rw [hk]
      simp only
      obtain ⟨e1, _⟩ := WState.emit_good_eq (s := { initState c {} with sink := k1 }) hg1 (headerChunks c)
      rw [e1]
      simp only [f4, if_true]
      exact ⟨_, rfl, ⟨rfl, rfl, rfl, rfl, rfl, rfl, rfl, rfl⟩, rfl, hf, ha⟩
    obtain ⟨s', hs', hst, hi0, hf0, ha0⟩ := hhdr
    rw [hh] at hs'
    cases hs'
    obtain ⟨e1, e2, e3, e4, _, e6, _, _⟩ := hst
    simp only [initState] at e1 e2 e3 e4 e6
    -- the image was accepted
    have hres : (writeImageData E s data).2 = .ok := by
      have : (runWriter E c {} [.image data] .finish).results = [(writeImageData E s data).2] ∨
          ∃ p, (writeImageData E s data).2 = .panic p := by
        cases hw : writeImageData E s data with
        | mk s2 r2 =>
          cases r2 with
          | panic p => exact Or.inr ⟨p, rfl⟩
          | ok => left; simp [runWriter, hh, runOps, writerStep, hw, anyPanic, Res.isPanic]
          | err e => left; simp [runWriter, hh, runOps, writerStep, hw, anyPanic, Res.isPanic]
      rcases this with h | ⟨p, hp⟩
      · rw [h] at h2; simpa using h2
      · exfalso
        cases hw : writeImageData E s data with
        | mk s2 r2 =>
          rw [hw] at hp; simp only at hp; subst hp
          simp [runWriter, hh, runOps, writerStep, hw, anyPanic, Res.isPanic] at h2
    have hck : ∃ il hgt, imageChecks s data = .ok (il, hgt) := by
      cases hc : imageChecks s data with
      | ok v => exact ⟨v.1, v.2, rfl⟩
      | error r =>
        exfalso
        have hne := imageChecks_error_ne_ok hc
        simp only [writeImageData, hc] at hres
        exact hne hres
    obtain ⟨il, hgt, hck⟩ := hck
    have hv : validateNewImage s = none := by
      unfold validateNewImage
      cases s.validate <;> simp [ha0, hi0]
    have hrct : validateFirstImageRect s = none := by simp [validateFirstImageRect, hf0]
    have hd : nextDims s = (c.width, c.height) := by simp [nextDims, hf0, e1, e2]
    have hil : inLenOf s c.width = c.rowLen := by simp [inLenOf, Cfg.rowLen, e3, e4]
    unfold imageChecks at hck
    by_cases hpal : s.color = 3 ∧ s.hasPalette = false
    · rw [if_pos hpal] at hck; cases hck
    · rw [if_neg hpal, hv, hrct] at hck
      simp only [hd, hil] at hck
      refine ⟨hpart (fun h3 => ?_), fun hsz => ?_⟩
      · rw [← e6]
        cases hhp : s.hasPalette with
        | true => rfl
        | false => exact absurd ⟨e3.trans h3, hhp⟩ hpal
      · rw [if_pos hsz] at hck
        by_cases hne : c.rowLen * c.height ≠ data.length
        · rw [if_pos hne] at hck; cases hck
        · exact (Decidable.not_not.mp hne).symm

/-- the `IDAT` payloads are non-empty pieces of at most `2^31 − 1` bytes that concatenate to the zlib stream -/
theorem chunksOfAux_le (n : Nat) : ∀ fuel (l : Bytes), ∀ p ∈ chunksOfAux n fuel l, p.length ≤ n := by
  intro fuel
  induction fuel with
  | zero => intro l p hp; simp [chunksOfAux] at hp
  | succ k ih =>
    intro l p hp
    simp only [chunksOfAux] at hp
    split at hp
    · cases hp
    · simp only [List.mem_cons] at hp
      rcases hp with rfl | hp
      · simp only [List.length_take]; omega
      · exact ih _ p hp

theorem chunksOf_le (n : Nat) (l : Bytes) : ∀ p ∈ chunksOf n l, p.length ≤ n := chunksOfAux_le n _ l

end Png.Enc
