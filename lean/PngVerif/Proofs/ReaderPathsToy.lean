import PngVerif.Proofs.ReaderPathsTop
/-!
# Decoding paths, part 15: small concrete streams for the non-vacuity examples of C13

Toy inflater and toy CRC of `Proofs/FramingToy.lean`, identity transformation of `Proofs/ReaderToy.lean`:
a 2×3 non-interlaced image with `None` / `Up` / `Sub` rows, a 3×3 Adam7 image (six pass rows), and a
two-frame 2×2 APNG.
-/
namespace Png.Reader.PathsToy
open Png Png.Framing Png.Reader Png.Framing.Toy Png.Reader.Toy

/-- the identity transformation does not depend on the `Info` it was created from -/
theorem idT_snapIndep : idT.SnapIndep := ⟨fun _ _ _ _ _ => rfl, fun _ _ _ _ _ _ _ _ _ _ => rfl⟩

/-- `IHDR` of a `w × h` 8-bit grayscale image, interlace method `il` -/
def ihdrOf (w h il : UInt8) : Bytes :=
  [0, 0, 0, 13, 73, 72, 68, 82,  0, 0, 0, w,  0, 0, 0, h,  8, 0, 0, 0, il,  0, 0, 0, 0]

/-- 2×3, rows `None [10,20]`, `Up [1,1]`, `Sub [5,5]` -/
def idatG : Bytes := [0, 0, 0, 10, 73, 68, 65, 84,  9,  0, 10, 20,  2, 1, 1,  1, 5, 5,  0, 0, 0, 0]
def imgG : Bytes := sig ++ ihdrOf 2 3 0 ++ idatG ++ iend

/-- 3×3 Adam7: pass 1 `[1]`, pass 4 `[2]`, pass 5 `[3,4]`, pass 6 `[5]`, `[6]`, pass 7 `[7,8,9]` -/
def idatA : Bytes :=
  [0, 0, 0, 16, 73, 68, 65, 84,  15,  0, 1,  0, 2,  0, 3, 4,  0, 5,  0, 6,  0, 7, 8, 9,  0, 0, 0, 0]
def imgA : Bytes := sig ++ ihdrOf 3 3 1 ++ idatA ++ iend

def actl2 : Bytes := [0, 0, 0, 8, 97, 99, 84, 76,  0, 0, 0, 2,  0, 0, 0, 0,  0, 0, 0, 0]
/-- `fcTL` with sequence number `s` for a 2×2 frame at (0, 0) -/
def fctl2 (s : UInt8) : Bytes :=
  [0, 0, 0, 26, 102, 99, 84, 76,  0, 0, 0, s,  0, 0, 0, 2,  0, 0, 0, 2,  0, 0, 0, 0,  0, 0, 0, 0,  0, 1, 0, 1, 0, 0,  0, 0, 0, 0]
/-- frame 0: rows `None [1,2]`, `Up [1,1]` -/
def idatP : Bytes := [0, 0, 0, 7, 73, 68, 65, 84,  6,  0, 1, 2,  2, 1, 1,  0, 0, 0, 0]
/-- frame 1: rows `None [9,8]`, `Sub [1,1]` -/
def fdatP (s : UInt8) : Bytes := [0, 0, 0, 11, 102, 100, 65, 84,  0, 0, 0, s,  6,  0, 9, 8,  1, 1, 1,  0, 0, 0, 0]
def apng2 : Bytes := sig ++ ihdrOf 2 2 0 ++ actl2 ++ fctl2 0 ++ idatP ++ fctl2 1 ++ fdatP 2 ++ iend

def initOf (input : Bytes) : R := R.init {} (2 ^ 64 - 1) {} input input.length

/-- the readers `read_info` returns -/
def rG : R := (step toyCfg idT (initOf imgG) .readInfo).1
def rA : R := (step toyCfg idT (initOf imgA) .readInfo).1
def rP : R := (step toyCfg idT (initOf apng2) .readInfo).1

theorem rG_header : step toyCfg idT (initOf imgG) .readInfo = (rG, .header) := Prod.ext rfl (by decide +kernel)
theorem rA_header : step toyCfg idT (initOf imgA) .readInfo = (rA, .header) := Prod.ext rfl (by decide +kernel)
set_option maxRecDepth 8192 in
theorem rP_header : step toyCfg idT (initOf apng2) .readInfo = (rP, .header) := Prod.ext rfl (by decide +kernel)

def zeros (n : Nat) : Bytes := List.replicate n 0

end Png.Reader.PathsToy

