import PngVerif.Proofs.ReaderRun
/-!
# `read_info` on a longer visible prefix (C05)

A `read_info` that succeeded on a visible prefix succeeds in exactly the same way when more input is
visible (`readInfo_stable`): the whole-run theorem may start at the `Decoder`.
-/
namespace Png.Framing

/-- while `info` is absent an `update` call that reports `Nothing` leaves it absent -/
theorem update_nothing_noInfo {cfg : Cfg} {d d' : Dec} {buf : Bytes} {n : Nat} (hD : DInv d) (hn : d.info = none)
    (hu : update cfg d buf = (d', .ok (n, .nothing))) : d'.info = none := by
  cases hs : d.state with
  | none =>
    have := (poisoned_refuses cfg d buf hs).1
    rw [hu] at this; cases this
  | some st0 =>
    have := update_inv cfg (fun x => DInv x ∧ x.info = none)
      (fun x st b n x' hx hst hn' =>
        ⟨(nextState_dinv hx.1 hst hn').1, (nextState_noInfo hx.1 hx.2 hst hn').2.1 rfl⟩)
      d buf ⟨hD, hn⟩ (by simp [hs])
    rw [hu] at this
    rcases this with ⟨_, hinv⟩ | ⟨dk, st, b, n', hk, hst, hn'⟩
    · exact hinv.2
    · exact (nextState_noInfo hk.1 hk.2 hst hn').2.1 rfl

end Png.Framing

namespace Png.Reader
open Png Png.Framing

/-- one iteration of `read_header_info` before the header -/
theorem readHeaderInfo_succ (cfg : Cfg) (f : Nat) (r : R) (hi : r.dec.info.isSome = false) :
    readHeaderInfo cfg (f + 1) r =
      (match decodeNext' cfg r with
       | (r', .error e) => (r', .error e)
       | (r', .ok (ev, data)) =>
         if data.isEmpty then
           (match ev with
            | .imageEnd => (r', .error (.panic "unreachable!() (read_decoder.rs:95)"))
            | _ => readHeaderInfo cfg f r')
         else (r', .error (.panic "assert!(buf.is_empty()) (read_decoder.rs:80)"))) := by
  rw [readHeaderInfo, hi]
  simp only [Bool.false_eq_true, if_false, decodeNextNoData]
  cases decodeNext' cfg r with
  | mk r' res =>
    cases res with
    | error e => rfl
    | ok p =>
      obtain ⟨ev, data⟩ := p
      simp only
      cases hd : data.isEmpty with
      | false => simp
      | true =>
        simp only [if_true]
        cases ev <;> rfl

/-- **`read_header_info` on a longer visible prefix**: if it succeeded, it succeeds in exactly the same way -/
theorem readHeaderInfo_stable (cfg : Cfg) (hI : cfg.InflateOk) (L : Nat) : ∀ (f : Nat) (A A' : R), Base A →
    (OutMode A ∨ A.dec.info.isSome = true) → readHeaderInfo cfg f A = (A', .ok ()) → A.visible ≤ L →
    ∀ f', M (growTo A L) < f' → readHeaderInfo cfg f' (growTo A L) = (growTo A' L, .ok ()) := by
  intro f
  induction f with
  | zero => intro A A' _ _ h; simp only [readHeaderInfo, Prod.mk.injEq, reduceCtorEq, and_false] at h
  | succ f ih =>
    intro A A' hB hm h hv f' hf'
    obtain ⟨f'', rfl⟩ : ∃ k, f' = k + 1 := ⟨f' - 1, by omega⟩
    cases hi : A.dec.info.isSome with
    | true =>
      have e1 : readHeaderInfo cfg (f + 1) A = (A, .ok ()) := by rw [readHeaderInfo, hi]; rfl
      have e2 : readHeaderInfo cfg (f'' + 1) (growTo A L) = (growTo A L, .ok ()) := by
        rw [readHeaderInfo]
        have : (growTo A L).dec.info.isSome = true := hi
        rw [this]; rfl
      rw [e1] at h
      simp only [Prod.mk.injEq, and_true] at h
      rw [e2, h]
    | false =>
      have hO : OutMode A := hm.resolve_right (by rw [hi]; simp)
      have hn : A.dec.info = none := by
        cases hx : A.dec.info with
        | none => rfl
        | some i => rw [hx] at hi; cases hi
      rw [readHeaderInfo_succ cfg f A hi] at h
      rw [readHeaderInfo_succ cfg f'' (growTo A L) hi]
      have hdn := decodeNext'_dn cfg A hB.out
      have hgr := decodeNext'_grow cfg hI A L hv hB.pos
      unfold GrowRel at hgr
      cases hd : decodeNext' cfg A with
      | mk A1 res =>
        rw [hd] at h hdn hgr
        cases res with
        | error e => simp only [Prod.mk.injEq, reduceCtorEq, and_false] at h
        | ok p =>
          obtain ⟨ev, data⟩ := p
          simp only at h hgr
          have hOS : OutSeq A.dec := hO.resolve_left (dn_ok_live hdn)
          obtain ⟨hdata, _, hev, _⟩ := dn_outSeq hB hOS hdn
          obtain ⟨hok, hM1⟩ := dn_base hB hdn
          simp only at hM1
          have hupd : ev = .nothing → A1.dec.info = none := by
            intro he
            subst he
            cases hdn with
            | ok d' n ev ha hu =>
              show d'.info = none
              exact update_nothing_noInfo hB.dinv hn hu
          subst hdata
          simp only [List.isEmpty_nil, if_true] at h ⊢
          -- the reader after the call is between sequences, or knows the header
          have hm1 : OutMode A1 ∨ A1.dec.info.isSome = true := by
            cases hev with
            | begin len t he ht hI' hi' _ _ => exact Or.inr hi'
            | fin he hs => exact Or.inl (Or.inl hs)
            | stay hO' he => exact Or.inl (Or.inr hO')
          rcases hgr with hsame | ⟨hav, hc, _⟩
          · rw [hsame]
            simp only [List.isEmpty_nil, if_true]
            have hM2 : M (growTo A1 L) < M (growTo A L) := decodeNext'_M cfg hsame
            cases ev <;> first
              | (simp only [Prod.mk.injEq, reduceCtorEq, and_false] at h; done)
              | exact ih A1 A' hok.base hm1 h (by rw [hok.frame.fields.2.2.2.2.2.2.2.2.2.1]; exact hv) f'' (by omega)
          · exfalso
            rcases hc with ⟨rfl, _⟩ | rfl
            · -- `Nothing`: the header is still unknown and nothing is visible any more
              simp only at h
              have hn1 : A1.dec.info = none := hupd rfl
              cases f with
              | zero => simp only [readHeaderInfo, Prod.mk.injEq, reduceCtorEq, and_false] at h
              | succ f =>
                rw [readHeaderInfo_succ cfg f A1 (by rw [hn1]; rfl), eof_no_state_change cfg A1 hav] at h
                simp only [Prod.mk.injEq, reduceCtorEq, and_false] at h
            · cases hev with
              | begin len t he _ _ _ _ _ => cases he
              | fin he _ => cases he
              | stay _ he => cases he

/-- **`Reader::read_until_image_data` on a longer visible prefix**: if it succeeded, it succeeds in exactly the
    same way -/
theorem readUntilImageData_stable (cfg : Cfg) (hI : cfg.InflateOk) (t : TCfg) (A A' : R) (L : Nat) (hpos : PosOk A)
    (hv : A.visible ≤ L) (h : readUntilImageData cfg t A = (A', .ok ())) :
    readUntilImageData cfg t (growTo A L) = (growTo A' L, .ok ()) := by
  rw [readUntilImageData_post] at h ⊢
  generalize hl : rdReadUntilImageData cfg (fuelOf A) A = o at h
  obtain ⟨A1, res⟩ := o
  cases res with
  | error e => simp only [untilPost, Prod.mk.injEq, reduceCtorEq, and_false] at h
  | ok u =>
    cases u
    rw [rdReadUntilImageData_gloop] at hl ⊢
    have hst := gloop_stable cfg hI bodyUntil bodyUntil_ok (fun _ => rfl)
      (fun r ev data x a hc hp => by
        simp only [bodyUntil] at hp
        split at hp
        · rcases hc with ⟨rfl, _⟩ | rfl <;> simp only [reduceCtorEq] at hp
        · simp only [Sum.inl.injEq] at hp; subst hp; simp)
      _ A A1 () hpos trivial hl L (fuelOf (growTo A L)) hv (fuelOf_ge _)
    rw [hst, untilPost_grow, h]

/-- **`read_info` on a longer visible prefix**: if it succeeded, it succeeds in exactly the same way -/
theorem readInfo'_stable (cfg : Cfg) (hI : cfg.InflateOk) (t : TCfg) (a r0 : R) (L : Nat) (hP : PreInv a)
    (hv : a.visible ≤ L) (h : readInfo' cfg t a = (r0, .header)) :
    readInfo' cfg t (growTo a L) = (growTo r0 L, .header) := by
  unfold readInfo' at h
  cases hr : a.isReader with
  | true => rw [hr] at h; simp only [if_true, Prod.mk.injEq, reduceCtorEq, and_false] at h
  | false =>
    rw [hr] at h
    simp only [Bool.false_eq_true, if_false] at h
    have hsp := readHeaderInfo_spec cfg (fuelOf a) a (fuelOf_ge a) hP.base hP.mode
    generalize hl : readHeaderInfo cfg (fuelOf a) a = o at h hsp
    obtain ⟨a1, res⟩ := o
    cases res with
    | error e => simp only at h; simp only [Prod.mk.injEq] at h; rw [h.2] at hsp; cases hsp.1
    | ok u =>
      cases u
      simp only at h
      cases hi : infoOf a1 with
      | none => rw [hi] at h; simp only [Prod.mk.injEq, reduceCtorEq, and_false] at h
      | some i =>
        rw [hi] at h
        simp only at h
        cases hc1 : checkedRawRowLength i.color i.depth i.width with
        | none => rw [hc1] at h; simp only [Prod.mk.injEq, reduceCtorEq, and_false] at h
        | some x1 =>
          rw [hc1] at h
          cases hc2 : checkedRawRowLength (t.outColorDepth i a1.flags).1 (t.outColorDepth i a1.flags).2 i.width with
          | none => rw [hc2] at h; simp only [Prod.mk.injEq, reduceCtorEq, and_false] at h
          | some rl =>
            rw [hc2] at h
            simp only at h
            by_cases hbig : (rl - 1) * i.height ≥ 2 ^ 64
            · rw [if_pos hbig] at h; simp only [Prod.mk.injEq, reduceCtorEq, and_false] at h
            · rw [if_neg hbig] at h
              have hB1 : Base a1 := hsp.1.base
              generalize hru : readUntilImageData cfg t { a1 with isReader := true } = o2 at h
              obtain ⟨a2, res2⟩ := o2
              cases res2 with
              | error e =>
                exfalso
                simp only [Prod.mk.injEq] at h
                have hsp2 := readUntilImageData_spec cfg t { a1 with isReader := true } (hB1.congr rfl rfl rfl)
                  (show OutMode ({ a1 with isReader := true } : R) from hsp.2.1)
                rw [hru, h.2] at hsp2
                cases hsp2.1
              | ok u =>
                cases u
                simp only at h
                cases hi2 : infoOf a2 with
                | none => rw [hi2] at h; simp only [Prod.mk.injEq, reduceCtorEq, and_false] at h
                | some i2 =>
                  rw [hi2] at h
                  simp only at h
                  by_cases hfit : sizeFits (t.outColorDepth i2 a2.flags) i.width i.height = true
                  case neg => rw [if_neg hfit] at h; simp only [Prod.mk.injEq, reduceCtorEq, and_false] at h
                  rw [if_pos hfit] at h
                  simp only [Prod.mk.injEq, and_true] at h
                  -- the same steps with `L` bytes visible
                  have e0 : (growTo a L).isReader = false := hr
                  have e1 := readHeaderInfo_stable cfg hI L _ a a1 hP.base (Or.inl hP.mode) hl hv (fuelOf (growTo a L)) (fuelOf_ge _)
                  have e2 : infoOf (growTo a1 L) = some i := hi
                  have e3 : checkedRawRowLength (t.outColorDepth i (growTo a1 L).flags).1 (t.outColorDepth i (growTo a1 L).flags).2 i.width
                      = some rl := hc2
                  have e4 : readUntilImageData cfg t { growTo a1 L with isReader := true } = (growTo a2 L, .ok ()) :=
                    readUntilImageData_stable cfg hI t { a1 with isReader := true } a2 L
                      (hB1.congr rfl rfl rfl).pos (by show a1.visible ≤ L; rw [hsp.1.frame.fields.2.2.2.2.2.2.2.2.2.1]; exact hv) hru
                  have e5 : infoOf (growTo a2 L) = some i2 := hi2
                  unfold readInfo'
                  rw [e0]
                  simp only [Bool.false_eq_true, if_false]
                  rw [e1]
                  simp only
                  rw [e2]
                  simp only
                  rw [hc1, e3]
                  simp only
                  rw [if_neg hbig, e4]
                  simp only
                  rw [e5]
                  simp only
                  rw [if_pos (show sizeFits (t.outColorDepth i2 (growTo a2 L).flags) i.width i.height = true from hfit), ← h]
                  rfl

/-- the same for `read_info` as the caller sees it -/
theorem readInfo_stable (cfg : Cfg) (hI : cfg.InflateOk) (t : TCfg) (a r0 : R) (L : Nat) (hP : PreInv a)
    (hv : a.visible ≤ L) (h : readInfo cfg t a = (r0, .header)) :
    readInfo cfg t (growTo a L) = (growTo r0 L, .header) := by
  unfold readInfo at h ⊢
  generalize hr : readInfo' cfg t a = o at h
  obtain ⟨r1, x⟩ := o
  cases x with
  | header =>
    simp only [Prod.mk.injEq, and_true] at h
    subst h
    rw [readInfo'_stable cfg hI t a r1 L hP hv hr]
  | _ => simp only [Prod.mk.injEq, reduceCtorEq, and_false] at h

/-- **whole runs from the `Decoder`**: `read_info` succeeded on the visible prefix; the caller then makes
    the calls `ops`, retrying as `resumeRun` does.  If no call of the run `read_info, ops` on the whole
    input fails, the retrying caller's results are the first results of that run, and all of them if the
    schedule delivers everything -/
theorem resumeRun_from_start (cfg : Cfg) (hI : cfg.InflateOk) {t : TCfg} (ht : t.Ok) (hst : t.Stable) (a r0 : R)
    (hP : PreInv a) (hr : a.isReader = false) (hd : a.dead = false) (L : Nat) (hv : a.visible ≤ L)
    (h : step cfg t a .readInfo = (r0, .header)) (ops : List Op) (hc : ∀ op ∈ ops, op.isCall = true) (sched : List Nat)
    (hg : ∀ x ∈ (run cfg t (growTo a L) (.readInfo :: ops)).2, x.isGood = true) :
    ∃ zs, (run cfg t (growTo a L) (.readInfo :: ops)).2 = .header :: (resumeRun cfg t L sched ops r0 ++ zs) ∧
      (L ≤ a.visible + sched.sum → zs = []) := by
  have hstep : ∀ x : R, x.dead = false → step cfg t x .readInfo = readInfo cfg t x := by
    intro x hx
    simp only [step, hx, Bool.false_eq_true, if_false]
  rw [hstep a hd] at h
  have hL := readInfo_stable cfg hI t a r0 L hP hv h
  have hself := readInfo_stable cfg hI t a r0 a.visible hP (Nat.le_refl _) h
  rw [growTo_visible a rfl, h] at hself
  have hvis : r0.visible = a.visible := by
    have := congrArg (fun o => o.1.visible) hself
    exact this
  -- the reader `read_info` built
  have hsp := readInfo'_spec cfg t a hP hr
  have hri : readInfo' cfg t a = (r0, .header) := by
    unfold readInfo at h
    generalize readInfo' cfg t a = o at h
    obtain ⟨r1, x⟩ := o
    cases x with
    | header => exact h
    | _ => simp only [Prod.mk.injEq, reduceCtorEq, and_false] at h
  rw [hri] at hsp
  have hfacts : Inv t r0 ∧ r0.isReader = true ∧ r0.dead = false := by
    rcases hsp with ⟨_, h1, h2, h3, _⟩ | h1
    · exact ⟨h1, h2, h3.trans hd⟩
    · cases h1
  rw [run_cons, hstep (growTo a L) hd, hL] at hg ⊢
  simp only at hg ⊢
  have hJ : JSt cfg t L r0 (growTo r0 L) ops := by
    cases ops with
    | nil => show r0.visible ≤ L; rw [hvis]; exact hv
    | cons op rest => exact Mid.start hfacts.1 hfacts.2.1 hfacts.2.2 ⟨0, rfl, by rw [hvis]; exact hv, Sim.refl _⟩ op
  obtain ⟨zs, z1, z2⟩ := resumeRun_spec cfg hI ht hst L sched ops r0 (growTo r0 L) hJ hc
    (fun x hx => hg x (List.mem_cons_of_mem _ hx))
  exact ⟨zs, by rw [z1], fun hs => z2 (by rw [hvis]; exact hs)⟩

end Png.Reader
